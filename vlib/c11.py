"""C11 — the language server survives every history of edits and queries.

Proof: lean/SamVerif/Props/C11.lean (GC driver `gcStep` over the C17 heap model: no covered root is
ever reclaimed, for every history / queue order / slice / sweep unit).
Tie: the `Heap::verif_log` hook records the real heap-call sequence of every server operation; the
Lean driver replays it through the heap model (stat must agree with the real heap) and checks that
its GC segment *is* `gcStep` with the model's constants announcing every module.
Oracle (implementation side, independent of the model): after every operation every query kind is
issued at every line/column of every module ever mentioned (plus out-of-range positions) under
catch_unwind — this is also the dynamic check of the coverage hypothesis `Cov`.
"""
import json, os, re
from . import common
from .common import hexs

LONG = ["AVeryLongClassNameNumber", "someQuiteLongFieldName", "computeTheValueWithLongName",
        "aLocalVariableWithLongName", "AnInterfaceWithLongName", "TheVariantWithLongName",
        "TypeParameterLongName", "anotherLongishIdentifier", "yetAnotherLongFunctionName"]
MODS = ["A", "B", "C", "Main", "lib.Util", "lib.LongModuleNameForTesting"]


def ident(rng, cap, long_ok=True):
    base = rng.pick(LONG) if (long_ok and rng.chance(3, 4)) else rng.pick(["foo", "bar", "baz", "qux", "val1"])
    base = base + str(rng.below(3))
    return (base[0].upper() if cap else base[0].lower()) + base[1:]


def gen_module(rng, name, others, long_params):
    """A samlang module with long (heap-allocated, >15 bytes) identifiers wherever an identifier may
    occur. `long_params`: also member *parameter* names / annotations (open finding C11-F2)."""
    cls = ident(rng, True)
    fld = ident(rng, False)
    mth = ident(rng, False)
    loc = ident(rng, False)
    tp = "T" if rng.chance(1, 2) else ident(rng, True)
    par = ident(rng, False, long_ok=long_params)
    imports = ""
    used = ""
    if others and rng.chance(2, 3):
        om, ocls = rng.pick(others)
        imports = f"import {{ {ocls} }} from {om}\n"
        used = f"    let _ = {ocls}.init(1);\n" if rng.chance(1, 2) else ""
    comment = rng.pick(["", "// a line comment that is clearly longer than fifteen bytes\n",
                        "/** a doc comment which is also longer than fifteen bytes */\n",
                        "/* short */\n"])
    kind = rng.below(10)
    body = (f"{imports}{comment}class {cls}(val {fld}: int) {{\n"
            f"  method {mth}({par}: int): int = {{\n{used}    let {loc} = this.{fld} + {par};\n    {loc} * 2\n  }}\n"
            f"  function <{tp}> {mth}Generic({par}: {tp}): {tp} = {par}\n"
            f"  function main(): unit = Process.println(Str.fromInt({cls}.init(1).{mth}(2)))\n}}\n")
    if kind == 0:
        variant = ident(rng, True)
        body += (f"class Enum{cls}({variant}(int), Other{variant}(Str)) {{\n"
                 f"  method {mth}(): int = match this {{ {variant}({loc}) -> {loc}, Other{variant}(_) -> 0 }}\n}}\n")
    elif kind == 1:
        iface = ident(rng, True)
        body += f"interface {iface} {{ method {mth}({par}: int): int }}\n"
    elif kind == 2:   # ill-typed: unresolved class / member
        body += f"class Bad{cls} {{ function f(): int = {ident(rng, True)}Missing.{mth}(\"a string literal longer than 15 bytes\") }}\n"
    elif kind == 3:   # unparsable: truncated
        body = body[: rng.range(10, max(11, len(body) - 1))]
    elif kind == 4:
        body += f"class Lam{cls} {{ function f(): int = {{ let g = ({loc}: int) -> {loc} + 1; g(1) }} }}\n"
    elif kind in (5, 6):
        # patterns of every form; with probability 1/2 one constructor / field / binder in a
        # NON-first position is a unique misspelled long name (ill-typed module whose error detail
        # and AST hold a string that occurs nowhere else)
        v1, v2, v3 = ident(rng, True) + "A", ident(rng, True) + "B", ident(rng, True) + "C"
        wrong = lambda v: (("Unique%dSpelledWrongly" % rng.below(10**6)) + v) if rng.chance(1, 2) else v
        f1, f2 = ident(rng, False) + "X", ident(rng, False) + "Y"
        body += (f"class Pt{cls}(val {f1}: int, val {f2}: int) {{}}\n"
                 f"class En{cls}({v1}(int), {v2}(int), {v3}(Pt{cls})) {{\n"
                 f"  method viaOr(): int = match this {{ {v1}({loc}) | {wrong(v2)}({loc}) -> {loc}, {v3}(_) -> 0 }}\n"
                 f"  method viaStruct(): int = match this {{ {v3}({{ {f1}, {wrong(f2)} as {loc} }}) -> {f1} + {loc}, {v1}(_) | {wrong(v2)}(_) -> 1 }}\n"
                 f"  method viaIfLet(): int = if let {wrong(v3)}({{ {f1} as {loc}, {f2} as _ }}) = this {{ {loc} }} else {{ 2 }}\n"
                 f"  function viaTuple(pair: Pair<En{cls}, int>): int = {{ let ({v1}({loc}) | {wrong(v2)}({loc}), n) = pair; {loc} + n }}\n"
                 f"}}\n")
    return body, cls


KEYWORDS = set("""import from class interface val function method as private protected internal public if then
else match let return true false this unit int bool Str Process Vec panic println fromInt toInt concat
init std list map set option result tuples boxed interfaces List Map Set Option Result Pair Triple Int
Some None Ok Error Cons Nil Comparable Hashable length get push pop of empty withCapacity capacity reserve
forEach fold compare hash value""".split())
_SAMPLES = None


def sample_pool():
    """tests/*.sam of the repository (<= 3.5 KB), identifiers lengthened so that they live in the
    heap string table: every syntactic form the repo's own programs use, with long names."""
    global _SAMPLES
    if _SAMPLES is None:
        _SAMPLES = []
        d = os.path.join(common.REPO, "tests")
        for f in sorted(os.listdir(d)):
            if not f.endswith(".sam") or f == "AllTests.sam":
                continue
            text = open(os.path.join(d, f), encoding="utf-8").read()
            if len(text) > 2500:
                continue
            imported = set(re.findall(r"[A-Za-z_][A-Za-z0-9_]*", " ".join(l for l in text.split("\n") if l.startswith("import"))))
            def ren(m):
                w = m.group(0)
                if w in KEYWORDS or w in imported or len(w) == 1:
                    return w
                return w + "WithQuiteALongSuffix"
            # do not touch string literals
            parts = re.split(r'("(?:[^"\\\n]|\\.)*")', text)
            text2 = "".join(p if i % 2 else re.sub(r"[A-Za-z_][A-Za-z0-9_]*", ren, p) for i, p in enumerate(parts))
            _SAMPLES.append(text2)
    return _SAMPLES


def gen_sample_module(rng):
    """A lengthened sample program; with probability 1/2 one identifier occurrence is replaced by a
    unique long unknown name (an ill-typed module whose error detail holds a string nothing else
    holds - the marker must cover it wherever it sits: pattern alternatives, annotations, ...)."""
    text = rng.pick(sample_pool())
    if rng.chance(1, 2):
        occ = [m for m in re.finditer(r"[A-Za-z_][A-Za-z0-9_]*WithQuiteALongSuffix", text)]
        if occ:
            m = rng.pick(occ)
            w = m.group(0)
            uniq = ("Unique" if w[0].isupper() else "unique") + "NameNumber%dSpelledWrongly" % rng.below(10**6)
            text = text[:m.start()] + uniq + text[m.end():]
    return text


def gen_history(rng, nops, long_params):
    lines = ["reset"]
    cur = {}      # module -> (text, exported class)
    for _ in range(nops):
        op = rng.weighted([("up", 10), ("up2", 2), ("rn", 3), ("rm", 2), ("new", 1)])
        others = [(m, c) for m, (_, c) in cur.items()]
        if op in ("up", "up2") or not cur:
            parts = []
            for _ in range(2 if op == "up2" else 1):
                m = rng.pick(MODS)
                if long_params and rng.chance(2, 5) and sample_pool():
                    text, cls = gen_sample_module(rng), "Main"
                else:
                    text, cls = gen_module(rng, m, [(om, oc) for om, oc in others if om != m], long_params)
                cur[m] = (text, cls)
                parts += [m, hexs(text)]
            lines.append("up " + " ".join(parts))
        elif op == "rn":
            a = rng.pick(sorted(cur)); b = rng.pick(MODS)
            if a != b:
                lines.append(f"rn {a} {b}")
                cur[b] = cur.pop(a)
        elif op == "rm":
            a = rng.pick(sorted(cur) + [rng.pick(MODS)])
            lines.append(f"rm {a}")
            cur.pop(a, None)
        elif op == "new":
            lines.append("new " + " ".join(f"{m} {hexs(t)}" for m, (t, _) in sorted(cur.items())))
        lines.append("q Zzz.Absent")
    return lines


def gen_many_modules(rng, n):
    """Slice boundary: n tiny modules (each with its own long identifiers), one start-up, one edit of
    one module, then the query sweep. NUM_MODULE_MARKED_PER_SLICE = 100 is the interesting n."""
    mods = {}
    for i in range(n):
        name = f"m.Mod{i:03d}"
        mods[name] = (f"// module number {i:03d} has a long comment\n"
                      f"class TheClassOfModuleNumber{i:03d}(val theFieldOfModuleNumber{i:03d}: int) {{}}\n")
    lines = ["reset", "new " + " ".join(f"{m} {hexs(t)}" for m, t in sorted(mods.items())), "q"]
    victim = rng.pick(sorted(mods))
    lines.append(f"up {victim} {hexs(mods[victim] + 'class AnotherClassInThatModule {}' + chr(10))}")
    lines.append("q")
    if rng.chance(1, 2):
        lines.append(f"rm {rng.pick(sorted(mods))}")
        lines.append("q")
    return lines


def _xref_lib(ncomments, lib_cls="LibraryClassWithLongName"):
    """A module that declares one of every kind of member another module can refer to, each carrying
    its own doc comment (side tables of the DEFINING module: comment store, member lists)."""
    pad = "".join(f"// padding line comment number {i} of the library module\n" for i in range(ncomments))
    return (pad +
            "/** doc comment of the interface declared in the library */\n"
            "interface ShowableWithLongName { /** doc of the interface method */ method showItWithLongName(): Str }\n"
            "/** doc comment of the library class itself */\n"
            f"class {lib_cls}(\n  /** doc comment of the field */ val fieldWithDocLongName: int\n) : ShowableWithLongName {{\n"
            "  /** doc comment of the static function */\n"
            "  function computeTheAnswerLongName(): int = 42\n"
            "  /** doc comment of the method */\n"
            "  method showItWithLongName(): Str = \"a string literal longer than 15 bytes\"\n"
            "  // a line comment in front of the generic method\n"
            "  method <TypeParamLong> genericMethodLongName(argumentLongName: TypeParamLong): TypeParamLong = argumentLongName\n"
            "  /** doc of the private helper */ private function hiddenHelperLongName(): int = 1\n"
            "}\n"
            "/** doc comment of the library enum */\n"
            "class LibraryEnumWithLongName(/** doc of the first variant */ FirstVariantLongName(int), /* second */ SecondVariantLongName(Str)) {\n"
            "  /** doc of the enum's factory */\n"
            f"  function makeOneLongName(): LibraryEnumWithLongName = LibraryEnumWithLongName.FirstVariantLongName({lib_cls}.computeTheAnswerLongName())\n"
            "}\n")


def _xref_main(ncomments, lib="Lib", lib_cls="LibraryClassWithLongName", missing_member=False):
    """A module that refers to every member of `_xref_lib` across the module boundary, in every
    syntactic position a query can land on, holding `ncomments` comments of its own."""
    c = lambda i: (f"  // comment number {i} of the using module, longer than 15 bytes\n" if i < ncomments else "")
    return (f"import {{ {lib_cls}, LibraryEnumWithLongName, ShowableWithLongName }} from {lib}\n"
            "import { Pair } from std.tuples\nimport { Map } from std.map\nimport { Set } from std.set\n\n"
            f"class MainUserWithLongName(val innerWithLongName: {lib_cls}) : ShowableWithLongName {{\n"
            + c(0) +
            ("" if missing_member else
             "  method showItWithLongName(): Str = this.innerWithLongName.showItWithLongName()\n")
            + c(1) +
            "  function useAllWithLongName(enumValueLongName: LibraryEnumWithLongName): int = {\n"
            f"    let firstLocalLongName = {lib_cls}.computeTheAnswerLongName();\n"
            + c(2) +
            f"    let secondLocalLongName = {lib_cls}.init(firstLocalLongName);\n"
            "    let thirdLocalLongName = secondLocalLongName.fieldWithDocLongName;\n"
            "    let fourthLocalLongName = secondLocalLongName.genericMethodLongName(thirdLocalLongName);\n"
            + c(3) +
            "    let fifthLocalLongName = secondLocalLongName.showItWithLongName();\n"
            "    let sixthLocalLongName = LibraryEnumWithLongName.makeOneLongName();\n"
            "    let { fieldWithDocLongName as seventhLocalLongName } = secondLocalLongName;\n"
            "    let mapLocalLongName = Map.empty<int, int>().remove(1);\n"
            "    let keysLocalLongName = Set.empty<int>().remove(1).keys();\n"
            + c(4) +
            "    match enumValueLongName { FirstVariantLongName(payloadLongName) -> payloadLongName + fourthLocalLongName + seventhLocalLongName, SecondVariantLongName(_) -> 0 }\n"
            "  }\n"
            + "".join(c(i) for i in range(5, ncomments)) +
            "}\n")


def gen_xref_histories():
    """Deterministic (seed-independent) cross-module family: a using module that refers to every kind
    of documented member of a library module (and of std.map / std.set, whose members carry doc
    comments), while the two modules hold different numbers of comments — a reference into a
    per-module side table (comment store, member table) that a query resolves in the wrong module
    is out of range only for some relations between the two sizes, and those depend on the edit
    history. After every step the full query sweep runs."""
    out = []
    for lib_c, main_c in [(0, 0), (0, 3), (4, 0), (4, 9), (1, 1)]:
        lib, main = _xref_lib(lib_c), _xref_main(main_c)
        lines = ["reset", f"new Lib {hexs(lib)} Main {hexs(main)}", "q",
                 f"up Main {hexs(_xref_main(0))}", "q",                       # the user deletes every comment of the using module
                 f"up Lib {hexs(_xref_lib(lib_c + 6))}", "q",                 # the library grows comments: indexes shift
                 f"up Main {hexs(_xref_main(12))}", "q",
                 f"up Lib {hexs(_xref_lib(0))} Main {hexs(_xref_main(0))}", "q",
                 "rn Lib lib.Util", "q",                                      # the using module now imports an absent module
                 f"up Main {hexs(_xref_main(1, lib='lib.Util'))}", "q",
                 "rm lib.Util", "q",
                 f"up lib.Util {hexs(_xref_lib(2, lib_cls='RenamedLibraryClassLongName'))}", "q"]   # member owner renamed under the user
        out.append((lines, f"xref lib_comments={lib_c} main_comments={main_c}"))
    return out


# ----------------------------------------------------------------------------------------------
# the real language server process (crates/samlang-cli/src/main.rs — linked into no harness):
# `samlang-cli lsp` over stdio, via builder-C10's JSON-RPC client (vlib/c10.py, used read-only)

WEIRD_URIS = ["file:///scratch/c11-not-in-the-project/Elsewhere.sam", "file:///x", "file:///", "file://",
              "untitled:Untitled-1", "file:///scratch/c11-not-in-the-project/notes.txt", "https://example.com/a.sam",
              "file:///tmp/%E6%97%A5%E6%9C%AC.sam"]
REQUESTS = ["hover", "definition", "references", "signatureHelp", "completion", "codeAction", "rename",
            "formatting", "foldingRange"]


def _lsp_positions(text, cap):
    ps, lines = [], text.split("\n")
    for l, line in enumerate(lines):
        prev = " "
        for c, ch in enumerate(line):
            if (ch.isalnum() or ch == "_") != (prev.isalnum() or prev == "_"):
                ps.append((l, c))
            prev = ch
        ps.append((l, len(line)))
    ps = ps[:: max(1, len(ps) // cap)] if len(ps) > cap else ps
    return ps + [(len(lines) + 3, 0), (0, 100000), (4294967295, 4294967295)]


def _lsp_request(lsp, kind, uri, pos):
    td = {"textDocument": {"uri": uri}}
    p = {"line": pos[0], "character": pos[1]}
    if kind in ("hover", "definition", "signatureHelp", "completion"):
        params = dict(td, position=p)
    elif kind == "references":
        params = dict(td, position=p, context={"includeDeclaration": True})
    elif kind == "codeAction":
        params = dict(td, range={"start": p, "end": p}, context={"diagnostics": []})
    elif kind == "rename":
        params = dict(td, position=p, newName="renamedVariableWithLongName")
    elif kind == "formatting":
        params = dict(td, options={"tabSize": 2, "insertSpaces": True})
    else:
        params = td
    lsp.send("textDocument/" + kind, params, request=True)
    want = lsp.nid
    while True:
        m = lsp.read(60)
        if m is None:
            return None
        if m.get("id") == want and "method" not in m:
            return m


def lsp_leg(ctx, nhist, nops, cap):
    """Histories of notifications (change / create / rename / delete, also for documents that are not
    modules of the project and for odd URIs) against the real server process; after every
    notification every request kind at token-boundary and out-of-range positions of every document.
    Every request must be answered (result, null or a JSON-RPC error) and the process must stay
    alive. Returns stats; records a violation with the notification history + the fatal request."""
    import shutil, tempfile
    from . import c10
    stats = {"histories": 0, "notifications": 0, "requests": 0, "error_responses": 0}
    try:
        binary = c10.build_cli()
    except common.BuildError as e:
        ctx.violation("samlang-cli (language server binary) no longer builds: " + e.what,
                      {"broken": "cargo build -p samlang-cli", "log": e.log[-3000:]}, no_input=True)
        return stats
    os.makedirs("/scratch/c11-not-in-the-project", exist_ok=True)
    open("/scratch/c11-not-in-the-project/Elsewhere.sam", "w").write("class X {}")
    rng = ctx.rng.fork()
    for hi in range(nhist):
        if ctx.violations:
            break
        r = rng.fork()
        root = tempfile.mkdtemp(prefix="c11-lsp-", dir=common.SCRATCH_ROOT)
        trace = []
        lsp = None
        try:
            os.makedirs(os.path.join(root, "src"))
            open(os.path.join(root, "sconfig.json"), "w").write('{"sourceDirectory": "src"}')
            lsp = c10.Lsp(binary, os.path.realpath(root))
            files = {"Lib": _xref_lib(r.below(3)), "Main": _xref_main(r.below(4))}
            if hi % 2 == 1:
                t, cls = gen_module(r, "A", [], True)
                files["A"] = t
                files["lib.Util"] = gen_module(r, "lib.Util", [("A", cls)], True)[0]
            for m, t in files.items():
                os.makedirs(os.path.dirname(lsp.path(m)), exist_ok=True)
                open(lsp.path(m), "w").write(t)
            trace.append({"init": dict(files)})
            alive = lsp.start() is not None

            def sweep(after):
                docs = [(lsp.uri(m), t) for m, t in sorted(files.items())] + [(u, "") for u in WEIRD_URIS[:3 + hi % 6]] \
                    + [(lsp.uri("Zzz.Absent"), "")]
                for uri, text in docs:
                    for pos in _lsp_positions(text, cap):
                        for kind in REQUESTS:
                            if kind in ("formatting", "foldingRange") and pos != (0, 100000):
                                continue
                            stats["requests"] += 1
                            ans = _lsp_request(lsp, kind, uri, pos)
                            if ans is None:
                                return {"after": after, "request": kind, "uri": uri, "position": list(pos),
                                        "exit_code": lsp.p.poll()}
                            if "error" in ans:
                                stats["error_responses"] += 1
                return None

            fatal = None if alive else {"after": "initialize/initialized", "request": None, "exit_code": lsp.p.poll()}
            if fatal is None:
                fatal = sweep("start")
            for _ in range(nops):
                if fatal:
                    break
                op = r.weighted([("chg", 6), ("cre", 2), ("ren", 2), ("del", 2), ("chgweird", 1), ("delweird", 1), ("renweird", 1)])
                names = sorted(files)
                if op == "chg":
                    m = r.pick(names + ["Main", "Fresh" + str(r.below(3))])
                    t = r.pick([_xref_main(r.below(12)), _xref_lib(r.below(6)), gen_module(r, m, [], True)[0],
                                files.get(m, "class X {}")[: r.range(0, 60)], "", "class"])
                    files[m] = t
                    note = ("textDocument/didChange", {"textDocument": {"uri": lsp.uri(m), "version": 1}, "contentChanges": [{"text": t}]})
                elif op == "cre":
                    m = r.pick(["New" + str(r.below(3)), "deep.er.Mod", "Lib"])
                    t = gen_module(r, m, [], True)[0]
                    os.makedirs(os.path.dirname(lsp.path(m)), exist_ok=True)
                    open(lsp.path(m), "w").write(t)
                    files[m] = t
                    note = ("workspace/didCreateFiles", {"files": [{"uri": lsp.uri(m)}, {"uri": lsp.uri("Ghost.NotOnDisk")}]})
                elif op == "ren" and names:
                    a = r.pick(names); b = r.pick(["Lib", "lib.Util", "Moved" + str(r.below(3)), a])
                    if os.path.exists(lsp.path(a)) and a != b:
                        os.makedirs(os.path.dirname(lsp.path(b)), exist_ok=True)
                        os.replace(lsp.path(a), lsp.path(b))
                    files[b] = files.pop(a)
                    note = ("workspace/didRenameFiles", {"files": [{"oldUri": lsp.uri(a), "newUri": lsp.uri(b)}]})
                elif op == "del" and names:
                    a = r.pick(names + ["Never.Existed"])
                    if os.path.exists(lsp.path(a)):
                        os.remove(lsp.path(a))
                    files.pop(a, None)
                    note = ("workspace/didDeleteFiles", {"files": [{"uri": lsp.uri(a)}]})
                elif op == "chgweird":
                    note = ("textDocument/didChange", {"textDocument": {"uri": r.pick(WEIRD_URIS), "version": 1}, "contentChanges": [{"text": "class W {}"}]})
                elif op == "delweird":
                    note = ("workspace/didDeleteFiles", {"files": [{"uri": r.pick(WEIRD_URIS)}, {"uri": "not a uri"}]})
                elif op == "renweird" and names:
                    a = r.pick(names)
                    note = ("workspace/didRenameFiles", {"files": [{"oldUri": r.pick(WEIRD_URIS), "newUri": lsp.uri("FromOutside")},
                                                                    {"oldUri": lsp.uri(a), "newUri": r.pick(WEIRD_URIS)}]})
                else:
                    continue
                trace.append({"notify": note[0], "params": note[1]})
                stats["notifications"] += 1
                lsp.send(note[0], note[1])
                if lsp.settle() is None:
                    fatal = {"after": note[0], "request": None, "exit_code": lsp.p.poll()}
                    break
                fatal = sweep(note[0])
            stats["histories"] += 1
            if fatal:
                ctx.violation("the language server process (samlang-cli lsp) died or stopped answering: after " + str(fatal.get("after")) +
                              (f", request {fatal['request']} at {fatal.get('uri')} {fatal.get('position')}" if fatal.get("request") else "") +
                              f" (exit code {fatal.get('exit_code')})",
                              {"protocol": "lsp-stdio", "history": trace, "fatal": fatal})
        finally:
            if lsp is not None:
                lsp.close()
            shutil.rmtree(root, ignore_errors=True)
    return stats


_ST_LIB = ("interface ExporterWithLongName { method exportToJsonDocument(): Str  method anotherLongMethodName(): int }\n"
           "class HelperClassWithLongName(val fieldWithLongNameX: int) {\n"
           "  function makeOneLongName(): HelperClassWithLongName = HelperClassWithLongName.init(1)\n}\n")
_ST_LIB2 = _ST_LIB.replace("exportToJsonDocument", "exportToYamlDocumentNow").replace("makeOneLongName", "makeTwoLongNames")


def _st_main(lib="Lib"):
    # implements the library's interface WITHOUT its members: the stored error's detail names strings
    # (the missing member names) that occur in no other module
    return (f"import {{ ExporterWithLongName, HelperClassWithLongName }} from {lib}\n"
            "class MainImplWithLongName(val h: HelperClassWithLongName) : ExporterWithLongName {\n"
            "  function run(): int = HelperClassWithLongName.makeOneLongName().fieldWithLongNameX\n}\n")


def _st_third(lib="Lib"):
    return (f"import {{ HelperClassWithLongName }} from {lib}\n"
            "class ThirdUserWithLongName { function f(): int = HelperClassWithLongName.makeOneLongName().fieldWithLongNameX }\n")


def gen_stale_histories(quick):
    """Deterministic (seed-independent) family for state that one operation leaves behind for the
    NEXT one (dependency graph, signatures, stored errors): every ordered pair of state-changing
    operations on an importer / the imported module (rename, remove, edit), the importer holding a
    stored error whose detail names strings that live only in the imported module; afterwards three
    edits of an unrelated module (each a recheck + GC round), the full query sweep (which renders
    every stored error) after every step."""
    ops = {"rnM": "rn Main MainMoved", "rnL": "rn Lib LibMoved", "rmL": "rm Lib", "rmM": "rm Main",
           "upL": f"up Lib {hexs(_ST_LIB2)}", "upM": f"up Main {hexs(_st_main() + '// edited with a long comment here' + chr(10))}",
           "rnLM": "rn Lib Main", "rnMM": "rn Main Main"}
    first = ["rnM", "rnL", "rnMM"] if quick else list(ops)
    out = []
    for a in first:
        for b in ops:
            if a == b and a != "upL":
                continue
            for third in ([False] if quick else [False, True]):
                files = f"Lib {hexs(_ST_LIB)} Main {hexs(_st_main())}" + (f" Third {hexs(_st_third())}" if third else "")
                lines = ["reset", "new " + files, "q", ops[a], "q", ops[b], "q"]
                for k in range(3):
                    lines += [f"up Zed {hexs('class ZedUnrelatedModuleNumber%d {}' % k + chr(10))}", "q"]
                out.append((lines, f"stale {a}->{b}{' +Third' if third else ''}"))
    # module names (file / directory parts) that are ALREADY in the heap as identifiers, comments or
    # literals when the module reference is first created (a class moved into a file named after it):
    # the module-reference path promotes an interned temporary string to a permanent one
    tiny = "class TinyModuleBodyWithLongName {}" + chr(10)
    lines = ["reset", f"new Lib {hexs(_ST_LIB)} Main {hexs(_st_main())}", "q",
             f"up HelperClassWithLongName {hexs(tiny)}", "q",                  # new file named after an existing class
             "rn Main exportToJsonDocument", "q",                             # renamed to the name of an interface member
             f"up pkg.fieldWithLongNameX.MainImplWithLongName {hexs(tiny)}", "q",   # directory part = field name, leaf = class name
             f"up Lib {hexs(_ST_LIB2)}", "q", f"up Zed {hexs(tiny)}", "q", f"up Zed {hexs(tiny + tiny.replace('Tiny', 'Other'))}", "q",
             "rm HelperClassWithLongName", "q", f"up HelperClassWithLongName {hexs(_ST_LIB)}", "q"]
    out.append((lines, "module named after an identifier already in the heap"))
    return out


def model_lines(lines, impl):
    out = []
    for l, a in zip(lines, impl):
        t = l.split(" ")[0]
        if t in ("up", "rn", "rm", "new", "reset") and a.startswith("ok "):
            out.append(("reset\n" if t in ("new", "reset") else "") + "op " + a[3:])
        elif t == "reset":
            out.append("reset")
        else:
            out.append(None)
    return out


def classify_panic(ctx, line_ops, k, ans, long_params):
    """Match a query/op panic against the open findings. Returns finding or None."""
    for f in ctx.open_findings:
        sig = f.get("sig", {})
        if not re.search(sig.get("answer_regex", "^$"), ans):
            continue
        need = sig.get("needs")
        if need == "fresh-state":
            # the state queried was created by `new` and not modified since
            prev = [x for x in line_ops[:k] if not x.startswith("q")]
            if prev and prev[-1].startswith("new "):
                return f
        elif need == "long-member-parameter":
            if long_params:
                return f
        else:
            return f
    return None


def check_history(ctx, lines, long_params, label, stats):
    impl_rc, impl, err = common.run_exec(common.harness_bin("C11"), [], lines, timeout=1800)
    if len(impl) < len(lines):
        impl += [f"<harness died: {err[-200:]}>"] * (len(lines) - len(impl))
    ml = model_lines(lines, impl)
    flat = "\n".join(x for x in ml if x is not None).split("\n") if any(ml) else []
    _, model, merr = common.run_exec(common.driver_bin("C11"), [], flat, timeout=1800) if flat else (0, [], "")
    # re-align model answers with op lines
    mi = 0
    problems = []     # (index, kind, text)
    for k, (l, a) in enumerate(zip(lines, impl)):
        t = l.split(" ")[0]
        if ml[k] is not None:
            n = ml[k].count("\n") + 1
            ans = model[mi + n - 1] if mi + n - 1 < len(model) else "<driver missing>"
            mi += n
            if True:
                m = re.match(r"ok stat=(\S+) mods=", a)
                mm = re.match(r"stat=(\S+) gc=(\S+)(?: cov=(\S+) reach=(\d+))?", ans)
                stats["ops"] += 1
                if not m or not mm:
                    problems.append((k, "tie", f"unparsable answers impl={a[:80]} model={ans[:80]}"))
                else:
                    if m.group(1) != mm.group(1):
                        problems.append((k, "tie", f"heap stat differs: real {m.group(1)} vs model {mm.group(1)}"))
                    if mm.group(2) not in ("ok", "none"):
                        problems.append((k, "tie", f"GC call sequence is not the modelled gcStep: {mm.group(2)}"))
                    if mm.group(3) and mm.group(3) != "ok":
                        problems.append((k, "cov", f"a string the server state holds is not covered by the GC marker (hypothesis Cov of gc_safe fails on this real state): {mm.group(3)}"))
                    if mm.group(4):
                        stats["reach"] = stats.get("reach", 0) + int(mm.group(4))
                    if "W10000" in a:
                        stats["sweeps"] += 1
        if a.startswith("panic"):
            problems.append((k, "panic", a))
        elif t == "q":
            m = re.match(r"ok n=(\d+)", a)
            stats["queries"] += int(m.group(1)) if m else 0
    return impl, problems


def run(ctx):
    # translator: exhaustive string walker regenerated from the current AST / type definitions
    rc, out = common.sh(["python3", os.path.join(common.VERIF, "extract", "c11_walker.py")])
    if rc != 0:
        ctx.violation("translator extract/c11_walker.py can no longer read the AST/type definitions: " + out.strip()[-300:],
                      {"broken": "extract/c11_walker.py", "log": out[-3000:]}, no_input=True)
    res = common.proof_gate(ctx)
    rng = ctx.rng
    nh = ctx.scale(48, 1200)
    nops = ctx.scale(7, 14)
    stats = {"ops": 0, "queries": 0, "sweeps": 0}
    samples, nontrivial, seen = [], 0, set()
    findings_hit = {}

    searching = [False]

    def handle(lines, long_params, label, pre=None):
        nonlocal nontrivial
        if pre is not None:
            impl, problems, st = pre
            for k2 in stats:
                stats[k2] += st[k2]
        else:
            impl, problems = check_history(ctx, lines, long_params, label, stats)
        unexplained = []
        for k, kind, text in problems:
            f = classify_panic(ctx, lines, k, text, long_params) if kind == "panic" else None
            if f:
                findings_hit[f["id"]] = f
                ctx.known(f)
            else:
                unexplained.append((k, kind, text))
        if unexplained:
            # a server abort is the property-level failure: prefer it over a broken tie
            unexplained.sort(key=lambda x: (x[1] != "panic", x[0]))
            k, kind, text = unexplained[0]
            if kind == "tie" and not searching[0]:
                # tie broken: before reporting it, search this and further histories for a
                # concrete failing input (a request that aborts the server)
                searching[0] = True
                r2 = common.Rng(ctx.seed * 7919 + 13)
                for j in range(ctx.scale(60, 400)):
                    if ctx.violations:
                        break
                    handle(gen_history(r2.fork(), r2.range(4, nops + 4), True), True, f"search after broken tie #{j}")
                searching[0] = False
                if ctx.violations:
                    return False
            elif kind == "tie" and searching[0]:
                return False
            # shrink: drop ops while the same kind of problem remains unexplained
            def fails(cand):
                c = ["reset"] + [x for x in cand if x != "reset"]
                _, pr = check_history(ctx, c, long_params, label, {"ops": 0, "queries": 0, "sweeps": 0})
                return any(kd == kind and not (kd == "panic" and classify_panic(ctx, c, kk, tx, long_params)) for kk, kd, tx in pr)
            small = ["reset"] + [x for x in common.ddmin(lines, fails, max_tests=120) if x != "reset"]
            i2, p2 = check_history(ctx, small, long_params, label, {"ops": 0, "queries": 0, "sweeps": 0})
            payload = {"label": label, "ops": small, "impl": [a[:300] for a in i2],
                       "problems": [f"op#{kk} [{kd}] {tx[:300]}" for kk, kd, tx in p2]}
            panics = [p for p in p2 if p[1] == "panic"]
            if panics:
                ctx.violation("language server aborted: " + panics[0][2][:200], payload)
            else:
                payload["broken"] = "correspondence between the real GC call log and Model/Gc.lean::gcStep / Model/Heap.lean (theorems gc_safe, gcStep_safe no longer speak about this code)"
                # search: a longer, query-dense run of the same history family already ran (q after every op) -> none found
                ctx.violation("real heap-call log deviates from the GC model: " + p2[0][2] if p2 else text, payload, no_input=True)
            return False
        key = hash(tuple(lines))
        if key not in seen:
            seen.add(key)
            if any("W10000" in a and "P" in a for a in impl):
                nontrivial += 1
                if len(samples) < 2:
                    samples.append({"ops": [l[:120] for l in lines[:8]], "answers": [a[:160] for a in impl[:8]]})
        return True

    # corpus / dedicated probes for open findings first
    cdir = os.path.join(common.VERIF, "corpus", "C11")
    for f in sorted(os.listdir(cdir)) if os.path.isdir(cdir) else []:
        lines = [l.rstrip("\n") for l in open(os.path.join(cdir, f)) if l.strip()]
        handle(lines, "longparam" in f, f"corpus/{f}")
    done = 0
    # histories are generated up front (deterministic in the seed) and executed 8 at a time
    from concurrent.futures import ThreadPoolExecutor
    jobs = []
    for j in range(nh):
        r = rng.fork()
        jobs.append((gen_history(r, r.range(3, nops), True), True, f"generated seed={ctx.seed} #{j}"))
    for n in ([93, 94] if ctx.quick else [1, 92, 93, 94, 95, 100, 101, 150, 201]):  # + 7 std modules: totals 100, 101 are the slice boundary
        jobs.append((gen_many_modules(rng.fork(), n), True, f"many-modules n={n}"))
    for xl, xlabel in gen_xref_histories() + gen_stale_histories(ctx.quick):
        jobs.append((xl, True, xlabel))

    def work(job):
        st = {"ops": 0, "queries": 0, "sweeps": 0}
        impl, problems = check_history(ctx, job[0], job[1], job[2], st)
        return impl, problems, st
    with ThreadPoolExecutor(max_workers=8) as ex:
        for job, pre in zip(jobs, ex.map(work, jobs)):
            if ctx.violations:
                break
            handle(job[0], job[1], job[2], pre)
            done += 1
    lsp_stats = lsp_leg(ctx, ctx.scale(4, 40), ctx.scale(5, 10), ctx.scale(12, 40)) if not ctx.violations else {}
    ctx.cov.update({
        "lsp_process_leg": lsp_stats,
        "evaluations": done, "distinct_nontrivial": nontrivial,
        "rule": "random histories of update(1-2 modules)/rename/remove/new over 6 module names with long (>15 byte, heap-allocated) identifiers in every identifier position, comments and string literals; valid / ill-typed / truncated contents importing each other; after EVERY operation all 10 query kinds (hover, definition, references, signature help, completion, code actions, rename x2, formatting, folding, error rendering) at every line/column of every module ever mentioned + out-of-range positions + an absent module. non-trivial = distinct history in which a real GC round marked modules and swept",
        "samples": samples, "traces_validated_against_impl": stats["ops"],
        "server_ops": stats["ops"], "queries_issued": stats["queries"], "gc_rounds_with_sweep": stats["sweeps"],
        "open_findings_hit": sorted(findings_hit)})
    ctx.assumptions += ["Cov (marker coverage of every string the server state holds) is a hypothesis of gc_safe; it is checked dynamically by the query sweep, not proved",
                        "query implementations are not modelled; only their totality is observed"]
    return ctx.finish(res, trusted=common.TRUSTED_COMMON + [
        "hook samlang-heap Heap::verif_log (records API calls; cfg(samlang_verif) only)",
        "hand-written model Model/Gc.lean of perform_gc_after_recheck_internal; mark_module abstracted to the handle list it marks (taken from the real call log)"])


def replay(ctx, path):
    common.build_harness("C11"); common.build_lean(["drv-c11"])
    data = json.load(open(path))
    ops = data["replay"].get("ops")
    if not ops:
        print(json.dumps(data, indent=1)[:3000]); return 1
    impl, problems = check_history(ctx, ops, True, "replay", {"ops": 0, "queries": 0, "sweeps": 0})
    for l, a in zip(ops, impl):
        print(l[:100], "=>", a[:200])
    for k, kind, text in problems:
        print(f"PROBLEM op#{k} [{kind}] {text[:300]}")
    return 1 if problems else 0
