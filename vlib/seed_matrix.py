#!/usr/bin/env python3
"""Run every seeded fault against the check of its property (and optionally extra checks) and record
the outcome in seeded/<id>/meta.json ("detected_by"). Usage: vlib/seed_matrix.py [seed ids...]
Each trial holds the exclusive /repo lock (vlib/try_seed.sh)."""
import json, os, re, subprocess, sys, time
V = os.path.dirname(os.path.dirname(os.path.abspath(__file__)))
EXTRA = {"C06h": ["C07"], "C10h": ["C11"], "C11h": ["C17"], "C17h": ["C11"], "C16": ["C11"], "C12": ["C07"], "C01": ["C03"], "C03": ["C06"], "C06e": ["C07"], "C11g": ["C17"], "C07g": ["C06"], "C13g": ["C15", "C06"], "C01g": ["C05", "C03"], "C10g": ["C11"], "C03g": ["C01"], "C06g": ["C13", "C03"], "C13f": ["C14", "C08"], "C14f": ["C15"], "C06f": ["C13"], "C09f": ["C08"], "C10f": ["C11"], "C11f": ["C10"], "C01f": ["C04"], "C04f": ["C01"], "C17f": ["C12"], "C07f": ["C06"], "C15e": ["C14"], "C16e": ["C14"], "C07e": ["C06"], "C10e": ["C11"], "C05e": ["C17"], "C16d": ["C11"]}   # cross-property trials
ids = sys.argv[1:] or sorted(os.listdir(os.path.join(V, "seeded")))
claimed = {c["property_id"] for c in json.load(open(os.path.join(V, "MANIFEST.json")))["checks"]}
for sid in ids:
    mp = os.path.join(V, "seeded", sid, "meta.json")
    meta = json.load(open(mp))
    res = {}
    for prop in [meta["property"]] + EXTRA.get(sid, []):
        if prop not in claimed:
            res[prop] = "check not built"
            continue
        t = time.time()
        p = subprocess.run([os.path.join(V, "vlib", "try_seed.sh"), sid, prop], stdout=subprocess.PIPE, stderr=subprocess.STDOUT)
        out = p.stdout.decode("utf-8", "replace")
        viol = [l for l in out.split("\n") if l.startswith("VIOLATION")]
        why = [l[2:] for l in out.split("\n") if l.startswith("# ")]
        if "PATCH-DOES-NOT-APPLY" in out:
            res[prop] = "patch no longer applies to the current tree (the code it touches was rewritten by a later fix: commit)"
        elif viol:
            kind = "no-failing-input-found" if all("no-failing-input-found" in v for v in viol) else "concrete input"
            res[prop] = {"caught": True, "kind": kind, "what": (why[0] if why else "")[:300], "wall_s": round(time.time() - t)}
        else:
            res[prop] = {"caught": False, "wall_s": round(time.time() - t)}
        print(sid, prop, res[prop], flush=True)
    old = meta.get("detected_by") or {}
    for prop, r in list(res.items()):
        if isinstance(r, str) and r.startswith("patch no longer applies") and isinstance(old.get(prop), dict):
            res[prop] = old[prop]          # keep the result recorded on the last tree the patch applied to
    meta["detected_by"] = res
    meta["matrix_run_at_repo"] = subprocess.run(["git", "-C", "/repo", "log", "--format=%h", "-1"], stdout=subprocess.PIPE).stdout.decode().strip()
    json.dump(meta, open(mp, "w"), indent=1)
