/-!
# C01 kernel K6 — the string-constant data segment as WAT text

`crates/samlang-ast/src/wasm.rs`: `print_byte_vec` (l.388-398) renders the bytes of the shared
string data segment into the WAT string literal of `(data $d2 "…")`: an ASCII letter or digit as
itself, every other byte as `\hh` (`byte_digit_to_char`, lower-case hex). `assemble` is what the WAT
assembler makes of such a literal: `\hh` is one byte, any other character contributes its UTF-8
encoding. The `(offset, length)` pairs of the constants (`GlobalGcString`) index the *assembled*
bytes, so the printer must be byte-exact: one source byte ↔ one segment byte. Core Lean only.
-/
namespace SamVerif.DataSeg

/-- `byte_digit_to_char` -/
def hexDigit (n : Nat) : Char := if n < 10 then Char.ofNat (48 + n) else Char.ofNat (97 + n - 10)

/-- `u8::is_ascii_alphanumeric` -/
def isAsciiAlnum (b : Nat) : Bool := (48 ≤ b && b ≤ 57) || (65 ≤ b && b ≤ 90) || (97 ≤ b && b ≤ 122)

def printByte (b : Nat) : List Char :=
  if isAsciiAlnum b then [Char.ofNat b] else ['\\', hexDigit (b / 16), hexDigit (b % 16)]

/-- `print_byte_vec` -/
def printBytes (bs : List Nat) : List Char := bs.flatMap printByte

def hexVal (c : Char) : Option Nat :=
  if '0' ≤ c ∧ c ≤ '9' then some (c.toNat - 48)
  else if 'a' ≤ c ∧ c ≤ 'f' then some (c.toNat - 87)
  else if 'A' ≤ c ∧ c ≤ 'F' then some (c.toNat - 55)
  else none

/-- UTF-8 encoding of a character. -/
def utf8 (c : Char) : List Nat :=
  let n := c.toNat
  if n < 0x80 then [n]
  else if n < 0x800 then [0xC0 + n / 64, 0x80 + n % 64]
  else if n < 0x10000 then [0xE0 + n / 4096, 0x80 + (n / 64) % 64, 0x80 + n % 64]
  else [0xF0 + n / 262144, 0x80 + (n / 4096) % 64, 0x80 + (n / 64) % 64, 0x80 + n % 64]

/-- The bytes a WAT string literal assembles to (`\hh` escapes and plain characters; the other WAT
escapes are never printed: `none`). -/
def assemble : List Char → Option (List Nat)
  | [] => some []
  | '\\' :: a :: b :: rest =>
    match hexVal a, hexVal b, assemble rest with
    | some h, some l, some r => some ((16 * h + l) :: r)
    | _, _, _ => none
  | c :: rest =>
    if c = '\\' then none else (assemble rest).map (utf8 c ++ ·)

end SamVerif.DataSeg
