/-
Entry-point selection and the roots of generics specialisation.

* `compile_sources_with_generics_preserved` (samlang-compiler/src/hir_lowering.rs:1306-1322): a module
  contributes the entry point `Main.main` iff it has a class named `Main` with a member named `main`
  that is a static function (`!decl.is_method`, since fix 569099e), has no parameters and no type
  parameters → `isEntryMember`, `isEntryClass`, `moduleHasEntry`.
* Entry points are the roots of `perform_generics_specialization`; a root is rewritten with an EMPTY
  type-replacement map, and `rewrite_id_type` (mir_generics_specialization.rs:565) does
  `generics_replacement_map.get(..).unwrap()` on every generic type it meets → `substOpt` returns
  `none` where Rust panics.
Types are abstracted to what matters here: generic variables and nominal/function structure.
-/
namespace SamVerif.EntryPoint

/-- declaration facts the selection reads -/
structure Member where
  isMainName : Bool      -- `decl.name.name == PStr::MAIN_FN`
  isMethod : Bool
  nParams : Nat
  tparams : List Nat     -- the member's own type parameters
  deriving DecidableEq, Repr

structure Class where
  isMainType : Bool      -- `c.name.name == PStr::MAIN_TYPE`
  tparams : List Nat     -- class type parameters
  members : List Member
  deriving Repr

def isEntryMember (m : Member) : Bool :=
  m.isMainName && !m.isMethod && m.nParams == 0 && m.tparams.isEmpty

def isEntryClass (c : Class) : Bool := c.isMainType && c.members.any isEntryMember

def moduleHasEntry (classes : List Class) : Bool := classes.any isEntryClass

/-- type variables in scope inside a member: its own, plus the class's for a method
(`type_lowering_manager.generic_types`) -/
def scope (c : Class) (m : Member) : List Nat := if m.isMethod then c.tparams ++ m.tparams else m.tparams

inductive Ty where
  | prim
  | generic (v : Nat)
  | nominal (args : List Ty)
  | fn (args : List Ty) (ret : Ty)

mutual
def freeVars : Ty → List Nat
  | .prim => []
  | .generic v => [v]
  | .nominal args => freeVarsL args
  | .fn args ret => freeVarsL args ++ freeVars ret
def freeVarsL : List Ty → List Nat
  | [] => []
  | t :: ts => freeVars t ++ freeVarsL ts
end

mutual
/-- `rewrite_type` with a replacement map; `none` = the `unwrap()` on a missing replacement panics -/
def substOpt (m : List (Nat × Ty)) : Ty → Option Ty
  | .prim => some .prim
  | .generic v => (m.find? (·.1 == v)).map (·.2)
  | .nominal args => (substOptL m args).map .nominal
  | .fn args ret =>
    match substOptL m args, substOpt m ret with
    | some a, some r => some (.fn a r)
    | _, _ => none
def substOptL (m : List (Nat × Ty)) : List Ty → Option (List Ty)
  | [] => some []
  | t :: ts =>
    match substOpt m t, substOptL m ts with
    | some a, some r => some (a :: r)
    | _, _ => none
end

end SamVerif.EntryPoint
