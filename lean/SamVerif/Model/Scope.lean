/-!
# Model of lexical scope resolution (shared by C13 and C15)

Mirrors `crates/samlang-checker/src/ssa_analysis.rs` function by function, in two stages:

1. `visit… : syntax → List (Ev α)` — the *traversal*: which scopes are pushed/popped, which names
   are defined/used and in which order (`visit_module`, `visit_member_declaration`,
   `visit_expression`, `visit_block`, `visit_matching_pattern`, `visit_annot`, …).
2. `run : List (Ev α) → St α → St α` — the *scope machine*: `SsaLocalStackedContext::{get, insert,
   push_scope, pop_scope}` and `define_id`/`use_id`.

`analyze this m = run (visitModule this m) init` is what `perform_ssa_analysis_on_module` computes.
Names are an arbitrary type `α` with decidable equality (the driver uses `String`); locations are
natural numbers (the harness numbers the distinct `Location`s of a module).
Core Lean only (this file is linked into the native drivers `drv-c13`/`drv-c15`).
-/
namespace SamVerif.Scope

/-! ## Stage 2: the scope machine -/

/-- What `pop_scope`'s caller does with the popped maps. -/
inductive PopKind where
  | discard   -- result ignored (`visit_module`, if-let guard scope, outer member scope)
  | scoped    -- `local_scoped_def_locs.insert(loc, local_defs)` (member, match case, block)
  | lambda    -- additionally `lambda_captures.insert(loc, captured)`
  deriving DecidableEq, Repr

inductive Ev (α : Type) where
  | push
  | pop (k : PopKind) (loc : Nat)
  | define (n : α) (loc : Nat)
  | use (n : α) (loc : Nat) (forType : Bool)
  deriving DecidableEq, Repr

/-- A `HashMap<PStr, Location>`: association list without duplicate keys (see `insertKV`). -/
abbrev Scope (α : Type) := List (α × Nat)

inductive Err (α : Type) where
  | alreadyBound (loc : Nat) (n : α) (previous : Nat)   -- `report_name_already_bound_error`
  | cannotResolve (loc : Nat) (n : α)                   -- `report_cannot_resolve_name_error`
  deriving DecidableEq, Repr

/-- `HashMap::insert`: overwrite. -/
def insertKV {κ ν : Type} [DecidableEq κ] (k : κ) (v : ν) (m : List (κ × ν)) : List (κ × ν) :=
  (k, v) :: m.filter (fun e => e.1 ≠ k)

def lookupKV {κ ν : Type} [DecidableEq κ] (k : κ) : List (κ × ν) → Option ν
  | [] => none
  | (k', v) :: m => if k' = k then some v else lookupKV k m

structure St (α : Type) where
  /-- `local_values_stack`, innermost scope first. -/
  locals : List (Scope α) := [[]]
  /-- `captured_values_stack`, innermost first (same length as `locals`). -/
  captured : List (Scope α) := [[]]
  unbound : List α := []                    -- `unbound_names` (a set; report order kept here)
  invalid : List Nat := []                  -- `invalid_defines`
  useDef : List (Nat × Nat) := []           -- `use_define_map`
  defLocs : List Nat := []                  -- `def_locs`
  scopedDefs : List (Nat × Scope α) := []       -- `local_scoped_def_locs`
  lambdaCaps : List (Nat × Scope α) := []   -- `lambda_captures`
  errors : List (Err α) := []               -- what went into the `ErrorSet`, in report order
  /-- number of `pop_scope` calls on an empty stack (`Vec::pop().unwrap()` would panic) -/
  underflow : Nat := 0
  deriving Repr

def init {α : Type} : St α := {}

variable {α : Type} [DecidableEq α]

/-- `SsaLocalStackedContext::get` (ssa_analysis.rs:25-42), resolution part: the innermost scope
that binds `n`, as (number of scopes skipped, location). -/
def lookupCtx (n : α) : List (Scope α) → Option (Nat × Nat)
  | [] => none
  | s :: rest =>
    match lookupKV n s with
    | some l => some (0, l)
    | none => (lookupCtx n rest).map fun r => (r.1 + 1, r.2)

/-- capture recording of `get` (lines 33-37): the `k` innermost capture maps receive `n ↦ l`. -/
def recordCapture (n : α) (l : Nat) : Nat → List (Scope α) → List (Scope α)
  | 0, cs => cs
  | _ + 1, [] => []
  | k + 1, c :: cs => insertKV n l c :: recordCapture n l k cs

/-- `SsaLocalStackedContext::insert` (44-50), the `previous` it returns: the binding of `n` in the
*outermost* scope that has one (`iter().find_map` walks from the bottom of the stack). -/
def previousDef (n : α) : List (Scope α) → Option Nat
  | [] => none
  | s :: rest =>
    match previousDef n rest with
    | some l => some l
    | none => lookupKV n s

def insertLocal (n : α) (l : Nat) : List (Scope α) → List (Scope α)
  | [] => []     -- unreachable from `visitModule` (would be an index panic)
  | s :: rest => insertKV n l s :: rest

/-- `define_id` (465-474). -/
def defineId (st : St α) (n : α) (loc : Nat) : St α :=
  let st1 := { st with locals := insertLocal n loc st.locals }
  let st2 :=
    match previousDef n st.locals with
    | some prev =>
      if st.invalid.contains loc then st1
      else { st1 with errors := st1.errors ++ [Err.alreadyBound loc n prev], invalid := st1.invalid ++ [loc] }
    | none => st1
  { st2 with defLocs := st2.defLocs ++ [loc] }

/-- `use_id` (476-483). -/
def useId (st : St α) (n : α) (loc : Nat) (forType : Bool) : St α :=
  match lookupCtx n st.locals with
  | some (k, l) =>
    { st with
      captured := if forType then st.captured else recordCapture n l k st.captured
      useDef := insertKV loc l st.useDef }
  | none => { st with unbound := st.unbound ++ [n], errors := st.errors ++ [Err.cannotResolve loc n] }

def step (st : St α) : Ev α → St α
  | .push => { st with locals := [] :: st.locals, captured := [] :: st.captured }
  | .pop k loc =>
    match st.locals, st.captured with
    | l :: ls, c :: cs =>
      let st' := { st with locals := ls, captured := cs }
      match k with
      | .discard => st'
      | .scoped => { st' with scopedDefs := insertKV loc l st'.scopedDefs }
      | .lambda => { st' with scopedDefs := insertKV loc l st'.scopedDefs, lambdaCaps := insertKV loc c st'.lambdaCaps }
    | _, _ => { st with underflow := st.underflow + 1 }
  | .define n loc => defineId st n loc
  | .use n loc ft => useId st n loc ft

def run (evs : List (Ev α)) (st : St α) : St α := evs.foldl step st

/-! ## Stage 1: the traversal -/

/-- Node kinds of the expression / pattern / annotation trees. Every kind not listed in `visit`
visits its children left to right (tuple, field/method access, unary, call, binary, if-else with
a plain condition, match, statements, `annotation::T::Fn`, tuple/object/variant patterns). -/
inductive Tag where
  | seq       -- children left to right
  | none      -- absent optional child
  | var       -- `E::LocalId`
  | ifGuard   -- `if let p = g then e1 else e2`, children `[p, g, e1, e2]`
  | decl      -- `val p: annot = e`, children `[p, annot?, e]`
  | case      -- match case, children `[p, body]`
  | lambda    -- children `params ++ [body]`
  | param     -- lambda parameter, children `[annot?]`
  | block     -- children `stmts ++ [final?]`
  | pId       -- `MatchingPattern::Id`
  | pOr       -- `MatchingPattern::Or`
  | tyUse     -- a type name that is looked up: `annotation::Id` of this module, `annotation::T::Generic`
  deriving DecidableEq, Repr

/-- Rose tree for expressions, patterns and annotations. -/
inductive Node (α : Type) where
  | mk (tag : Tag) (name : Option α) (loc : Nat) (kids : List (Node α))
  deriving Repr

mutual
/-- `visit_expression` / `visit_block` / `visit_if_else` / `visit_matching_pattern` /
`visit_annot` (ssa_analysis.rs:260-463). -/
def visit : Node α → List (Ev α)
  | .mk tag name loc kids =>
    match tag, name, kids with
    -- `E::LocalId(_, id) => self.use_id(&id.name, id.loc, false)` (263)
    | .var, some n, _ => [.use n loc false]
    -- `IfElseCondition::Guard(p, guard)` (329-336): guard, push, pattern, then-block, pop, else
    | .ifGuard, _, [p, g, e1, e2] =>
      visit g ++ [.push] ++ visit p ++ visit e1 ++ [.pop .discard 0] ++ visit e2
    -- `Statement::Declaration` (351-357): assigned expression, annotation, pattern
    | .decl, _, [p, a, e] => visit e ++ visit a ++ visit p
    -- match case (295-301)
    | .case, _, [p, body] => [.push] ++ visit p ++ visit body ++ [.pop .scoped loc]
    -- `E::Lambda` (303-315); each parameter is a `.param` child
    | .lambda, _, ks => [.push] ++ visitList ks ++ [.pop .lambda loc]
    | .param, some n, ks => .define n loc :: visitList ks
    -- `visit_block` (347-368)
    | .block, _, ks => [.push] ++ visitList ks ++ [.pop .scoped loc]
    -- `MatchingPattern::Id(id, ()) => self.define_id(id.name, id.loc)` (389)
    | .pId, some n, _ => [.define n loc]
    -- `MatchingPattern::Or` (391-397): first alternative defines, the others use
    | .pOr, _, first :: rest => visit first ++ usesList rest
    -- `visit_id_annot` of this module (438-443) and `T::Generic` (450): use, then type arguments
    | .tyUse, some n, ks => .use n loc true :: visitList ks
    | _, _, ks => visitList ks

def visitList : List (Node α) → List (Ev α)
  | [] => []
  | k :: ks => visit k ++ visitList ks

/-- `visit_matching_pattern_bindings_as_uses` (404-431): ids are uses; every other pattern form
(tuple, struct, variant, nested or-pattern) visits its children the same way.
(History: before fix a157fc5 a nested or-pattern contributed nothing, so `A(x) | B(C(x) | D(x))`
left the inner `x`s unresolved — finding C15-F2.) -/
def uses : Node α → List (Ev α)
  | .mk tag name loc kids =>
    match tag, name with
    | .pId, some n => [.use n loc false]
    | _, _ => usesList kids

def usesList : List (Node α) → List (Ev α)
  | [] => []
  | k :: ks => uses k ++ usesList ks
end

/-- `annotation::TypeParameter`: name, name location, optional bound (`annotation::Id`: name,
`id.loc`, type-argument annotations). -/
structure TParam (α : Type) where
  name : α
  loc : Nat
  bound : Option (α × Nat × List (Node α))
  deriving Repr

/-- `visit_type_parameters_with_bounds` (230-258): bounds' names, then the parameters, then the
bounds' type arguments. -/
def visitTParams (tps : List (TParam α)) : List (Ev α) :=
  tps.flatMap (fun tp => match tp.bound with | some (n, l, _) => [Ev.use n l true] | none => [])
  ++ tps.map (fun tp => Ev.define tp.name tp.loc)
  ++ tps.flatMap (fun tp => match tp.bound with | some (_, _, targs) => visitList targs | none => [])

/-- `ClassMemberDeclaration` + optional body. -/
structure Member (α : Type) where
  name : α
  nameLoc : Nat
  loc : Nat
  isMethod : Bool
  tparams : List (TParam α)
  params : List (α × Nat × Node α)     -- name, name location, annotation
  ret : Node α
  body : Option (Node α)
  deriving Repr

/-- `visit_member_declaration` (206-228). -/
def visitMember (m : Member α) : List (Ev α) :=
  [.push] ++ visitTParams m.tparams
  ++ m.params.flatMap (fun p => visit p.2.2)
  ++ visit m.ret
  ++ [.push]
  ++ m.params.map (fun p => Ev.define p.1 p.2.1)
  ++ (match m.body with | some b => visit b | none => [])
  ++ [.pop .scoped m.loc, .pop .discard 0]

inductive TypeDef (α : Type) where
  | none
  | struct (fields : List (α × Nat × Node α))
  | enum (variants : List (α × Nat × List (Node α)))
  deriving Repr

structure Toplevel (α : Type) where
  isClass : Bool
  name : α
  nameLoc : Nat
  loc : Nat
  tparams : List (TParam α)
  /-- `extends_or_implements_nodes`: name, `id.loc`, type arguments -/
  supers : List (α × Nat × List (Node α))
  typeDef : TypeDef α
  members : List (Member α)
  deriving Repr

structure Module (α : Type) where
  imports : List (α × Nat)
  toplevels : List (Toplevel α)
  deriving Repr

/-- type-definition part of `visit_module` (120-155): all annotations, then all names. -/
def visitTypeDef : TypeDef α → List (Ev α)
  | .none => []
  | .struct fields => fields.flatMap (fun f => visit f.2.2) ++ fields.map (fun f => Ev.define f.1 f.2.1)
  | .enum variants => variants.flatMap (fun v => visitList v.2.2) ++ variants.map (fun v => Ev.define v.1 v.2.1)

/-- `visit_members` (187-204). -/
def visitMembers (t : Toplevel α) (isMethod : Bool) : List (Ev α) :=
  (t.members.filter (fun m => m.isMethod == isMethod)).flatMap visitMember

/-- body of the second loop of `visit_module` (102-184) for one toplevel. -/
def visitToplevel (this : α) (t : Toplevel α) : List (Ev α) :=
  t.supers.map (fun s => Ev.use s.1 s.2.1 true)
  ++ [.push, .push]
  ++ visitTParams t.tparams
  ++ t.supers.flatMap (fun s => visitList s.2.2)
  ++ visitTypeDef t.typeDef
  ++ [.pop .discard 0]
  -- member names, for the conflict test only
  ++ [.push] ++ t.members.map (fun m => Ev.define m.name m.nameLoc) ++ [.pop .discard 0]
  -- instance methods
  ++ [.push]
  ++ (if t.isClass then [Ev.define this t.loc] else [])
  ++ t.tparams.map (fun tp => Ev.define tp.name tp.loc)
  ++ visitMembers t true
  ++ [.pop .discard 0]
  -- static functions
  ++ [.push] ++ visitMembers t false ++ [.pop .discard 0]
  ++ [.pop .discard 0]

/-- `visit_module` (89-185). -/
def visitModule (this : α) (m : Module α) : List (Ev α) :=
  m.imports.map (fun i => Ev.define i.1 i.2)
  ++ m.toplevels.map (fun t => Ev.define t.name t.nameLoc)
  ++ m.toplevels.flatMap (visitToplevel this)

/-- `perform_ssa_analysis_on_module`. -/
def analyze (this : α) (m : Module α) : St α := run (visitModule this m) init

/-- `SsaAnalysisResult::from` (530-547): `def_to_use_map`; every definition lists itself first. -/
def defToUse (st : St α) : List (Nat × List Nat) :=
  st.defLocs.eraseDups.map fun d => (d, d :: (st.useDef.filter (fun e => e.2 = d)).map (·.1))

/-! ## Renaming -/

def Ev.map {β : Type} (f : α → β) : Ev α → Ev β
  | .push => .push
  | .pop k l => .pop k l
  | .define n l => .define (f n) l
  | .use n l ft => .use (f n) l ft

def Err.map {β : Type} (f : α → β) : Err α → Err β
  | .alreadyBound l n p => .alreadyBound l (f n) p
  | .cannotResolve l n => .cannotResolve l (f n)

def Scope.map {β : Type} (f : α → β) (s : Scope α) : Scope β := List.map (fun e => (f e.1, e.2)) s

def St.map {β : Type} (f : α → β) (st : St α) : St β :=
  { locals := st.locals.map (Scope.map f)
    captured := st.captured.map (Scope.map f)
    unbound := st.unbound.map f
    invalid := st.invalid
    useDef := st.useDef
    defLocs := st.defLocs
    scopedDefs := st.scopedDefs.map fun e => (e.1, Scope.map f e.2)
    lambdaCaps := st.lambdaCaps.map fun e => (e.1, Scope.map f e.2)
    errors := st.errors.map (Err.map f)
    underflow := st.underflow }

mutual
def Node.map {β : Type} (f : α → β) : Node α → Node β
  | .mk tag name loc kids => .mk tag (name.map f) loc (Node.mapList f kids)
def Node.mapList {β : Type} (f : α → β) : List (Node α) → List (Node β)
  | [] => []
  | k :: ks => Node.map f k :: Node.mapList f ks
end

def TParam.map {β : Type} (f : α → β) (tp : TParam α) : TParam β :=
  { name := f tp.name, loc := tp.loc,
    bound := tp.bound.map fun b => (f b.1, b.2.1, Node.mapList f b.2.2) }

def Member.map {β : Type} (f : α → β) (m : Member α) : Member β :=
  { name := f m.name, nameLoc := m.nameLoc, loc := m.loc, isMethod := m.isMethod,
    tparams := m.tparams.map (TParam.map f),
    params := m.params.map fun p => (f p.1, p.2.1, Node.map f p.2.2),
    ret := Node.map f m.ret, body := m.body.map (Node.map f) }

def TypeDef.map {β : Type} (f : α → β) : TypeDef α → TypeDef β
  | .none => .none
  | .struct fields => .struct (fields.map fun x => (f x.1, x.2.1, Node.map f x.2.2))
  | .enum variants => .enum (variants.map fun x => (f x.1, x.2.1, Node.mapList f x.2.2))

def Toplevel.map {β : Type} (f : α → β) (t : Toplevel α) : Toplevel β :=
  { isClass := t.isClass, name := f t.name, nameLoc := t.nameLoc, loc := t.loc,
    tparams := t.tparams.map (TParam.map f),
    supers := t.supers.map fun s => (f s.1, s.2.1, Node.mapList f s.2.2),
    typeDef := t.typeDef.map f, members := t.members.map (Member.map f) }

def Module.map {β : Type} (f : α → β) (m : Module α) : Module β :=
  { imports := m.imports.map fun i => (f i.1, i.2), toplevels := m.toplevels.map (Toplevel.map f) }

end SamVerif.Scope
