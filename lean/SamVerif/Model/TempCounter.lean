/-!
# Model of the shared atomic temp-name counter of the parallel optimiser (C12)

`crates/samlang-heap/src/lib.rs:416-436` `TempPStrCounter { counter: AtomicU32 }`,
`alloc_temp_str` = `fetch_add(1)` then the name `_t{id}`; `Heap::create_temp_counter` starts it at
`str_pointer_table.len()` and `sync_temp_counter` moves the heap past every id handed out
(`lib.rs:514-523`).  `crates/samlang-optimization/src/lib.rs:79-124`: the functions are optimised by
`par_iter_mut`, every worker draws its temporaries from the one counter.

A *schedule* is the sequence of workers (function indices) in the order in which their
`fetch_add`s take effect: the `j`-th entry receives id `start + j` (atomicity of `fetch_add`).
The `c`-th request (0-based, program order) of worker `w` is the `c`-th occurrence of `w`.
The sequential run is the schedule in which the workers appear in blocks.
-/
namespace SamVerif.TempCounter

/-- position of the `c`-th occurrence of `w` in the schedule -/
def nthOcc (w : Nat) : Nat → List Nat → Option Nat
  | _, [] => none
  | c, x :: xs =>
    if x = w then
      match c with
      | 0 => some 0
      | c + 1 => (nthOcc w c xs).map (· + 1)
    else (nthOcc w c xs).map (· + 1)

/-- id handed to the `c`-th request of worker `w` under the schedule -/
def tempName (start : Nat) (sched : List Nat) (w c : Nat) : Option Nat :=
  (nthOcc w c sched).map (start + ·)

/-- the request served at position `j` of the schedule: (worker, number of its earlier requests) -/
def reqAt (sched : List Nat) (j : Nat) : Option (Nat × Nat) :=
  match sched[j]? with
  | some w => some (w, (sched.take j).count w)
  | none => none

/-- The renaming between the names of two schedules: the id handed out at position `j` of `sched`
is mapped to the id the same request receives under `sched'`; ids outside the handed-out block
`[start, start + length)` are left alone. -/
def renameTo (start : Nat) (sched sched' : List Nat) (n : Nat) : Nat :=
  if start ≤ n then
    match reqAt sched (n - start) with
    | some (w, c) =>
      match tempName start sched' w c with
      | some n' => n'
      | none => n
    | none => n
  else n

/-! ## Phases: who may hand out which numbers

`crates/samlang-optimization/src/lib.rs:93-124` `optimize_sources`: four times { a parallel round on
a counter created at the heap's current length (`create_temp_counter`), `sync_temp_counter`, inlining
(sequential `heap.alloc_temp_str`) }, a fifth parallel round + sync; then
`samlang-compiler/src/lir_lowering.rs` (`compile_mir_to_lir`) allocates its temporaries with
`heap.alloc_temp_str` again.  `H` is `heap.str_pointer_table.len()`, the next number the heap hands out.
A parallel phase that draws `k` names issues exactly the block `[H, H + k)` whatever the interleaving
(`temp_names_in_block`/`temp_names_onto_block`); `sync_temp_counter` raises `H` to the counter's value. -/

inductive Phase where
  /-- a parallel round drawing `k` names from a counter created at `H`; `sync` = whether
  `heap.sync_temp_counter(&counter)` is called afterwards -/
  | par (k : Nat) (sync : Bool)
  /-- `k` sequential `heap.alloc_temp_str()` calls -/
  | seq (k : Nat)
  deriving Repr, DecidableEq

/-- numbers issued by each phase, starting with heap length `H` -/
def issued : Nat → List Phase → List (List Nat)
  | _, [] => []
  | H, .par k s :: rest => List.range' H k :: issued (if s then H + k else H) rest
  | H, .seq k :: rest => List.range' H k :: issued (H + k) rest

/-- heap length after the phases (what the next phase's counter starts from) -/
def heapAfter : Nat → List Phase → Nat
  | H, [] => H
  | H, .par k s :: rest => heapAfter (if s then H + k else H) rest
  | H, .seq k :: rest => heapAfter (H + k) rest

def allSynced : List Phase → Bool
  | [] => true
  | .par _ s :: rest => s && allSynced rest
  | .seq _ :: rest => allSynced rest

def total : List Phase → Nat
  | [] => 0
  | .par k _ :: rest => k + total rest
  | .seq k :: rest => k + total rest

/-- the phase structure of `optimize_sources` followed by LIR lowering: `rounds` = (names drawn by
the parallel round, temporaries of the inlining step) for the four loop iterations, `last` = names
drawn by the fifth round, `lir` = temporaries of `compile_mir_to_lir`; `lastSync` = the final sync. -/
def pipeline (rounds : List (Nat × Nat)) (last lir : Nat) (lastSync : Bool) : List Phase :=
  rounds.flatMap (fun r => [.par r.1 true, .seq r.2]) ++ [.par last lastSync, .seq lir]

/-! ## Why the position-based model is right: atomicity of `fetch_add`

`alloc_temp_str` is `self.counter.fetch_add(1, Ordering::Relaxed)` — ONE atomic read-modify-write
(`samlang-heap/src/lib.rs:427`).  Small-step machine: a worker step is either the atomic `rmw`, or —
for a counter implemented as a separate `load` followed by `store(v + 1)` — one of the two halves.
`regs` holds the value a worker has loaded and not yet stored. -/

inductive CStep where
  | rmw (w : Nat)
  | load (w : Nat)
  | store (w : Nat)
  deriving Repr, DecidableEq

structure CState where
  ctr : Nat
  regs : List (Nat × Nat)
  issued : List (Nat × Nat)        -- (worker, number handed to it), in issue order
  deriving Repr, DecidableEq

def regOf (regs : List (Nat × Nat)) (w : Nat) : Option Nat :=
  match regs with
  | [] => none
  | (w', v) :: rest => if w = w' then some v else regOf rest w

def cstep (s : CState) : CStep → CState
  | .rmw w => { s with ctr := s.ctr + 1, issued := s.issued ++ [(w, s.ctr)] }
  | .load w => { s with regs := (w, s.ctr) :: s.regs }
  | .store w =>
    match regOf s.regs w with
    | some v => { ctr := v + 1, regs := s.regs.filter (·.1 != w), issued := s.issued ++ [(w, v)] }
    | none => s

def crun (start : Nat) (steps : List CStep) : CState :=
  steps.foldl cstep { ctr := start, regs := [], issued := [] }

end SamVerif.TempCounter
