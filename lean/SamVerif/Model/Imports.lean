import SamVerif.Model.Doc
import SamVerif.Model.CommentQueue
/-!
# Model of the import reorganisation of `source_module_to_document`
(`crates/samlang-printer/src/source_printer.rs:1260-1302`) and of `import_to_document` (1217-1247),
`associated_comments_doc` in its `Expanded` mode (33-80) and `comma_sep_list` without ending
comments (101-133).

The printer groups the import lines by imported module (a `HashMap` from module to (comment
references of all merged lines, members of all merged lines)), sorts the groups by the printed module
path and the members of each group by name, and prints one line per group, preceded by the comments
of *all* lines merged into it. The `HashMap` is modelled by an association list in first-insertion
order; the later sort by the (unique) keys makes the iteration order irrelevant.
Core Lean only, executable (driver protocol `imports`).
-/
namespace SamVerif.Imports
open SamVerif.Doc
open SamVerif.CommentQueue (Comment Kind)
abbrev Str := List Char

/-- An imported member: its name and the comments the parser stored on the identifier
(printed in front of it since /repo commit 4b614da). -/
structure Member where
  comments : List Comment
  name : Str
  deriving Repr, DecidableEq, Inhabited

/-- One `import { members } from path` line as parsed (`ModuleMembersImport`). -/
structure Import where
  path : Str
  comments : List Comment
  members : List Member
  deriving Repr, DecidableEq, Inhabited

/-- One printed line: module path, the comment lists of the merged lines (source order), members. -/
structure Group where
  path : Str
  comments : List (List Comment)
  members : List Member
  deriving Repr, DecidableEq, Inhabited

/-- The loop body of source_printer.rs:1264-1274. -/
def insertImp : List Group → Import → List Group
  | [], imp => [⟨imp.path, [imp.comments], imp.members⟩]
  | g :: rest, imp =>
    if g.path = imp.path then ⟨g.path, g.comments ++ [imp.comments], g.members ++ imp.members⟩ :: rest
    else g :: insertImp rest imp

def organize (imps : List Import) : List Group := imps.foldl insertImp []

/-- `str::cmp` / `String::cmp`: lexicographic on UTF-8 bytes = lexicographic on code points. -/
def strLe : Str → Str → Bool
  | [], _ => true
  | _ :: _, [] => false
  | a :: as, b :: bs => if a.toNat < b.toNat then true else if b.toNat < a.toNat then false else strLe as bs

/-- Stable insertion sort (`sorted_by`/`sorted_by_key` of itertools are stable). -/
def insertBy {α : Type} (le : α → α → Bool) (x : α) : List α → List α
  | [] => [x]
  | y :: ys => if le x y then x :: y :: ys else y :: insertBy le x ys

def sortBy {α : Type} (le : α → α → Bool) (l : List α) : List α := l.foldr (insertBy le) []

/-- source_printer.rs:1276-1290. -/
def sortedGroups (imps : List Import) : List Group :=
  (sortBy (fun a b => strLe a.path b.path) (organize imps)).map fun g =>
    { g with members := sortBy (fun a b => strLe a.name b.name) g.members }

/-- The per-comment documents of `associated_comments_doc` (41-55). -/
def commentDocs (c : Comment) : List Doc :=
  match c.kind with
  | .line => [lineComment c.text, .lineHard]
  | .block => [multilineComment ['/', '*'] c.text, .line]
  | .doc => [multilineComment ['/', '*', '*'] c.text, .line]

/-- `associated_comments_doc(.., Expanded, add_final_line_break)` (33-80). -/
def commentsDoc (cs : List Comment) (addFinal : Bool) : Option Doc :=
  let docs := cs.flatMap commentDocs
  if docs.isEmpty then none else
  let soft := decide (docs.getLast? = some .line)
  let main := concatV (if soft then docs.dropLast else docs)
  some (if addFinal && soft then .concat main .line else main)

/-- `associated_comments_doc(.., Grouped, add_final_line_break)` (33-80). -/
def commentsDocGrouped (cs : List Comment) (addFinal : Bool) : Option Doc :=
  let docs := cs.flatMap commentDocs
  if docs.isEmpty then none else
  let soft := decide (docs.getLast? = some .line)
  let main := group (concatV (if soft then docs.dropLast else docs))
  some (if addFinal && soft then .concat main .line else main)

/-- `create_opt_preceding_comment_doc` (82-99). -/
def optPreceding (cs : List Comment) (main : Doc) : Doc :=
  match commentsDocGrouped cs true with
  | some cd => group (.concat cd main)
  | none => main

/-- `id_to_doc` for an imported member. -/
def memberDoc (m : Member) : Doc := optPreceding m.comments (.nstext m.name)

/-- `comma_sep_list` without ending comments (101-133). -/
def commaSep : List Doc → Doc
  | [] => .nil
  | [x] => x
  | x :: y :: rest => concatV [x, .text [','], .line, commaSep (y :: rest)]

/-- `import_to_document` (1217-1247). -/
def importDoc (g : Group) : Doc :=
  concatV ((match commentsDoc g.comments.flatten true with | some d => [d] | none => []) ++
    [.text "import ".toList,
     bracketFlexible ['{'] .line (commaSep (g.members.map memberDoc)) ['}'],
     .text " from ".toList, .nstext g.path, .text [';'], .lineHard])

/-- The document of a module that consists of import lines only (1260-1302 with no toplevels and no
trailing comments). -/
def importsOnlyDoc (imps : List Import) : Doc :=
  concatV ((sortedGroups imps).map importDoc ++ (if imps.isEmpty then [] else [.lineHard]))

end SamVerif.Imports
