/-!
# Model of the hint-ordering kernel of generic-call checking (C13)

Mirrors `crates/samlang-checker/src/main_checker.rs`:
* `arguments_should_be_checked_without_hint` (101-131) with `if_else_should_be_checked_without_hint`
  (85-91) and `block_should_be_checked_without_hint` (93-99): the syntactic classification of an
  argument of a call whose type arguments must be inferred;
* Phase 0 of `check_function_call_implicit_instantiation` (617-637): an argument classified
  "without hint" is checked once with `type_hint::MISSING`; every other argument is synthesised
  (placeholders allowed) and is re-checked in Phase 1 with a hint derived from the other arguments
  iff its synthesis produced placeholders.
Tied to the code by the `cls` protocol (hook `verif_hooks_c13`) and by the translator
`extract/c13_phase0.py` (→ `Generated/C13Phase0.lean`: which test decides the re-check).
Core Lean only.
-/
namespace SamVerif.Hint

/-- shape of an argument expression, as far as the classification looks at it -/
inductive Arg where
  /-- Literal, LocalId, ClassId, Tuple, FieldAccess, MethodAccess, Unary, Binary -/
  | simple
  /-- `E::Call` -/
  | call
  /-- `E::IfElse`: final expression of the then-block (if any), and the else part (an `ifElse` or a
  `block`) -/
  | ifElse (thenFinal : Option Arg) (els : Arg)
  /-- `E::Match`: the case bodies -/
  | matchE (cases : List Arg)
  /-- `E::Lambda`: per parameter whether it is annotated, and the body -/
  | lambda (annotated : List Bool) (body : Arg)
  /-- `E::Block`: its final expression, if any -/
  | block (final : Option Arg)
  deriving Repr

mutual
/-- `arguments_should_be_checked_without_hint` -/
def withoutHint : Arg → Bool
  | .simple => true
  | .call => false
  | .ifElse t e => withoutHintOpt t && withoutHint e
  | .matchE cases => withoutHintAll cases
  | .lambda anns body => anns.all id && withoutHint body
  | .block f => withoutHintOpt f
/-- `block_should_be_checked_without_hint` -/
def withoutHintOpt : Option Arg → Bool
  | none => true
  | some a => withoutHint a
/-- the loop over the cases of a `match` -/
def withoutHintAll : List Arg → Bool
  | [] => true
  | a :: as => withoutHint a && withoutHintAll as
end

/-- which test decides, after synthesising an argument, whether it is re-checked with a hint
(generated from the source by `extract/c13_phase0.py`) -/
inductive RecheckTest where
  | producedFlag       -- `if produced_placeholders` (the flag of `run_in_synthesis_mode`)
  | placeholderInType  -- `contains_placeholder(checked.type_())`
  deriving DecidableEq, Repr

/-- what Phase 0 does with one argument -/
inductive Status where
  | checkedWithoutHint   -- `type_check_expression(cx, arg, MISSING)`, final
  | synthesisedFinal     -- synthesised, no re-check
  | recheckedWithHint    -- `MaybeCheckedExpression::Unchecked`: checked again in Phase 1 with a hint
  deriving DecidableEq, Repr

/-- Phase 0 for one argument. `produced`: synthesis produced a placeholder somewhere inside the
argument; `visible`: the argument's own type contains a placeholder. -/
def phase0 (test : RecheckTest) (a : Arg) (produced visible : Bool) : Status :=
  if withoutHint a then .checkedWithoutHint
  else
    let recheck := match test with
      | .producedFlag => produced
      | .placeholderInType => visible
    if recheck then .recheckedWithHint else .synthesisedFinal

/-! ## hint propagation through if / else-if / else (`check_if_else`, main_checker.rs:937-977)

The then-block is checked with the hint of the whole if/else; the else part — `else { … }`
(`check_block`) as well as `else if …` (`check_if_else`) — is checked with the *type of the then-block*
as hint; the type of the if/else is the type of the then-block. `check_block` hands its hint to the
block's final expression. -/

/-- where the `else if` continuation takes its hint from (generated from the source) -/
inductive ElseIfHint where
  | firstBranch   -- `type_hint::available(&e1.common.type_)`
  | enclosing     -- the `hint` of the enclosing if/else
  deriving DecidableEq, Repr

/-- an if/else tree over opaque branch blocks -/
inductive IfTree (β : Type) where
  | blk (b : β)                          -- a plain block / the final `else { b }`
  | ite (thenB : β) (els : IfTree β)      -- `if c { thenB } else els`; `els = ite ..` is `else if`
  | wrapped (t : IfTree β)                -- `{ t }`: a block whose final expression is an if/else
  deriving Repr

def IfTree.isIte {β : Type} : IfTree β → Bool
  | .ite _ _ => true
  | _ => false

/-- the hint every branch block receives (in source order) and the resulting type;
`ty b h` = type of block `b` when checked with hint `h`. -/
def hints {β τ : Type} (rule : ElseIfHint) (ty : β → Option τ → τ) :
    Option τ → IfTree β → List (β × Option τ) × τ
  | h, .blk b => ([(b, h)], ty b h)
  | h, .wrapped t => hints rule ty h t
  | h, .ite b els =>
    let t1 := ty b h
    let hElse : Option τ :=
      match rule with
      | .firstBranch => some t1
      | .enclosing => if els.isIte then h else some t1
    ((b, h) :: (hints rule ty hElse els).1, t1)

/-- remove every block wrapper -/
def IfTree.strip {β : Type} : IfTree β → IfTree β
  | .blk b => .blk b
  | .ite b els => .ite b els.strip
  | .wrapped t => t.strip

/-! ## the produced-placeholders flag across nested synthesis runs
(`TypingContext::run_in_synthesis_mode`, typing_context.rs:98-111, `mk_placeholder_type` 120-123)

While an argument is synthesised, further generic calls inside it start nested synthesis runs.
`run_in_synthesis_mode` saves the flag, runs the closure, reads the flag as its result and restores
the saved value. -/

/-- what happens, in order, while one synthesis run is active -/
inductive SynthEv where
  | placeholder                       -- `mk_placeholder_type`: `produced_placeholders = true`
  | nested (body : List SynthEv)      -- a nested `run_in_synthesis_mode`

/-- how `run_in_synthesis_mode` treats the flag (generated from the source) -/
inductive FlagDiscipline where
  | saveRestore      -- save on entry, read, restore the saved value
  | resetNoRestore   -- set to false on entry, read, leave as is
  deriving DecidableEq, Repr

mutual
/-- the flag after the events of the current run, starting from `flag` -/
def flagAfter (d : FlagDiscipline) : Bool → List SynthEv → Bool
  | flag, [] => flag
  | _, .placeholder :: rest => flagAfter d true rest
  | flag, .nested body :: rest => flagAfter d (runSynth d flag body).2 rest
/-- one `run_in_synthesis_mode`: (the `produced` it returns, the caller's flag afterwards) -/
def runSynth (d : FlagDiscipline) : Bool → List SynthEv → Bool × Bool
  | flag, body =>
    match d with
    | .saveRestore => (flagAfter d flag body, flag)
    | .resetNoRestore => (flagAfter d false body, flagAfter d false body)
end

/-- a placeholder produced directly in this run (not inside a nested run) -/
def directPlaceholder : List SynthEv → Bool
  | [] => false
  | .placeholder :: _ => true
  | .nested _ :: rest => directPlaceholder rest

/-! ## bounds of type parameters: the two validators
A written generic type `C<t1..tn>` (annotation, explicit type arguments) is validated by
`TypingContext::validate_type_instantiation_customized` (typing_context.rs:178-228); inferred type
arguments by `validate_type_arguments` (main_checker.rs:181-202). Both substitute the type
arguments for the type parameters in every bound and test the argument against the result. -/

/-- types as far as bounds are concerned -/
inductive BTy where
  | var (n : Nat)            -- a type parameter
  | con (c : Nat)            -- a class / interface / primitive
  | app (f a : BTy)          -- type application (curried)
  deriving DecidableEq, Repr

def lookupT (n : Nat) : List (Nat × BTy) → Option BTy
  | [] => none
  | (k, t) :: rest => if k = n then some t else lookupT n rest

/-- `subst_nominal_type`: unmapped parameters stay as they are -/
def BTy.subst (σ : List (Nat × BTy)) : BTy → BTy
  | .var n => (lookupT n σ).getD (.var n)
  | .con c => .con c
  | .app f a => .app (f.subst σ) (a.subst σ)

def BTy.vars : BTy → List Nat
  | .var n => [n]
  | .con _ => []
  | .app f a => f.vars ++ a.vars

structure BParam where
  name : Nat
  bound : Option BTy
  deriving Repr

/-- which substitution the explicit validator applies to the bound of the i-th parameter
(generated from the source) -/
inductive BoundSubst where
  | fullMap     -- all parameters ↦ their arguments, built before the loop
  | prefixMap   -- only the parameters up to and including the i-th
  deriving DecidableEq, Repr

def check1 (sat : BTy → BTy → Bool) (σ : List (Nat × BTy)) (p : BParam) (t : BTy) (i : Nat) : List Nat :=
  match p.bound with
  | some b => if sat t (b.subst σ) then [] else [i]
  | none => []

/-- explicit validator, full map: indices of the parameters whose bound is violated -/
def explicitFull (sat : BTy → BTy → Bool) (σ : List (Nat × BTy)) : List (BParam × BTy) → Nat → List Nat
  | [], _ => []
  | (p, t) :: rest, i => check1 sat σ p t i ++ explicitFull sat σ rest (i + 1)

/-- explicit validator with the map grown inside the loop -/
def explicitPrefix (sat : BTy → BTy → Bool) : List (Nat × BTy) → List (BParam × BTy) → Nat → List Nat
  | _, [], _ => []
  | σ, (p, t) :: rest, i =>
    check1 sat (σ ++ [(p.name, t)]) p t i ++ explicitPrefix sat (σ ++ [(p.name, t)]) rest (i + 1)

def mapOf (pairs : List (BParam × BTy)) : List (Nat × BTy) := pairs.map fun e => (e.1.name, e.2)

def explicitViolations (mode : BoundSubst) (sat : BTy → BTy → Bool) (pairs : List (BParam × BTy)) : List Nat :=
  match mode with
  | .fullMap => explicitFull sat (mapOf pairs) pairs 0
  | .prefixMap => explicitPrefix sat [] pairs 0

/-- `validate_type_arguments`: the inferred substitution is looked up by name -/
def inferredViolations (sat : BTy → BTy → Bool) (σ : List (Nat × BTy)) : List BParam → Nat → List Nat
  | [], _ => []
  | p :: rest, i =>
    (match lookupT p.name σ with
     | some t => check1 sat σ p t i
     | none => []) ++ inferredViolations sat σ rest (i + 1)

/-! ## the rewrite "make an inferred lambda-parameter type explicit" -/

def annotateAt : Nat → List Bool → List Bool
  | _, [] => []
  | 0, _ :: bs => true :: bs
  | i + 1, b :: bs => b :: annotateAt i bs

end SamVerif.Hint
