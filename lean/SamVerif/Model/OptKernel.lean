/-!
# C02 — kernels of the optimisation passes (executable model, core Lean only)

Function-by-function model of the arithmetic / rewriting kernels that make
"optimisation never changes output or termination" true or false:

* `evalTarget`      — what the wasm target computes for one `Binary` statement
                      (`crates/samlang-ast/src/wasm.rs:186-205`: `i32.mul/div_s/rem_s/add/sub/and/or/shl/shr_u/xor/lt_s…`)
* `evalImpl`        — `evaluate_bin_op` (`conditional_constant_propagation.rs:9-42`), dev profile
                      (overflow checks on: the profile the repo's tests and our harness use)
* `ccpRule`         — the literal/algebraic rules of CCP's `Statement::Binary` arm (`…:178-222`)
* `binaryUnwrapped`, `flexibleOrder`, `flexUnwrapped` — `mir.rs:664-747` with the `Expression` order (`mir.rs:467-490`)
* `mergeBinary`     — `merge_binary_expression` (`conditional_constant_propagation.rs:51-97`)
* `tripLT`, `tripCount` — `loop_algebraic_optimization.rs:10-58`
* counting loops, the IV-elimination transform (`loop_induction_variable_elimination.rs:109-189`)
  and strength reduction (`loop_strength_reduction.rs:17-85`) on the loop family
  `while (i = i0, last = 0) { if !(i G bound) break last; print(last); j = i*m + c; i' = i + step }`.

Integers are mathematical `Int`s constrained to the 32-bit range; `wrap32` is two's complement.
Where Rust would panic the model answers `panic`.
-/
namespace SamVerif.Opt

def MIN : Int := -2147483648
def MAX : Int := 2147483647

/-- 32-bit signed range. -/
def InRange (x : Int) : Prop := -2147483648 ≤ x ∧ x ≤ 2147483647
instance (x : Int) : Decidable (InRange x) := by unfold InRange; infer_instance

/-- Two's-complement wrap-around of the wasm target. -/
def wrap32 (x : Int) : Int := (x + 2147483648) % 4294967296 - 2147483648

/-- `hir::BinaryOperator` (`crates/samlang-ast/src/hir.rs:186-203`). -/
inductive Op where
  | mul | div | mod | add | sub | land | lor | shl | shr | xor | lt | le | gt | ge | eq | ne
  deriving DecidableEq, Repr, Inhabited

def b2i (b : Bool) : Int := if b then 1 else 0

def bv (x : Int) : BitVec 32 := BitVec.ofInt 32 x

/-- Semantics of one MIR `Binary` on the wasm target; `none` = trap. -/
def evalTarget (op : Op) (a b : Int) : Option Int :=
  match op with
  | .mul => some (wrap32 (a * b))
  | .div => if b = 0 then none else if a = -2147483648 ∧ b = -1 then none else some (Int.tdiv a b)
  | .mod => if b = 0 then none else some (Int.tmod a b)
  | .add => some (wrap32 (a + b))
  | .sub => some (wrap32 (a - b))
  | .land => some (bv a &&& bv b).toInt
  | .lor => some (bv a ||| bv b).toInt
  | .shl => some (bv a <<< (b % 32).toNat).toInt
  | .shr => some (bv a >>> (b % 32).toNat).toInt
  | .xor => some (bv a ^^^ bv b).toInt
  | .lt => some (b2i (decide (a < b)))
  | .le => some (b2i (decide (a ≤ b)))
  | .gt => some (b2i (decide (a > b)))
  | .ge => some (b2i (decide (a ≥ b)))
  | .eq => some (b2i (decide (a = b)))
  | .ne => some (b2i (decide (a ≠ b)))

/-- Result of a compile-time evaluation in the compiler (dev profile). -/
inductive FoldRes where
  | val (v : Int)
  | nofold
  | panic
  deriving DecidableEq, Repr

def chk (r : Int) : FoldRes := if InRange r then .val r else .panic

/-- `evaluate_bin_op` (conditional_constant_propagation.rs:9-42) after `fix:` 3b705a0: `+ - *`
wrap (`wrapping_*`), `/` is `checked_div` (declines for `/0` and `MIN / -1`), `%` is
`wrapping_rem`, shift counts are masked (`wrapping_shl/shr`). It can no longer panic.
(Before the fix: unchecked `+ - * / % <<`, which panicked in the dev profile — and for `MIN / -1`,
`MIN % -1` in every profile.) -/
def evalImpl (op : Op) (a b : Int) : FoldRes :=
  match op with
  | .mul => .val (wrap32 (a * b))
  | .div => if b = 0 ∨ (a = -2147483648 ∧ b = -1) then .nofold else .val (Int.tdiv a b)
  | .mod => if b = 0 then .nofold else .val (Int.tmod a b)
  | .add => .val (wrap32 (a + b))
  | .sub => .val (wrap32 (a - b))
  | .land => .val (bv a &&& bv b).toInt
  | .lor => .val (bv a ||| bv b).toInt
  | .shl => .val (bv a <<< (b % 32).toNat).toInt
  | .shr => .val (bv a >>> (b % 32).toNat).toInt
  | .xor => .val (bv a ^^^ bv b).toInt
  | .lt => .val (b2i (decide (a < b)))
  | .le => .val (b2i (decide (a ≤ b)))
  | .gt => .val (b2i (decide (a > b)))
  | .ge => .val (b2i (decide (a ≥ b)))
  | .eq => .val (b2i (decide (a = b)))
  | .ne => .val (b2i (decide (a ≠ b)))

/-! ## CCP literal rules (operands after value propagation: literal or variable) -/

inductive Operand where
  | lit (n : Int)
  | var (x : Nat)
  deriving DecidableEq, Repr

inductive RuleRes where
  | bind (e : Operand)   -- `value_cx.checked_bind(name, e)`: the statement disappears
  | keep                 -- statement stays (after reordering / merging)
  | panic
  deriving DecidableEq, Repr

/-- Second half of the arm: `x - x`, `x % x`, `x / x` (…:210-222). -/
def ccpSameVar (op : Op) (e1 e2 : Operand) : RuleRes :=
  match e1, e2 with
  | .var x, .var y =>
    if x = y then
      (if op = .sub ∨ op = .mod then .bind (.lit 0) else if op = .div then .bind (.lit 1) else .keep)
    else .keep
  | _, _ => .keep

/-- The `Statement::Binary` arm of CCP up to `binary_flexible_unwrapped` (…:178-222). -/
def ccpRule (op : Op) (e1 e2 : Operand) : RuleRes :=
  match e2 with
  | .lit v2 =>
    if v2 = 0 ∧ op = .add then .bind e1
    else if v2 = 0 ∧ op = .mul then .bind (.lit 0)
    else if v2 = 1 ∧ op = .mod then .bind (.lit 0)
    else if v2 = 1 ∧ (op = .mul ∨ op = .div) then .bind e1
    else match e1 with
      | .lit v1 =>
        match evalImpl op v1 v2 with
        | .val v => .bind (.lit v)
        | .panic => .panic
        | .nofold => .keep
      | .var _ => .keep
  | .var _ => ccpSameVar op e1 e2

def Operand.eval (ρ : Nat → Int) : Operand → Int
  | .lit n => n
  | .var x => ρ x

/-! ## Operand reordering (`mir.rs:664-747`) -/

/-- `mir::Expression` (`mir.rs:459-465`); names are abstract ids whose order is the `PStr` order. -/
inductive Expr where
  | i32 (n : Int)
  | i31 (n : Int)
  | str (id : Nat)
  | var (id : Nat)
  deriving DecidableEq, Repr

def Expr.rank : Expr → Nat
  | .i32 _ => 0 | .i31 _ => 1 | .str _ => 2 | .var _ => 3

/-- `impl Ord for Expression` (`mir.rs:467-490`), strict part. -/
def Expr.lt (a b : Expr) : Bool :=
  match a, b with
  | .i32 x, .i32 y => decide (x < y)
  | .i31 x, .i31 y => decide (x < y)
  | .str x, .str y => decide (x < y)
  | .var x, .var y => decide (x < y)
  | a, b => decide (a.rank < b.rank)

/-- `Statement::binary_unwrapped` (`mir.rs:664-676`). -/
def binaryUnwrapped (op : Op) (e1 e2 : Expr) : Op × Expr × Expr :=
  match op, e2 with
  | .sub, .i32 n => if n ≠ -2147483648 then (.add, e1, .i32 (-n)) else (op, e1, e2)
  | _, _ => (op, e1, e2)

/-- `Statement::flexible_order_binary` (`mir.rs:692-747`). -/
def flexibleOrder (op : Op) (e1 e2 : Expr) : Op × Expr × Expr :=
  let (o, a, b) := binaryUnwrapped op e1 e2
  match o with
  | .div | .mod | .sub | .shl | .shr => (o, a, b)
  | .mul | .add | .land | .lor | .xor | .eq | .ne => if Expr.lt b a then (o, a, b) else (o, b, a)
  | .lt => if Expr.lt a b then (.gt, b, a) else (o, a, b)
  | .le => if Expr.lt a b then (.ge, b, a) else (o, a, b)
  | .gt => if Expr.lt a b then (.lt, b, a) else (o, a, b)
  | .ge => if Expr.lt a b then (.le, b, a) else (o, a, b)

/-- `Statement::binary_flexible_unwrapped` (`mir.rs:678-686`). -/
def flexUnwrapped (op : Op) (e1 e2 : Expr) : Op × Expr × Expr :=
  let (o, a, b) := flexibleOrder op e1 e2
  binaryUnwrapped o a b

/-- A valuation of expressions: literals denote themselves; everything else is arbitrary. -/
structure Valuation where
  f : Expr → Int
  lit : ∀ n : Int, f (.i32 n) = n

/-! ## `merge_binary_expression` -/

inductive MergeRes where
  | merged (op : Op) (c : Int)
  | none
  | panic
  deriving DecidableEq, Repr

/-- `checked_sub(...)?` since `fix:` 58c3f94: decline when the constant does not fit -/
def chkM (op : Op) (r : Int) : MergeRes := if InRange r then .merged op r else .none

def Op.isCmp : Op → Bool
  | .lt | .le | .gt | .ge | .eq | .ne => true
  | _ => false

/-- `merge_binary_expression(outer, inner = (innerOp, x, c1), c2)` (…:51-97), dev profile.
`+`/`*` wrap since `fix:` 3b705a0; the comparison arm declines when `c2 - c1` overflows since
`fix:` 58c3f94 (finding C02-F3 stays open for ordered comparisons: the golden test
`binary_sequence_tests` pins the merge of `<`). -/
def mergeBinary (outer inner : Op) (c1 c2 : Int) : MergeRes :=
  match outer with
  | .add => if inner = .add then .merged .add (wrap32 (c1 + c2)) else .none
  | .mul => if inner = .mul then .merged .mul (wrap32 (c1 * c2)) else .none
  | .lt | .le | .gt | .ge | .eq | .ne => if inner = .add then chkM outer (c2 - c1) else .none
  | _ => .none

/-! ## Trip counts (`loop_algebraic_optimization.rs:10-58`) -/

inductive Guard where
  | lt | le | gt | ge
  deriving DecidableEq, Repr, Inhabited

/-- The loop *continues* while `i G bound` (`get_guard_operator`, loop_induction_analysis.rs:417-426). -/
def Guard.holds (g : Guard) (i b : Int) : Bool :=
  match g with
  | .lt => decide (i < b) | .le => decide (i ≤ b) | .gt => decide (i > b) | .ge => decide (i ≥ b)

/-- `GuardOperator::invert` (loop_induction_analysis.rs:47-54). -/
def Guard.invert : Guard → Guard
  | .lt => .ge | .le => .gt | .gt => .le | .ge => .lt

inductive TripRes where
  | count (n : Int)
  | unknown
  | panic
  deriving DecidableEq, Repr

/-- `analyze_number_of_iterations_to_break_less_than_guard` after `fix:` 0934671: computed in
64 bits (no intermediate can overflow), declined when the counter would pass `maxFinal` (i.e. wrap
around in 32 bits) before leaving the guard, or when the count does not fit `i32`. -/
def tripLT (i0 step bound maxFinal : Int) : TripRes :=
  if i0 ≥ bound then .count 0
  else if step ≤ 0 then .unknown
  else
    let d := bound - i0
    let n := Int.tdiv d step + (if Int.tmod d step ≠ 0 then 1 else 0)
    if i0 + step * n > maxFinal then .unknown
    else if n > 2147483647 then .unknown
    else .count n

/-- `analyze_number_of_iterations_to_break_guard` (all four guard kinds; `>`/`>=` by negation). -/
def tripCount (g : Guard) (i0 step bound : Int) : TripRes :=
  match g with
  | .lt => tripLT i0 step bound 2147483647
  | .le => tripLT i0 step (bound + 1) 2147483647
  | .gt => tripLT (-i0) (-step) (-bound) 2147483648
  | .ge => tripLT (-i0) (-step) (-(bound - 1)) 2147483648

/-- The value of the counter after `k` executions of `i' = i + step` on the target. -/
def iterW (i0 step : Int) : Nat → Int
  | 0 => i0
  | k + 1 => wrap32 (iterW i0 step k + step)

/-- The loop `while (i G bound) i += step` leaves after exactly `n` iterations. -/
def BreaksAt (g : Guard) (i0 step bound : Int) (n : Nat) : Prop :=
  (∀ k, k < n → g.holds (iterW i0 step k) bound = true) ∧ g.holds (iterW i0 step n) bound = false

/-! ## The observed counting loop and its transformations

```
while (i = i0, last = 0) {            -- loop variables
  cc = i  (invert G)  bound; if cc { break last }
  print(last)
  j = i * m (+ c)                     -- derived induction variable(s)
  i' = i + step                       -- i <- i', last <- j
}
```
`loop_optimizations.rs:120-192` turns it (algebraic optimisation does not apply: `last` is a
non-induction loop variable) into a loop over `j` (IV elimination, when exactly one derived
variable hangs off `i`, i.e. `c = 0` or `m = 1`) or keeps `i` and strength-reduces `j`. -/

structure ObsLoop where
  g : Guard
  i0 : Int
  step : Int
  bound : Int
  m : Int
  c : Int
  deriving Repr, DecidableEq

def mulT (a b : Int) : Int := wrap32 (a * b)
def addT (a b : Int) : Int := wrap32 (a + b)

/-- `j` as the unoptimised body computes it. -/
def ObsLoop.derived (L : ObsLoop) (i : Int) : Int :=
  if L.c = 0 then mulT i L.m else if L.m = 1 then addT i L.c else addT (mulT i L.m) L.c

/-- Result of running a loop: printed values (oldest first) and the break value; `none` = fuel. -/
def runOrig (L : ObsLoop) : Nat → Int → Int → List Int → Option (List Int × Int)
  | 0, _, _, _ => none
  | fuel + 1, i, last, acc =>
    if L.g.holds i L.bound then runOrig L fuel (addT i L.step) (L.derived i) (acc ++ [last])
    else some (acc, last)

/-- Number of derived induction variables hanging off `i` (`t = i*m; j = t + c` gives two). -/
def ObsLoop.singleDerived (L : ObsLoop) : Bool := L.c = 0 ∨ L.m = 1

/-- `merge_invariant_multiplication_for_loop_optimization` on two literals (wraps since `fix:` 3b705a0). -/
def mergeMul (a b : Int) : FoldRes := .val (wrap32 (a * b))

inductive LoopRes where
  | out (printed : List Int) (ret : Int)
  | fuel
  | panic
  deriving DecidableEq, Repr

/-- The loop after IV elimination: counter `j` from `m*i0 + c` in steps of `step*m` while
`j < m*bound + c` — always `<`, whatever `G` was (`loop_induction_variable_elimination.rs:171`). -/
def runElim (j0 stepJ boundJ : Int) : Nat → Int → Int → List Int → Option (List Int × Int)
  | 0, _, _, _ => none
  | fuel + 1, j, last, acc =>
    if j < boundJ then runElim j0 stepJ boundJ fuel (addT j stepJ) j (acc ++ [last])
    else some (acc, last)

/-- The loop after strength reduction only: guard still on `i`, `j` advanced by `step*m`. -/
def runStrength (L : ObsLoop) (stepJ : Int) : Nat → Int → Int → Int → List Int → Option (List Int × Int)
  | 0, _, _, _, _ => none
  | fuel + 1, i, j, last, acc =>
    if L.g.holds i L.bound then runStrength L stepJ fuel (addT i L.step) (addT j stepJ) j (acc ++ [last])
    else some (acc, last)

def toRes : Option (List Int × Int) → LoopRes
  | some (p, r) => .out p r
  | none => .fuel

/-- What `loop_optimizations::optimize_function` makes of the loop, executed on the target. -/
def runOptimised (L : ObsLoop) (fuel : Nat) : LoopRes :=
  match mergeMul L.step L.m with
  | .panic => .panic
  | .nofold => .panic
  | .val stepJ =>
    -- IV elimination needs exactly one derived variable and, since `fix:` d2fa066, a positive literal multiplier
    if L.singleDerived ∧ 0 < L.m then
      -- prefix: `_t = m * i0; j0 = c + _t; _t' = m * bound; b' = c + _t'`
      let j0 := addT L.c (mulT L.m L.i0)
      let bJ := addT L.c (mulT L.m L.bound)
      toRes (runElim j0 stepJ bJ fuel j0 0 [])
    else
      -- both `t = i*m` and `j = t + c` become general induction variables
      let j0 := addT L.c (mulT L.m L.i0)
      toRes (runStrength L stepJ fuel L.i0 j0 0 [])

def runOriginal (L : ObsLoop) (fuel : Nat) : LoopRes := toRes (runOrig L fuel L.i0 0 [])

/-! ## Loops with several basic induction variables and strength reduction of all derived ones

```
while (v_0 = init_0, …, v_{k-1} = init_{k-1}) {
  cc = v_gi (invert G) bound; if cc { break 0 }
  print(v_gi)
  for each derived d = (base, m, c):   t = v_base * m; d = t + c   (or the one-statement forms); print(d)
  v_t' = v_t + step_t
}
```
`loop_strength_reduction.rs:38-69` replaces every derived variable by a new loop variable whose
initial value is `m * init(base) + c` for its ASSOCIATED base variable (`basic_induction_variable_map
.get(&derived.base_name)`) and whose stride is `step(base) * m`. -/

structure Derived where
  base : Nat
  m : Int
  c : Int
  deriving Repr, DecidableEq

structure MultiLoop where
  ivs : List (Int × Int)      -- (initial value, stride) of each basic induction variable
  gi : Nat                    -- index of the guarded one
  g : Guard
  bound : Int
  ds : List Derived
  deriving Repr

/-- `d` as the unoptimised body computes it from the current value `i` of its base. -/
def derivedOf (m c i : Int) : Int :=
  if c = 0 then mulT i m else if m = 1 then addT i c else addT (mulT i m) c

/-- value of basic induction variable `b` at iteration `k` -/
def ivVal (ivs : List (Int × Int)) (b k : Nat) : Int :=
  match ivs[b]? with
  | some (i0, st) => iterW i0 st k
  | none => 0

def derivedVal (ivs : List (Int × Int)) (d : Derived) (k : Nat) : Int :=
  derivedOf d.m d.c (ivVal ivs d.base k)

/-- initial value and stride of the loop variable that replaces `d` (prefix statements
`_t = m * init(base); init' = c + _t`, stride merged at compile time with wrap-around). -/
def srParams (ivs : List (Int × Int)) (d : Derived) : Option (Int × Int) :=
  (ivs[d.base]?).map fun p => (addT d.c (mulT d.m p.1), wrap32 (p.2 * d.m))

def srVal (ivs : List (Int × Int)) (d : Derived) (k : Nat) : Int :=
  match srParams ivs d with
  | some (j0, sj) => iterW j0 sj k
  | none => 0

/-- printed trace of the loop, parameterised by how derived values are obtained -/
def runMulti (val : Derived → Nat → Int) (L : MultiLoop) : Nat → Nat → List Int → Option (List Int)
  | 0, _, _ => none
  | fuel + 1, k, acc =>
    if L.g.holds (ivVal L.ivs L.gi k) L.bound then
      runMulti val L fuel (k + 1) (acc ++ [ivVal L.ivs L.gi k] ++ L.ds.map (fun d => val d k))
    else some acc

def runMultiOrig (L : MultiLoop) (fuel : Nat) : Option (List Int) := runMulti (derivedVal L.ivs) L fuel 0 []
def runMultiOpt (L : MultiLoop) (fuel : Nat) : Option (List Int) := runMulti (srVal L.ivs) L fuel 0 []

/-! ## Dead-code elimination on straight-line code (`dead_code_elimination.rs:90-255`)

Statements: a `Binary` (may trap for `/`, `%`) or a call with an observable effect (`print`).
`optimize_stmts` walks the block backwards with a growing set of used names; a `Binary` is dropped
iff its name is not in the set and its operator is neither DIV nor MOD (…:101-112); calls are
always kept (…:122-134). -/

inductive SStmt where
  | bin (x : Nat) (op : Op) (a b : Operand)
  | print (a : Operand)
  deriving Repr, DecidableEq

def Operand.vars : Operand → List Nat
  | .lit _ => []
  | .var x => [x]

def update (ρ : Nat → Int) (x : Nat) (v : Int) : Nat → Int := fun y => if y = x then v else ρ y

/-- Target semantics of a block: printed values, and the final environment (`none` = trapped). -/
def execS : List SStmt → (Nat → Int) → List Int × Option (Nat → Int)
  | [], ρ => ([], some ρ)
  | .bin x op a b :: r, ρ =>
    match evalTarget op (a.eval ρ) (b.eval ρ) with
    | none => ([], none)
    | some v => execS r (update ρ x v)
  | .print a :: r, ρ =>
    let res := execS r ρ
    (a.eval ρ :: res.1, res.2)

/-- `optimize_stmts(stmts, set)`: returns the kept statements and the used-name set at block entry. -/
def dce : List SStmt → List Nat → List SStmt × List Nat
  | [], live => ([], live)
  | .bin x op a b :: r, live =>
    let (r', l) := dce r live
    if x ∉ l ∧ op ≠ .div ∧ op ≠ .mod then (r', l)
    else (.bin x op a b :: r', a.vars ++ b.vars ++ l)
  | .print a :: r, live =>
    let (r', l) := dce r live
    (.print a :: r', a.vars ++ l)

/-! ## Loop-invariant code motion on the `Binary` statements of a loop body
(`loop_invariant_code_motion.rs:19-126`, after `fix:` 5a00c22: DIV and MOD are never hoisted) -/

def Operand.invariant (variant : List Nat) : Operand → Bool
  | .lit _ => true
  | .var x => !variant.contains x

/-- returns (hoisted statements, statements kept in the loop, names that vary with the loop) -/
def licm : List SStmt → List Nat → List SStmt × List SStmt × List Nat
  | [], variant => ([], [], variant)
  | .bin x op a b :: r, variant =>
    if op ≠ .div ∧ op ≠ .mod ∧ a.invariant variant = true ∧ b.invariant variant = true then
      let (h, k, v) := licm r variant
      (.bin x op a b :: h, k, v)
    else
      let (h, k, v) := licm r (x :: variant)
      (h, .bin x op a b :: k, v)
  | .print a :: r, variant =>
    let (h, k, v) := licm r variant
    (h, .print a :: k, v)

def noTrapStmt : SStmt → Bool
  | .bin _ op _ _ => op ≠ .div ∧ op ≠ .mod
  | .print _ => false

/-! ## Local value numbering (`local_value_numbering.rs:6-177`)

Blocks of `Binary` / call (`print`) / `Break` statements, and `SingleIf` whose body is such a block
(the shape of a loop body after the tail-recursion rewrite: `t1 = e; c = t1 > n; if c { t2 = e; break t2 }`).
`variable_cx` (renaming of deleted names) and `binded_value_cx` (available values) are association
lists; entering a nested block copies them, leaving it discards the copy (`push_scope`/`pop_scope`). -/

inductive Simple where
  | bin (x : Nat) (op : Op) (a b : Operand)
  | print (a : Operand)
  | brk (a : Operand)
  deriving Repr, DecidableEq

inductive LStmt where
  | s (st : Simple)
  | sif (c : Operand) (inv : Bool) (body : List Simple)
  /-- `IfElse` with statement-block branches and final assignments `(name, e1, e2)` -/
  | ife (c : Operand) (s1 s2 : List Simple) (fas : List (Nat × Operand × Operand))
  deriving Repr, DecidableEq

inductive Res where
  | trap
  | brk (v : Int)
  | next (ρ : Nat → Int)

def execSimple : List Simple → (Nat → Int) → List Int × Res
  | [], ρ => ([], .next ρ)
  | .bin x op a b :: r, ρ =>
    match evalTarget op (a.eval ρ) (b.eval ρ) with
    | none => ([], .trap)
    | some v => execSimple r (update ρ x v)
  | .print a :: r, ρ => let res := execSimple r ρ; (a.eval ρ :: res.1, res.2)
  | .brk a :: _, ρ => ([], .brk (a.eval ρ))

/-- simultaneous binding of the final-assignment names -/
def assignAll (ρ : Nat → Int) : List (Nat × Int) → (Nat → Int)
  | [] => ρ
  | (x, v) :: r => assignAll (update ρ x v) r

def execL : List LStmt → (Nat → Int) → List Int × Res
  | [], ρ => ([], .next ρ)
  | .ife c s1 s2 fas :: r, ρ =>
    if c.eval ρ ≠ 0 then
      match execSimple s1 ρ with
      | (t, .next ρ') =>
        let res := execL r (assignAll ρ' (fas.map fun fa => (fa.1, fa.2.1.eval ρ'))); (t ++ res.1, res.2)
      | (t, other) => (t, other)
    else
      match execSimple s2 ρ with
      | (t, .next ρ') =>
        let res := execL r (assignAll ρ' (fas.map fun fa => (fa.1, fa.2.2.eval ρ'))); (t ++ res.1, res.2)
      | (t, other) => (t, other)
  | .s st :: r, ρ =>
    match execSimple [st] ρ with
    | (t, .next ρ') => let res := execL r ρ'; (t ++ res.1, res.2)
    | (t, other) => (t, other)
  | .sif c inv body :: r, ρ =>
    if (decide (c.eval ρ ≠ 0) != inv) then
      match execSimple body ρ with
      | (t, .next ρ') => let res := execL r ρ'; (t ++ res.1, res.2)
      | (t, other) => (t, other)
    else execL r ρ

abbrev Key := Op × Operand × Operand

structure Cx where
  ren : List (Nat × Nat)
  avail : List (Key × Nat)
  deriving Repr

def rn (ren : List (Nat × Nat)) (x : Nat) : Nat := (ren.lookup x).getD x

/-- `optimize_expr` -/
def rnO (ren : List (Nat × Nat)) : Operand → Operand
  | .lit n => .lit n
  | .var x => .var (rn ren x)

/-- one statement of `optimize_stmt`; `none` = the statement is deleted -/
def lvn1 (st : Simple) (cx : Cx) : Option Simple × Cx :=
  match st with
  | .bin x op a b =>
    let a' := rnO cx.ren a
    let b' := rnO cx.ren b
    match cx.avail.lookup (op, a', b') with
    | some n => (none, { cx with ren := (x, (cx.ren.lookup x).getD n) :: cx.ren })   -- `lvn_bind_var`
    | none => (some (.bin x op a' b'), { cx with avail := ((op, a', b'), x) :: cx.avail })
  | .print a => (some (.print (rnO cx.ren a)), cx)
  | .brk a => (some (.brk (rnO cx.ren a)), cx)     -- the consuming position the Break arm rewrites

def lvnSimple : List Simple → Cx → List Simple × Cx
  | [], cx => ([], cx)
  | st :: r, cx =>
    let (o, cx1) := lvn1 st cx
    let (r', cx2) := lvnSimple r cx1
    (match o with | some st' => st' :: r' | none => r', cx2)

def lvnL : List LStmt → Cx → List LStmt
  | [], _ => []
  | .s st :: r, cx =>
    let (o, cx1) := lvn1 st cx
    match o with
    | some st' => .s st' :: lvnL r cx1
    | none => lvnL r cx1
  | .sif c inv body :: r, cx => .sif (rnO cx.ren c) inv (lvnSimple body cx).1 :: lvnL r cx
  | .ife c s1 s2 fas :: r, cx =>
    let r1 := lvnSimple s1 cx
    let r2 := lvnSimple s2 cx
    .ife (rnO cx.ren c) r1.1 r2.1
      (fas.map fun fa => (fa.1, rnO r1.2.ren fa.2.1, rnO r2.2.ren fa.2.2)) :: lvnL r cx

/-- `lvnL` together with the contexts at the end of the block (needed for the loop values of a
`While`, which are rewritten after the body inside the same scope) -/
def lvnLc : List LStmt → Cx → List LStmt × Cx
  | [], cx => ([], cx)
  | .s st :: r, cx =>
    let (o, cx1) := lvn1 st cx
    let (r', cx2) := lvnLc r cx1
    (match o with | some st' => .s st' :: r' | none => r', cx2)
  | .sif c inv body :: r, cx =>
    let (r', cx2) := lvnLc r cx
    (.sif (rnO cx.ren c) inv (lvnSimple body cx).1 :: r', cx2)
  | .ife c s1 s2 fas :: r, cx =>
    let r1 := lvnSimple s1 cx
    let r2 := lvnSimple s2 cx
    let (r', cx2) := lvnLc r cx
    (.ife (rnO cx.ren c) r1.1 r2.1 (fas.map fun fa => (fa.1, rnO r1.2.ren fa.2.1, rnO r2.2.ren fa.2.2)) :: r', cx2)

/-- `While`: loop variables `(name, initial value, loop value)`, a body, fuel-indexed iteration -/
structure Loop where
  lvs : List (Nat × Operand × Operand)
  body : List LStmt
  deriving Repr

def iterLoop (lvs : List (Nat × Operand × Operand)) (body : List LStmt) : Nat → (Nat → Int) → Option (List Int × Res)
  | 0, _ => none
  | fuel + 1, ρ =>
    match execL body ρ with
    | (t, .next ρ') =>
      (iterLoop lvs body fuel (assignAll ρ' (lvs.map fun lv => (lv.1, lv.2.2.eval ρ')))).map fun r => (t ++ r.1, r.2)
    | (t, other) => some (t, other)

/-- runs the loop from environment `ρ`; the result is a trap or the break value (`none` = out of fuel) -/
def execLoop (W : Loop) (fuel : Nat) (ρ : Nat → Int) : Option (List Int × Res) :=
  iterLoop W.lvs W.body fuel (assignAll ρ (W.lvs.map fun lv => (lv.1, lv.2.1.eval ρ)))

/-- the `Statement::While` arm of LVN: initial values through the outer context, body in a pushed
scope, loop values through the context at the end of the body -/
def lvnLoop (W : Loop) (cx : Cx) : Loop :=
  let r := lvnLc W.body cx
  { lvs := W.lvs.map fun lv => (lv.1, rnO cx.ren lv.2.1, rnO r.2.ren lv.2.2), body := r.1 }

/-! `stmt_uses_basic_induction_var` (`loop_induction_variable_elimination.rs:19-97`) on the fragment:
does a statement read the variable `x`? For a nested `While` the INITIAL values of its loop
variables count (they are evaluated in the enclosing body once per outer iteration), as do the
loop values and the body (…:69-74). IV elimination may drop the counter only if nothing reads it. -/

def Operand.uses (x : Nat) : Operand → Bool
  | .var y => y == x
  | .lit _ => false

def usesSimple (x : Nat) : Simple → Bool
  | .bin _ _ a b => a.uses x || b.uses x
  | .print a => a.uses x
  | .brk a => a.uses x

def usesL (x : Nat) : LStmt → Bool
  | .s st => usesSimple x st
  | .sif c _ body => c.uses x || body.any (usesSimple x)
  | .ife c s1 s2 fas =>
    c.uses x || s1.any (usesSimple x) || s2.any (usesSimple x) || fas.any (fun fa => fa.2.1.uses x || fa.2.2.uses x)

def usesLoop (x : Nat) (W : Loop) : Bool :=
  W.lvs.any (fun lv => lv.2.1.uses x || lv.2.2.uses x) || W.body.any (usesL x)

/-- the faulty variant (seeded fault class C02d): initial values of the nested loop ignored -/
def usesLoopNoInit (x : Nat) (W : Loop) : Bool :=
  W.lvs.any (fun lv => lv.2.2.uses x) || W.body.any (usesL x)

/-- SSA discipline of a block relative to the names in scope: every defined name is new, every
used name is in scope. -/
def wfSimple : List Simple → List Nat → Bool
  | [], _ => true
  | .bin x _ a b :: r, seen =>
    !seen.contains x && a.vars.all seen.contains && b.vars.all seen.contains && wfSimple r (x :: seen)
  | .print a :: r, seen => a.vars.all seen.contains && wfSimple r seen
  | .brk a :: r, seen => a.vars.all seen.contains && wfSimple r seen

def defsSimple : List Simple → List Nat
  | [] => []
  | .bin x _ _ _ :: r => x :: defsSimple r
  | _ :: r => defsSimple r

/-! ## Common-subexpression elimination across the two branches of an if/else
(`common_subexpression_elimination.rs:13-85`, after `fix:` 934d4e6: DIV and MOD never enter the set)

The values computed by the top-level `Binary` statements of both branches are intersected; one
statement per common value is placed in front of the `IfElse` (fresh names). -/

def keysOf : List Simple → List Key
  | [] => []
  | .bin _ op a b :: r => if op ≠ .div ∧ op ≠ .mod then (op, a, b) :: keysOf r else keysOf r
  | _ :: r => keysOf r

def cseCommon (s1 s2 : List Simple) : List Key := (keysOf s1).filter fun k => (keysOf s2).contains k

/-- the statements placed in front of the if/else (names `fresh, fresh+1, …`) -/
def cseHoisted (ks : List Key) (fresh : Nat) : List Simple :=
  match ks with
  | [] => []
  | (op, a, b) :: r => .bin fresh op a b :: cseHoisted r (fresh + 1)

/-! ## Inlining of a call (`inlining.rs:177-438`)

Callee: parameters `ps`, a block of `Binary` / call (`print`) statements, a return operand.
`perform_inline_rewrite_on_function_stmt` replaces `c = f(args)` by the callee's body in which
every defined name `x` is replaced by the fresh name `mg x` (`bind_with_mangled_name`: temporary
prefix + name), every parameter by the corresponding argument (`cx.checked_bind(param, arg)`), and
appends `c = ret + 0`. -/

structure Callee where
  ps : List Nat
  body : List Simple
  ret : Operand
  deriving Repr

abbrev ICx := List (Nat × Operand)

/-- `inline_rewrite_expr` -/
def irw (cx : ICx) : Operand → Operand
  | .lit n => .lit n
  | .var x => (cx.lookup x).getD (.var x)

/-- `inline_rewrite_stmts` on the fragment; the name is bound before the operands are rewritten,
as in the Rust struct-literal field order. -/
def inlineBody (mg : Nat → Nat) : List Simple → ICx → List Simple × ICx
  | [], cx => ([], cx)
  | .bin x op a b :: r, cx =>
    let cx1 := (x, .var (mg x)) :: cx
    let (r', cx2) := inlineBody mg r cx1
    (.bin (mg x) op (irw cx1 a) (irw cx1 b) :: r', cx2)
  | .print a :: r, cx => let (r', cx2) := inlineBody mg r cx; (.print (irw cx a) :: r', cx2)
  | .brk a :: r, cx => let (r', cx2) := inlineBody mg r cx; (.brk (irw cx a) :: r', cx2)

/-- the statements that replace `c = f(args)` -/
def inlineCall (mg : Nat → Nat) (f : Callee) (args : List Operand) (c : Nat) : List Simple :=
  let (body, cx) := inlineBody mg f.body (f.ps.zip args)
  body ++ [.bin c .add (irw cx f.ret) (.lit 0)]

/-- environment of the callee at entry: parameters bound to the argument values -/
def bindParams : List Nat → List Int → (Nat → Int)
  | p :: ps, v :: vs => update (bindParams ps vs) p v
  | _, _ => fun _ => 0

/-- reference semantics of `c = f(args)` in environment `ρ` -/
def execCall (f : Callee) (args : List Operand) (c : Nat) (ρ : Nat → Int) : List Int × Res :=
  match execSimple f.body (bindParams f.ps (args.map (·.eval ρ))) with
  | (t, .next σ) => (t, .next (update ρ c (f.ret.eval σ)))
  | (t, other) => (t, other)

def noBrk : List Simple → Bool
  | [] => true
  | .brk _ :: _ => false
  | _ :: r => noBrk r

/-! ## LICM over every statement kind (`loop_invariant_code_motion.rs:19-126`)

One rule for IsPointer / Not / Binary / IndexedAccess / Cast / StructInit / ClosureInit: hoist iff every
operand is loop-invariant (Binary additionally: not DIV/MOD); the defined name becomes loop-variant
otherwise. LateInit declarations/assignments, calls, IfElse, SingleIf, Break, While are never hoisted;
the names they define (late-init name, return collector, final-assignment names, break collector)
become loop-variant. -/

inductive LS where
  /-- a value-defining statement: name, names it reads, `mayTrap` (Binary DIV/MOD) -/
  | pure (x : Nat) (reads : List Nat) (mayTrap : Bool)
  /-- never hoisted; defines these names (late init, call collector, final assignments, break collector) -/
  | stay (defs : List Nat)
  deriving Repr, DecidableEq

def licmF : List LS → List Nat → List LS × List LS × List Nat
  | [], variant => ([], [], variant)
  | .pure x reads trap :: r, variant =>
    if !trap && reads.all (fun v => !variant.contains v) then
      let (h, k, v) := licmF r variant
      (.pure x reads trap :: h, k, v)
    else
      let (h, k, v) := licmF r (x :: variant)
      (h, .pure x reads trap :: k, v)
  | .stay defs :: r, variant =>
    let (h, k, v) := licmF r (defs ++ variant)
    (h, .stay defs :: k, v)

/-! CSE over every value kind it tracks (`BindedValue`: Binary, IndexedAccess, IsPointer, Not) -/

inductive CKey where
  | b (k : Key)
  /-- IndexedAccess (kind 0, index), IsPointer (kind 1), Not (kind 2) of an operand -/
  | u (kind : Nat) (a : Operand) (idx : Nat)
  deriving DecidableEq, Repr

inductive CS where
  | bin (op : Op) (a b : Operand)
  | un (kind : Nat) (a : Operand) (idx : Nat)
  | eff
  deriving DecidableEq, Repr

def keysOfC : List CS → List CKey
  | [] => []
  | .bin op a b :: r => if op ≠ .div ∧ op ≠ .mod then .b (op, a, b) :: keysOfC r else keysOfC r
  | .un k a i :: r => .u k a i :: keysOfC r
  | .eff :: r => keysOfC r

def cseCommonC (s1 s2 : List CS) : List CKey := (keysOfC s1).filter fun k => (keysOfC s2).contains k

/-! ## Closed-form ("algebraic") loop elimination (`loop_algebraic_optimization.rs:75-160`)

The loop is replaced by straight-line code only if (0) start, stride and bound of the guarded counter
are literals, (1) it has NO loop variable that is not a basic induction variable, (2) NO derived
induction variable, (3) NO statement left in the body, and the trip count is known. -/

inductive BrkVal where
  | counter
  | giv (k : Nat)          -- a general basic induction variable (index into `givs`)
  | lit (v : Int)
  | outer (v : Int)        -- a name defined before the loop (its value)
  | inner                  -- a non-induction loop variable or a name defined in the body
  deriving Repr, DecidableEq

structure AlgLoop where
  g : Guard
  i0 : Int
  step : Int
  bound : Int
  literals : Bool          -- start, stride and bound are literals
  nonIv : Nat              -- number of loop variables that are not basic induction variables
  derived : Nat
  stmts : Nat
  givs : List (Int × Int)  -- general induction variables: (initial value, stride)
  brk : Option BrkVal
  deriving Repr

inductive AlgOut where
  | declined
  | removed                -- no break collector: the loop disappears
  | value (v : Int)        -- the break collector is bound to this value
  | readsInner             -- the emitted statement reads a name that only existed inside the loop
  deriving Repr, DecidableEq

/-- the emitted code, with the decline conditions selected by the three flags (all `true` = the code) -/
def algOptWith (c1 c2 c3 : Bool) (A : AlgLoop) : AlgOut :=
  if !A.literals || (c1 && A.nonIv != 0) || (c2 && A.derived != 0) || (c3 && A.stmts != 0) then .declined
  else match tripCount A.g A.i0 A.step A.bound with
    | .count n =>
      match A.brk with
      | none => .removed
      | some .counter => .value (A.i0 + A.step * n)
      | some (.lit v) => .value v
      | some (.outer v) => .value v
      | some (.giv k) =>
        match A.givs[k]? with
        | some (init, st) => .value (addT init (mulT st n))
        | none => .readsInner
      | some .inner => .readsInner
    | _ => .declined

def algOpt (A : AlgLoop) : AlgOut := algOptWith true true true A

/-- what a well-formed loop can break with: an inner name exists only if the loop has a non-induction
loop variable, a derived variable or a body statement defining it; a general IV index is in range -/
def AlgLoop.wf (A : AlgLoop) : Prop :=
  (A.brk = some .inner → A.nonIv ≠ 0 ∨ A.derived ≠ 0 ∨ A.stmts ≠ 0) ∧
  (∀ k, A.brk = some (.giv k) → k < A.givs.length)

/-- the value the break expression has when the loop is left after `n` iterations -/
def AlgLoop.brkAt (A : AlgLoop) (n : Nat) : Option Int :=
  match A.brk with
  | none => none
  | some .counter => some (iterW A.i0 A.step n)
  | some (.lit v) => some v
  | some (.outer v) => some v
  | some (.giv k) => (A.givs[k]?).map fun p => iterW p.1 p.2 n
  | some .inner => none

/-! ## The use collector of DCE (`dead_code_elimination.rs:10-88`), one clause per syntactic position

`collect_use_from_stmt` feeds (a) statement deletion, (b) which loop variables the `While` arm keeps
(`…:176-193`) and (c) `useful_used_set` of `loop_optimizations::expand_optimizable_while_loop`. -/

inductive US where
  | bin (x : Nat) (a b : Operand)                       -- operands
  | un (x : Nat) (a : Operand)                          -- Not / IsPointer / Cast / LateInitAssignment source
  | idx (x : Nat) (p : Operand)                         -- IndexedAccess: the pointer
  | strct (x : Nat) (fields : List Operand)             -- StructInit: every field
  | clo (x : Nat) (ctx : Operand)                       -- ClosureInit: the context
  | call (callee : Option Nat) (args : List Operand) (ret : Option Nat)   -- variable callee + arguments
  | brk (a : Operand)                                   -- break value
  deriving Repr, DecidableEq

/-- names read by one statement; `calleeCounts = false` is the collector with the callee clause dropped -/
def US.uses (calleeCounts : Bool) : US → List Nat
  | .bin _ a b => a.vars ++ b.vars
  | .un _ a => a.vars
  | .idx _ p => p.vars
  | .strct _ fs => fs.flatMap Operand.vars
  | .clo _ c => c.vars
  | .call callee args _ => (if calleeCounts then callee.toList else []) ++ args.flatMap Operand.vars
  | .brk a => a.vars

def US.defn : US → Option Nat
  | .bin x _ _ | .un x _ | .idx x _ | .strct x _ | .clo x _ => some x
  | .call _ _ ret => ret
  | .brk _ => none

/-- statements that are kept whatever their result (calls: effects; Break) -/
def US.mustStay : US → Bool
  | .call _ _ _ | .brk _ => true
  | _ => false

def US.kept (s : US) (l : List Nat) : Bool :=
  s.mustStay || (match s.defn with | some x => l.contains x | none => true)

/-- backward DCE of a block: (kept statements, names used at entry) -/
def dceU (cc : Bool) : List US → List Nat → List US × List Nat
  | [], live => ([], live)
  | s :: r, live =>
    if s.kept (dceU cc r live).2 then (s :: (dceU cc r live).1, s.uses cc ++ (dceU cc r live).2)
    else dceU cc r live

/-- the `While` arm (`…:176-193`): variables not mentioned anywhere inside the loop go first; the body
is then cleaned with the loop values of the remaining variables (and whatever is used after the
loop) as live names; a variable survives iff it is live at the loop entry after that. -/
def loopVarsStage1 (cc : Bool) (lvs : List (Nat × Operand × Operand)) (body : List US) : List (Nat × Operand × Operand) :=
  let used := lvs.flatMap (fun lv => lv.2.1.vars ++ lv.2.2.vars) ++ body.flatMap (US.uses cc)
  lvs.filter fun lv => used.contains lv.1

def loopBodyDce (cc : Bool) (lvs : List (Nat × Operand × Operand)) (body : List US) (after : List Nat) : List US × List Nat :=
  dceU cc body (after ++ (loopVarsStage1 cc lvs body).flatMap fun lv => lv.2.2.vars)

def keptLoopVars (cc : Bool) (lvs : List (Nat × Operand × Operand)) (body : List US) (after : List Nat) : List Nat :=
  ((loopVarsStage1 cc lvs body).filter fun lv => (loopBodyDce cc lvs body after).2.contains lv.1).map (·.1)

/-! ## DCE through branches (`dead_code_elimination.rs:90-175`): blocks of statements, `SingleIf`
and `IfElse` (with final assignments) over statement blocks. The used-name set is threaded backwards
and shared by the two branches of an `IfElse` (the second branch sees the first one's uses). -/

def dceS : List Simple → List Nat → List Simple × List Nat
  | [], live => ([], live)
  | .bin x op a b :: r, live =>
    if !(dceS r live).2.contains x && op != .div && op != .mod then dceS r live
    else (.bin x op a b :: (dceS r live).1, a.vars ++ b.vars ++ (dceS r live).2)
  | .print a :: r, live => (.print a :: (dceS r live).1, a.vars ++ (dceS r live).2)
  | .brk a :: r, live => (.brk a :: (dceS r live).1, a.vars ++ (dceS r live).2)

def keptFas (fas : List (Nat × Operand × Operand)) (live : List Nat) : List (Nat × Operand × Operand) :=
  fas.filter fun fa => live.contains fa.1

def dceL : List LStmt → List Nat → List LStmt × List Nat
  | [], live => ([], live)
  | .s st :: r, live =>
    ((dceS [st] (dceL r live).2).1.map LStmt.s ++ (dceL r live).1, (dceS [st] (dceL r live).2).2)
  | .sif c inv body :: r, live =>
    let db := dceS body (dceL r live).2
    if db.1.isEmpty then ((dceL r live).1, db.2) else (.sif c inv db.1 :: (dceL r live).1, c.vars ++ db.2)
  | .ife c s1 s2 fas :: r, live =>
    let fas' := keptFas fas (dceL r live).2
    let l0 := fas'.flatMap (fun fa => fa.2.1.vars ++ fa.2.2.vars) ++ (dceL r live).2
    let d1 := dceS s1 l0
    let d2 := dceS s2 d1.2
    if d1.1.isEmpty && d2.1.isEmpty && fas'.isEmpty then ((dceL r live).1, d2.2)
    else (.ife c d1.1 d2.1 fas' :: (dceL r live).1, c.vars ++ d2.2)

/-! ## CCP's boolean shortcut for an if/else (`conditional_constant_propagation.rs:302-315`)

`if c { } else { } with r = (1, 0)` becomes `r := c`, with `(0, 1)` it becomes `r := c ^ 1` — only when
BOTH branches are empty and there is exactly one final assignment. -/

inductive IfShort where
  | bindCond      -- `value_cx.checked_bind(name, condition)`
  | xorCond       -- `let name = condition ^ 1`
  | keep
  deriving Repr, DecidableEq

/-- the decision, with the two emptiness conjuncts selectable (both `true` = the code) -/
def ifShortcutWith (needS1Empty needS2Empty : Bool) (s1Empty s2Empty : Bool) (fas : List (Operand × Operand)) : IfShort :=
  if (!needS1Empty || s1Empty) && (!needS2Empty || s2Empty) && fas.length == 1 then
    match fas with
    | [(.lit 1, .lit 0)] => .bindCond
    | [(.lit 0, .lit 1)] => .xorCond
    | _ => .keep
  else .keep

def ifShortcut (s1Empty s2Empty : Bool) (fas : List (Operand × Operand)) : IfShort :=
  ifShortcutWith true true s1Empty s2Empty fas

/-- does the `IfElse` statement disappear from the output of CCP (non-constant condition)? Either by the
shortcut, or because both branches are empty and every final assignment has equal sides (bound away). -/
def ccpIfGone (s1Empty s2Empty : Bool) (fas : List (Operand × Operand)) : Bool :=
  ifShortcut s1Empty s2Empty fas != .keep || (s1Empty && s2Empty && fas.all fun fa => fa.1 == fa.2)

end SamVerif.Opt
