import SamVerif.Model.Doc
/-!
# Model of the block-comment text normalisation `post_process_block_comment`
(`crates/samlang-parser/src/lexer.rs`, inside `lex_block_comment_opt`)

The body of a `/* .. */` / `/** .. */` token is split at `\n`; every line is `trim_start`ed; a continuation
line (index > 0) that then starts with `*` loses exactly ONE star and is trimmed, any other line is `trim_end`ed;
empty lines are dropped and the rest joined by one blank. (Own small model over `List Char`, independent
of builder-C05's byte-level `Model/Lexer.lean`; tied by protocol `ctext` against the real lexer.)
The printer's multi-line layout of a comment (`Document::multiline_comment`) writes every line as
indentation, ` * `, and words separated by one blank (`reflowLine`).
-/
namespace SamVerif.CommentText
open SamVerif.Doc (isWs splitNl)

abbrev Str := List Char

def trimStart (s : Str) : Str := s.dropWhile isWs
def trimEnd (s : Str) : Str := (s.reverse.dropWhile isWs).reverse
def trim (s : Str) : Str := trimEnd (trimStart s)

/-- A continuation line of the body (line index > 0; lexer.rs, the closure in `post_process_block_comment`). -/
def stripLine (line : Str) : Str :=
  match trimStart line with
  | '*' :: r => trim r
  | l => trimEnd l

def joinSp : List Str → Str
  | [] => []
  | [x] => x
  | x :: y :: rest => x ++ ' ' :: joinSp (y :: rest)

/-- The opener's own line (what follows `/*`): never star-stripped (since /repo fix of finding C09-F9). -/
def stripOpener (line : Str) : Str := trimEnd (trimStart line)

def postProcess (body : Str) : Str :=
  match splitNl body with
  | [] => []
  | first :: rest => joinSp ((stripOpener first :: rest.map stripLine).filter (fun l => !l.isEmpty))

/-- What the printer writes for one continuation line: indentation, ` * `, the words. -/
def reflowLine (indent : Nat) (ws : List Str) : Str :=
  List.replicate indent ' ' ++ [' ', '*', ' '] ++ joinSp ws

/-- A word of a comment: non-empty, no whitespace inside. -/
def Word (w : Str) : Prop := w ≠ [] ∧ ∀ c ∈ w, isWs c = false

end SamVerif.CommentText
