import SamVerif.Model.Doc
/-!
# Model of the block-comment text normalisation `post_process_block_comment`
(`crates/samlang-parser/src/lexer.rs`, inside `lex_block_comment_opt`)

The body of a `/* .. */` / `/** .. */` token is split at `\n`; every line is `trim_start`ed; if it then
starts with `*`, exactly ONE star is dropped and the rest trimmed, otherwise the line is `trim_end`ed;
empty lines are dropped and the rest joined by one blank. (Own small model over `List Char`, independent
of builder-C05's byte-level `Model/Lexer.lean`; tied by protocol `ctext` against the real lexer.)
The printer's multi-line layout of a comment (`Document::multiline_comment`) writes every line as
indentation, ` * `, and words separated by one blank (`reflowLine`).
-/
namespace SamVerif.CommentText
open SamVerif.Doc (isWs splitNl)

abbrev Str := List Char

def trimStart (s : Str) : Str := s.dropWhile isWs
def trimEnd (s : Str) : Str := (s.reverse.dropWhile isWs).reverse
def trim (s : Str) : Str := trimEnd (trimStart s)

/-- One line of the body (lexer.rs, the closure in `post_process_block_comment`). -/
def stripLine (line : Str) : Str :=
  match trimStart line with
  | '*' :: r => trim r
  | l => trimEnd l

def joinSp : List Str → Str
  | [] => []
  | [x] => x
  | x :: y :: rest => x ++ ' ' :: joinSp (y :: rest)

def postProcess (body : Str) : Str :=
  joinSp (((splitNl body).map stripLine).filter (fun l => !l.isEmpty))

/-- What the printer writes for one continuation line: indentation, ` * `, the words. -/
def reflowLine (indent : Nat) (ws : List Str) : Str :=
  List.replicate indent ' ' ++ [' ', '*', ' '] ++ joinSp ws

/-- A word of a comment: non-empty, no whitespace inside. -/
def Word (w : Str) : Prop := w ≠ [] ∧ ∀ c ∈ w, isWs c = false

end SamVerif.CommentText
