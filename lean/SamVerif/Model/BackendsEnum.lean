import SamVerif.Model.Backends
/-
C04 — run-time representation of enum values on the two back ends and the variant tests a `match`
compiles to.

* layout rule: `mir_generics_specialization.rs:597-630` (`Int31` for a payload-free variant; the
  first payload variant is `Unboxed` if it has exactly one field of a pointer-only type and no later
  variant has a payload — a second payload variant turns it back into `Boxed`; everything else is
  `Boxed`), pointer-only types: `type_permit_enum_boxed_optimization` (`:652-688`).
* variant test (`ConditionalDestructure`, `mir_generics_specialization.rs:101-262`):
  Boxed k : [IsPointer(subtype k) if the enum has Int31 variants;] `value[0] == 2k+1`
  Unboxed : IsPointer(payload type)
  Int31 k : `value == Int31Literal(k)` (printed `2k+1`)
* IsPointer: TypeScript `typeof v === 'object'` (`lir.rs:248-255`, the pointer type is ignored),
  WebAssembly `ref.test (ref $T)` (`wasm.rs:155-161`, the pointer type matters).
* values: TypeScript arrays `[2k+1, ...fields]` / the payload object itself / the number `2k+1`;
  WebAssembly structs of subtype k with the tag in field 0 / the payload reference / `ref.i31 k`.
Core Lean only.
-/
namespace SamVerif.Backends

inductive VRepr
  | int31
  | boxed (nfields : Nat)
  | unboxed
  deriving DecidableEq

/-- state of the layout loop: variants so far, `permit_unboxed_optimization`,
`already_unused_boxed_optimization` (index of the variant that is unboxed so far) -/
structure LState where
  acc : List VRepr
  permit : Bool
  pending : Option Nat

/-- one variant; a field type is `true` iff `type_permit_enum_boxed_optimization` holds for it -/
def layoutStep (s : LState) (types : List Bool) : LState :=
  if types.isEmpty then { s with acc := s.acc ++ [.int31] }
  else
    let acc1 := match s.pending with
      | some i => s.acc.set i (.boxed 1)
      | none => s.acc
    if s.permit ∧ types = [true] then
      { acc := acc1 ++ [.unboxed], permit := false, pending := some acc1.length }
    else { acc := acc1 ++ [.boxed types.length], permit := false, pending := none }

def layout (variants : List (List Bool)) : List VRepr :=
  (variants.foldl layoutStep ⟨[], true, none⟩).acc

def hasInt31 (L : List VRepr) : Bool := L.any (· == .int31)

/-- a value of the enum type -/
inductive EVal
  | tag (k : Nat)
  | box (k : Nat) (id : Nat) (fields : List JsV)
  | payload (k : Nat) (id : Nat) (content : List JsV)

def EVal.variant : EVal → Nat
  | .tag k => k
  | .box k _ _ => k
  | .payload k _ _ => k

/-- the value is built by the constructor of a variant with this representation -/
def ValidFor (L : List VRepr) : EVal → Prop
  | .tag k => L[k]? = some .int31
  | .box k _ fs => L[k]? = some (.boxed fs.length)
  | .payload k _ _ => L[k]? = some .unboxed

/-- TypeScript value -/
def tsRep : EVal → JsV
  | .tag k => .num (2 * k + 1)
  | .box k id fs => .arr id (.num (2 * k + 1) :: fs)
  | .payload _ id es => .arr id es

/-- WebAssembly value: an i31, or a heap object with its run-time type and (for enum structs) the
tag stored in field 0 -/
inductive WTy
  | sub (k : Nat)     -- the struct subtype of boxed variant k
  | other             -- any other heap type (the unboxed payload's type)
  deriving DecidableEq

inductive WVal
  | i31 (n : Int)
  | obj (ty : WTy) (id : Nat) (field0 : Int)

def wasmRepE : EVal → WVal
  | .tag k => .i31 (2 * k + 1)
  | .box k id _ => .obj (.sub k) id (2 * k + 1)
  | .payload _ id _ => .obj .other id 0

/-- `typeof v === 'object'` -/
def tsIsPointer : JsV → Bool
  | .arr _ _ => true
  | _ => false

/-- `v[0]` (`undefined` for a number: `none`) -/
def tsIndex0 : JsV → Option JsV
  | .arr _ (e :: _) => some e
  | _ => none

/-- the TypeScript test for variant `k` -/
def tsTest (L : List VRepr) (k : Nat) (v : JsV) : Bool :=
  match L[k]? with
  | some (.boxed _) =>
    (if hasInt31 L then tsIsPointer v else true) &&
      (match tsIndex0 v with
        | some t => looseEq t (.num (2 * k + 1))     -- int32 operands: printed with `==`
        | none => false)
  | some .unboxed => tsIsPointer v
  | some .int31 => tsRefEq v (.num (2 * k + 1))
  | none => false

/-- `ref.test (ref $T)` -/
def wasmRefTest (ty : WTy) : WVal → Bool
  | .obj t _ _ => t == ty
  | .i31 _ => false

/-- the WebAssembly test for variant `k`; reading field 0 of a non-struct would trap: `none` -/
def wasmTest (L : List VRepr) (k : Nat) (w : WVal) : Option Bool :=
  match L[k]? with
  | some (.boxed _) =>
    if hasInt31 L ∧ wasmRefTest (.sub k) w = false then some false
    else match w with
      | .obj (.sub _) _ f0 => some (f0 == 2 * k + 1)
      | _ => none
  | some .unboxed => some (wasmRefTest .other w)
  | some .int31 =>
    some (match w with
      | .i31 n => n == 2 * k + 1
      | _ => false)
  | none => some false

/-- a `match` tests the arms in the given order: index of the first arm that is taken -/
def firstArm (test : Nat → Bool) : List Nat → Option Nat
  | [] => none
  | k :: ks => if test k then some k else firstArm test ks

end SamVerif.Backends
