import SamVerif.Model.Heap
/-
Model of the language server's GC driver, `perform_gc_after_recheck_internal`
(`crates/samlang-services/src/gc.rs:274-295`), on top of the heap model:

    for m in changed_modules { heap.add_unmarked_module_reference(m) }
    while remaining_slice > 0 {
      if let Some(m) = heap.pop_unmarked_module_reference() {
        if let Some(module) = all_modules.get(&m) { mark_module(heap, module); remaining_slice -= 1 }
      } else { break }
    }
    heap.sweep(NUM_SWEEP_UNIT)

`mark_module` is abstracted to the list of handles it marks (`Module.marks`); the hash-order
dependent result of `pop` is an explicit choice list.
-/
namespace SamVerif.Gc
open SamVerif.Heap

structure Module where
  id : Nat              -- module reference
  marks : List Handle   -- the handles `mark_module` visits
  deriving Repr

def markAll (h : Heap) (ps : List Handle) : Heap := ps.foldl mark h

def findModule (all : List Module) (m : Nat) : Option Module := all.find? (fun md => md.id == m)

/-- The marking loop. `slice` = `remaining_slice`; `choices` = successive results of `pop`
(`none` = the set was empty → `break`). A choice that is not in the set ends the loop. -/
def markLoop (all : List Module) : List (Option Nat) → Nat → Heap → Heap
  | [], _, h => h
  | c :: cs, slice, h =>
    if slice = 0 then h else
    match c with
    | none => h
    | some m =>
      match popUnmarked h (some m) with
      | none => h
      | some h' =>
        match findModule all m with
        | some md => markLoop all cs (slice - 1) (markAll h' md.marks)
        | none => markLoop all cs slice h'

def addAll (h : Heap) (changed : List Nat) : Heap := changed.foldl addUnmarked h

/-- One `perform_gc_after_recheck_internal`. -/
def gcStep (h : Heap) (all : List Module) (changed : List Nat) (slice work : Nat)
    (choices : List (Option Nat)) : Heap :=
  sweep (markLoop all choices slice (addAll h changed)) work

/-- `NUM_MODULE_MARKED_PER_SLICE`, `NUM_SWEEP_UNIT` (`gc.rs:271-272`) -/
def numModuleMarkedPerSlice : Nat := 100
def numSweepUnit : Nat := 10000

end SamVerif.Gc
