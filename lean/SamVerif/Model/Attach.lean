import SamVerif.Model.CommentQueue
/-!
# Where the comments in front of an expression are attached

`parse_expression_with_additional_preceding_comments` (source_parser.rs, `expression_parser`) receives
the comments collected at the preceding `=` / `,` / `->` token. Until /repo commit "fix: format was not
idempotent for a comment before `=`, `,` or `->` ..." it put them on the *outermost* node of the parsed
expression (`attachOuter`); now it walks down the left spine (`leftmost_expression_common_mut`:
field access / method access -> object, call -> callee, binary -> e1) and puts them on the
sub-expression that owns the first token (`attachLeft`). The printer prints a node's comments in front
of the node's text (`create_opt_preceding_comment_doc`), an operator's comments in front of the
operator.

`CE` is the comment skeleton of an expression: `leaf` = any expression that starts with a token of its
own (literal, identifier, unary, tuple, if, match, lambda, block), `post` = field/method access or
call on an object/callee, `bin` = binary expression with its operator comments.
-/
namespace SamVerif.Attach
open SamVerif.CommentQueue (Comment)

inductive CE where
  | leaf (cs : List Comment) (a : Nat)
  | post (cs : List Comment) (e : CE) (p : Nat)
  | bin (cs : List Comment) (l : CE) (ocs : List Comment) (o : Nat) (r : CE)
  deriving Repr, DecidableEq, Inhabited

/-- What the printer emits, comments and tokens in order. -/
inductive Item where
  | comment (c : Comment)
  | tok (t : Nat)
  deriving Repr, DecidableEq, Inhabited

def printCE : CE → List Item
  | .leaf cs a => cs.map .comment ++ [.tok a]
  | .post cs e p => cs.map .comment ++ printCE e ++ [.tok p]
  | .bin cs l ocs o r => cs.map .comment ++ printCE l ++ ocs.map .comment ++ [.tok o] ++ printCE r

/-- Old behaviour: prepend to the outermost node. -/
def attachOuter (extra : List Comment) : CE → CE
  | .leaf cs a => .leaf (extra ++ cs) a
  | .post cs e p => .post (extra ++ cs) e p
  | .bin cs l ocs o r => .bin (extra ++ cs) l ocs o r

/-- New behaviour: prepend to the node owning the first token. -/
def attachLeft (extra : List Comment) : CE → CE
  | .leaf cs a => .leaf (extra ++ cs) a
  | .post cs e p => .post cs (attachLeft extra e) p
  | .bin cs l ocs o r => .bin cs (attachLeft extra l) ocs o r

/-- Normal form = what parsing a text produces: only nodes owning their first token (and operators)
carry comments. -/
def NF : CE → Prop
  | .leaf _ _ => True
  | .post cs e _ => cs = [] ∧ NF e
  | .bin cs l _ _ r => cs = [] ∧ NF l ∧ NF r

/-- The tree obtained by reading the printed text back: every comment in front of a token belongs to
the node owning that token. -/
def normalize : CE → CE
  | .leaf cs a => .leaf cs a
  | .post cs e p => .post [] (attachLeft cs (normalize e)) p
  | .bin cs l ocs o r => .bin [] (attachLeft cs (normalize l)) ocs o (normalize r)

/-- `utils::keep_parenthesis_comments` on the skeleton (since /repo commit a2afe54): the comments
after `(` go in front of, those before `)` behind the comments of the node owning the first token. -/
def wrapLeft (start stop : List Comment) : CE → CE
  | .leaf cs a => .leaf (start ++ cs ++ stop) a
  | .post cs e p => .post cs (wrapLeft start stop e) p
  | .bin cs l ocs o r => .bin cs (wrapLeft start stop l) ocs o r

/-- Comments of the node owning the first token, and everything printed after them. -/
def lead : CE → List Comment
  | .leaf cs _ => cs
  | .post _ e _ => lead e
  | .bin _ l _ _ _ => lead l

def rest : CE → List Item
  | .leaf _ a => [.tok a]
  | .post _ e p => rest e ++ [.tok p]
  | .bin _ l ocs o r => rest l ++ ocs.map .comment ++ [.tok o] ++ printCE r

end SamVerif.Attach
