import SamVerif.Model.ErrorSet
/-! Model of `ErrorSet::pretty_print_error_messages_in_module_name_order`
(`crates/samlang-errors/src/lib.rs`, used by `compile_sources`, `crates/samlang-compiler/src/lib.rs:70`;
/repo cc1fd59): the in-order sequence of the set, stably sorted by the module's *name*
(`sort_by_cached_key` is stable).  A stable sort by a key is the concatenation, in key order, of the
subsequences with that key. -/
namespace SamVerif.ErrorSet

/-- `names`: the module handles in module-name order (a property of the sources alone). -/
def renderByName (names : List Nat) (ids : Nat → Nat) (pm : List (List Err)) : List Err :=
  names.flatMap fun m => (render ids pm).filter (fun e => e.modl == m)

end SamVerif.ErrorSet
