import SamVerif.Generated.ParserLoops
/-
Progress skeletons of five loops of `crates/samlang-parser/src/source_parser.rs` as transition
systems over the remaining token list (`[]` = the parser sits at EOF: `peek()` then keeps answering
`EndOfFile` and `consume()` cannot drop anything, which is exactly why every loop must leave at EOF).

* `parse_module` (281-303): 'outer/inner recovery loop                      → `toplevelLoop`
* `parse_comma_separated_list_with_end_token_with_start` (180-199)          → `commaLoop`
* `expression_parser::parse_block` (1650-1764): statement loop              → `blockLoop`
* `toplevel_parser::parse_class` member loops (381-385, 421-425)            → `memberLoop`
* `expression_parser::parse_match` arm loop (703-710)                       → `matchLoop`

Sub-parsers (`parse_toplevel`, `parse_expression`, `parse_statement`, the list-element parser) are an
arbitrary function `sub` on the remaining tokens: the theorems only assume it never "un-reads"
(`NoUnread`).  Whether a recovery arm consumes the offending token is *not* written here: it is read
from the source by `extract/c05_parser_loops.py` into `Generated/ParserLoops.lean` on every run.
That `parse_toplevel` / `parse_statement` / the member parser / the pattern parser consume the token
they were dispatched on (and that `assert_and_consume_keyword(k)` consumes a matching keyword) is
likewise extracted, not assumed.
-/
namespace SamVerif.ParserLoops
open SamVerif.Generated.ParserLoops

/-- token classes the three loops dispatch on -/
inductive TK where
  | cls       -- `class` / `interface` / `private`
  | member    -- `function` / `method` / `private` (inside a class body)
  | pat       -- a pattern start token: `{` `(` `_` LowerId UpperId (inside a match body)
  | letK
  | rbrace
  | semi
  | comma
  | endTok    -- the list's end token (`)`, `>`, `}`…)
  | op        -- any other operator
  | other     -- anything else
  deriving DecidableEq, Repr

/-- `parser.consume()` in an arm, if the source has it there -/
def consumeIf (flag : Bool) (ts : List TK) : List TK := if flag then ts.tail else ts

/-- `none` = the fuel ran out (a hang); `some ()` = the loop was left -/
def toplevelLoop (sub : List TK → List TK) : Nat → List TK → Option Unit
  | 0, _ => none
  | _ + 1, [] => some ()                                        -- `EndOfFile => break 'outer`
  | f + 1, .cls :: rest =>                                      -- `parse_toplevel`: keyword, then whatever
    toplevelLoop sub f (sub (consumeIf toplevelConsumesKeyword (.cls :: rest)))
  | f + 1, t :: rest =>                                         -- report, maybe consume, loop
    toplevelLoop sub f (consumeIf toplevelOtherConsumes (t :: rest))

/-- returns the remaining tokens when the loop is left -/
def commaLoop (sub : List TK → List TK) : Nat → List TK → Option (List TK)
  | 0, _ => none
  | f + 1, .comma :: rest =>
    let ts := consumeIf commaConsumes (.comma :: rest)
    if ts.head? = some .endTok then some ts         -- trailing comma
    else commaLoop sub f (sub ts)                    -- element parser
  | _ + 1, ts => some ts                             -- not an operator, another operator, EOF: break

def blockLoop (sub : List TK → List TK) : Nat → List TK → Option (List TK)
  | 0, _ => none
  | _ + 1, [] => some []                                         -- EOF: report, return
  | f + 1, .letK :: rest =>                                       -- `parse_statement`: `let`, then whatever
    blockLoop sub f (sub (consumeIf statementConsumesLet (.letK :: rest)))
  | _ + 1, .rbrace :: rest => some rest                          -- `}`: consume, return
  | f + 1, .semi :: rest => blockLoop sub f (consumeIf blockSemiConsumes (.semi :: rest))
  | f + 1, t :: rest =>
    match sub (t :: rest) with                                   -- `parse_expression`
    | .semi :: r => blockLoop sub f r
    | .rbrace :: r => some r
    | [] => some []
    | u :: r => blockLoop sub f (consumeIf blockElseConsumes (u :: r))   -- report, maybe consume

/-- class-member loop (`parse_class`, source_parser.rs:381-385 and 421-425): while the next token is
`function`/`method`/`private`, parse a member; the member parser
(`parse_class_member_declaration_common`) consumes the keyword it was dispatched on, then whatever. -/
def memberLoop (sub : List TK → List TK) : Nat → List TK → Option (List TK)
  | 0, _ => none
  | f + 1, .member :: rest => memberLoop sub f (sub (consumeIf memberConsumesKeyword (.member :: rest)))
  | _ + 1, ts => some ts                            -- anything else (also EOF): leave the loop

/-- match-arm loop (`parse_match`, source_parser.rs:703-710): while the next token can start a
pattern, parse `pattern -> expression [,]`; the pattern parser consumes that start token. -/
def matchLoop (sub : List TK → List TK) : Nat → List TK → Option (List TK)
  | 0, _ => none
  | f + 1, .pat :: rest => matchLoop sub f (sub (consumeIf matchArmConsumesStart (.pat :: rest)))
  | _ + 1, ts => some ts

/-- a sub-parser never returns more tokens than it was given -/
def NoUnread (sub : List TK → List TK) : Prop := ∀ ts, (sub ts).length ≤ ts.length

end SamVerif.ParserLoops
