/-!
# C01 kernel K1 — enum variant representation chosen by generics specialisation

Model of `crates/samlang-compiler/src/mir_generics_specialization.rs`:

* `rewrite_id_type` (lines 551-637): demand-driven specialisation of type definitions
  (`demandTy`), including the order in which names are registered
  (`specialized_type_definition_names`) and definitions are finished
  (`specialized_type_definitions`);
* the enum branch (lines 580-612): `layoutStep` / `layoutLoop` (one loop iteration / the loop);
* `type_permit_enum_boxed_optimization` (lines 639-667): `typePermit`;
* the run-time encoding produced by `EnumInit` (lines 313-361) and the tests performed by
  `ConditionalDestructure` (lines 98-260): `encode`, `testVariant`.

Core Lean only (also linked into the driver `drv-c01`).
-/
namespace SamVerif.EnumLayout

/-- A closed (fully instantiated) type as `rewrite_type` sees it. `ref n` is the `n`-th closed
identifier type of the program (class/closure with concrete type arguments). -/
inductive Ty where
  | int            -- `hir::Type::Int32` / `Int31` (int, bool, unit)
  | vec            -- builtin `Vec<_>`: `TypeNameId::VEC`, returned before anything is registered (l.560-564)
  | ref (n : Nat)
deriving DecidableEq, Repr, Inhabited

inductive Body where
  | struct (fields : List Ty)
  | enum (variants : List (List Ty))
  | closure (sig : List Ty)          -- `original_closure_defs`: argument types then return type
deriving Repr, Inhabited

/-- Declaration of a closed type: its concrete type arguments (rewritten *before* the name is
looked up, l.565-569) and its body after substitution of the type parameters. -/
structure Decl where
  targs : List Ty
  body : Body
deriving Repr, Inhabited

abbrev Env := List Decl

/-- `mir::EnumTypeDefinition` (samlang-ast/src/mir.rs:317). `boxed ts` keeps the leading tag slot. -/
inductive VRepr where
  | int31
  | unboxed (n : Nat)
  | boxed (ts : List Ty)
deriving DecidableEq, Repr, Inhabited

def VRepr.isBoxed : VRepr → Bool
  | .boxed _ => true
  | _ => false

inductive MDef where
  | struct (nfields : Nat)
  | enum (rs : List VRepr)
deriving DecidableEq, Repr, Inhabited

/-- The part of `Rewriter` that the layout decision reads. -/
structure St where
  names : List Nat := []            -- specialized_type_definition_names (insertion order, newest first)
  defs : List (Nat × MDef) := []    -- specialized_type_definitions (finished, newest first)
  closures : List Nat := []         -- specialized_closure_definitions
  enumsStarted : List Nat := []     -- enum_type_names_in_progress (fix e715c2f): never shrinks
deriving Repr, Inhabited

def lookupDef (defs : List (Nat × MDef)) (n : Nat) : Option MDef :=
  match defs with
  | [] => none
  | (k, d) :: rest => if k = n then some d else lookupDef rest n

/-- `type_permit_enum_boxed_optimization` (l.639-667). -/
def typePermit (st : St) : Ty → Bool
  | .int => false
  | .vec => false      -- not in `specialized_type_definitions`, not in `…_names`
  | .ref n =>
    match lookupDef st.defs n with
    -- "Recursive type currently being processed": a struct or closure is a pointer; an enum whose
    -- layout is still being decided may be an i31 (fix e715c2f; before it the answer was
    -- `names.contains n`, which conflated `S(Z)` with `Z` for `class Nat(Z, S(Nat))`)
    | none => st.names.contains n && !st.enumsStarted.contains n
    | some (.struct _) => true
    | some (.enum rs) => rs.all VRepr.isBoxed

/-- Loop state of the enum branch (l.581-583). -/
structure LState where
  out : List VRepr := []                 -- mir_variants
  permit : Bool := true                  -- permit_unboxed_optimization
  pending : Option (Nat × Ty) := none    -- already_unused_boxed_optimization
deriving Repr, Inhabited

/-- One iteration of the loop l.584-611 for the variant with index `tag` and (already rewritten)
field types `fs`; `ans` is the answer of `type_permit_enum_boxed_optimization` for the single
field (only consulted when the variant has exactly one field). -/
def layoutStep (l : LState) (tag : Nat) (fs : List Ty) (ans : Bool) : LState :=
  if fs.isEmpty then { l with out := l.out ++ [.int31] }
  else
    let out := match l.pending with
      | some (i, t) => l.out.set i (.boxed [.int, t])
      | none => l.out
    -- after l.588-591 `already_unused_boxed_optimization` is `None`
    match fs with
    | [.ref n] =>
      if l.permit && ans then
        { out := out ++ [.unboxed n], permit := false, pending := some (tag, .ref n) }
      else { out := out ++ [.boxed (.int :: fs)], permit := false, pending := none }
    | _ => { out := out ++ [.boxed (.int :: fs)], permit := false, pending := none }

/-- The query l.597-600: only a variant with exactly one field consults the decision. -/
def ansOf (p : Ty → Bool) : List Ty → Bool
  | [t] => p t
  | _ => false

/-- The loop with a fixed answer function (used by the theorems; the specialiser below threads
the changing `St`). -/
def layoutLoop (p : Ty → Bool) : List (List Ty) → Nat → LState → LState
  | [], _, l => l
  | fs :: rest, tag, l =>
    layoutLoop p rest (tag + 1) (layoutStep l tag fs (ansOf p fs))

def layoutOf (p : Ty → Bool) (variants : List (List Ty)) : List VRepr :=
  (layoutLoop p variants 0 {}).out

/-- The enum branch's loop body (l.584-611) for one variant, given the function that rewrites a
type (`rewrite_type`): rewrite the field types, then ask `type_permit_enum_boxed_optimization` in
the state reached, then `layoutStep`. Accumulator: (state, loop state, tag). -/
def variantStep (dem : St → Ty → Option St) (acc : St × LState × Nat) (fs : List Ty) :
    Option (St × LState × Nat) :=
  match fs.foldlM dem acc.1 with
  | none => none
  | some s' => some (s', layoutStep acc.2.1 acc.2.2 fs (ansOf (typePermit s') fs), acc.2.2 + 1)

/-- Finishing a definition: `specialized_type_definitions.insert` (l.615-618). -/
def addDef (st : St) (n : Nat) (d : MDef) : St := { st with defs := (n, d) :: st.defs }

/-- `rewrite_type` / `rewrite_id_type` (l.537-637) with explicit fuel (recursion depth). -/
def demandTy (env : Env) : Nat → St → Ty → Option St
  | _, st, .int => some st
  | _, st, .vec => some st
  | 0, _, .ref _ => none
  | fuel + 1, st, .ref n =>
    match env[n]? with
    | none => none
    | some d =>
      match d.targs.foldlM (fun s t => demandTy env fuel s t) st with
      | none => none
      | some st1 =>
        if st1.names.contains n then some st1 else
        match d.body with
        | .struct fs =>
          (fs.foldlM (fun s t => demandTy env fuel s t) { st1 with names := n :: st1.names }).map
            fun st3 => addDef st3 n (.struct fs.length)
        | .enum vs =>
          (vs.foldlM (variantStep (fun s t => demandTy env fuel s t))
            ({ st1 with names := n :: st1.names, enumsStarted := n :: st1.enumsStarted }, ({} : LState), 0)).map
            fun r => addDef r.1 n (.enum r.2.1.out)
        | .closure sig =>
          (sig.foldlM (fun s t => demandTy env fuel s t) { st1 with names := n :: st1.names }).map
            fun st3 => { st3 with closures := n :: st3.closures }

def demandAll (env : Env) (fuel : Nat) (roots : List Ty) : Option St :=
  roots.foldlM (fun s t => demandTy env fuel s t) {}

/-! ## Run-time values -/

/-- Run-time type of a heap object: a struct of closed type `n`, or the `tag`-th variant subtype
of enum `n` (`derived_type_name_with_subtype_tag`, whose parent is `n`). -/
inductive ObjTy where
  | struct (n : Nat)
  | variant (n : Nat) (tag : Nat)
deriving DecidableEq, Repr

inductive RtVal where
  | i32 (v : Int)                          -- raw integer (field slots)
  | i31 (v : Int)                          -- `Int31Literal` / `ref.i31`
  | obj (ty : ObjTy) (fields : List RtVal)
deriving Repr

/-- `EnumInit` (l.313-361): value of variant `tag` of enum `n` with the given field values. -/
def encode (n : Nat) (rs : List VRepr) (tag : Nat) (fields : List RtVal) : Option RtVal :=
  match rs[tag]? with
  | none => none
  | some .int31 => some (.i31 tag)
  | some (.unboxed _) => fields.head?
  | some (.boxed _) => some (.obj (.variant n tag) (.i32 (2 * tag + 1) :: fields))

/-- `ref.test (ref $T)`: is the value a heap object whose type is `T` or a subtype of it. -/
def isPointerOf (t : Nat) : RtVal → Bool
  | .obj (.struct n) _ => n = t
  | .obj (.variant n _) _ => n = t
  | _ => false

def isVariantObj (n tag : Nat) : RtVal → Bool
  | .obj (.variant n' tag') _ => n' = n ∧ tag' = tag
  | _ => false

def hasInt31 (rs : List VRepr) : Bool := rs.any (· == .int31)

/-- The test sequence of `ConditionalDestructure` (l.98-260) for variant `tag`: `some fields` when
the value is taken to be that variant (with the bound field values), `none` otherwise. -/
def testVariant (n : Nat) (rs : List VRepr) (tag : Nat) (v : RtVal) : Option (List RtVal) :=
  match rs[tag]? with
  | none => none
  | some .int31 =>                         -- l.239-259: `ref.eq` with `Int31Literal(tag)`
    match v with
    | .i31 k => if k = tag then some [] else none
    | _ => none
  | some (.unboxed t) =>                   -- l.208-238: `IsPointer(unboxed_t)`, then a cast
    if isPointerOf t v then some [v] else none
  | some (.boxed _) =>                     -- l.110-205
    if hasInt31 rs && !isVariantObj n tag v then none   -- `IsPointer(subtype)` guard (l.157-195)
    else match v with
      | .obj _ (.i32 k :: fs) => if k = 2 * tag + 1 then some fs else none   -- tag slot compare
      | _ => none

/-- What a `match` over all variants decides: the first variant whose test passes. -/
def decodeByTests (n : Nat) (rs : List VRepr) (v : RtVal) : Option (Nat × List RtVal) :=
  (List.range rs.length).findSome? fun tag => (testVariant n rs tag v).map fun fs => (tag, fs)

end SamVerif.EnumLayout
