/-
Model of the incremental language-server state (property C10), function by function:

* `crates/samlang-services/src/dep_graph.rs`   — `transitive_set` (11-27), `DependencyGraph::new`
  (30-45), `affected_set` (47-52)
* `crates/samlang-services/src/server_state.rs` — `ServerState::new` (28-64), `recheck` (70-109),
  `get_errors` (115-117), `update` (128-146), `rename_module` (148-172), `remove` (174-183)
* `crates/samlang-checker/src/lib.rs:30-51` (`type_check_sources`),
  `global_signature.rs:169-181` (`build_global_signature`: the builtin signature goes under ROOT)
* `crates/samlang-errors/src/lib.rs:887-890` (`group_errors`: by the *location's* module).

Core Lean only (the native driver `drv-c10` links this file).

The parser and the type checker are **parameters** (`Checker`): `imports`, `sig`
(`build_module_signature(module_reference, parsed)` — the module reference is an argument, as in the
code), `parseErrs` (errors reported by `parse_source_module_from_text`; they are always located in
the module being parsed) and `check` (`type_check_module(m, parsed, global_cx)`; every error is
tagged with the module of its location, because that is what `group_errors` groups by).

Rust `HashMap`s are association lists accessed through `lookup` (`insert` = overwrite), Rust
`HashSet`s are lists read through membership; `ErrorSet` is a `BTreeSet`, so diagnostics are read
through membership as well.  The model follows the code **after** the fix commits baf612a
(rename_module rebuilds the signature), 71ee3bd (recheck keeps the syntax errors of modules that are
not re-parsed; per-name syntax errors inside a batch) and f124d3b (ROOT operands are ignored).
The only Rust panic site left in these functions is `parsed_modules.remove(&old).unwrap()` in
`rename_module`, guarded by `string_sources.remove(&old)` being `Some`; the two maps are one map
here, so it cannot fire by construction.
-/
namespace SamVerif.Incremental

/-! ## Association lists (`HashMap<ModuleReference, _>`) -/

section AList
variable {Mod : Type} [DecidableEq Mod] {α : Type}

def lookup (l : List (Mod × α)) (k : Mod) : Option α :=
  match l with
  | [] => none
  | (k', v) :: t => if k' = k then some v else lookup t k

/-- `HashMap::remove` -/
def erase (l : List (Mod × α)) (k : Mod) : List (Mod × α) := l.filter (fun p => p.1 ≠ k)

/-- `HashMap::insert` (overwrites) -/
def insert (l : List (Mod × α)) (k : Mod) (v : α) : List (Mod × α) := (k, v) :: erase l k

def keys (l : List (Mod × α)) : List Mod := l.map (·.1)

end AList

/-- Parser + checker, abstract.  `root`/`builtin`: `ModuleReference::ROOT` and
`create_builtin_module_signature()`. -/
structure Checker (Mod Content Sig Err : Type) where
  root : Mod
  builtin : Sig
  /-- `parse(..).imports.map(|i| i.imported_module)` -/
  imports : Content → List Mod
  /-- `build_module_signature(m, &parse(c, m))` -/
  sig : Mod → Content → Sig
  /-- errors pushed by `parse_source_module_from_text` (located in the parsed module) -/
  parseErrs : Content → List Err
  /-- `matches!(e.detail, ErrorDetail::InvalidSyntax(_))` -/
  isSyntax : Err → Bool
  /-- errors pushed by `type_check_module(m, &parse(c, m), global_cx)`, each with the module of its
  location -/
  check : Mod → Content → (Mod → Option Sig) → List (Mod × Err)

section Model
variable {Mod Content Sig Err : Type} [DecidableEq Mod]

abbrev Sources (Mod Content : Type) := List (Mod × Content)

/-! ## dep_graph.rs -/

/-- `graph.forward.get(m)`: the imports of `m` if `m` is a source, nothing otherwise
(`DependencyGraph::new`, dep_graph.rs:32-43). -/
def fwdEdges (ck : Checker Mod Content Sig Err) (S : Sources Mod Content) (m : Mod) : List Mod :=
  match lookup S m with
  | some c => ck.imports c
  | none => []

/-- `graph.reverse.get(x)`: every source module one of whose imports is `x` (dep_graph.rs:35-41). -/
def revEdges (ck : Checker Mod Content Sig Err) (S : Sources Mod Content) (x : Mod) : List Mod :=
  (keys S).filter (fun m => decide (x ∈ fwdEdges ck S m))

/-- The `while let Some(m) = stack.pop()` loop of `transitive_set` (dep_graph.rs:16-25); the head
of the list is the top of the stack.  The fuel is an artefact of the model (the Rust loop has
none); `transitiveSet` supplies enough of it (`Lemmas/Incremental.lean: dfs_closed`). -/
def dfs (g : Mod → List Mod) : Nat → List Mod → List Mod → List Mod
  | 0, _, r => r
  | _ + 1, [], r => r
  | n + 1, m :: st, r => if m ∈ r then dfs g n st r else dfs g n (g m ++ st) (m :: r)

/-- Weight of the still unvisited part of a node list: one pop plus one push per edge. -/
def wsum (g : Mod → List Mod) : List Mod → List Mod → Nat
  | [], _ => 0
  | u :: U, r => (if u ∈ r then 0 else 1 + (g u).length) + wsum g U r

/-- All nodes a traversal of the dependency graph of `S` can meet. -/
def nodes (ck : Checker Mod Content Sig Err) (S : Sources Mod Content) : List Mod :=
  keys S ++ (keys S).flatMap (fwdEdges ck S)

/-- `transitive_set(graph, initial)` (dep_graph.rs:11-27). -/
def transitiveSet (g : Mod → List Mod) (U : List Mod) (init : List Mod) : List Mod :=
  dfs g (init.length + wsum g (U ++ init) [] + 1) init []

/-- `DependencyGraph::affected_set` (dep_graph.rs:47-52): forward closure of the reverse closure. -/
def affectedSet (ck : Checker Mod Content Sig Err) (S : Sources Mod Content) (dirty : List Mod) :
    List Mod :=
  transitiveSet (fwdEdges ck S) (nodes ck S)
    (transitiveSet (revEdges ck S) (nodes ck S) dirty)

/-! ## server_state.rs -/

/-- `ServerState` (server_state.rs:16-25).  `string_sources` and `parsed_modules` always have the
same keys and `parsed_modules[m] = parse(string_sources[m], m)`, so they are one map here;
of `checked_modules` only the key set is modelled (`checked`); the heap and the GC are not part of
this property. -/
structure State (Mod Content Sig Err : Type) where
  sources : Sources Mod Content
  globalCx : List (Mod × Sig)
  errors : List (Mod × List Err)
  /-- keys of `checked_modules` (read through membership) -/
  checked : List Mod
  /-- `dep_graph`: the stored dependency graph, represented by the source map it was built from
  (`DependencyGraph::new(&parsed_modules)`; its edges are `fwdEdges ck graph` / `revEdges ck graph`).
  `rename_module` and `remove` query the graph stored by the PREVIOUS operation. -/
  graph : Sources Mod Content

/-- `ErrorSet::group_errors()[k]` -/
def groupFor (es : List (Mod × Err)) (k : Mod) : List Err :=
  (es.filter (fun p => p.1 = k)).map (·.2)

/-- `ServerState::get_errors` (server_state.rs:115-117) -/
def getErrors (s : State Mod Content Sig Err) (k : Mod) : List Err :=
  (lookup s.errors k).getD []

/-- Errors produced by re-checking the modules of `R` that are (still) sources
(server_state.rs:74-89: `filter_map(|m| parsed_modules.get(m)…type_check_module(m, parsed, global_cx…))`). -/
def checkAll (ck : Checker Mod Content Sig Err) (S : Sources Mod Content) (G : List (Mod × Sig))
    (R : List Mod) : List (Mod × Err) :=
  R.flatMap (fun m => match lookup S m with
    | some c => ck.check m c (lookup G)
    | none => [])

/-- Overwrite the `errors` entries of the modules in `touched` (server_state.rs:97-99). -/
def overwrite (errs : List (Mod × List Err)) (produced : List (Mod × Err)) (touched : List Mod) :
    List (Mod × List Err) :=
  touched.foldl (fun e k => insert e k (groupFor produced k)) errs

def tagged (m : Mod) (es : List Err) : List (Mod × Err) := es.map (fun e => (m, e))

/-- The syntax errors the rechecked modules already have (server_state.rs `recheck`, first loop):
an `errors` entry only holds errors located in its own module. -/
def retained (ck : Checker Mod Content Sig Err) (s : State Mod Content Sig Err) (R : List Mod) :
    List (Mod × Err) :=
  R.flatMap (fun m => tagged m ((getErrors s m).filter ck.isSyntax))

/-- `ServerState::recheck(error_set, recheck_set)`.  `pending` are the errors already in
`error_set` (syntax errors of the modules parsed by the caller).  The syntax errors of the
rechecked modules are carried over, the type checker is run on the recheck set, and the entries of
the modules that own a produced error plus the whole recheck set are overwritten. -/
def recheck (ck : Checker Mod Content Sig Err) (s : State Mod Content Sig Err)
    (pending : List (Mod × Err)) (R : List Mod) : State Mod Content Sig Err :=
  let produced := pending ++ (retained ck s R ++ checkAll ck s.sources s.globalCx R)
  { s with errors := overwrite s.errors produced (produced.map (·.1) ++ R),
           -- `self.checked_modules.insert(mod_ref, checked)` for every rechecked module that is a source
           checked := R.filter (fun m => (lookup s.sources m).isSome) ++ s.checked }

/-- `updates.into_iter().filter(|(m, _)| *m != ROOT).collect::<HashMap<_, _>>()`: ROOT is not a
file, the last text of a module in the batch wins. -/
def writeBatch (root : Mod) (ups : List (Mod × Content)) : List (Mod × Content) :=
  (ups.filter (fun p => p.1 ≠ root)).foldl (fun acc p => insert acc p.1 p.2) []

/-- Loop body of `update`: drop the stale `errors` entry, parse, rebuild signature, store. -/
def updateOne (ck : Checker Mod Content Sig Err) (s : State Mod Content Sig Err)
    (p : Mod × Content) : State Mod Content Sig Err :=
  { errors := erase s.errors p.1, globalCx := insert s.globalCx p.1 (ck.sig p.1 p.2),
    sources := insert s.sources p.1 p.2, checked := s.checked, graph := s.graph }

/-- `self.dep_graph = DependencyGraph::new(&self.parsed_modules)` -/
def rebuildGraph (s : State Mod Content Sig Err) : State Mod Content Sig Err :=
  { s with graph := s.sources }

/-- `ServerState::update`: the recheck set comes from the **rebuilt** dependency graph. -/
def update (ck : Checker Mod Content Sig Err) (s : State Mod Content Sig Err)
    (ups : List (Mod × Content)) : State Mod Content Sig Err :=
  let U := writeBatch ck.root ups
  let s1 := rebuildGraph (U.foldl (updateOne ck) s)
  let pending := U.flatMap (fun p => tagged p.1 (ck.parseErrs p.2))
  recheck ck s1 pending (affectedSet ck s1.graph (keys U))

/-- Loop body of `rename_module`; the second component is `syntax_errors` (by current name).
The signature is **rebuilt** under the new name (fix baf612a). -/
def renameOne (ck : Checker Mod Content Sig Err)
    (acc : State Mod Content Sig Err × List (Mod × List Err)) (p : Mod × Mod) :
    State Mod Content Sig Err × List (Mod × List Err) :=
  let s := acc.1
  match lookup s.sources p.1 with
  | none => ({ s with checked := s.checked.filter (fun m => m ≠ p.1) }, acc.2)
  | some c =>
    ({ sources := insert (erase s.sources p.1) p.2 c,
       globalCx := insert (erase s.globalCx p.1) p.2 (ck.sig p.2 c),
       errors := erase (erase s.errors p.1) p.2,
       -- `self.checked_modules.remove(&old_mod_ref)` (executed for every pair)
       checked := s.checked.filter (fun m => m ≠ p.1),
       graph := s.graph },
      insert (erase acc.2 p.1) p.2 (ck.parseErrs c))

/-- `renames` without the pairs that mention ROOT. -/
def renamePairs (root : Mod) (rens : List (Mod × Mod)) : List (Mod × Mod) :=
  rens.filter (fun p => p.1 ≠ root ∧ p.2 ≠ root)

/-- `ServerState::rename_module`: the recheck set comes from the **old** dependency graph,
dirty set = all old and new names; the graph is rebuilt after the modules were moved. -/
def rename (ck : Checker Mod Content Sig Err) (s : State Mod Content Sig Err)
    (rens : List (Mod × Mod)) : State Mod Content Sig Err :=
  let rs := renamePairs ck.root rens
  let R := affectedSet ck s.graph (rs.flatMap (fun p => [p.1, p.2]))
  let acc := rs.foldl (renameOne ck) (s, [])
  recheck ck (rebuildGraph acc.1) (acc.2.flatMap (fun p => tagged p.1 p.2)) R

/-- Loop body of `remove`. -/
def removeOne (s : State Mod Content Sig Err) (m : Mod) : State Mod Content Sig Err :=
  { sources := erase s.sources m, globalCx := erase s.globalCx m, errors := erase s.errors m,
    checked := s.checked.filter (fun k => k ≠ m), graph := s.graph }

/-- `ServerState::remove`: recheck set from the **old** graph; ROOT ignored. -/
def remove (ck : Checker Mod Content Sig Err) (s : State Mod Content Sig Err) (ms : List Mod) :
    State Mod Content Sig Err :=
  let ms' := ms.filter (fun m => m ≠ ck.root)
  let R := affectedSet ck s.graph ms'
  recheck ck (rebuildGraph (ms'.foldl removeOne s)) [] R

inductive Op (Mod Content : Type) where
  | update (ups : List (Mod × Content))
  | rename (rens : List (Mod × Mod))
  | remove (ms : List Mod)

def step (ck : Checker Mod Content Sig Err) (s : State Mod Content Sig Err) :
    Op Mod Content → State Mod Content Sig Err
  | .update ups => update ck s ups
  | .rename rens => rename ck s rens
  | .remove ms => remove ck s ms

def run (ck : Checker Mod Content Sig Err) (ops : List (Op Mod Content))
    (s : State Mod Content Sig Err) : State Mod Content Sig Err :=
  ops.foldl (step ck) s

/-- `build_global_signature` (global_signature.rs:169-181): one signature per source, then the
builtin one **inserted over** whatever is under ROOT. -/
def freshCx (ck : Checker Mod Content Sig Err) (S : Sources Mod Content) : List (Mod × Sig) :=
  insert (S.map (fun p => (p.1, ck.sig p.1 p.2))) ck.root ck.builtin

/-- All errors of a from-scratch analysis (server_state.rs:34-51 + lib.rs:36-50): parse errors of
every source, then `type_check_module` of every source against the fresh global signature. -/
def freshProduced (ck : Checker Mod Content Sig Err) (S : Sources Mod Content) : List (Mod × Err) :=
  (keys S).flatMap (fun m => match lookup S m with
    | some c => tagged m (ck.parseErrs c)
    | none => []) ++ checkAll ck S (freshCx ck S) (keys S)

/-- `ServerState::new` (server_state.rs:28-64).  (A Rust `HashMap` has each key once; the model
reads a source list through `lookup`, so a repeated key is simply shadowed.) -/
def fresh (ck : Checker Mod Content Sig Err) (S : Sources Mod Content) :
    State Mod Content Sig Err :=
  let produced := freshProduced ck S
  { sources := S, globalCx := freshCx ck S,
    errors := overwrite [] produced (produced.map (·.1)),
    checked := keys S, graph := S }

/-! ## What "the current set of file contents" is, independently of `State` -/

def applyRename (S : Sources Mod Content) (p : Mod × Mod) : Sources Mod Content :=
  match lookup S p.1 with
  | none => S
  | some c => insert (erase S p.1) p.2 c

/-- File-system view of one operation: write files (last write of a batch wins), move files,
delete files.  ROOT (the builtin module) is not a file: operations naming it do nothing. -/
def applyOp (root : Mod) (S : Sources Mod Content) : Op Mod Content → Sources Mod Content
  | .update ups => (writeBatch root ups).foldl (fun S p => insert S p.1 p.2) S
  | .rename rens => (renamePairs root rens).foldl applyRename S
  | .remove ms => (ms.filter (fun m => m ≠ root)).foldl erase S

def applyOps (root : Mod) (ops : List (Op Mod Content)) (S : Sources Mod Content) :
    Sources Mod Content :=
  ops.foldl (applyOp root) S

/-! ## The LSP glue (`crates/samlang-cli/src/main.rs`, `mod lsp`)

`did_change` (415-422), `did_create_files` (365-382), `did_rename_files` (384-400),
`did_delete_files` (402-413) translate notifications into `update` / `rename_module` / `remove`.
A path is turned into a module reference by `convert_url_to_module_reference_helper` (its parts are
never empty, so it is never ROOT); `did_delete_files` uses the *read-only* lookup (245-252), which
answers ROOT for a file whose module reference was never allocated. -/

inductive Event (Mod Content : Type) where
  /-- `did_change`: full text of the last content change; the module is allocated if absent.
  `none`: a document outside of the source directory (skipped since fix d68f1d6; the handler still
  calls `update(vec![])`). -/
  | didChange (m : Option Mod) (text : Content)
  /-- `did_create_files`: every created file with the text read from disk (module `none`: outside of
  the source directory; text `none`: unreadable — both dropped by the `filter_map`). -/
  | didCreate (files : List (Option Mod × Option Content))
  /-- `did_rename_files`: (old, new) pairs, both allocated if absent; a pair with a side outside of
  the source directory is dropped. -/
  | didRename (pairs : List (Option Mod × Option Mod))
  /-- `did_delete_files`: `none` = a file the server has never heard of, or outside of the source
  directory (read-only lookup answers ROOT). -/
  | didDelete (files : List (Option Mod))

def readable (files : List (Option Mod × Option Content)) : List (Mod × Content) :=
  files.filterMap (fun p => match p.1, p.2 with
    | some m, some c => some (m, c)
    | _, _ => none)

def insidePairs (pairs : List (Option Mod × Option Mod)) : List (Mod × Mod) :=
  pairs.filterMap (fun p => match p.1, p.2 with
    | some a, some b => some (a, b)
    | _, _ => none)

/-- What the handlers call on `ServerState`. -/
def glue (root : Mod) : Event Mod Content → Op Mod Content
  | .didChange (some m) t => .update [(m, t)]
  | .didChange none _ => .update []
  | .didCreate files => .update (readable files)
  | .didRename pairs => .rename (insidePairs pairs)
  | .didDelete files => .remove (files.map (fun o => o.getD root))

/-- File-system view of a notification *restricted to the source directory* (the editor buffer /
the disk is the truth; documents elsewhere are not modules of the project). -/
def applyEvent (root : Mod) (S : Sources Mod Content) : Event Mod Content → Sources Mod Content
  | .didChange (some m) t => insert S m t
  | .didChange none _ => S
  | .didCreate files => (writeBatch root (readable files)).foldl (fun S p => insert S p.1 p.2) S
  | .didRename pairs => (insidePairs pairs).foldl applyRename S
  | .didDelete files => (files.filterMap id).foldl erase S

def applyEvents (root : Mod) (evs : List (Event Mod Content)) (S : Sources Mod Content) :
    Sources Mod Content :=
  evs.foldl (applyEvent root) S

/-- No path maps to ROOT (`file_path_to_module_reference_parts` never yields an empty vector). -/
def EventNoRoot (root : Mod) : Event Mod Content → Prop
  | .didChange m _ => m ≠ some root
  | .didCreate files => ∀ p ∈ files, p.1 ≠ some root
  | .didRename pairs => ∀ p ∈ pairs, p.1 ≠ some root ∧ p.2 ≠ some root
  | .didDelete files => ∀ m, some m ∈ files → m ≠ root

/-! ## Name identity across the history

The model treats names (and therefore signatures) as values: `ck.sig m c` is *the* signature of text
`c` under module `m`, whenever it is built.  The implementation interns identifiers of ≥ 16 bytes in
a heap that is garbage-collected after every recheck (`perform_gc_after_recheck`), and compares
them by allocation id; a signature built at an earlier operation is only the signature built now if
the names the retained modules hold keep their identity.  `EChecker` makes this explicit: the
signature builder is indexed by the operation count ("epoch") at which it runs. -/

structure EChecker (Mod Content Sig Err : Type) where
  base : Checker Mod Content Sig Err
  /-- `build_module_signature(m, parse(c, m))` executed at epoch `t` (0 = `ServerState::new`) -/
  sigAt : Nat → Mod → Content → Sig

/-- The checker as it behaves at epoch `t`. -/
def EChecker.at (e : EChecker Mod Content Sig Err) (t : Nat) : Checker Mod Content Sig Err :=
  { e.base with sig := e.sigAt t }

/-- **`NamesStable`**: a signature built at one epoch is the signature built at any other (a name
held by a retained module keeps its identity: it is never reclaimed and re-interned under another
id).  Checked dynamically after every operation (harness `#names`). -/
def NamesStable (e : EChecker Mod Content Sig Err) : Prop :=
  ∀ (t t' : Nat) (m : Mod) (c : Content), e.sigAt t m c = e.sigAt t' m c

/-- The history run with the epoch-indexed checker: operation number `t` uses `e.at t`. -/
def runE (e : EChecker Mod Content Sig Err) : Nat → List (Op Mod Content) →
    State Mod Content Sig Err → State Mod Content Sig Err
  | _, [], s => s
  | t, op :: ops, s => runE e (t + 1) ops (step (e.at t) s op)

end Model

end SamVerif.Incremental
