/-!
# A small MIR-like interpreter for the renaming-invariance theorem of C12

Statement forms: integer addition into a fresh variable, `println`, and a (conditional) call
`x := (if c ≠ 0 then f else g)(args)` — enough for branching and recursion (loops). Function names,
string-global names and variable names are numbers; the compiler hands these numbers out in
`HashMap` iteration order / through a shared atomic counter (hir_lowering.rs:113-123,
hir_string_manager.rs, samlang-heap/src/lib.rs:416-436), so two processes produce programs that
differ by an injective renaming `ρf, ρg, ρv` (see `numbering_is_renaming`).
-/
namespace SamVerif.MirRename

inductive Val where
  | int (n : Int)
  | str (s : List Nat)
  deriving Repr, DecidableEq

inductive Expr where
  | lit (n : Int)
  | var (x : Nat)
  | glob (g : Nat)
  deriving Repr, DecidableEq

inductive Stmt where
  | bin (x : Nat) (a b : Expr)
  | print (e : Expr)
  | call (x : Nat) (c : Expr) (f g : Nat) (args : List Expr)
  deriving Repr

structure Fn where
  params : List Nat
  body : List Stmt
  ret : Expr
  deriving Repr

structure Prog where
  funs : List (Nat × Fn)
  globs : List (Nat × List Nat)
  deriving Repr

abbrev Env := List (Nat × Val)

def lookup {β : Type} (l : List (Nat × β)) (k : Nat) : Option β :=
  match l with
  | [] => none
  | (k', v) :: rest => if k = k' then some v else lookup rest k

def evalE (p : Prog) (env : Env) : Expr → Option Val
  | .lit n => some (.int n)
  | .var x => lookup env x
  | .glob g => (lookup p.globs g).map .str

def evalArgs (p : Prog) (env : Env) : List Expr → Option (List Val)
  | [] => some []
  | e :: es =>
    match evalE p env e, evalArgs p env es with
    | some v, some vs => some (v :: vs)
    | _, _ => none

def bindParams : List Nat → List Val → Env
  | x :: xs, v :: vs => (x, v) :: bindParams xs vs
  | _, _ => []

def addV : Val → Val → Option Val
  | .int a, .int b => some (.int (a + b))
  | _, _ => none

def truthy : Val → Bool
  | .int n => n ≠ 0
  | .str _ => true

/-- Fuelled big-step execution; `none` = stuck or out of fuel. Output = printed values. -/
def exec (p : Prog) : Nat → List Stmt → Env → List Val → Option (Env × List Val)
  | _, [], env, out => some (env, out)
  | fuel, .bin x a b :: rest, env, out =>
    match evalE p env a, evalE p env b with
    | some va, some vb =>
      match addV va vb with
      | some v => exec p fuel rest ((x, v) :: env) out
      | none => none
    | _, _ => none
  | fuel, .print e :: rest, env, out =>
    match evalE p env e with
    | some v => exec p fuel rest env (out ++ [v])
    | none => none
  | 0, .call .. :: _, _, _ => none
  | fuel + 1, .call x c f g args :: rest, env, out =>
    match evalE p env c, evalArgs p env args with
    | some vc, some vs =>
      match lookup p.funs (if truthy vc then f else g) with
      | some fn =>
        match exec p fuel fn.body (bindParams fn.params vs) out with
        | some (env', out') =>
          match evalE p env' fn.ret with
          | some r => exec p (fuel + 1) rest ((x, r) :: env) out'
          | none => none
        | none => none
      | none => none
    | _, _ => none
termination_by fuel stmts => (fuel, stmts.length)

/-- Run an entry point without arguments. -/
def run (p : Prog) (fuel : Nat) (main : Nat) : Option (List Val) :=
  match lookup p.funs main with
  | some fn => (exec p fuel fn.body [] []).map (·.2)
  | none => none

/-! ## Renaming -/

structure Ren where
  f : Nat → Nat
  g : Nat → Nat
  v : Nat → Nat

def renE (ρ : Ren) : Expr → Expr
  | .lit n => .lit n
  | .var x => .var (ρ.v x)
  | .glob g => .glob (ρ.g g)

def renS (ρ : Ren) : Stmt → Stmt
  | .bin x a b => .bin (ρ.v x) (renE ρ a) (renE ρ b)
  | .print e => .print (renE ρ e)
  | .call x c f g args => .call (ρ.v x) (renE ρ c) (ρ.f f) (ρ.f g) (args.map (renE ρ))

def renFn (ρ : Ren) (fn : Fn) : Fn :=
  { params := fn.params.map ρ.v, body := fn.body.map (renS ρ), ret := renE ρ fn.ret }

def renProg (ρ : Ren) (p : Prog) : Prog :=
  { funs := p.funs.map fun (k, fn) => (ρ.f k, renFn ρ fn),
    globs := p.globs.map fun (k, s) => (ρ.g k, s) }

def renEnv (ρ : Ren) (env : Env) : Env := env.map fun (k, v) => (ρ.v k, v)

end SamVerif.MirRename
