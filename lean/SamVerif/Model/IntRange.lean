/-
Model of the integer-literal range gate of the front end (property C06):

* `TokenProducer::process_raw_token` and the `next_token` loop with its one-token `pending` buffer
  (`crates/samlang-parser/src/lexer.rs:711-767`);
* the parser's reading of an `IntLiteral` token, `parse::<i32>().unwrap_or(0)`
  (`crates/samlang-parser/src/source_parser.rs:1502-1514`).

Core Lean only (the line-protocol driver links it natively).

Raw tokens are what `WrappedLogosLexer::next_token` hands over.  The lexer's integer regex is
`0|([1-9][0-9]*)` (`lexer.rs:153`), so the text of a raw `IntLiteral` is the canonical decimal
numeral of a natural number and is modelled by that number; every other token (operators other
than `-`, keywords, identifiers, strings, comments, error tokens) is an opaque `other k`.
-/
namespace SamVerif.IntRange

inductive Raw where
  | int (v : Nat)
  | minus
  | other (k : Nat)
  deriving DecidableEq, Repr, Inhabited

/-- Tokens handed to the parser: a raw token passed through, or the merged `-2147483648`. -/
inductive Tok where
  | raw (r : Raw)
  | negMin
  deriving DecidableEq, Repr, Inhabited

/-- `(i32::MAX as i64) + 1` (`lexer.rs:748`) -/
def maxP1 : Nat := 2147483648
/-- `s.parse::<i64>()` fails exactly from here on (`lexer.rs:743-746`) -/
def i64Lim : Nat := 9223372036854775808

/-- One iteration of the `next_token` loop on raw token `r` with buffer `p`
(`lexer.rs:717-729` calling `process_raw_token`, `lexer.rs:733-771`, as of fix commit d5c9a21):
result = (buffer afterwards, token yielded to the parser if any, "Not a 32-bit integer." reported).
Before the fix the second test read `v = maxP1 ∧ p = none` (finding C06-F1). -/
def step (p : Option Tok) (r : Raw) : Option Tok × Option Tok × Bool :=
  match r with
  | .int v =>
    if i64Lim ≤ v then (some (.raw r), p, true)                               -- parse::<i64>() Err
    else if maxP1 < v ∨ (v = maxP1 ∧ p ≠ some (.raw .minus)) then (some (.raw r), p, true)
    else if v = maxP1 ∧ p = some (.raw .minus) then (some .negMin, none, false) -- merge
    else (some (.raw r), p, false)
  | _ => (some (.raw r), p, false)

/-- The whole run of the producer over a raw token list, starting with buffer `p`:
(tokens yielded, one error flag per raw token). At end of input the buffer is flushed
(`lexer.rs:718-721`). -/
def run : Option Tok → List Raw → List Tok × List Bool
  | p, [] => (p.toList, [])
  | p, r :: rs =>
    ((step p r).2.1.toList ++ (run (step p r).1 rs).1, (step p r).2.2 :: (run (step p r).1 rs).2)

def produce (rs : List Raw) : List Tok × List Bool := run none rs

/-- What the parser makes of an integer token: `text.parse::<i32>().unwrap_or(0)`
(`source_parser.rs:1512`). `none` for non-integer tokens. -/
def parserValue : Tok → Option Int
  | .raw (.int v) => some (if v < maxP1 then (v : Int) else 0)
  | .negMin => some (-(maxP1 : Int))
  | _ => none

/-- What the token denotes as written. -/
def writtenValue : Tok → Option Int
  | .raw (.int v) => some (v : Int)
  | .negMin => some (-(maxP1 : Int))
  | _ => none

/-- Undo the merge: the raw tokens a yielded token stands for. -/
def expand : List Tok → List Raw
  | [] => []
  | .raw r :: ts => r :: expand ts
  | .negMin :: ts => .minus :: .int maxP1 :: expand ts

/-- A literal, as written at index `i` of the raw stream, is a 32-bit integer: below 2³¹, or
exactly 2³¹ directly preceded by a `-` token. -/
def InRange (rs : List Raw) (i : Nat) (v : Nat) : Prop :=
  v < maxP1 ∨ (v = maxP1 ∧ ∃ j, i = j + 1 ∧ rs[j]? = some .minus)

end SamVerif.IntRange
