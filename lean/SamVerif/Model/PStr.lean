/-
Byte-level model of `PStrPrivateRepr` (`crates/samlang-heap/src/lib.rs:11-83`): a 16-byte union of
`{ size: u8, storage: [u8; 15] }` and `heap_id: u128`, discriminated by the most significant byte
of the little-endian `u128` (`heap_id >> 120 == 255`, i.e. byte 15).
repr(Rust) does not fix the field order of the inline struct, so both orders are modelled.
-/
namespace SamVerif.PStr

abbrev Bytes := List UInt8

def pad (s : Bytes) : Bytes := s ++ List.replicate (15 - s.length) 0

/-- size byte first (the order rustc picks today) -/
def rawInlineA (s : Bytes) : Bytes := UInt8.ofNat s.length :: pad s
/-- storage first, size last -/
def rawInlineB (s : Bytes) : Bytes := pad s ++ [UInt8.ofNat s.length]

/-- `from_id`: `(id as u128) | (255 << 120)`, little endian -/
def rawId (id : Nat) : Bytes :=
  [UInt8.ofNat id, UInt8.ofNat (id / 256), UInt8.ofNat (id / 65536), UInt8.ofNat (id / 16777216)]
    ++ List.replicate 11 0 ++ [255]

/-- `heap_id >> 120` -/
def topByte (r : Bytes) : UInt8 := r.getD 15 0

/-- `as_heap_id().is_some()` -/
def isHeap (r : Bytes) : Bool := topByte r == 255

end SamVerif.PStr
