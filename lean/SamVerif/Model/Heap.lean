/-
Model of `crates/samlang-heap/src/lib.rs` (`Heap`, `PStr`), function by function.
Core Lean only (no Mathlib) so that the line-protocol driver links natively.

Rust `HashMap<&str,u32>` tables are association lists with unique keys (uniqueness is part of
`Heap.Inv`, proved in `Lemmas/Heap.lean`); the `HashSet<ModuleReference>` is a duplicate-free list
and the hash-order dependent `pop` takes the popped element as an explicit choice.
Where the Rust code would panic (slice out of range, `expect` on a missing map entry, reading a
deallocated slot) the model has an explicit `…Ok` predicate or returns `none`.
-/
namespace SamVerif.Heap

abbrev Bytes := List UInt8

/-- `StringStoredInHeap` -/
inductive Slot where
  | perm (s : Bytes)
  | temp (s : Bytes) (marked : Bool)
  | dead
  deriving DecidableEq, Repr, Inhabited

/-- `PStr`: inline (≤ 15 bytes) or an index into the slot table. -/
inductive Handle where
  | inl (s : Bytes)
  | ref (id : Nat)
  deriving DecidableEq, Repr, Inhabited

abbrev Intern := List (Bytes × Nat)

def lookup (m : Intern) (s : Bytes) : Option Nat :=
  match m with
  | [] => none
  | (k, v) :: rest => if k = s then some v else lookup rest s

def erase (m : Intern) (s : Bytes) : Intern := m.filter (fun kv => kv.1 ≠ s)

structure Heap where
  slots : List Slot
  internTemp : Intern          -- `interned_string`
  internStatic : Intern        -- `interned_static_str`
  modRefs : List (List Handle) -- `module_reference_pointer_table` (+ its interning map)
  unmarked : List Nat          -- `unmarked_module_references`
  sweepIndex : Nat
  deriving Repr, Inhabited, DecidableEq

def inlineMax : Nat := 15

/-- `alloc_string` -/
def allocString (h : Heap) (s : Bytes) : Heap × Handle :=
  if s.length ≤ inlineMax then (h, .inl s)
  else match lookup h.internStatic s with
    | some id => (h, .ref id)
    | none =>
      match lookup h.internTemp s with
      | some id => (h, .ref id)
      | none =>
        let id := h.slots.length
        ({ h with slots := h.slots ++ [.temp s false], internTemp := (s, id) :: h.internTemp },
          .ref id)

/-- `alloc_str_internal` (= `alloc_str_for_test`): static strings, promoting an existing temp. -/
def allocStatic (h : Heap) (s : Bytes) : Heap × Handle :=
  if s.length ≤ inlineMax then (h, .inl s)
  else match lookup h.internStatic s with
    | some id => (h, .ref id)
    | none =>
      match lookup h.internTemp s with
      | some id =>
        ({ h with slots := h.slots.set id (.perm s), internTemp := erase h.internTemp s,
                  internStatic := (s, id) :: h.internStatic }, .ref id)
      | none =>
        let id := h.slots.length
        ({ h with slots := h.slots ++ [.perm s], internStatic := (s, id) :: h.internStatic },
          .ref id)

/-- `alloc_temp_str`: pushes a dummy permanent slot; the returned name is always inline. -/
def allocTemp (h : Heap) (name : Bytes) : Heap × Handle :=
  ({ h with slots := h.slots ++ [.perm []] }, .inl name)

/-- `sync_temp_counter`: pad the table with dummy permanent slots up to the counter value
(`TempPStrCounter` hands out `_t<id>` names for ids starting at the table length). -/
def syncTempCounter (h : Heap) (target : Nat) : Heap :=
  { h with slots := h.slots ++ List.replicate (target - h.slots.length) (.perm []) }

/-- `make_string_permanent`: would the `expect` succeed? -/
def makePermanentOk (h : Heap) (p : Handle) : Bool :=
  match p with
  | .inl _ => true
  | .ref id =>
    match h.slots[id]? with
    | some (.temp s _) => lookup h.internTemp s == some id
    | some _ => true
    | none => false  -- index out of bounds

/-- `make_string_permanent` -/
def makePermanent (h : Heap) (p : Handle) : Heap :=
  match p with
  | .inl _ => h
  | .ref id =>
    match h.slots[id]? with
    | some (.temp s _) =>
      { h with slots := h.slots.set id (.perm s), internTemp := erase h.internTemp s,
               internStatic := (s, id) :: h.internStatic }
    | _ => h

def findIdx (l : List (List Handle)) (parts : List Handle) (i : Nat := 0) : Option Nat :=
  match l with
  | [] => none
  | x :: rest => if x = parts then some i else findIdx rest parts (i + 1)

/-- `alloc_module_reference` -/
def allocModuleRef (h : Heap) (parts : List Handle) : Heap × Nat :=
  match findIdx h.modRefs parts with
  | some i => (h, i)
  | none =>
    let h' := parts.foldl makePermanent h
    ({ h' with modRefs := h'.modRefs ++ [parts] }, h.modRefs.length)

/-- `add_unmarked_module_reference` -/
def addUnmarked (h : Heap) (m : Nat) : Heap :=
  if m ∈ h.unmarked then h else { h with unmarked := m :: h.unmarked }

/-- `pop_unmarked_module_reference` with the hash-order choice made explicit.
`none` = the choice is not an element (protocol error). -/
def popUnmarked (h : Heap) (choice : Option Nat) : Option Heap :=
  match choice with
  | none => if h.unmarked.isEmpty then some h else none
  | some m => if m ∈ h.unmarked then some { h with unmarked := h.unmarked.filter (· ≠ m) } else none

/-- `mark` -/
def mark (h : Heap) (p : Handle) : Heap :=
  match p with
  | .inl _ => h
  | .ref id =>
    match h.slots[id]? with
    | some (.temp s _) => { h with slots := h.slots.set id (.temp s true) }
    | _ => h

/-- The window `[start, end)` a `sweep work` call visits and the next cursor. -/
def sweepWindow (h : Heap) (work : Nat) : Nat × Nat × Nat :=
  let start := h.sweepIndex
  let len := h.slots.length
  if start + work ≥ len then (start, len, 0) else (start, start + work, start + work)

/-- Rust: `self.str_pointer_table[sweep_start..sweep_end]` must be a valid range. -/
def sweepOk (h : Heap) (work : Nat) : Bool :=
  !h.unmarked.isEmpty ||
    (let (s, e, _) := sweepWindow h work; s ≤ e && e ≤ h.slots.length)

def sweepSlot (inWindow : Bool) (sl : Slot) : Slot :=
  if inWindow then
    match sl with
    | .temp s true => .temp s false
    | .temp _ false => .dead
    | x => x
  else sl

def reclaimedStrings (start stop : Nat) : Nat → List Slot → List Bytes
  | _, [] => []
  | i, sl :: rest =>
    let tl := reclaimedStrings start stop (i + 1) rest
    match sl with
    | .temp s false => if start ≤ i ∧ i < stop then s :: tl else tl
    | _ => tl

def sweepSlots (start stop : Nat) : Nat → List Slot → List Slot
  | _, [] => []
  | i, sl :: rest => sweepSlot (start ≤ i ∧ i < stop) sl :: sweepSlots start stop (i + 1) rest

/-- `sweep` -/
def sweep (h : Heap) (work : Nat) : Heap :=
  if !h.unmarked.isEmpty then h
  else
    let (start, stop, next) := sweepWindow h work
    let gone := reclaimedStrings start stop 0 h.slots
    { h with slots := sweepSlots start stop 0 h.slots,
             internTemp := h.internTemp.filter (fun kv => kv.1 ∉ gone),
             sweepIndex := next }

/-- `PStr::as_str`; `none` = panic ("Dereferencing deallocated string" / index out of range). -/
def read (h : Heap) (p : Handle) : Option Bytes :=
  match p with
  | .inl s => some s
  | .ref id =>
    match h.slots[id]? with
    | some (.perm s) => some s
    | some (.temp s _) => some s
    | _ => none

def isDead : Slot → Bool
  | .dead => true
  | _ => false

/-- `stat` : (total, used, unused) -/
def stat (h : Heap) : Nat × Nat × Nat :=
  let total := h.slots.length
  let unused := (h.slots.filter isDead).length
  (total, total - unused, unused)

def bytesLt : Bytes → Bytes → Bool
  | [], [] => false
  | [], _ :: _ => true
  | _ :: _, [] => false
  | a :: as, b :: bs => a < b || (a == b && bytesLt as bs)

def insertSorted (x : Bytes) : List Bytes → List Bytes
  | [] => [x]
  | y :: ys => if bytesLt y x then y :: insertSorted x ys else x :: y :: ys

/-- `debug_unmarked_strings` (sorted) -/
def debugUnmarked (h : Heap) : List Bytes :=
  (h.slots.filterMap fun | .temp s false => some s | _ => none).foldr insertSorted []

/-- `Ord for PStrPrivateRepr`: -1 / 0 / 1 -/
def cmpHandle (a b : Handle) : Int :=
  match a, b with
  | .inl s1, .inl s2 => if s1 = s2 then 0 else if bytesLt s1 s2 then -1 else 1
  | .ref i, .ref j => if i = j then 0 else if i < j then -1 else 1
  | .inl _, .ref _ => -1
  | .ref _, .inl _ => 1

/-- `Heap::new`: three module references (root, DUMMY, std.tuples), all parts inline. -/
def init : Heap :=
  { slots := [], internTemp := [], internStatic := [],
    modRefs := [[], [.inl [68, 85, 77, 77, 89]],
                [.inl [115, 116, 100], .inl [116, 117, 112, 108, 101, 115]]],
    unmarked := [], sweepIndex := 0 }

/-- Operations of the public API as data (the history quantifier of C17). -/
inductive Op where
  | allocString (s : Bytes)
  | allocStatic (s : Bytes)
  | allocTemp (name : Bytes)
  | allocModuleRef (parts : List Handle)
  | addUnmarked (m : Nat)
  | popUnmarked (choice : Option Nat)
  | mark (p : Handle)
  | sweep (work : Nat)
  | syncTemp (target : Nat)
  deriving Repr

def step (h : Heap) : Op → Heap
  | .allocString s => (allocString h s).1
  | .allocStatic s => (allocStatic h s).1
  | .allocTemp n => (allocTemp h n).1
  | .allocModuleRef ps => (allocModuleRef h ps).1
  | .addUnmarked m => addUnmarked h m
  | .popUnmarked c => (popUnmarked h c).getD h
  | .mark p => mark h p
  | .sweep w => sweep h w
  | .syncTemp t => syncTempCounter h t

def run (ops : List Op) (h : Heap := init) : Heap := ops.foldl step h

end SamVerif.Heap
