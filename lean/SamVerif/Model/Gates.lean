import SamVerif.Model.Assign
/-
Model of the remaining decision gates of the type checker behind property C06, each mirroring the
code that takes the decision (core Lean only; types are `Assign.Ty`, names are naturals):

* visibility: `TypingContext::get_method_type` (typing_context.rs:245-282), `in_same_class`
  (:284-286), the private-class filter of `resolve_type_definition` (:321-334), field publicity
  (:358-359, as of fix d05f979) consumed by field access (main_checker.rs:513-515), import check of
  `type_check_module` (main_checker.rs:1674-1685);
* type-argument arity: `validate_type_instantiation_customized` (typing_context.rs:173-209) and the
  explicit-type-argument test of member access (main_checker.rs:416-444);
* interface conformance: `check_class_member_conformance_with_signature`
  (main_checker.rs:1610-1660), the public-member rule (:1775-1795) and the missing-member set
  (:1822-1858) of `type_check_module`;
* bound validation: `validate_type_arguments` (main_checker.rs:181-202), `is_subtype` /
  `is_subtype_with_id_upper` (typing_context.rs:145-163), bound test of
  `validate_type_instantiation_customized` (:215-227).
The transitive super-type list (`resolve_all_transitive_super_types`) is an input of the bound
kernel, not modelled here.
-/
namespace SamVerif.Gates
open SamVerif.Assign

/-! ## Visibility -/

/-- Where the checker currently is. -/
structure Ctx where
  curMod : Nat
  curClass : Nat
  deriving DecidableEq, Repr

/-- The class (or interface) a member is looked up in. -/
structure ClassRef where
  modRef : Nat
  id : Nat
  isPrivate : Bool
  deriving DecidableEq, Repr

/-- `.filter(|it| !it.private || nominal_type.module_reference == self.current_module_reference)` -/
def classVisible (cx : Ctx) (c : ClassRef) : Bool := !c.isPrivate || c.modRef == cx.curMod

/-- `in_same_class` -/
def inSameClass (cx : Ctx) (c : ClassRef) : Bool := cx.curMod == c.modRef && c.id == cx.curClass

/-- Declared members of a class: name ↦ is_public (association list, first wins). -/
def lookupMember : List (Nat × Bool) → Nat → Option Bool
  | [], _ => none
  | (k, v) :: rest, n => if k = n then some v else lookupMember rest n

/-- `get_method_type` (functions via class statics and methods alike): `true` = resolved. -/
def memberResolved (cx : Ctx) (c : ClassRef) (members : List (Nat × Bool)) (name : Nat) : Bool :=
  if classVisible cx c then
    match lookupMember members name with
    | some isPublic => isPublic || inSameClass cx c
    | none => false
  else false

/-- Field publicity as seen from `cx` (`resolve_type_definition`; field access then requires
`is_public`, main_checker.rs:513-515). Private classes resolve to no fields at all. -/
def fieldResolved (cx : Ctx) (c : ClassRef) (fields : List (Nat × Bool)) (name : Nat) : Bool :=
  if classVisible cx c then
    match lookupMember fields name with
    | some isPublic => isPublic || inSameClass cx c
    | none => false
  else false

/-- Import check: the imported name must be a non-private toplevel of the module. `none` = the
module has no such toplevel. -/
def importOk (exported : Option Bool /- some isPrivate -/) : Bool :=
  match exported with
  | some isPrivate => !isPrivate
  | none => false

/-! ## Type-argument arity -/

/-- number of type parameters of a known toplevel (`resolve_interface_cx`), `none` if unknown -/
abbrev ArityTable := List ((Nat × Nat) × Nat)

def arityOf : ArityTable → Nat → Nat → Option Nat
  | [], _, _ => none
  | ((m, i), k) :: rest, m', i' => if m = m' ∧ i = i' then some k else arityOf rest m' i'

mutual
/-- `validate_type_instantiation_customized` restricted to its arity errors: `true` = no arity
error anywhere in the type. Unknown toplevels are skipped here (they are reported by name
resolution, not by this gate). -/
def tyArgsOk (tab : ArityTable) : Ty → Bool
  | .any _ => true
  | .prim _ => true
  | .generic _ => true
  | .fn as r => tyArgsOkL tab as && tyArgsOk tab r
  | .nominal _ m i ts =>
    tyArgsOkL tab ts &&
      (match arityOf tab m i with
       | some k => k == ts.length
       | none => true)
def tyArgsOkL (tab : ArityTable) : List Ty → Bool
  | [] => true
  | t :: ts => tyArgsOk tab t && tyArgsOkL tab ts
end

mutual
/-- Specification: every nominal node of the type (at any depth) with its argument count. -/
def nominalNodes : Ty → List (Nat × Nat × Nat)
  | .any _ => []
  | .prim _ => []
  | .generic _ => []
  | .fn as r => nominalNodesL as ++ nominalNodes r
  | .nominal _ m i ts => (m, i, ts.length) :: nominalNodesL ts
def nominalNodesL : List Ty → List (Nat × Nat × Nat)
  | [] => []
  | t :: ts => nominalNodes t ++ nominalNodesL ts
end

/-- Explicit type arguments of a member access (main_checker.rs:416-444). -/
def explicitTyArgsOk (declared given : Nat) : Bool := given == declared

/-! ## Interface conformance -/

/-- A member signature: name, publicity, type parameters (name, bound), function type. -/
structure MSig where
  name : Nat
  isPublic : Bool
  tparams : List (Nat × Option Ty)
  ty : Ty

def boundConforms : Option Ty → Option Ty → Bool
  | none, none => true
  | some e, some a => sameType e a
  | _, _ => false

/-- the zipped loop of `check_class_member_conformance_with_signature` -/
def tparamsConform : List (Nat × Option Ty) → List (Nat × Option Ty) → Bool
  | e :: es, a :: as => e.1 == a.1 && boundConforms e.2 a.2 && tparamsConform es as
  | _, _ => true

/-- `check_class_member_conformance_with_signature` reports nothing. -/
def memberConforms (e a : MSig) : Bool :=
  e.tparams.length == a.tparams.length && tparamsConform e.tparams a.tparams && sameType e.ty a.ty

/-- All conformance diagnostics of a class: no missing member (`missing_method_members`), every
declared method conforms to every inherited signature of its name and is public. -/
def classConforms (expected declared : List MSig) : Bool :=
  expected.all (fun e => declared.any (fun a => a.name == e.name)) &&
  declared.all (fun a => expected.all (fun e => e.name != a.name || (memberConforms e a && a.isPublic)))

/-! ## Bound validation -/

/-- `is_subtype_with_id_upper` for a nominal lower type, given its resolved transitive super types. -/
def isSubtypeWith (lower : Ty) (supers : List Ty) (upper : Ty) : Bool :=
  match lower with
  | .nominal _ _ _ _ => (lower :: supers).any (fun s => sameType s upper)
  | _ => false

/-- `validate_type_arguments`: no IncompatibleSubType error for this type argument. -/
def boundOk (targ : Ty) (supers : List Ty) (bound : Ty) : Bool :=
  sameType targ bound || isSubtypeWith targ supers bound

/-! ## Abstract types as type arguments (`enforce_concrete_types`) -/

/-- kind of a known toplevel: `true` = interface (`type_definition.is_none()`) -/
abbrev KindTable := List ((Nat × Nat) × Bool)

def isInterface : KindTable → Nat → Nat → Bool
  | [], _, _ => false
  | ((m, i), k) :: rest, m', i' => if m = m' ∧ i = i' then k else isInterface rest m' i'

mutual
/-- `validate_type_instantiation_customized(t, enforce_concrete_types)` restricted to its
`IncompatibleTypeKind` errors (typing_context.rs:173-200): `true` = none reported. Type arguments
and function parameter / return types are always validated with `enforce = true` (:178-180,186);
only the root may be abstract when called through `…_allow_abstract_types`. -/
def concreteOk (tab : KindTable) (enforce : Bool) : Ty → Bool
  | .any _ => true
  | .prim _ => true
  | .generic _ => true
  | .fn as r => concreteOkL tab as && concreteOk tab true r
  | .nominal _ m i ts => concreteOkL tab ts && !(enforce && isInterface tab m i)
def concreteOkL (tab : KindTable) : List Ty → Bool
  | [] => true
  | t :: ts => concreteOk tab true t && concreteOkL tab ts
end

mutual
/-- Specification: nominal nodes strictly below the root position that must be concrete. -/
def innerNodes : Ty → List (Nat × Nat)
  | .any _ => []
  | .prim _ => []
  | .generic _ => []
  | .fn as r => allNodesL as ++ allNodes r
  | .nominal _ _ _ ts => allNodesL ts
def allNodes : Ty → List (Nat × Nat)
  | .any _ => []
  | .prim _ => []
  | .generic _ => []
  | .fn as r => allNodesL as ++ allNodes r
  | .nominal _ m i ts => (m, i) :: allNodesL ts
def allNodesL : List Ty → List (Nat × Nat)
  | [] => []
  | t :: ts => allNodes t ++ allNodesL ts
end

/-! ## Instantiation of inherited signatures -/

/-- `resolve_method_signature_recursive` (global_signature.rs:333-376), the signature it pushes
for a method found in interface instance `I<targs>`: bounds and function type are substituted with
`tparams ↦ targs` (zip). -/
def instantiateSig (tparams : List Nat) (targs : List Ty) (m : MSig) : MSig :=
  let σ : Subst := tparams.zip targs
  { m with tparams := m.tparams.map (fun p => (p.1, p.2.map (subst σ))), ty := subst σ m.ty }

/-- Conformance of a class against the members of `I<targs>`. -/
def classConformsInst (tparams : List Nat) (targs : List Ty) (iface declared : List MSig) : Bool :=
  classConforms (iface.map (instantiateSig tparams targs)) declared

/-! ## Name resolution of classes, members, modules -/

/-- The parser maps a class name to the module it was imported from, else to the current module
(`class_source_map`, source_parser.rs); `check_class_id` then asks `class_exists`
(main_checker.rs:267-290, typing_context.rs:229-242): the toplevel must exist *and* have a type
definition (an interface is not a class value). Table: (module, name) ↦ has a type definition. -/
def resolveClassModule (imports : List (Nat × Nat)) (cur name : Nat) : Nat :=
  match imports with
  | [] => cur
  | (n, m) :: rest => if n = name then m else resolveClassModule rest cur name

def classExists : List ((Nat × Nat) × Bool) → Nat → Nat → Bool
  | [], _, _ => false
  | ((m, i), hasDef) :: rest, m', i' => if m = m' ∧ i = i' then hasDef else classExists rest m' i'

def classIdResolved (imports : List (Nat × Nat)) (cur : Nat) (tab : List ((Nat × Nat) × Bool)) (name : Nat) : Bool :=
  classExists tab (resolveClassModule imports cur name) name

/-- import of a module (main_checker.rs:1674-1684): it must be among the checked sources. -/
def moduleResolved (modules : List Nat) (m : Nat) : Bool := modules.contains m

/-- member access `e.name` (main_checker.rs:409-540): a visible method, else a visible field,
else `CannotResolveMember`. -/
def memberAccessResolved (cx : Ctx) (c : ClassRef) (methods fields : List (Nat × Bool)) (name : Nat) : Bool :=
  memberResolved cx c methods name || fieldResolved cx c fields name

/-! ## Kind gates: what may be called, accessed, extended, declared -/

/-- callee of a call (main_checker.rs:741-751): a function type, or `any` (already reported);
anything else is `IncompatibleTypeKind`. `true` = no diagnostic. -/
def calleeOk : Ty → Bool
  | .fn _ _ => true
  | .any _ => true
  | _ => false

/-- object of a member access `e.name` (main_checker.rs:385-395 with `nominal_type_upper_bound`,
typing_context.rs:136-143): a nominal type, a type parameter with a bound, or `any`. -/
def memberObjectOk (boundedGenerics : List Nat) : Ty → Bool
  | .nominal _ _ _ _ => true
  | .generic n => boundedGenerics.contains n
  | .any _ => true
  | _ => false

/-- explicit type arguments on a *field* access (main_checker.rs:500-505): none allowed. -/
def fieldTyArgsOk (given : Option Nat) : Bool := given.isNone

/-- a resolved super type must be an interface (main_checker.rs:1716-1731); table as `KindTable`. -/
def superKindsOk (tab : KindTable) (known : List (Nat × Nat)) (supers : List (Nat × Nat)) : Bool :=
  supers.all fun k => !(known.contains k) || isInterface tab k.1 k.2

/-- members of an interface must be methods (main_checker.rs:1778-1782). `true` = is a method. -/
def interfaceMembersOk (isClass : Bool) (members : List Bool) : Bool :=
  isClass || members.all id

/-! ## Transitive super types with cycle detection -/

structure Decl where
  key : Nat × Nat
  tparams : List Nat
  supers : List Ty

def findDecl : List Decl → Nat × Nat → Option Decl
  | [], _ => none
  | d :: ds, k => if d.key = k then some d else findDecl ds k

def keyOf : Ty → Option (Nat × Nat)
  | .nominal _ m i _ => some (m, i)
  | _ => none

def targsOf : Ty → List Ty
  | .nominal _ _ _ ts => ts
  | _ => []

/-- accumulated result: (`collector.types`, `collector.is_cyclic`, fuel ran out) -/
abbrev SupAcc := List Ty × Bool × Bool

/-- `resolve_all_transitive_super_types_recursive` (global_signature.rs:239-268). `path` is the
`visited` set, which holds exactly the keys on the current recursion path (inserted on entry,
removed on exit). The recursion depth is bounded by the number of declared toplevels + 1 (a path has
distinct keys, all but the last declared); the model carries that bound as `fuel` and records
exhaustion in the third component (the driver starts with `table.length + 2`). -/
def resolveSupersF (tab : List Decl) : Nat → List (Nat × Nat) → Ty → SupAcc → SupAcc
  | 0, _, _, acc => (acc.1, acc.2.1, true)
  | fuel + 1, path, t, acc =>
    match keyOf t with
    | none => acc
    | some k =>
      if path.contains k then (acc.1, true, acc.2.2)
      else
        match findDecl tab k with
        | none => acc
        | some d =>
          (d.supers.map (subst (d.tparams.zip (targsOf t)))).foldl
            (fun a s =>
              let r := resolveSupersF tab fuel (k :: path) s a
              (r.1 ++ [s], r.2.1, r.2.2))
            acc

def resolveSupers (tab : List Decl) (t : Ty) : SupAcc :=
  resolveSupersF tab (tab.length + 2) [] t ([], false, false)

/-- The same function with the repair of finding C05-F6 (skip a super type that is already
collected: `collector.types.iter().any(|t| t.is_the_same_type(&instantiated_super_type))`), which
makes diamond-shaped hierarchies linear instead of exponential. `vlib/c06.py` selects the variant
the current source implements (it looks for that test in global_signature.rs) and ties it exactly. -/
def resolveSupersMF (tab : List Decl) : Nat → List (Nat × Nat) → Ty → SupAcc → SupAcc
  | 0, _, _, acc => (acc.1, acc.2.1, true)
  | fuel + 1, path, t, acc =>
    match keyOf t with
    | none => acc
    | some k =>
      if path.contains k then (acc.1, true, acc.2.2)
      else
        match findDecl tab k with
        | none => acc
        | some d =>
          (d.supers.map (subst (d.tparams.zip (targsOf t)))).foldl
            (fun a s =>
              if a.1.any (fun u => sameType u s) then a
              else
                let r := resolveSupersMF tab fuel (k :: path) s a
                (r.1 ++ [s], r.2.1, r.2.2))
            acc

def resolveSupersM (tab : List Decl) (t : Ty) : SupAcc :=
  resolveSupersMF tab (tab.length + 2) [] t ([], false, false)

end SamVerif.Gates
