/-
Model for property C08 (formatting never changes the program), expression / literal fragment.
Core Lean only (no Mathlib) so that the line-protocol driver links natively.

Printer side (`crates/samlang-printer/src/source_printer.rs`, `crates/samlang-ast/src/source.rs`):
  * `BinOp.pprec`     = `BinaryOperator::precedence`                       (source.rs:524-543)
  * `Expr.prec`       = `E::precedence`                                    (source.rs:698-708)
  * `sub`             = `create_doc_for_subexpression_considering_precedence_level`
                                                                           (source_printer.rs:217-234)
  * `printE`          = `create_doc_without_preceding_comment`, arms `Unary` (593-602) and
                        `Binary` (605-676: left-operand rule, "commutative operator" shortcut for
                        the right operand with the `- / %` exemption, "safest rule")
    The result is the *token sequence* of the output (the layout engine only inserts blanks and
    line breaks between tokens; that part belongs to C09).
Parser side (`crates/samlang-parser/src/source_parser.rs`):
  * `parseLevel k`    = `parse_disjunction` (k=0, 792) … `parse_conjunction` (1, 822),
                        `parse_comparison` (2, 852), `parse_term` (3, 891), `parse_factor` (4, 923),
                        `parse_concat` (5, 956), `parse_unary_expression` (k ≥ 6, 983)
  * `parseLoop k`     = the `while`/`loop` of `parse_*_with_start` of that level
  * `BinOp.plevel`    = which of these loops consumes the operator token
  * `parseBase`       = `parse_base_expression` restricted to single-token atoms and the
                        "nested expression" case `( e )`, whose parentheses are dropped (1429-1442)
  * `parseUnary`      : note that the argument of `!`/`-` is parsed by
                        `parse_function_call_or_field_access`, *not* recursively by
                        `parse_unary_expression` (988, 1004).
String literals:
  * `lexStr`          = `lex_str_lit_opt` (lexer.rs:317-355)
  * `unescapeQuotes`  = `utils::unescape_quotes` (source_parser.rs:2210-2212), applied at 1515-1529
  * `printStr`        = the `Literal::String` arm of the printer (source_printer.rs:581-583)
Int literals / `-`:
  * `mergeMinInt`     = `TokenProducer::process_raw_token` (lexer.rs:732-766) for in-range tokens
-/
namespace SamVerif.Fmt

/-- `expr::BinaryOperator` (source.rs:480-496). -/
inductive BinOp where
  | mul | div | mod | plus | minus | concat | lt | le | gt | ge | eq | ne | and | or
  deriving DecidableEq, Repr, Inhabited

/-- `BinaryOperator::precedence` (source.rs:524-543): the table the *printer* uses. -/
def BinOp.pprec : BinOp → Nat
  | .mul | .div | .mod => 0
  | .plus | .minus | .concat => 1
  | .lt | .le | .gt | .ge | .eq | .ne => 2
  | .and => 3
  | .or => 4

/-- The level at which the *parser* consumes the operator: 0 `parse_disjunction_with_start`,
1 conjunction, 2 comparison, 3 term (`+ -`), 4 factor (`* / %`), 5 concat (`::`).
`::` binds tighter than `* / %` in the parser (parse_factor calls parse_concat, 923-981). -/
def BinOp.plevel : BinOp → Nat
  | .or => 0
  | .and => 1
  | .lt | .le | .gt | .ge | .eq | .ne => 2
  | .plus | .minus => 3
  | .mul | .div | .mod => 4
  | .concat => 5

/-- `expr::UnaryOperator`. -/
inductive UOp where
  | not | neg
  deriving DecidableEq, Repr, Inhabited

/-- Expression fragment. `atom n` stands for any single-token expression of printer precedence 0
(literal, identifier, class id, `this`); the driver numbers distinct token texts. -/
inductive Expr where
  | atom (a : Nat)
  | unary (u : UOp) (e : Expr)
  | binary (o : BinOp) (l r : Expr)
  deriving DecidableEq, Repr, Inhabited

/-- `E::precedence` (source.rs:698-708). -/
def Expr.prec : Expr → Nat
  | .atom _ => 0
  | .unary _ _ => 2
  | .binary o _ _ => 4 + o.pprec

/-- Tokens of the fragment. Unary `-` and binary `-` are the same token (`TokenOp::Minus`). -/
inductive Tok where
  | lp | rp | bang
  | op (o : BinOp)
  | atom (a : Nat)
  deriving DecidableEq, Repr, Inhabited

def paren (ts : List Tok) : List Tok := Tok.lp :: (ts ++ [Tok.rp])

/-- the `add_parenthesis` decision of
`create_doc_for_subexpression_considering_precedence_level` (source_printer.rs:224-228);
`p` is the precedence of the enclosing expression. -/
def needParen (p : Nat) (equalLevelParenthesis : Bool) (e : Expr) : Bool :=
  if equalLevelParenthesis then decide (e.prec ≥ p) else decide (e.prec > p)

/-- `create_doc_for_subexpression_considering_precedence_level` (source_printer.rs:217-234):
`ts` is the rendering of `e`. -/
def sub (p : Nat) (equalLevelParenthesis : Bool) (e : Expr) (ts : List Tok) : List Tok :=
  if needParen p equalLevelParenthesis e then paren ts else ts

def utok : UOp → Tok
  | .not => .bang
  | .neg => .op .minus

/-- operators exempted from the right-operand shortcut (source_printer.rs:640). -/
def BinOp.noShortcut : BinOp → Bool
  | .minus | .div | .mod => true
  | _ => false

/-- `create_doc_without_preceding_comment` (source_printer.rs:572-737), arms Literal/LocalId/
ClassId, Unary, Binary. -/
def printE : Expr → List Tok
  | .atom a => [.atom a]
  | .unary u e => utok u :: sub 2 false e (printE e)
  | .binary o l r =>
    let p := 4 + o.pprec
    if l.prec = p then
      -- "Since we are doing left to right evaluation, this is safe." (622-636)
      printE l ++ [.op o] ++ sub p true r (printE r)
    else if r.prec = p ∧ o.noShortcut = false then
      -- "For the commutative operators, we can remove parentheses." (637-656)
      sub p true l (printE l) ++ [.op o] ++ printE r
    else
      -- "Safest rule" (657-675)
      sub p true l (printE l) ++ [.op o] ++ sub p true r (printE r)

abbrev PResult := Option (Expr × List Tok)

mutual
/-- `parse_base_expression` on the fragment: a single-token atom, or `( e )` (unwrapped). -/
def parseBase : Nat → List Tok → PResult
  | 0, _ => none
  | _ + 1, .atom a :: ts => some (.atom a, ts)
  | f + 1, .lp :: ts =>
    match parseLevel f 0 ts with
    | some (e, .rp :: ts') => some (e, ts')
    | _ => none
  | _ + 1, _ => none
/-- `parse_unary_expression` (983-1020). -/
def parseUnary : Nat → List Tok → PResult
  | 0, _ => none
  | f + 1, .bang :: ts =>
    match parseBase f ts with
    | some (e, r) => some (.unary .not e, r)
    | none => none
  | f + 1, .op .minus :: ts =>
    match parseBase f ts with
    | some (e, r) => some (.unary .neg e, r)
    | none => none
  | f + 1, ts => parseBase f ts
/-- `parse_disjunction` … `parse_concat` (level k ≤ 5), `parse_unary_expression` (k ≥ 6). -/
def parseLevel : Nat → Nat → List Tok → PResult
  | 0, _, _ => none
  | f + 1, k, ts =>
    if k ≥ 6 then parseUnary f ts
    else
      match parseLevel f (k + 1) ts with
      | none => none
      | some (e, r) => parseLoop f k e r
/-- the loop of `parse_*_with_start` of level `k`: left-associative accumulation. -/
def parseLoop : Nat → Nat → Expr → List Tok → PResult
  | 0, _, _, _ => none
  | f + 1, k, e, .op o :: ts =>
    if o.plevel = k then
      match parseLevel f (k + 1) ts with
      | none => none
      | some (e2, r) => parseLoop f k (.binary o e e2) r
    else some (e, .op o :: ts)
  | _ + 1, _, e, ts => some (e, ts)
end

/-- parse a complete token sequence with the given recursion budget. -/
def parseFuel (f : Nat) (ts : List Tok) : Option Expr :=
  match parseLevel f 0 ts with
  | some (e, []) => some e
  | _ => none

/-- Budget used by the driver (and by the concrete witnesses): recursion depth is at most
nine calls per token. -/
def fuelFor (ts : List Tok) : Nat := 16 * ts.length + 16

/-- `parse_expression` on a complete token sequence of the fragment. -/
def parseE (ts : List Tok) : Option Expr := parseFuel (fuelFor ts) ts

/-- The parser-side level at which an expression stands without parentheses:
7 base, 6 unary, else the level of its operator. -/
def Expr.lvl : Expr → Nat
  | .atom _ => 7
  | .unary _ _ => 6
  | .binary o _ _ => o.plevel

/-- does the printer parenthesise the left / right operand of `binary o l r`? (a restatement of
the three cases of `printE`, see `printE_binary` in `Lemmas/Fmt.lean`). -/
def lParen (o : BinOp) (l : Expr) : Bool :=
  if l.prec = 4 + o.pprec then false else needParen (4 + o.pprec) true l
def rParen (o : BinOp) (l r : Expr) : Bool :=
  if l.prec = 4 + o.pprec then needParen (4 + o.pprec) true r
  else if r.prec = 4 + o.pprec ∧ o.noShortcut = false then false
  else needParen (4 + o.pprec) true r

/-- Side condition of the partial round-trip theorem: wherever the printer leaves an operand
*without* parentheses, the parser's level structure reads it back as that operand:
a bare left operand must stand at the parent's level or tighter (left associativity),
a bare right operand strictly tighter, a bare operand of `!`/`-` must be a base expression. -/
def RT : Expr → Bool
  | .atom _ => true
  | .unary _ e => RT e && (needParen 2 false e || decide (e.lvl ≥ 7))
  | .binary o l r =>
    RT l && RT r && (lParen o l || decide (l.lvl ≥ o.plevel)) &&
      (rParen o l r || decide (r.lvl > o.plevel))

/-! ## String literals -/

/-- number of `\` immediately before the end of `pre` (pre is reversed: nearest first). -/
def countBackslashes : List Char → Nat
  | '\\' :: rest => countBackslashes rest + 1
  | _ => 0

/-- `lex_str_lit_opt` after the opening quote (lexer.rs:325-354). `acc` holds the content read so
far, reversed. Returns (content, remaining input after the closing quote). -/
def lexStrGo : List Char → List Char → Option (List Char × List Char)
  | _, [] => none
  | acc, c :: rest =>
    if c = '"' ∧ countBackslashes acc % 2 = 0 then some (acc.reverse, rest)
    else if c = '\n' then none
    else lexStrGo (c :: acc) rest

/-- `lex_str_lit_opt`: content between the quotes and the remaining input. -/
def lexStr : List Char → Option (List Char × List Char)
  | '"' :: rest => lexStrGo [] rest
  | _ => none

/-- `string_has_valid_escape` (lexer.rs:685-703), applied to the whole token text.
`pending` = an unprocessed backslash precedes. -/
def validEscapeGo : Bool → List Char → Bool
  | _, [] => true
  | pending, c :: rest =>
    if c = '\\' then validEscapeGo (!pending) rest
    else if pending then
      (if c = 't' ∨ c = 'v' ∨ c = '0' ∨ c = 'b' ∨ c = 'f' ∨ c = 'n' ∨ c = 'r' ∨ c = '"' then
        validEscapeGo false rest
      else false)
    else validEscapeGo false rest

def validEscape (token : List Char) : Bool := validEscapeGo false token

/-- `unescape_quotes`: `source.replace("\\\"", "\"")` (left to right, non-overlapping). -/
def unescapeQuotes : List Char → List Char
  | '\\' :: '"' :: rest => '"' :: unescapeQuotes rest
  | c :: rest => c :: unescapeQuotes rest
  | [] => []

/-- printer arm `Literal::String(s)`: `"` + s + `"`, no escaping (source_printer.rs:581-583). -/
def printStr (s : List Char) : List Char := '"' :: (s ++ ['"'])

/-- what the parser stores for a string-literal token. -/
def parseStr (input : List Char) : Option (List Char × List Char) :=
  match lexStr input with
  | some (c, rest) => some (unescapeQuotes c, rest)
  | none => none

/-- the two-character sequence `\"` occurs in `s`. -/
def hasEscapedQuote : List Char → Bool
  | '\\' :: '"' :: _ => true
  | _ :: rest => hasEscapedQuote rest
  | [] => false

/-! ## `-` followed by 2147483648 -/

/-- raw tokens of the int fragment: `-` and non-negative decimal literals. -/
inductive RawTok where
  | minus
  | int (n : Nat)
  | other (k : Nat)
  deriving DecidableEq, Repr

/-- tokens after `TokenProducer::process_raw_token`: `- 2147483648` merged into one literal. -/
inductive IntTok where
  | minus
  | int (n : Nat)
  | minInt
  | other (k : Nat)
  deriving DecidableEq, Repr

/-- `TokenProducer::next_token` / `process_raw_token` (lexer.rs:712-766) on tokens in range:
a `2147483648` directly after a `-` is merged with it. -/
def mergeMinInt : List RawTok → List IntTok
  | .minus :: .int 2147483648 :: rest => .minInt :: mergeMinInt rest
  | .minus :: rest => .minus :: mergeMinInt rest
  | .int n :: rest => .int n :: mergeMinInt rest
  | .other k :: rest => .other k :: mergeMinInt rest
  | [] => []

/-- printer arm `Literal::Int(i)`: `i.to_string()` re-lexed as raw tokens. -/
def printInt (i : Int) : List RawTok :=
  if i < 0 then [.minus, .int i.natAbs] else [.int i.toNat]

/-- the parser's reading of the merged tokens of one literal (`parse::<i32>`). -/
def readInt : List IntTok → Option Int
  | [.int n] => if n < 2147483648 then some n else none
  | [.minInt] => some (-2147483648)
  | _ => none

end SamVerif.Fmt
