/-
Model for property C08 (formatting never changes the program), expression / literal fragment.
Core Lean only (no Mathlib) so that the line-protocol driver links natively.
Line numbers refer to /repo after the C08 `fix:` commits b0a5193, 7a6d532, 8067f9b, 9730edb, 8fbb1c9.

Printer side (`crates/samlang-printer/src/source_printer.rs`, `crates/samlang-ast/src/source.rs`):
  * `BinOp.pprec`     = `BinaryOperator::precedence`                       (source.rs:525-543)
  * `Expr.prec`       = `E::precedence`                                    (source.rs:698-708)
  * `sub`             = `create_doc_for_subexpression_considering_precedence_level`
                                                                           (source_printer.rs:217-234)
  * `printE`          = `create_doc_without_preceding_comment` (578-760): arms Literal/LocalId/ClassId/
                        Tuple/Block (`atom`), FieldAccess/MethodAccess/Call through
                        `create_chainable_ir_docs` (430-484: the base of a chain is parenthesised iff
                        its precedence is > 1; `post`), `Unary` (604-616), `Binary` (617-700:
                        left-operand rule, same-associative-operator shortcut, "safest rule"),
                        IfElse / Match (opaque, `ifElse` / `matchE`), `Lambda` (725-757: the body is
                        never parenthesised since nothing has precedence > 12).
    The result is the *token sequence* of the output (the layout engine only inserts blanks and
    line breaks between tokens; that part belongs to C09).
Parser side (`crates/samlang-parser/src/source_parser.rs`):
  * `parseTop`        = `parse_expression` = `parse_match` (697) / `parse_if_else_or_higher_precedence`
                        (752): `match`/`if` are only recognised here, else `parse_disjunction`
  * `parseLevel k`    = `parse_disjunction` (k=0, 797), `parse_conjunction` (1, 827),
                        `parse_comparison` (2, 857), `parse_term` (3, 896: `+ - ::`),
                        `parse_factor` (4, 929), `parse_unary_expression` (5, 962),
                        `parse_function_call_or_field_access` (k ≥ 6, 1001)
  * `parseLoop k`     = the `while`/`loop` of `parse_*_with_start` of that level; for k = 6 the
                        postfix loop over `.name` / `(args)` (1006-1068)
  * `BinOp.plevel`    = which of these loops consumes the operator token
  * `parseBase`       = `parse_base_expression` (1083): single-token atoms, `( e )` whose parentheses
                        are dropped (1407-1420), lambda `(params) -> body` with
                        body = `parse_expression`
  * `parseUnary`      : the argument of `!`/`-` is parsed by
                        `parse_function_call_or_field_access`, *not* recursively by
                        `parse_unary_expression` (967, 983).
Opaque parts (one token each; their inside is reached only by the reparse oracle): the member name
and type arguments of a field access and the argument list of a call (`post p`), tuples and blocks
(`atom`), the whole `if … else …` and `match … { … }` expressions, the parameter list of a lambda.
String literals:
  * `lexStr`          = `lex_str_lit_opt` (lexer.rs:317-355)
  * `unescapeQuotes`  = `utils::unescape_quotes` (source_parser.rs), applied to string tokens
  * `printStr`        = the `Literal::String` arm of the printer (source_printer.rs:587-595)
Int literals / `-`:
  * `mergeMinInt`     = `TokenProducer::process_raw_token` (lexer.rs) for in-range tokens
-/
namespace SamVerif.Fmt

/-- `expr::BinaryOperator` (source.rs:480-496). -/
inductive BinOp where
  | mul | div | mod | plus | minus | concat | lt | le | gt | ge | eq | ne | and | or
  deriving DecidableEq, Repr, Inhabited

/-- `BinaryOperator::precedence` (source.rs:525-543): the table the *printer* uses. -/
def BinOp.pprec : BinOp → Nat
  | .mul | .div | .mod => 0
  | .plus | .minus | .concat => 1
  | .lt | .le | .gt | .ge | .eq | .ne => 2
  | .and => 3
  | .or => 4

/-- The level at which the *parser* consumes the operator: 0 `parse_disjunction_with_start`,
1 conjunction, 2 comparison, 3 term (`+ - ::`), 4 factor (`* / %`).
(Before fix 8067f9b `::` had its own level between factor and unary, finding C08-F4.) -/
def BinOp.plevel : BinOp → Nat
  | .or => 0
  | .and => 1
  | .lt | .le | .gt | .ge | .eq | .ne => 2
  | .plus | .minus | .concat => 3
  | .mul | .div | .mod => 4

/-- `expr::UnaryOperator`. -/
inductive UOp where
  | not | neg
  deriving DecidableEq, Repr, Inhabited

/-- Expression fragment.
`atom n`: any delimited expression of printer precedence 0 or 1 that is a single unit for the
parser's base level (literal, identifier, class id, `this`, tuple, block); the two precedences
behave identically in every parenthesisation test (`> 1`, `≥ 2`, `≥ 4…8`).
`post e p field`: field / method access (`field = true`) or call (`false`) on `e`; `p` numbers the
opaque postfix text.
`ifElse k`, `matchE k`: opaque if-else / match expression. `lambda k body`: `(params) -> body`. -/
inductive Expr where
  | atom (a : Nat)
  | post (e : Expr) (p : Nat) (field : Bool)
  | unary (u : UOp) (e : Expr)
  | binary (o : BinOp) (l r : Expr)
  | ifElse (k : Nat)
  | matchE (k : Nat)
  | lambda (k : Nat) (body : Expr)
  deriving DecidableEq, Repr, Inhabited

/-- `E::precedence` (source.rs:698-708). -/
def Expr.prec : Expr → Nat
  | .atom _ => 0
  | .post _ _ _ => 1
  | .unary _ _ => 2
  | .binary o _ _ => 4 + o.pprec
  | .ifElse _ => 10
  | .matchE _ => 11
  | .lambda _ _ => 12

/-- Tokens of the fragment. Unary `-` and binary `-` are the same token (`TokenOp::Minus`).
`post p true`: `.name`, `post p false`: `(args)`; `kwIf k` / `kwMatch k`: a whole if-else / match expression;
`lam k`: `(params) ->`. -/
inductive Tok where
  | lp | rp | bang
  | op (o : BinOp)
  | atom (a : Nat)
  | post (p : Nat) (field : Bool)
  | kwIf (k : Nat)
  | kwMatch (k : Nat)
  | lam (k : Nat)
  deriving DecidableEq, Repr, Inhabited

def paren (ts : List Tok) : List Tok := Tok.lp :: (ts ++ [Tok.rp])

/-- the `add_parenthesis` decision of
`create_doc_for_subexpression_considering_precedence_level` (source_printer.rs:224-228);
`p` is the precedence of the enclosing expression. -/
def needParen (p : Nat) (equalLevelParenthesis : Bool) (e : Expr) : Bool :=
  if equalLevelParenthesis then decide (e.prec ≥ p) else decide (e.prec > p)

/-- `create_doc_for_subexpression_considering_precedence_level` (source_printer.rs:217-234):
`ts` is the rendering of `e`. -/
def sub (p : Nat) (equalLevelParenthesis : Bool) (e : Expr) (ts : List Tok) : List Tok :=
  if needParen p equalLevelParenthesis e then paren ts else ts

def utok : UOp → Tok
  | .not => .bang
  | .neg => .op .minus

/-- the right-operand shortcut (source_printer.rs:649-676, after fixes 9730edb and 8fbb1c9,
finding C08-F1): the right operand applies the same operator as its parent, that operator is one
of `+ * && ||`, and the right operand's own left operand is not on that precedence level. -/
def shortcutOk (o : BinOp) (r : Expr) : Bool :=
  match r with
  | .binary o' r1 _ =>
    (o == .plus || o == .mul || o == .and || o == .or) && o' == o && r1.prec != 4 + o.pprec
  | _ => false

/-- `ends_with_member_name` (source_printer.rs, added by fix 0291c0a for finding C08-F6): may the
printed form end with a member name? (for a binary expression the printer looks at the right
operand whether or not that is parenthesised — an over-approximation). -/
def endsMember : Expr → Bool
  | .post _ _ fld => fld
  | .unary _ a => decide (a.prec < 2) && endsMember a
  | .binary _ _ r => endsMember r
  | .lambda _ b => endsMember b
  | _ => false

/-- `create_doc_without_preceding_comment` (source_printer.rs:578-790). -/
def printE : Expr → List Tok
  | .atom a => [.atom a]
  | .post e p fld => sub 1 false e (printE e) ++ [.post p fld]   -- create_chainable_ir_docs, base case
  | .unary u e => utok u :: sub 2 true e (printE e)         -- `true` since fix 7a6d532 (C08-F3)
  | .binary o l r =>
    let p := 4 + o.pprec
    if o = .lt ∧ endsMember l = true then
      -- `a.b < c` is not a comparison for the parser: the left operand keeps its parentheses
      paren (printE l) ++ [.op o] ++ sub p true r (printE r)
    else if l.prec = p then
      -- "Since we are doing left to right evaluation, this is safe."
      printE l ++ [.op o] ++ sub p true r (printE r)
    else if r.prec = p ∧ shortcutOk o r = true then
      -- same associative operator: parentheses removed
      sub p true l (printE l) ++ [.op o] ++ printE r
    else
      -- "Safest rule"
      sub p true l (printE l) ++ [.op o] ++ sub p true r (printE r)
  | .ifElse k => [.kwIf k]
  | .matchE k => [.kwMatch k]
  | .lambda k body => .lam k :: sub 12 false body (printE body)

abbrev PResult := Option (Expr × List Tok)

/-- the next token is `<`. After a member name the parser always takes it for the start of explicit
type arguments (`parse_optional_type_arguments`, source_parser.rs:2128-2153, called at 1028), so
`a.b < c` is not a comparison (finding C08-F6). -/
def startsLt : List Tok → Bool
  | .op .lt :: _ => true
  | _ => false

mutual
/-- `parse_expression`: `match` and `if` are recognised only here. -/
def parseTop : Nat → List Tok → PResult
  | 0, _ => none
  | _ + 1, .kwMatch k :: ts => some (.matchE k, ts)
  | _ + 1, .kwIf k :: ts => some (.ifElse k, ts)
  | f + 1, ts => parseLevel f 0 ts
/-- `parse_base_expression` on the fragment. -/
def parseBase : Nat → List Tok → PResult
  | 0, _ => none
  | _ + 1, .atom a :: ts => some (.atom a, ts)
  | f + 1, .lam k :: ts =>
    match parseTop f ts with
    | some (body, r) => some (.lambda k body, r)
    | none => none
  | f + 1, .lp :: ts =>
    match parseTop f ts with
    | some (e, .rp :: ts') => some (e, ts')
    | _ => none
  | _ + 1, _ => none
/-- `parse_unary_expression`. -/
def parseUnary : Nat → List Tok → PResult
  | 0, _ => none
  | f + 1, .bang :: ts =>
    match parseLevel f 6 ts with
    | some (e, r) => some (.unary .not e, r)
    | none => none
  | f + 1, .op .minus :: ts =>
    match parseLevel f 6 ts with
    | some (e, r) => some (.unary .neg e, r)
    | none => none
  | f + 1, ts => parseLevel f 6 ts
/-- `parse_disjunction` … `parse_factor` (k ≤ 4), `parse_unary_expression` (k = 5),
`parse_function_call_or_field_access` (k ≥ 6). -/
def parseLevel : Nat → Nat → List Tok → PResult
  | 0, _, _ => none
  | f + 1, k, ts =>
    if k ≥ 6 then
      match parseBase f ts with
      | none => none
      | some (e, r) => parseLoop f 6 e r
    else if k = 5 then parseUnary f ts
    else
      match parseLevel f (k + 1) ts with
      | none => none
      | some (e, r) => parseLoop f k e r
/-- the loop of `parse_*_with_start` of level `k`: left-associative accumulation of binary
operators (k ≤ 4) or of postfix items (k = 6). -/
def parseLoop : Nat → Nat → Expr → List Tok → PResult
  | 0, _, _, _ => none
  | f + 1, k, e, .op o :: ts =>
    if o.plevel = k then
      match parseLevel f (k + 1) ts with
      | none => none
      | some (e2, r) => parseLoop f k (.binary o e e2) r
    else some (e, .op o :: ts)
  | f + 1, k, e, .post p fld :: ts =>
    if k = 6 then
      -- a `<` after a member name starts type arguments; in the fragment that never parses
      if fld && startsLt ts then none else parseLoop f k (.post e p fld) ts
    else some (e, .post p fld :: ts)
  | _ + 1, _, e, ts => some (e, ts)
end

/-- parse a complete token sequence with the given recursion budget. -/
def parseFuel (f : Nat) (ts : List Tok) : Option Expr :=
  match parseTop f ts with
  | some (e, []) => some e
  | _ => none

/-- Recursion budget of `parseE`; sufficient for every printed expression (`fuel_suffices`). -/
def fuelFor (ts : List Tok) : Nat := 128 * ts.length + 128

/-- `parse_expression` on a complete token sequence of the fragment. -/
def parseE (ts : List Tok) : Option Expr := parseFuel (fuelFor ts) ts

/-- may the expression stand as an operand without parentheses at all? (`if`/`match` are only
recognised by `parse_expression`; a lambda swallows everything to its right.) -/
def Expr.operandOk : Expr → Bool
  | .ifElse _ | .matchE _ | .lambda _ _ => false
  | _ => true

/-- The parser-side level at which an expression stands without parentheses:
6 base / postfix, 5 unary, else the level of its operator (0 for the top-only forms). -/
def Expr.lvl : Expr → Nat
  | .atom _ | .post _ _ _ => 6
  | .unary _ _ => 5
  | .binary o _ _ => o.plevel
  | .ifElse _ | .matchE _ | .lambda _ _ => 0

/-- does the printer parenthesise the left / right operand of `binary o l r`? (a restatement of
the three cases of `printE`, see `printE_binary` in `Lemmas/Fmt.lean`). -/
def lParen (o : BinOp) (l : Expr) : Bool :=
  if o = .lt ∧ endsMember l = true then true
  else if l.prec = 4 + o.pprec then false else needParen (4 + o.pprec) true l
def rParen (o : BinOp) (l r : Expr) : Bool :=
  if l.prec = 4 + o.pprec then needParen (4 + o.pprec) true r
  else if r.prec = 4 + o.pprec ∧ shortcutOk o r = true then false
  else needParen (4 + o.pprec) true r

/-- the printed form of the expression ends with a member name (`.name`). -/
def lastField : Expr → Bool
  | .atom _ | .ifElse _ | .matchE _ => false
  | .post _ _ fld => fld
  | .unary _ a => if needParen 2 true a then false else lastField a
  | .binary o l r => if rParen o l r then false else lastField r
  | .lambda _ b => lastField b

/-- Side condition of the partial round-trip theorem: wherever the printer leaves an operand
*without* parentheses, the parser's level structure reads it back as that operand:
a bare left operand must stand at the parent's level or tighter (left associativity),
a bare right operand strictly tighter, a bare operand of `!`/`-` or base of a postfix chain must
be a base/postfix expression, `if`/`match`/lambda are never bare operands, and the bare left operand
of `<` does not end with a member name. -/
def RT : Expr → Bool
  | .atom _ => true
  | .ifElse _ => true
  | .matchE _ => true
  | .lambda _ body => RT body
  | .post e _ _ => RT e && (needParen 1 false e || (e.operandOk && decide (e.lvl ≥ 6)))
  | .unary _ e => RT e && (needParen 2 true e || (e.operandOk && decide (e.lvl ≥ 6)))
  | .binary o l r =>
    RT l && RT r && (lParen o l || (l.operandOk && decide (l.lvl ≥ o.plevel))) &&
      (rParen o l r || (r.operandOk && decide (r.lvl > o.plevel))) &&
      !(o == .lt && !lParen o l && lastField l)

/-! ## String literals -/

/-- number of `\` immediately before the end of `pre` (pre is reversed: nearest first). -/
def countBackslashes : List Char → Nat
  | '\\' :: rest => countBackslashes rest + 1
  | _ => 0

/-- `lex_str_lit_opt` after the opening quote (lexer.rs:325-354). `acc` holds the content read so
far, reversed. Returns (content, remaining input after the closing quote). -/
def lexStrGo : List Char → List Char → Option (List Char × List Char)
  | _, [] => none
  | acc, c :: rest =>
    if c = '"' ∧ countBackslashes acc % 2 = 0 then some (acc.reverse, rest)
    else if c = '\n' then none
    else lexStrGo (c :: acc) rest

/-- `lex_str_lit_opt`: content between the quotes and the remaining input. -/
def lexStr : List Char → Option (List Char × List Char)
  | '"' :: rest => lexStrGo [] rest
  | _ => none

/-- `string_has_valid_escape` (lexer.rs:685-703), applied to the whole token text.
`pending` = an unprocessed backslash precedes. -/
def validEscapeGo : Bool → List Char → Bool
  | _, [] => true
  | pending, c :: rest =>
    if c = '\\' then validEscapeGo (!pending) rest
    else if pending then
      (if c = 't' ∨ c = 'v' ∨ c = '0' ∨ c = 'b' ∨ c = 'f' ∨ c = 'n' ∨ c = 'r' ∨ c = '"' then
        validEscapeGo false rest
      else false)
    else validEscapeGo false rest

def validEscape (token : List Char) : Bool := validEscapeGo false token

/-- `unescape_quotes`: `source.replace("\\\"", "\"")` (left to right, non-overlapping). -/
def unescapeQuotes : List Char → List Char
  | '\\' :: '"' :: rest => '"' :: unescapeQuotes rest
  | c :: rest => c :: unescapeQuotes rest
  | [] => []

/-- `s.replace('"', "\\\"")` -/
def escapeQuotes : List Char → List Char
  | '"' :: rest => '\\' :: '"' :: escapeQuotes rest
  | c :: rest => c :: escapeQuotes rest
  | [] => []

/-- printer arm `Literal::String(s)`: `"` + s with every `"` escaped + `"`
(source_printer.rs:581-590; the escaping was added by fix b0a5193, finding C08-F2). -/
def printStr (s : List Char) : List Char := '"' :: (escapeQuotes s ++ ['"'])

/-- what the parser stores for a string-literal token. -/
def parseStr (input : List Char) : Option (List Char × List Char) :=
  match lexStr input with
  | some (c, rest) => some (unescapeQuotes c, rest)
  | none => none

/-- the two-character sequence `\"` occurs in `s`. -/
def hasEscapedQuote : List Char → Bool
  | '\\' :: '"' :: _ => true
  | _ :: rest => hasEscapedQuote rest
  | [] => false

/-! ## `-` followed by 2147483648 -/

/-- raw tokens of the int fragment: `-` and non-negative decimal literals. -/
inductive RawTok where
  | minus
  | int (n : Nat)
  | other (k : Nat)
  deriving DecidableEq, Repr

/-- tokens after `TokenProducer::process_raw_token`: `- 2147483648` merged into one literal. -/
inductive IntTok where
  | minus
  | int (n : Nat)
  | minInt
  | other (k : Nat)
  deriving DecidableEq, Repr

/-- `TokenProducer::next_token` / `process_raw_token` (lexer.rs:712-766) on tokens in range:
a `2147483648` directly after a `-` is merged with it. -/
def mergeMinInt : List RawTok → List IntTok
  | .minus :: .int 2147483648 :: rest => .minInt :: mergeMinInt rest
  | .minus :: rest => .minus :: mergeMinInt rest
  | .int n :: rest => .int n :: mergeMinInt rest
  | .other k :: rest => .other k :: mergeMinInt rest
  | [] => []

/-- printer arm `Literal::Int(i)`: `i.to_string()` re-lexed as raw tokens. -/
def printInt (i : Int) : List RawTok :=
  if i < 0 then [.minus, .int i.natAbs] else [.int i.toNat]

/-- the parser's reading of the merged tokens of one literal (`parse::<i32>`). -/
def readInt : List IntTok → Option Int
  | [.int n] => if n < 2147483648 then some n else none
  | [.minInt] => some (-2147483648)
  | _ => none

end SamVerif.Fmt
