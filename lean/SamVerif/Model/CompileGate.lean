/-
Model of the decision `samlang_compiler::compile_sources` takes before it lowers anything
(`crates/samlang-compiler/src/lib.rs:35-69`), in the order of the Rust code:

  1. every source handle is parsed (errors are only collected)                      lib.rs:43-53
  2. every entry module must be among the parsed modules, else `Err("Invalid entry point…")`  lib.rs:54-61
  3. `type_check_sources` adds its errors to the same error set                     lib.rs:62-64
  4. `if error_set.has_errors() { return Err(errors) }`                             lib.rs:65-68
  5. only then: `compile_sources_to_mir`, optimisation, LIR, TS text, wasm          lib.rs:70-117

Core Lean only.  Module references are natural numbers; the error set is represented by its size
(the gate only asks `has_errors()`).
-/
namespace SamVerif.Gate

inductive Outcome where
  | invalidEntry      -- `Err("Invalid entry point: … does not exist.")`, nothing checked or lowered
  | rejected          -- `Err(rendered diagnostics)`, nothing lowered
  | lowered           -- the back end runs (and `Ok(..)` is returned unless it aborts)
  deriving DecidableEq, Repr

structure Input where
  modules : List Nat      -- keys of `source_handles` (all of them are parsed)
  entries : List Nat      -- `entry_module_references`
  parseErrors : Nat       -- errors reported while parsing
  checkErrors : Nat       -- errors reported by `type_check_sources`
  deriving Repr

def compileSources (i : Input) : Outcome :=
  if i.entries.any (fun e => !i.modules.contains e) then .invalidEntry
  else if i.parseErrors + i.checkErrors > 0 then .rejected
  else .lowered

end SamVerif.Gate
