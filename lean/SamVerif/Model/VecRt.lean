/-!
# C01 kernel K5 — the Vec runtime (`crates/samlang-compiler/src/libsam.wat`, `$__Vec$*`)

A `Vec` is a backing array (`data`, its length is the capacity) and a length. Model of
`$__Vec$empty`, `withCapacity`, `of`, `length`, `capacity`, `reserve` (l.292-313: geometric growth
`max(min, 2*cap, 4)`, copy of the first `len` slots), `push`, `pop` (panic "pop from empty Vec",
slot cleared), `get` / `set` (panic "Vec index out of bounds" when `index ≥ length` *as unsigned*,
i.e. also for negative indices). A `none` result of a slot access is the engine trap
(`array element access out of bounds` / null dereference) that the language never prescribes.
Core Lean only.
-/
namespace SamVerif.VecRt

structure Vec where
  data : List (Option Int)       -- slots; `data.length` = capacity; `none` = null
  len : Nat
deriving Repr, DecidableEq, Inhabited

inductive Out (α : Type) where
  | ok (a : α)
  | panicOob                     -- "Vec index out of bounds"
  | panicPop                     -- "pop from empty Vec"
  | trap                         -- engine trap: never prescribed by the language
deriving Repr, DecidableEq

def empty : Vec := { data := [], len := 0 }
def withCapacity (c : Nat) : Vec := { data := List.replicate c none, len := 0 }
def ofV (x : Int) : Vec := { data := [some x], len := 1 }
def capacity (v : Vec) : Nat := v.data.length

/-- `$__Vec$reserve` -/
def reserve (v : Vec) (min : Nat) : Vec :=
  if min ≤ v.data.length then v
  else
    let c2 := 2 * v.data.length
    let c3 := if c2 < min then min else c2
    let newCap := if c3 < 4 then 4 else c3
    { v with data := v.data.take v.len ++ List.replicate (newCap - v.len) none }

/-- `$__Vec$push` -/
def push (v : Vec) (x : Int) : Vec :=
  let v' := reserve v (v.len + 1)
  { data := v'.data.set v.len (some x), len := v.len + 1 }

/-- unsigned `index ≥ length` of `$__Vec$get` / `$__Vec$set` for an i32 index -/
def oob (v : Vec) (i : Int) : Bool := i < 0 || v.len ≤ i.toNat

/-- `$__Vec$get` -/
def get (v : Vec) (i : Int) : Out Int :=
  if oob v i then .panicOob
  else match v.data[i.toNat]? with
    | some (some x) => .ok x
    | _ => .trap

/-- `$__Vec$set` -/
def set (v : Vec) (i : Int) (x : Int) : Out Vec :=
  if oob v i then .panicOob
  else if i.toNat < v.data.length then .ok { v with data := v.data.set i.toNat (some x) }
  else .trap

/-- `$__Vec$pop` -/
def pop (v : Vec) : Out (Int × Vec) :=
  if v.len = 0 then .panicPop
  else match v.data[v.len - 1]? with
    | some (some x) => .ok (x, { data := v.data.set (v.len - 1) none, len := v.len - 1 })
    | _ => .trap

/-- The sequence the Vec stands for. -/
def contents (v : Vec) : List (Option Int) := v.data.take v.len

/-- Representation invariant: the length fits the capacity and the first `len` slots are filled. -/
def Wf (v : Vec) : Prop := v.len ≤ v.data.length ∧ ∀ i, i < v.len → ∃ x, v.data[i]? = some (some x)

end SamVerif.VecRt
