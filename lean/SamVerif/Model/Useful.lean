/-
Model of `crates/samlang-checker/src/pattern_matching.rs` (usefulness / exhaustiveness analysis,
Maranget's matrix algorithm with or-pattern expansion) and of the source-pattern → abstract-pattern
normalisation in `crates/samlang-checker/src/main_checker.rs:1082-1512`, function by function.
Core Lean only (no Mathlib) so that the line-protocol driver `drv-c07` links natively.

Conventions
* `PStr` names are natural numbers; the protocol assigns ids in the byte order of the names, so the
  derived `Ord` of `VariantPatternConstructor` (pattern_matching.rs:12) is the order on `(cls, name)`.
* `HashMap<Option<VariantPatternConstructor>, usize>` (root constructors) is an association list with
  unique keys, "last insert wins"; where Rust sorts it (`sorted_by_key`) the model sorts it.
* The recursions `useful_internal` / `incomplete_counterexample_internal` are not structurally
  recursive; the executable functions take fuel and return `none` when it runs out.
  `Lemmas/Useful.lean` proves that the fuel `fuelBound P q` always suffices (termination).
* Where Rust would panic (`p_row.first().unwrap()` on an empty row, `assert!(variants_grouped.len()==1)`,
  `split_remaining.pop().unwrap()`) the model is total (it skips the row / takes the first class / takes
  what is there); `patTy` describes the inputs on which the panics cannot happen
  (`Lemmas/Useful.lean`: shapes are preserved), and the driver answers `illtyped` outside them.
-/
namespace SamVerif.Useful

/-- `VariantPatternConstructor` (pattern_matching.rs:12-17); `cls` stands for (module, class). -/
structure Ctor where
  cls : Nat
  name : Nat
  deriving DecidableEq, Repr, Inhabited

/-- `AbstractPatternNodeInner` (pattern_matching.rs:19-28). -/
inductive Pat where
  | struct (c : Option Ctor) (args : List Pat)
  | wild
  | or (ps : List Pat)
  deriving Repr, Inhabited

abbrev Row := List Pat        -- `PatternVector`
abbrev Matrix := List Row     -- `PatternMatrix`

/-- `PatternMatchingContext::variant_signature_incomplete_names` is determined by the list of
(variant name, arity) of each enum class (typing_context.rs:380-401). -/
abbrev Cx := Nat → List (Nat × Nat)

def wilds (n : Nat) : List Pat := List.replicate n .wild

/-! ### `convert_into_specialized_matrix(_row)` (pattern_matching.rs:200-248) -/

mutual
/-- One row whose first element is `p` and whose remaining elements are `rest`. -/
def specHead (variant : Option Ctor) (n : Nat) (rest : Row) : Pat → List Row
  | .struct c rs =>
    match c, variant with
    | some a, some b => if a = b then [rs ++ rest] else []   -- different constructors: skip
    | _, _ => [rs ++ rest]
  | .wild => [wilds n ++ rest]
  | .or ps => specHeads variant n rest ps
def specHeads (variant : Option Ctor) (n : Nat) (rest : Row) : List Pat → List Row
  | [] => []
  | p :: ps => specHead variant n rest p ++ specHeads variant n rest ps
end

def specRow (variant : Option Ctor) (n : Nat) : Row → List Row
  | [] => []            -- Rust: `first().unwrap()` panics; unreachable on shaped matrices
  | p :: rest => specHead variant n rest p

def specialize (P : Matrix) (variant : Option Ctor) (n : Nat) : Matrix :=
  P.flatMap (specRow variant n)

/-! ### `default_matrix` (pattern_matching.rs:271-291).
The Rust work-list pushes or-alternatives to the *front* of the queue, so its rows come out in a
different order; no caller depends on row order (rows are only ever tested by `any`/`all`). -/

mutual
def defaultHead (rest : Row) : Pat → List Row
  | .struct _ _ => []
  | .wild => [rest]
  | .or ps => defaultHeads rest ps
def defaultHeads (rest : Row) : List Pat → List Row
  | [] => []
  | p :: ps => defaultHead rest p ++ defaultHeads rest ps
end

def defaultRow : Row → List Row
  | [] => []            -- Rust: `first().unwrap()` panics; unreachable on shaped matrices
  | p :: rest => defaultHead rest p

def defaultMatrix (P : Matrix) : Matrix := P.flatMap defaultRow

/-! ### `find_roots_constructors` (pattern_matching.rs:250-269) -/

mutual
def headCtors : Pat → List (Option Ctor × Nat)
  | .struct c rs => [(c, rs.length)]
  | .wild => []
  | .or ps => headCtorsL ps
def headCtorsL : List Pat → List (Option Ctor × Nat)
  | [] => []
  | p :: ps => headCtors p ++ headCtorsL ps
end

def rowHeadCtors : Row → List (Option Ctor × Nat)
  | [] => []
  | p :: _ => headCtors p

def rawRoots (P : Matrix) : List (Option Ctor × Nat) := P.flatMap rowHeadCtors

/-- `HashMap::insert`: the last inserted arity of a key wins. -/
def insertRoot (m : List (Option Ctor × Nat)) (kv : Option Ctor × Nat) : List (Option Ctor × Nat) :=
  kv :: m.filter (fun x => x.1 ≠ kv.1)

def rootCtors (P : Matrix) : List (Option Ctor × Nat) := (rawRoots P).foldl insertRoot []

/-! ### `signature_incomplete_names` (pattern_matching.rs:293-325) -/

def sigIncomplete (cx : Cx) (roots : List (Option Ctor × Nat)) : Option (List (Ctor × Nat)) :=
  if roots.any (fun r => r.1.isNone) then none
  else match roots with
    | [] => some []
    | (none, _) :: _ => none     -- not reachable (covered by the first test)
    | (some c, _) :: _ =>
      -- Rust asserts that all root constructors belong to one class (`variants_grouped.len() == 1`)
      let names := roots.filterMap (fun r => r.1.map (·.name))
      let result := ((cx c.cls).filter (fun nv => !names.contains nv.1)).map
        (fun nv => (({ cls := c.cls, name := nv.1 } : Ctor), nv.2))
      if result.isEmpty then none else some result

/-- `assert!(variants_grouped.len() == 1)`: would this call panic? -/
def rootsOneClass : List (Option Ctor × Nat) → Bool
  | [] => true
  | (none, _) :: _ => true
  | (some c, _) :: rest => rest.all (fun r => match r.1 with | some d => d.cls = c.cls | none => true)

/-! ### `useful_internal` (pattern_matching.rs:164-198) -/

/-- `Iterator::any` over a fuelled callee: stops at the first `true`. -/
def anyO {α : Type} (f : α → Option Bool) : List α → Option Bool
  | [] => some false
  | x :: xs =>
    match f x with
    | none => none
    | some true => some true
    | some false => anyO f xs

def usefulF (cx : Cx) : Nat → Matrix → Row → Option Bool
  | 0, _, _ => none
  | fuel + 1, P, q =>
    if P.isEmpty then some true else
    match q with
    | [] => some false
    | .struct c rs :: rest => usefulF cx fuel (specialize P c rs.length) (rs ++ rest)
    | .wild :: rest =>
      let roots := rootCtors P
      match sigIncomplete cx roots with
      | none =>
        anyO (fun cn => usefulF cx fuel (specialize P cn.1 cn.2) (wilds cn.2 ++ rest)) roots
      | some _ => usefulF cx fuel (defaultMatrix P) rest
    | .or ps :: rest => anyO (fun r => usefulF cx fuel P (r :: rest)) ps

/-! ### `incomplete_counterexample_internal` (pattern_matching.rs:327-378) -/

def ctorKeyLt : Option Ctor → Option Ctor → Bool
  | none, none => false
  | none, some _ => true
  | some _, none => false
  | some a, some b => a.cls < b.cls || (a.cls = b.cls && a.name < b.name)

def insertByKey (kv : Option Ctor × Nat) : List (Option Ctor × Nat) → List (Option Ctor × Nat)
  | [] => [kv]
  | x :: xs => if ctorKeyLt kv.1 x.1 then kv :: x :: xs else x :: insertByKey kv xs

/-- `sorted_by_key(|(k, _)| *k)` -/
def sortByKey (l : List (Option Ctor × Nat)) : List (Option Ctor × Nat) :=
  l.foldr insertByKey []

/-- `incomplete_names.into_iter().min()` on `(VariantPatternConstructor, usize)`. -/
def minCtor : List (Ctor × Nat) → Option (Ctor × Nat)
  | [] => none
  | x :: xs =>
    match minCtor xs with
    | none => some x
    | some y =>
      if ctorKeyLt (some x.1) (some y.1) || (x.1 = y.1 && x.2 ≤ y.2) then some x else some y

/-- first `Some` of a fuelled callee over a list (`for … { if let Some(v) = … { return … } } None`). -/
def firstO {α β : Type} (f : α → Option (Option β)) : List α → Option (Option β)
  | [] => some none
  | x :: xs =>
    match f x with
    | none => none
    | some (some r) => some (some r)
    | some none => firstO f xs

def cexF (cx : Cx) : Nat → Matrix → Nat → Option (Option Row)
  | 0, _, _ => none
  | fuel + 1, P, n =>
    if n = 0 then (if P.isEmpty then some (some []) else some none) else
    let roots := rootCtors P
    match sigIncomplete cx roots with
    | some incompleteNames =>
      match cexF cx fuel (defaultMatrix P) (n - 1) with
      | none => none
      | some none => some none
      | some (some v) =>
        let head := match minCtor incompleteNames with
          | some (variant, size) => Pat.struct (some variant) (wilds size)
          | none => Pat.wild
        some (some (head :: v))
    | none =>
      firstO (fun cn =>
        match cexF cx fuel (specialize P cn.1 cn.2) (cn.2 + n - 1) with
        | none => none
        | some none => some none
        | some (some v) => some (some (Pat.struct cn.1 (v.take cn.2) :: v.drop cn.2)))
        (sortByKey roots)

/-- `is_additional_pattern_useful` (pattern_matching.rs:137-148) -/
def isAdditionalPatternUsefulF (cx : Cx) (fuel : Nat) (existing : List Pat) (p : Pat) : Option Bool :=
  usefulF cx fuel (existing.map fun e => [e]) [p]

/-- `toplevel_elements_to_description` + `incomplete_counterexample` (pattern_matching.rs:66-73,150-160):
a one-column matrix, answer is the single pattern of the vector. -/
def incompleteCounterexampleF (cx : Cx) (fuel : Nat) (existing : List Pat) : Option (Option Pat) :=
  match cexF cx fuel (existing.map fun e => [e]) 1 with
  | none => none
  | some none => some none
  | some (some [p]) => some (some p)
  | some (some ps) => some (some (.struct none ps))

/-! ### Fuel that always suffices

Weights (a row weighs the product of `1 + patW p`, a constructor pattern the product over its
arguments, an or-pattern the sum over its alternatives, a wildcard nothing) and the largest
constructor arity; `Lemmas/UsefulTerm.lean` proves that `usefulFuel` / `cexFuel` are enough
(`useful_fuel_bound`, `cex_fuel_bound` in `Props/C07.lean`), so the drivers run with exactly this
fuel. -/

mutual
def patW : Pat → Nat
  | .wild => 0
  | .struct _ args => rowW args
  | .or ps => sumW ps
def rowW : List Pat → Nat
  | [] => 1
  | p :: ps => (1 + patW p) * rowW ps
def sumW : List Pat → Nat
  | [] => 0
  | p :: ps => (1 + patW p) + sumW ps
end

def matW : Matrix → Nat
  | [] => 0
  | r :: P => rowW r + matW P

mutual
def arP : Pat → Nat
  | .wild => 0
  | .struct _ args => max args.length (arL args)
  | .or ps => arL ps
def arL : List Pat → Nat
  | [] => 0
  | p :: ps => max (arP p) (arL ps)
end

def arM : Matrix → Nat
  | [] => 0
  | r :: P => max (arL r) (arM P)

def usefulFuel (P : Matrix) (q : Row) : Nat :=
  (matW P + rowW q) * (max (arM P) (arL q) + 1) + q.length + 1

def cexFuel (P : Matrix) (n : Nat) : Nat := matW P * (arM P + 1) + n + 1

/-- `is_additional_pattern_useful` / `incomplete_counterexample` without a fuel argument -/
def isAdditionalPatternUseful (cx : Cx) (existing : List Pat) (p : Pat) : Option Bool :=
  isAdditionalPatternUsefulF cx (usefulFuel (existing.map fun e => [e]) [p]) existing p

def incompleteCounterexample (cx : Cx) (existing : List Pat) : Option (Option Pat) :=
  incompleteCounterexampleF cx (cexFuel (existing.map fun e => [e]) 1) existing

/-! ## Values, matching, types -/

/-- Run-time values as far as patterns can see them: a variant value, a struct/tuple value
(`con none`), or a value of a type that patterns cannot inspect (int, bool, Str, functions, …). -/
inductive Val where
  | con (c : Option Ctor) (args : List Val)
  | prim (k : Nat)
  deriving Repr, Inhabited

mutual
def pmatch : Pat → Val → Bool
  | .wild, _ => true
  | .or ps, v => pmatchAny ps v
  | .struct c ps, .con c' vs => decide (c = c') && pmatchAll ps vs
  | .struct _ _, .prim _ => false
def pmatchAny : List Pat → Val → Bool
  | [], _ => false
  | p :: ps, v => pmatch p v || pmatchAny ps v
def pmatchAll : List Pat → List Val → Bool
  | [], [] => true
  | p :: ps, v :: vs => pmatch p v && pmatchAll ps vs
  | [], _ :: _ => false
  | _ :: _, [] => false
end

/-- Type definitions, indexed by a type id (a *monomorphic instance*: `Option<int>` and
`Option<Option<int>>` are two ids with the same class). -/
inductive Def where
  | enum (cls : Nat) (variants : List (Nat × List Nat))   -- (variant name, field type ids)
  | struct (fields : List (Nat × Nat))                     -- (field name, type id)
  | prim
  deriving Repr, Inhabited

abbrev Sig := Nat → Def

def findVariant (vs : List (Nat × List Nat)) (name : Nat) : Option (List Nat) :=
  match vs with
  | [] => none
  | (n, tys) :: rest => if n = name then some tys else findVariant rest name

/-- Field types of constructor `c` at type `t` (`none`: `c` is not a constructor of `t`). -/
def ctorFields (sig : Sig) (t : Nat) (c : Option Ctor) : Option (List Nat) :=
  match sig t, c with
  | .enum cls vs, some k => if k.cls = cls then findVariant vs k.name else none
  | .struct fs, none => some (fs.map (·.2))
  | _, _ => none

mutual
def patTy (sig : Sig) : Pat → Nat → Bool
  | .wild, _ => true
  | .or ps, t => patTyAll sig ps t
  | .struct c ps, t =>
    match ctorFields sig t c with
    | some tys => patTys sig ps tys
    | none => false
def patTyAll (sig : Sig) : List Pat → Nat → Bool
  | [], _ => true
  | p :: ps, t => patTy sig p t && patTyAll sig ps t
def patTys (sig : Sig) : List Pat → List Nat → Bool
  | [], [] => true
  | p :: ps, t :: ts => patTy sig p t && patTys sig ps ts
  | [], _ :: _ => false
  | _ :: _, [] => false
end

mutual
def hasTy (sig : Sig) : Val → Nat → Bool
  | .prim _, t => match sig t with | .prim => true | _ => false
  | .con c ws, t =>
    match ctorFields sig t c with
    | some tys => hasTys sig ws tys
    | none => false
def hasTys (sig : Sig) : List Val → List Nat → Bool
  | [], [] => true
  | v :: vs, t :: ts => hasTy sig v t && hasTys sig vs ts
  | [], _ :: _ => false
  | _ :: _, [] => false
end

def matrixTy (sig : Sig) (P : Matrix) (ts : List Nat) : Bool := P.all (fun r => patTys sig r ts)

/-- The checker's context agrees with the signature. -/
def CxOk (sig : Sig) (cx : Cx) : Prop :=
  ∀ t cls vs, sig t = .enum cls vs → cx cls = vs.map (fun v => (v.1, v.2.length))

/-- Every type has a value (the hypothesis under which exhaustiveness checking is exact). -/
def Inhabited' (sig : Sig) : Prop := ∀ t, ∃ v, hasTy sig v t = true

/-! ### A decidable certificate for `Inhabited'` on a finite type table

`rank` assigns a natural number to every type id such that every field of a struct has a smaller
rank than the struct and every enum has *one* variant all of whose fields have a smaller rank
(`Lemmas/Useful.lean`: `inhabited_of_rank`, `inhabited_of_rankCheck`). -/

def sigOfTable (defs : List Def) : Sig := fun t => defs.getD t .prim

def rankOkAt (sig : Sig) (rank : Nat → Nat) (t : Nat) : Bool :=
  match sig t with
  | .prim => true
  | .struct fs => fs.all (fun f => rank f.2 < rank t)
  | .enum _ vs => vs.any (fun v =>
      (match findVariant vs v.1 with
        | some tys => tys.all (fun ty => rank ty < rank t)
        | none => false))

def rankCheck (defs : List Def) (rank : List Nat) : Bool :=
  (List.range defs.length).all (rankOkAt (sigOfTable defs) (fun t => rank.getD t 0))

/-! ### Generic classes and their instantiation

`resolve_detailed_struct_definitions_opt` / `resolve_detailed_enum_definitions_opt`
(typing_context.rs:1040-1100) substitute the type arguments of the scrutinee's nominal type for the
class's type parameters in every field type.  The usefulness model works on *instances*
(`Sig : type id → Def`); `monoCheck` decides that a table of instances is exactly what this
substitution produces from the generic class declarations, so the instantiation itself is inside the
model (the protocol sends both; the driver answers `mono=1`).  Any number of type parameters. -/

inductive GTy where
  | int
  | tparam (i : Nat)
  | cls (c : Nat) (args : List GTy)
  deriving Repr, Inhabited

mutual
def GTy.beq : GTy → GTy → Bool
  | .int, .int => true
  | .tparam i, .tparam j => i = j
  | .cls c as, .cls d bs => c = d && GTy.beqL as bs
  | _, _ => false
def GTy.beqL : List GTy → List GTy → Bool
  | [], [] => true
  | a :: as, b :: bs => GTy.beq a b && GTy.beqL as bs
  | _, _ => false
end

mutual
/-- `subst_type` with the map {Tᵢ ↦ argsᵢ} -/
def substTy (args : List GTy) : GTy → GTy
  | .int => .int
  | .tparam i => args.getD i .int
  | .cls c as => .cls c (substTyL args as)
def substTyL (args : List GTy) : List GTy → List GTy
  | [] => []
  | a :: as => substTy args a :: substTyL args as
end

inductive GDef where
  | enum (variants : List (Nat × List GTy))
  | struct (fields : List (Nat × GTy))
  deriving Repr, Inhabited

/-- field types of one instance agree with the substituted generic field types -/
def fieldsAgree (tyOf : List GTy) (arg : List GTy) : List Nat → List GTy → Bool
  | [], [] => true
  | i :: is, g :: gs => (match tyOf[i]? with | some t => GTy.beq t (substTy arg g) | none => false) &&
      fieldsAgree tyOf arg is gs
  | _, _ => false

def variantsAgree (tyOf : List GTy) (arg : List GTy) : List (Nat × List Nat) → List (Nat × List GTy) → Bool
  | [], [] => true
  | (n, is) :: vs, (m, gs) :: gvs => n = m && fieldsAgree tyOf arg is gs && variantsAgree tyOf arg vs gvs
  | _, _ => false

def monoEntry (classes : List GDef) (tyOf : List GTy) : GTy → Def → Bool
  | .int, .prim => true
  | .cls c arg, .enum cls vs =>
    c = cls && (match classes[c]? with | some (.enum gvs) => variantsAgree tyOf arg vs gvs | _ => false)
  | .cls c arg, .struct fs =>
    (match classes[c]? with
      | some (.struct gfs) => fs.map (·.1) = gfs.map (·.1) && fieldsAgree tyOf arg (fs.map (·.2)) (gfs.map (·.2))
      | _ => false)
  | _, _ => false

def monoCheckGo (classes : List GDef) (tyOf : List GTy) : List GTy → List Def → Bool
  | [], [] => true
  | t :: ts, d :: ds => monoEntry classes tyOf t d && monoCheckGo classes tyOf ts ds
  | _, _ => false

/-- the table `defs` (with `tyOf[i]` the closed type of id `i`) is the instantiation of `classes` -/
def monoCheck (classes : List GDef) (tyOf : List GTy) (defs : List Def) : Bool :=
  monoCheckGo classes tyOf tyOf defs

/-! ### Which declaration is the scrutinee's type resolved to: type parameters in scope

A scrutinee may have a type parameter as its static type (`x: T` with `T : EnumClass`); patterns are
then checked against the class `T` is bounded by (typing_context.rs:137-143 `nominal_type_upper_bound`
→ `resolve_to_potentially_in_scope_type_parameter_bound`, 126-135: the FIRST parameter of that name
in `available_type_parameters`).  The list is built in `type_check_module` (main_checker.rs:1869-1880):
for a method, the class's type parameters followed by the method's own; for a static function, the
function's own parameters only (the class's parameters are not in scope there, so a function may
reuse their names). -/

/-- (name, bound: type id of the bounding class instance, `none` = unbounded) -/
abbrev TParams := List (Nat × Option Nat)

def scopeOf (isMethod : Bool) (classParams memberParams : TParams) : TParams :=
  if isMethod then classParams ++ memberParams else memberParams

/-- `none`: no such parameter in scope; `some none`: in scope, unbounded; `some (some t)`: bounded by `t` -/
def resolveTParam : TParams → Nat → Option (Option Nat)
  | [], _ => none
  | (n, b) :: rest, name => if n = name then some b else resolveTParam rest name

/-- the static type of a scrutinee: a type instance, or a type parameter -/
inductive STy where
  | inst (t : Nat)
  | tparam (name : Nat)
  deriving Repr, Inhabited

/-- the type id patterns are checked against (`none`: nothing resolvable — not a struct, not an enum) -/
def scrutineeType (scope : TParams) : STy → Option Nat
  | .inst t => some t
  | .tparam name => (resolveTParam scope name).bind id

/-- a method's own type parameter that reuses the name of a class type parameter: `NameAlreadyBound` -/
def tparamCollision (isMethod : Bool) (classParams memberParams : TParams) : Bool :=
  isMethod && memberParams.any (fun m => classParams.any (fun c => c.1 = m.1))

/-! ### Decidable forms of the remaining hypotheses, for a finite type table

`cxOf` is the checker context the driver derives from the table; `cxOkCheck` / `nodupCheck` decide
`CxOk` / `SigNodup` for it (`Lemmas/UsefulNorm.lean`), so that together with `rankCheck` and `swf`
every hypothesis of `checker_match_decided` is checked by computation on each replayed case. -/

/-- `variant_signature_incomplete_names`' view of the table: variants of the first instance of the class -/
def cxOf (defs : List Def) : Cx := fun cls =>
  match defs.find? (fun d => match d with | .enum c _ => c = cls | _ => false) with
  | some (.enum _ vs) => vs.map (fun v => (v.1, v.2.length))
  | _ => []


def cxOkCheck (defs : List Def) : Bool :=
  (List.range defs.length).all fun t =>
    match sigOfTable defs t with
    | .enum cls vs => decide (cxOf defs cls = vs.map (fun v => (v.1, v.2.length)))
    | _ => true

def nodupNatL : List Nat → Bool
  | [] => true
  | x :: xs => !xs.contains x && nodupNatL xs

def nodupCheck (defs : List Def) : Bool :=
  (List.range defs.length).all fun t =>
    match sigOfTable defs t with
    | .enum _ vs => nodupNatL (vs.map (·.1))
    | _ => true

/-! ## Source patterns and their normalisation (main_checker.rs:1082-1512)

`check_matching_pattern` returns the checked pattern and the abstract node, and reports errors.
The model keeps the abstract node, *whether* an error was reported, and the bindings of the checked
pattern (`MatchingPattern::bindings`, samlang-ast source.rs:342-371: name ↦ type, a `BTreeMap`, an
or-pattern contributes the bindings of its first alternative), which decide the or-pattern
binding-consistency errors (main_checker.rs:1462-1500). -/

inductive SPat where
  | tuple (ps : List SPat)
  | object (names : List Nat) (ps : List SPat)    -- `{ f as p, … }` (`{ f }` is `f as <id f>`)
  | variant (tag : Nat) (args : List SPat)        -- `Tag` and `Tag()` both have no arguments
  | id (name : Nat)
  | wild
  | or (ps : List SPat)
  deriving Repr, Inhabited

/-- `bad_pattern_default` (main_checker.rs:1082-1088); `nothing()` is `Or([])`. -/
def badDefault (wildOnBad : Bool) : Pat := if wildOnBad then .wild else .or []

/-- `AbstractPatternNode::or` (pattern_matching.rs:107-115) -/
def mkOr : List Pat → Pat
  | [] => .or []
  | [p] => p
  | ps => .or ps

def fieldIndex (fs : List (Nat × Nat)) (name : Nat) : Option (Nat × Nat) :=   -- (index, type)
  let rec go : List (Nat × Nat) → Nat → Option (Nat × Nat)
    | [], _ => none
    | (n, t) :: rest, i => if n = name then some (i, t) else go rest (i + 1)
  go fs 0

/-- the name id the protocol reserves for the enclosing function's parameter (the scrutinee `x`) -/
def paramName : Nat := 0

/-- bindings of a checked pattern: name ↦ type (`none` = `any`) -/
abbrev Binds := List (Nat × Option Nat)

/-- `BTreeMap::insert` -/
def bindInsert (m : Binds) (name : Nat) (ty : Option Nat) : Binds :=
  (name, ty) :: m.filter (fun x => x.1 ≠ name)

def bindMerge (m later : Binds) : Binds := later.foldr (fun x acc => bindInsert acc x.1 x.2) m

/-- the same name is bound by two elements of one tuple / object / variant pattern: the SSA pass
reports `NameAlreadyBound` (ssa_analysis.rs; or-alternatives are separate scopes) -/
def bindsOverlap (a b : Binds) : Bool := a.any (fun x => b.any (fun y => y.1 = x.1))

/-- `assignability_check` on the types that can occur here: `any` meets everything, two type
instances are assignable iff they are the same instance (type_system.rs:87-131). -/
def tyCompat : Option Nat → Option Nat → Bool
  | some a, some b => a = b
  | _, _ => true

/-- main_checker.rs:1476-1496 for one later alternative: same names, pairwise assignable types -/
def bindsConsistent (expected actual : Binds) : Bool :=
  expected.all (fun e => actual.any (fun a => a.1 = e.1)) &&
  actual.all (fun a => expected.any (fun e => e.1 = a.1)) &&
  expected.all (fun e => actual.all (fun a => a.1 ≠ e.1 || tyCompat a.2 e.2))

structure Norm where
  pat : Pat
  err : Bool        -- some diagnostic was reported while checking the pattern
  panic : Bool := false   -- `abstract_pattern_nodes[*field_order]` out of bounds (main_checker.rs:1326)
  binds : Binds := []
  deriving Repr, Inhabited

structure NormL where
  pats : List Pat
  err : Bool
  panic : Bool
  binds : Binds             -- merged bindings (tuple / object elements)
  each : List Binds := []   -- bindings per element (or-alternatives)
  deriving Repr, Inhabited

/-- `ty = none` is the `Type::Any` the checker continues with after an error. -/
def sigAt (sig : Sig) : Option Nat → Def
  | some t => sig t
  | none => .prim

mutual
def normalize (sig : Sig) (wildOnBad : Bool) : SPat → Option Nat → Norm
  | .id name, ty =>
    -- an identifier that shadows the enclosing function's parameter: `NameAlreadyBound` (SSA pass)
    { pat := .wild, err := decide (name = paramName), binds := [(name, ty)] }
  | .wild, _ => { pat := .wild, err := false }
  | .tuple ps, ty =>
    match sigAt sig ty with
    | .struct fs =>
      let r := normTuple sig wildOnBad ps (fs.map (fun f => f.2))
      -- fewer elements than fields: error + wildcards (main_checker.rs:1247-1256);
      -- more elements: `ElementMissing` errors, the surplus nodes are dropped (see `normTuple`)
      let pad := wilds (fs.length - ps.length)
      { pat := .struct none (r.pats ++ pad), err := r.err || decide (ps.length ≠ fs.length),
        panic := r.panic, binds := r.binds }
    | _ =>
      -- NotAStruct; `any_typed_invalid_matching_pattern` still binds the identifiers at type `any`
      let r := normTuple sig wildOnBad ps []
      { pat := badDefault wildOnBad, err := true, binds := r.binds }
  | .object names es, ty =>
    match sigAt sig ty with
    | .struct fs =>
      let r := normObject sig wildOnBad fs es names (wilds fs.length)
      let missing := fs.any (fun f => !names.contains f.1)   -- NonExhaustiveStructBinding
      { pat := .struct none r.pats, err := r.err || missing, panic := r.panic, binds := r.binds }
    | _ =>
      let r := normTuple sig wildOnBad es []
      { pat := badDefault wildOnBad, err := true, binds := r.binds }
  | .variant tag ps, ty =>
    match sigAt sig ty with
    | .enum cls vs =>
      match findVariant vs tag with
      | none =>
        let r := normTuple sig wildOnBad ps []
        { pat := .or [], err := true, binds := r.binds }       -- CannotResolveMember → `nothing()`
      | some tys =>
        let r := normTuple sig wildOnBad ps tys
        let pad := wilds (tys.length - ps.length)
        { pat := .struct (some { cls := cls, name := tag }) (r.pats ++ pad),
          err := r.err || decide (ps.length ≠ tys.length), panic := r.panic, binds := r.binds }
    | _ =>
      let r := normTuple sig wildOnBad ps []
      { pat := badDefault wildOnBad, err := true, binds := r.binds }       -- NotAnEnum
  | .or ps, ty =>
    let r := normAll sig wildOnBad ps ty
    -- main_checker.rs:1462-1510: every later alternative must bind the names of the first one at
    -- assignable types; otherwise an error is reported and the node is the bad-pattern default
    let expected := r.each.headD []
    let inconsistent := (r.each.drop 1).any (fun a => !bindsConsistent expected a)
    { pat := if inconsistent then badDefault wildOnBad else mkOr r.pats,
      err := r.err || inconsistent, panic := r.panic, binds := expected }
/-- elements of a tuple pattern against the field types (`any` once the fields run out) -/
def normTuple (sig : Sig) (wildOnBad : Bool) : List SPat → List Nat → NormL
  | [], _ => { pats := [], err := false, panic := false, binds := [] }
  | p :: ps, [] =>
    -- surplus element: checked against `any` for its diagnostics, but (since the fix 6443f12) it is
    -- not pushed as a column of the abstract pattern (main_checker.rs:1226-1234, 1403-1414)
    let a := normalize sig wildOnBad p none
    let r := normTuple sig wildOnBad ps []
    { pats := r.pats, err := true, panic := a.panic || r.panic, binds := bindMerge a.binds r.binds }
  | p :: ps, t :: ts =>
    let a := normalize sig wildOnBad p (some t)
    let r := normTuple sig wildOnBad ps ts
    { pats := a.pat :: r.pats, err := a.err || r.err || bindsOverlap a.binds r.binds,
      panic := a.panic || r.panic, binds := bindMerge a.binds r.binds }
/-- elements of an object pattern, updating the vector of abstract nodes in place -/
def normObject (sig : Sig) (wildOnBad : Bool) (fs : List (Nat × Nat)) :
    List SPat → List Nat → List Pat → NormL
  | [], _, acc => { pats := acc, err := false, panic := false, binds := [] }
  | _ :: _, [], acc => { pats := acc, err := false, panic := false, binds := [] }  -- protocol error
  | p :: es, name :: names, acc =>
    match fieldIndex fs name with
    | some (i, t) =>
      let a := normalize sig wildOnBad p (some t)
      let r := normObject sig wildOnBad fs es names (acc.set i a.pat)
      -- a field destructured twice is an error since fix 76a01ae (`NameAlreadyBound`,
      -- main_checker.rs:1300-1304); the last mention still wins in the abstract node
      { pats := r.pats, err := a.err || r.err || names.contains name || bindsOverlap a.binds r.binds,
        panic := a.panic || r.panic, binds := bindMerge a.binds r.binds }
    | none =>
      -- unknown field: error, checked against `any`, stored at the parser's `field_order` = 0
      let a := normalize sig wildOnBad p none
      let r := normObject sig wildOnBad fs es names (acc.set 0 a.pat)
      { pats := r.pats, err := true, panic := a.panic || r.panic || acc.isEmpty,
        binds := bindMerge a.binds r.binds }
def normAll (sig : Sig) (wildOnBad : Bool) : List SPat → Option Nat → NormL
  | [], _ => { pats := [], err := false, panic := false, binds := [], each := [] }
  | p :: ps, ty =>
    let a := normalize sig wildOnBad p ty
    let r := normAll sig wildOnBad ps ty
    { pats := a.pat :: r.pats, err := a.err || r.err, panic := a.panic || r.panic,
      binds := [], each := a.binds :: r.each }
end

/-! ### Field visibility (main_checker.rs:1216-1218, 1292-1298; typing_context.rs:1072)

A struct field is accessible in a pattern if it is public or the match sits inside the struct's own
class (`is_public || nominal_type.id == current_class`).  A tuple pattern that reaches a
non-accessible field reports `ElementMissing`, an object pattern that names one reports
`CannotResolveMember`; the abstract node is unaffected.  `vis t` lists, per field of struct type
`t`, whether it is accessible from the class containing the match; `visErr` says whether
`check_matching_pattern` reports such an error (the driver ORs it into `err`). -/

abbrev Vis := Nat → List Bool

mutual
def visErr (sig : Sig) (vis : Vis) : SPat → Nat → Bool
  | .id _, _ => false
  | .wild, _ => false
  | .or ps, t => visErrAll sig vis ps t
  | .tuple ps, t =>
    match sig t with
    | .struct fs => visErrTuple sig vis ps (fs.map (·.2)) (vis t)
    | _ => false          -- not a struct: sub-patterns are checked against `any`, no field is reached
  | .object names ps, t =>
    match sig t with
    | .struct fs => visErrObject sig vis fs (vis t) ps names
    | _ => false
  | .variant tag ps, t =>
    match sig t with
    | .enum _ vs =>
      (match findVariant vs tag with
        | some tys => visErrTuple sig vis ps tys []      -- variant fields have no visibility
        | none => false)
    | _ => false
def visErrAll (sig : Sig) (vis : Vis) : List SPat → Nat → Bool
  | [], _ => false
  | p :: ps, t => visErr sig vis p t || visErrAll sig vis ps t
def visErrTuple (sig : Sig) (vis : Vis) : List SPat → List Nat → List Bool → Bool
  | [], _, _ => false
  | _ :: _, [], _ => false    -- surplus elements are checked against `any`
  | p :: ps, t :: ts, flags =>
    !(flags.headD true) || visErr sig vis p t || visErrTuple sig vis ps ts flags.tail
def visErrObject (sig : Sig) (vis : Vis) (fs : List (Nat × Nat)) (flags : List Bool) :
    List SPat → List Nat → Bool
  | [], _ => false
  | _ :: _, [] => false
  | p :: ps, name :: names =>
    (match fieldIndex fs name with
      | some (i, t) => !(flags.getD i true) || visErr sig vis p t
      | none => false) || visErrObject sig vis fs flags ps names
end

/-! ## Source-level matching (the specification the normalisation must preserve)

When does a value of type `t` match a *source* pattern?  Stated directly on source patterns
(language semantics of patterns: a tuple/variant pattern constrains the leading fields it lists,
an object pattern constrains the fields it names, in any order; identifiers and `_` match
everything; `|` is disjunction), without going through abstract patterns. -/

mutual
def smatch (sig : Sig) : SPat → Nat → Val → Bool
  | .id _, _, _ => true
  | .wild, _, _ => true
  | .or ps, t, v => smatchAny sig ps t v
  | .tuple ps, t, v =>
    match sig t, v with
    | .struct fs, .con none ws => smatchTuple sig ps (fs.map (·.2)) ws
    | _, _ => false
  | .object names ps, t, v =>
    match sig t, v with
    | .struct fs, .con none ws => smatchObject sig fs ws ps names
    | _, _ => false
  | .variant tag ps, t, v =>
    match sig t, v with
    | .enum cls vs, .con (some c) ws =>
      decide (c.cls = cls) && decide (c.name = tag) &&
        (match findVariant vs tag with
          | some tys => smatchTuple sig ps tys ws
          | none => false)
    | _, _ => false
def smatchAny (sig : Sig) : List SPat → Nat → Val → Bool
  | [], _, _ => false
  | p :: ps, t, v => smatch sig p t v || smatchAny sig ps t v
def smatchTuple (sig : Sig) : List SPat → List Nat → List Val → Bool
  | [], _, _ => true                                 -- fields that are not listed are unconstrained
  | p :: ps, t :: ts, w :: ws => smatch sig p t w && smatchTuple sig ps ts ws
  | _ :: _, _, _ => false
def smatchObject (sig : Sig) (fs : List (Nat × Nat)) (ws : List Val) : List SPat → List Nat → Bool
  | [], _ => true
  | _ :: _, [] => false
  | p :: ps, name :: names =>
    (match fieldIndex fs name with
      | some (i, t) => (match ws[i]? with | some w => smatch sig p t w | none => false)
      | none => false) && smatchObject sig fs ws ps names
end

/-- Source patterns whose abstract node is built without a bad-pattern default or a dropped element:
tuple / variant patterns list at most as many elements as there are fields (fewer = omitted
fields), object patterns name known fields, each at most once, variant tags exist, the alternatives
of an or-pattern bind consistently.  (Everything else is reported as an error by the checker.) -/
def nodupNat : List Nat → Bool
  | [] => true
  | x :: xs => !xs.contains x && nodupNat xs

mutual
def swf (sig : Sig) (w : Bool) : SPat → Nat → Bool
  | .id _, _ => true
  | .wild, _ => true
  | .or ps, t =>
    let r := normAll sig w ps (some t)
    swfAll sig w ps t && !((r.each.drop 1).any (fun a => !bindsConsistent (r.each.headD []) a))
  | .tuple ps, t =>
    match sig t with
    | .struct fs => decide (ps.length ≤ fs.length) && swfTuple sig w ps (fs.map (·.2))
    | _ => false
  | .object names ps, t =>
    match sig t with
    | .struct fs => nodupNat names && decide (names.length = ps.length) && swfObject sig w fs ps names
    | _ => false
  | .variant tag ps, t =>
    match sig t with
    | .enum _ vs =>
      (match findVariant vs tag with
        | some tys => decide (ps.length ≤ tys.length) && swfTuple sig w ps tys
        | none => false)
    | _ => false
def swfAll (sig : Sig) (w : Bool) : List SPat → Nat → Bool
  | [], _ => true
  | p :: ps, t => swf sig w p t && swfAll sig w ps t
def swfTuple (sig : Sig) (w : Bool) : List SPat → List Nat → Bool
  | [], _ => true
  | p :: ps, t :: ts => swf sig w p t && swfTuple sig w ps ts
  | _ :: _, [] => false
def swfObject (sig : Sig) (w : Bool) (fs : List (Nat × Nat)) : List SPat → List Nat → Bool
  | [], _ => true
  | _ :: _, [] => false
  | p :: ps, name :: names =>
    (match fieldIndex fs name with
      | some (_, t) => swf sig w p t
      | none => false) && swfObject sig w fs ps names
end

/-! the encoding invariant of `SPat.object`: as many field names as sub-patterns (the parser pairs
them; the driver checks it for every replayed case) -/
mutual
def shape : SPat → Bool
  | .id _ => true
  | .wild => true
  | .or ps => shapeL ps
  | .tuple ps => shapeL ps
  | .variant _ ps => shapeL ps
  | .object names ps => decide (names.length = ps.length) && shapeL ps
def shapeL : List SPat → Bool
  | [] => true
  | p :: ps => shape p && shapeL ps
end

end SamVerif.Useful
