/-!
# Model of `samlang_errors::ErrorSet` and of the compiler's observable HashMap iterations (C12)

Rust code modelled (file:line of /repo):

* `crates/samlang-errors/src/lib.rs:877-902` — `ErrorSet { errors: BTreeSet<CompileTimeError> }`,
  `merge` (`self.errors.extend(other.errors)`), `errors()` (in-order iteration).  A `BTreeSet` is
  modelled by its in-order element list: strictly increasing w.r.t. the derived `Ord`;
  `insert` = `ins`, `extend` = fold of `ins`.
* `crates/samlang-checker/src/lib.rs:33-53` — `type_check_sources`: `sources.par_iter()` over a
  `HashMap` produces one local `ErrorSet` per module, in an order that depends on the hash seed and
  on the rayon schedule; they are merged one after another into the global set (`mergeAll`).
* the derived `Ord` of `CompileTimeError` (`lib.rs:828-832`: `location` then `detail`;
  `Location` = `(ModuleReference, start, end)`, `ModuleReference(usize)` = allocation index;
  `PStr`: inline strings byte-lexicographic, inline < heap, heap strings by allocation id,
  `crates/samlang-heap/src/lib.rs:99-108`) is modelled by `errKey`: the error's comparison key as
  a list of naturals under the lexicographic order `lexLt`, relative to an assignment `ids` of
  numbers to handles (module references and heap strings).
* `crates/samlang-checker/src/pattern_matching.rs:354` — the exhaustiveness counterexample search
  walks the `HashMap` of root constructors **sorted by key** and returns at the first hit
  (`sortedFirst`); `pattern_matching.rs:343` takes the `min` of the missing constructors.
* `crates/samlang-compiler/src/hir_lowering.rs:1067-1074` — the captured variables of a lambda are
  enumerated in `HashMap` order to lay out the closure context (`ctxLayout`, `ctxRead`).
* `crates/samlang-compiler/src/hir_lowering.rs:113-123,1292` — synthetic function numbers / string
  numbers are handed out in `HashMap` iteration order of the modules (`numbering`).
-/
namespace SamVerif.ErrorSet

/-! ## Ordered deduplicating set as a strictly sorted list -/

section Generic
variable {α : Type} (lt : α → α → Bool)

/-- `BTreeSet::insert`: keeps the set strictly sorted; an equal element is not inserted again. -/
def ins (x : α) : List α → List α
  | [] => [x]
  | y :: ys => if lt x y then x :: y :: ys else if lt y x then y :: ins x ys else y :: ys

/-- `ErrorSet::merge` (`self.errors.extend(other.errors)`). -/
def merge (s t : List α) : List α := t.foldl (fun acc x => ins lt x acc) s

/-- The loop `for (…, local_errors) in results { error_set.merge(local_errors) }`. -/
def mergeAll (ls : List (List α)) : List α := ls.foldl (merge lt) []

/-- A local error set is built by reporting errors one by one. -/
def ofList (l : List α) : List α := merge lt [] l

/-- `sorted_by_key(..)` followed by a first-match-wins loop (pattern_matching.rs:354-374). -/
def firstSome {β : Type} (f : α → Option β) : List α → Option β
  | [] => none
  | x :: xs => match f x with
    | some b => some b
    | none => firstSome f xs

def sortedFirst {β : Type} (f : α → Option β) (entries : List α) : Option β :=
  firstSome f (ofList lt entries)

/-- `Iterator::min` = first element of the sorted sequence. -/
def minOf (entries : List α) : Option α := (ofList lt entries).head?

end Generic

/-! ## The comparison key of an error -/

/-- Lexicographic order on lists of naturals (a proper prefix is smaller). -/
def lexLt : List Nat → List Nat → Bool
  | [], [] => false
  | [], _ :: _ => true
  | _ :: _, [] => false
  | a :: as, b :: bs => if a < b then true else if b < a then false else lexLt as bs

/-- Atoms of an error detail. `handle h` is a heap-allocated `PStr` (or a module reference) whose
rank in comparisons is its allocation id. -/
inductive Atom where
  | num (n : Nat)
  | inl (bytes : List Nat)     -- inline PStr (≤ 15 bytes) or a `String`: byte-lexicographic
  | heap (h : Nat)             -- heap PStr: handle name `h`, compared through `ids h`
  deriving Repr, DecidableEq

/-- Self-terminating, order-preserving encoding of an atom: numbers `[1, n]`, inline strings
`2 :: [b+1, …] ++ [0]` (byte-lexicographic, a proper prefix is smaller), heap strings `[3, id]`
(every inline string is smaller than every heap string: `as_inline_str` `Ok < Err`). -/
def atomKey (ids : Nat → Nat) : Atom → List Nat
  | .num n => [1, n]
  | .inl bs => 2 :: (bs.map (· + 1) ++ [0])
  | .heap h => [3, ids h]

/-- Encoding of the atom list (`Vec` comparison: element-wise, a proper prefix is smaller). -/
def atomsKey (ids : Nat → Nat) : List Atom → List Nat
  | [] => [0]
  | a :: as => atomKey ids a ++ atomsKey ids as

/-- A `CompileTimeError`, reduced to what its `Ord` looks at. `modl` is a module *handle name*;
its rank is `ids modl` (allocation order of `ModuleReference`s). -/
structure Err where
  modl : Nat
  sl : Nat
  sc : Nat
  el : Nat
  ec : Nat
  rank : Nat            -- index of the `ErrorDetail` variant in declaration order
  atoms : List Atom
  deriving Repr, DecidableEq

def errKey (ids : Nat → Nat) (e : Err) : List Nat :=
  ids e.modl :: e.sl :: e.sc :: e.el :: e.ec :: e.rank :: atomsKey ids e.atoms

/-- `CompileTimeError::cmp` relative to an id assignment. -/
def errLt (ids : Nat → Nat) (a b : Err) : Bool := lexLt (errKey ids a) (errKey ids b)

/-- The rendered report is the in-order sequence of the merged set (`error_messages`,
lib.rs:917-941: one block per error in set order, then "Found n errors."). -/
def render (ids : Nat → Nat) (perModule : List (List Err)) : List Err :=
  mergeAll (errLt ids) (perModule.map (ofList (errLt ids)))

/-! ## Closure context layout (captured variables in HashMap order) -/

/-- The context struct is the list of captured values in enumeration order; the lambda body reads
variable `x` back from the position at which `x` was enumerated. -/
def ctxLayout (captured : List (Nat × Int)) : List Int := captured.map (·.2)

def ctxIndex (captured : List (Nat × Int)) (x : Nat) : Option Nat :=
  match captured with
  | [] => none
  | (y, _) :: rest => if x = y then some 0 else (ctxIndex rest x).map (· + 1)

def ctxRead (captured : List (Nat × Int)) (x : Nat) : Option Int :=
  match ctxIndex captured x with
  | some i => (ctxLayout captured)[i]?
  | none => none

/-- The capture map itself (`HashMap::get`). -/
def ctxLookup (captured : List (Nat × Int)) (x : Nat) : Option Int :=
  match captured with
  | [] => none
  | (y, v) :: rest => if x = y then some v else ctxLookup rest x

/-! ## Numbering in enumeration order -/

/-- Items receive consecutive numbers in the order in which they are enumerated. -/
def numbering (items : List Nat) (x : Nat) : Option Nat :=
  match items with
  | [] => none
  | y :: rest => if x = y then some 0 else (numbering rest x).map (· + 1)

end SamVerif.ErrorSet
