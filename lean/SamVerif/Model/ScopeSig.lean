import SamVerif.Model.Scope
/-!
# Model of `build_module_signature` (crates/samlang-checker/src/global_signature.rs:22-157)

The hoisting of toplevel names and member signatures: a fold of `HashMap::insert`s keyed by name.
`σ` is the (opaque) signature payload of a member; the correspondence instantiates it with
(declaration location, arity), which identifies the declaration that won.
Core Lean only.
-/
namespace SamVerif.Sig
open SamVerif.Scope (insertKV lookupKV)

structure MemberD (α σ : Type) where
  name : α
  isMethod : Bool
  sig : σ
  deriving Repr

/-- source-level type definition of a class -/
inductive TyDef (α σ : Type) where
  | none
  | struct (fieldNames : List α) (ctor : σ)
  | enum (variants : List (α × Nat)) (loc : Nat)
  deriving Repr

structure Top (α σ : Type) where
  name : α
  isClass : Bool
  priv : Bool
  ntparams : Nat
  nsupers : Nat
  members : List (MemberD α σ)
  tyDef : TyDef α σ
  deriving Repr

/-- `TypeDefinitionSignature` -/
inductive TyDefSig (α : Type) where
  | none
  | struct (fieldNames : List α)
  | enum (variants : List (α × Nat))
  deriving Repr, DecidableEq

/-- `InterfaceSignature` -/
structure Iface (α σ : Type) where
  priv : Bool
  ntparams : Nat
  nsupers : Nat
  tyDef : TyDefSig α
  functions : List (α × σ)
  methods : List (α × σ)
  deriving Repr

variable {α σ : Type} [DecidableEq α]

/-- the member loop (lines 33-45): methods always, functions only for classes -/
def addMember (isClass : Bool) (acc : List (α × σ) × List (α × σ)) (m : MemberD α σ) :
    List (α × σ) × List (α × σ) :=
  if m.isMethod then (acc.1, insertKV m.name m.sig acc.2)
  else if isClass then (insertKV m.name m.sig acc.1, acc.2)
  else acc

/-- constructor functions (lines 59-132): `init` for a struct, one per variant for an enum -/
def addCtors (init : α) (ctorSig : Nat → Nat → σ) (fs : List (α × σ)) : TyDef α σ → List (α × σ)
  | .none => fs
  | .struct _ c => insertKV init c fs
  | .enum vs loc => vs.foldl (fun acc v => insertKV v.1 (ctorSig loc v.2) acc) fs

def buildIface (init : α) (ctorSig : Nat → Nat → σ) (t : Top α σ) : Iface α σ :=
  let fm := t.members.foldl (addMember t.isClass) ([], [])
  { priv := t.priv, ntparams := t.ntparams, nsupers := t.nsupers,
    tyDef := if t.isClass then
        (match t.tyDef with
         | .none => .enum []          -- `None => Some(TypeDefinitionSignature::Enum(Vec::new()))`
         | .struct fs _ => .struct fs
         | .enum vs _ => .enum vs)
      else .none,
    functions := if t.isClass then addCtors init ctorSig fm.1 t.tyDef else fm.1,
    methods := fm.2 }

/-- `build_module_signature`: `interfaces.insert(name, …)` per toplevel, in source order -/
def buildModule (init : α) (ctorSig : Nat → Nat → σ) (tops : List (Top α σ)) : List (α × Iface α σ) :=
  tops.foldl (fun acc t => insertKV t.name (buildIface init ctorSig t) acc) []

end SamVerif.Sig
