/-
Model of `validate_type_arguments` (`crates/samlang-checker/src/main_checker.rs:181-203`): after the
type arguments of a generic call are known (explicit `f<A, B>(..)`, main_checker.rs:424, or solved by
implicit instantiation, :707), every type parameter that HAS a bound is looked at - wherever it
stands in the list - and an "incompatible subtype" error is reported when the solved argument is
neither the bound nor a subtype of it.

Type parameters are positions (the Rust code looks the argument up by the parameter's name; names of
one list are distinct), `sat a b` abstracts `is_the_same_type || is_subtype` of argument `a` against
the (substituted) bound `b`.  Core Lean only.
-/
namespace SamVerif.BoundCheck

/-- positions at which an error is reported, scanning from position `i` -/
def validateFrom (sat : Nat → Nat → Bool) : List (Option Nat) → List Nat → Nat → List Nat
  | [], _, _ => []
  | _ :: _, [], _ => []                      -- no solved argument: `subst_map.get` is `None`
  | none :: ps, _ :: as, i => validateFrom sat ps as (i + 1)
  | some b :: ps, a :: as, i =>
    if sat a b then validateFrom sat ps as (i + 1) else i :: validateFrom sat ps as (i + 1)

def validate (sat : Nat → Nat → Bool) (params : List (Option Nat)) (args : List Nat) : List Nat :=
  validateFrom sat params args 0

/-- the seeded slip of `seeded/C03d` for comparison: `map_while` stops at the first unbounded parameter -/
def validateMapWhile (sat : Nat → Nat → Bool) : List (Option Nat) → List Nat → Nat → List Nat
  | some b :: ps, a :: as, i =>
    if sat a b then validateMapWhile sat ps as (i + 1) else i :: validateMapWhile sat ps as (i + 1)
  | _, _, _ => []

end SamVerif.BoundCheck
