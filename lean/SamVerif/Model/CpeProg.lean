import SamVerif.Model.CpeSem
/-!
# C01 kernel K4c — constant-parameter elimination on a program of mutually calling functions

The fragment of `Model/CpeSem.lean` with direct calls to *any* function of the program
(`x := g(args)`), a function table and an interpreter; `dropParam` / `substParam` are
`mir_constant_param_elimination.rs::rewrite_sources` (l.358-412) for one eliminated parameter:
the parameter disappears from the signature of `g` and from the argument list of **every** call
of `g` in every function (`rewrite_stmt`, `Statement::Call`, l.279-309); for a constant parameter
its uses inside `g` become the literal (`rewrite_expr`, l.254-264).
-/
namespace SamVerif.CpeProg
open SamVerif.TailRec
open SamVerif.Opt (Op)
open SamVerif.CpeSem (Res exprReads exprArg substExpr)

inductive PBody where
  | ret (e : Expr)
  | bin (x : Name) (op : Op) (e1 e2 : Expr) (k : PBody)
  | print (es : List Expr) (k : PBody)
  | ite (c : Expr) (t e : PBody)
  | call (x : Name) (g : Nat) (args : List Expr) (k : PBody)      -- x := g(args)
deriving Repr, Inhabited

structure PFn where
  name : Nat
  params : List Name
  body : PBody
deriving Repr, Inhabited

abbrev Prog := List PFn

def lookup (prog : Prog) (g : Nat) : Option PFn := prog.find? fun fn => fn.name == g

/-- Interpreter. `fuel` bounds the call depth; `none` = trap, unknown function or out of fuel. -/
def exec (ev : Op → Int → Int → Option Int) (prog : Prog) :
    Nat → Env → List (List Int) → PBody → Option Res
  | _, env, out, .ret e => some (out, e.eval env)
  | fuel, env, out, .bin x op e1 e2 k =>
    match ev op (e1.eval env) (e2.eval env) with
    | none => none
    | some v => exec ev prog fuel (upd env x v) out k
  | fuel, env, out, .print es k => exec ev prog fuel env (out ++ [es.map (Expr.eval env)]) k
  | fuel, env, out, .ite c t e =>
    if c.eval env ≠ 0 then exec ev prog fuel env out t else exec ev prog fuel env out e
  | 0, _, _, .call _ _ _ _ => none
  | fuel + 1, env, out, .call x g args k =>
    match lookup prog g with
    | none => none
    | some fn =>
      match exec ev prog fuel (bindParams fn.params (args.map (Expr.eval env))) out fn.body with
      | none => none
      | some (out', v) => exec ev prog (fuel + 1) (upd env x v) out' k
termination_by fuel _ _ b => (fuel, sizeOf b)

def run (ev : Op → Int → Int → Option Int) (prog : Prog) (g : Nat) (fuel : Nat) (vals : List Int) :
    Option Res :=
  match lookup prog g with
  | none => none
  | some fn => exec ev prog fuel (bindParams fn.params vals) [] fn.body

/-- `arguments.retain_mut` (l.296-303) for the calls of `g`. -/
def dropArgs (g i : Nat) : PBody → PBody
  | .ret e => .ret e
  | .bin x op e1 e2 k => .bin x op e1 e2 (dropArgs g i k)
  | .print es k => .print es (dropArgs g i k)
  | .ite c t e => .ite c (dropArgs g i t) (dropArgs g i e)
  | .call x h args k => .call x h (if h = g then args.eraseIdx i else args) (dropArgs g i k)

def substVar (p : Name) (n : Int) : PBody → PBody
  | .ret e => .ret (substExpr p n e)
  | .bin x op e1 e2 k => .bin x op (substExpr p n e1) (substExpr p n e2) (substVar p n k)
  | .print es k => .print (es.map (substExpr p n)) (substVar p n k)
  | .ite c t e => .ite (substExpr p n c) (substVar p n t) (substVar p n e)
  | .call x h args k => .call x h (args.map (substExpr p n)) (substVar p n k)

/-- Eliminating the unused parameter `i` of `g` from the whole program. -/
def dropParam (g i : Nat) (prog : Prog) : Prog :=
  prog.map fun fn =>
    { fn with params := if fn.name = g then fn.params.eraseIdx i else fn.params,
              body := dropArgs g i fn.body }

/-- Eliminating the parameter `i` (named `p`) of `g`, constant `n` at every call site. -/
def substParam (g i : Nat) (p : Name) (n : Int) (prog : Prog) : Prog :=
  prog.map fun fn =>
    { fn with params := if fn.name = g then fn.params.eraseIdx i else fn.params,
              body := dropArgs g i (if fn.name = g then substVar p n fn.body else fn.body) }

/-- Summary consumed by the decision kernel. -/
def atomsOf : PBody → List Atom
  | .ret e => (exprReads e).map .read
  | .bin _ _ e1 e2 k => (exprReads e1 ++ exprReads e2).map .read ++ atomsOf k
  | .print es k => .call 999 (es.map exprArg) :: atomsOf k
  | .ite c t e => (exprReads c).map .read ++ atomsOf t ++ atomsOf e
  | .call _ g args k => .call g (args.map exprArg) :: atomsOf k

def fnOf (fn : PFn) : Fn := { name := fn.name, params := fn.params, atoms := atomsOf fn.body }

/-- `hide` (the eliminated parameter inside `g`, nothing elsewhere) does not occur in `e`. -/
def clean (hide : Option Name) (e : Expr) : Prop := ∀ p, hide = some p → e ≠ .var p

/-- Shape under which removing argument `i` of `g` cannot be observed: the hidden name is never an
operand or assigned; it may only be passed to `g` in position `i`; calls of `g` have `kg` arguments. -/
def okU (g i kg : Nat) (hide : Option Name) : PBody → Prop
  | .ret e => clean hide e
  | .bin x _ e1 e2 k => hide ≠ some x ∧ clean hide e1 ∧ clean hide e2 ∧ okU g i kg hide k
  | .print es k => (∀ e ∈ es, clean hide e) ∧ okU g i kg hide k
  | .ite c t e => clean hide c ∧ okU g i kg hide t ∧ okU g i kg hide e
  | .call x h args k => hide ≠ some x ∧
      (if h = g then args.length = kg ∧ ∀ (j : Nat) (a : Expr), j ≠ i → args[j]? = some a → clean hide a
       else ∀ a ∈ args, clean hide a) ∧ okU g i kg hide k

/-- Shape for a constant parameter: never assigned; every call of `g` passes the literal `n` in
position `i` and has `kg` arguments. -/
def okC (g i kg : Nat) (n : Int) (hide : Option Name) : PBody → Prop
  | .ret _ => True
  | .bin x _ _ _ k => hide ≠ some x ∧ okC g i kg n hide k
  | .print _ k => okC g i kg n hide k
  | .ite _ t e => okC g i kg n hide t ∧ okC g i kg n hide e
  | .call x h args k => hide ≠ some x ∧ (h = g → args.length = kg ∧ args[i]? = some (.lit n)) ∧
      okC g i kg n hide k

/-- No statement assigns the name. -/
def assignsP (p : Name) : PBody → Bool
  | .ret _ => false
  | .bin x _ _ _ k => x == p || assignsP p k
  | .print _ k => assignsP p k
  | .ite _ t e => assignsP p t || assignsP p e
  | .call x _ _ k => x == p || assignsP p k

/-- Every call of `g` passes `kg` arguments. -/
def callsArityG (g kg : Nat) : PBody → Bool
  | .ret _ => true
  | .bin _ _ _ _ b => callsArityG g kg b
  | .print _ b => callsArityG g kg b
  | .ite _ t e => callsArityG g kg t && callsArityG g kg e
  | .call _ h args b => (h != g || args.length == kg) && callsArityG g kg b

/-- Argument lists of the calls of `g`. -/
def callsOf (g : Nat) : PBody → List (List Expr)
  | .ret _ => []
  | .bin _ _ _ _ k => callsOf g k
  | .print _ k => callsOf g k
  | .ite _ t e => callsOf g t ++ callsOf g e
  | .call _ h args k => if h = g then args :: callsOf g k else callsOf g k

/-- Eliminating several unused parameters of `g`, highest index first (what `rewrite_sources` does in
one sweep: `retain` over the parameter list and over every argument list). -/
def dropMany (g : Nat) (is : List Nat) (prog : Prog) : Prog := is.foldl (fun pr i => dropParam g i pr) prog

def eraseMany {α : Type} (is : List Nat) (l : List α) : List α := is.foldl (fun acc i => acc.eraseIdx i) l

/-- One eliminated parameter of `g`: classified `Unused`, or the constant `n`. -/
inductive Elim where
  | unused (i : Nat)
  | const (i : Nat) (n : Int)
deriving Repr, DecidableEq

def Elim.idx : Elim → Nat
  | .unused i => i
  | .const i _ => i

def elimStep (g : Nat) (params : List Name) (prog : Prog) : Elim → Prog
  | .unused i => dropParam g i prog
  | .const i n => substParam g i (params[i]?.getD 0) n prog

/-- The whole sweep of `rewrite_sources` over the parameters of `g` (highest index first): unused
parameters are dropped, constant ones substituted and dropped. `params` = current parameter list of `g`. -/
def elimMany (g : Nat) : List Elim → List Name → Prog → Prog
  | [], _, prog => prog
  | e :: rest, params, prog => elimMany g rest (params.eraseIdx e.idx) (elimStep g params prog e)

end SamVerif.CpeProg
