/-
Model of `std/map.sam` (class `Map<K: Comparable<K>, V>`), function by function.
Core Lean only (no Mathlib) so that the line-protocol driver `drv-c18` links natively.

* `Tree K V` = `Map<K, V>(Empty, Leaf(K, V), Node(int, K, V, Map, Map))` (std/map.sam:19).
* `cmp : K → K → Int` is the key's `compare` method (`a.compare(b)` = `cmp a b`); the driver
  instantiates it with the boxed-`Int` compare of std/boxed.sam:4 (`wrap32 (a - b)`).
* `Process.panic("Bad tree")` / `Process.panic("Invalid state")` = `none`.
* samlang's `==` on two maps is reference equality; every place where the std code uses it
  (`if l == ll { this } else …`) compares a subtree with the result of an operation on that very
  subtree, which returns the *same object* exactly when nothing changed, so structural equality
  decides the same branch.  `v == value` on values is `=` (the driver programs use `int` values).
* `customizedUnion` / `merge` recurse on results of `split`; they carry a fuel argument
  (outer `none` = out of fuel, inner `none` = panic).  The driver supplies fuel far above the
  recursion depth and reports `oof` if it is ever exhausted.
-/
namespace SamVerif.StdMap

inductive Tree (K V : Type) where
  | empty : Tree K V
  | leaf (k : K) (v : V) : Tree K V
  | node (h : Int) (k : K) (v : V) (l r : Tree K V) : Tree K V
  deriving DecidableEq, Repr, Inhabited

variable {K V : Type} [DecidableEq K] [DecidableEq V]

open Tree

/-- `height` (map.sam:401) -/
def height : Tree K V → Int
  | .empty => 0
  | .leaf _ _ => 1
  | .node h _ _ _ _ => h

/-- `isEmpty` (map.sam:24) -/
def isEmpty : Tree K V → Bool
  | .empty => true
  | _ => false

/-- `get` (map.sam:31).  Note the `Leaf` arm calls `k.compare(key)`, the `Node` arm `key.compare(k)`. -/
def get (cmp : K → K → Int) : Tree K V → K → Option V
  | .empty, _ => none
  | .leaf k v, key => if cmp k key = 0 then some v else none
  | .node _ k v l r, key =>
    let c := cmp key k
    if c = 0 then some v else if c < 0 then get cmp l key else get cmp r key

/-- `containsKey` (map.sam:42) -/
def containsKey (cmp : K → K → Int) : Tree K V → K → Bool
  | .empty, _ => false
  | .leaf k _, key => cmp k key = 0
  | .node _ k _ l r, key =>
    let c := cmp key k
    c = 0 || (if c < 0 then containsKey cmp l key else containsKey cmp r key)

/-- `create` (map.sam:414) -/
def create (l : Tree K V) (k : K) (v : V) (r : Tree K V) : Tree K V :=
  let lh := height l
  let rh := height r
  let h := if lh ≥ rh then lh + 1 else rh + 1
  if h = 1 then .leaf k v else .node h k v l r

/-- `node` (map.sam:427): "the result can not be leaf" -/
def mkNode (l : Tree K V) (k : K) (v : V) (r : Tree K V) : Tree K V :=
  let lh := height l
  let rh := height r
  let h := if lh ≥ rh then lh + 1 else rh + 1
  .node h k v l r

/-- `balanced` (map.sam:446) with `forcedNodeWithoutHeight` (map.sam:439) inlined:
a non-`Node` argument of the latter is `Process.panic("Bad tree")` = `none`. -/
def balanced (l : Tree K V) (k : K) (v : V) (r : Tree K V) : Option (Tree K V) :=
  let lh := height l
  let rh := height r
  if lh > rh + 2 then
    match l with
    | .node _ lk lv ll lr =>
      if height ll ≥ height lr then some (mkNode ll lk lv (create lr k v r))
      else
        match lr with
        | .node _ lrk lrv lrl lrr =>
          some (mkNode (create ll lk lv lrl) lrk lrv (create lrr k v r))
        | _ => none
    | _ => none
  else if rh > lh + 2 then
    match r with
    | .node _ rk rv rl rr =>
      if height rr ≥ height rl then some (mkNode (create l k v rl) rk rv rr)
      else
        match rl with
        | .node _ rlk rlv rll rlr =>
          some (mkNode (create l k v rll) rlk rlv (create rlr rk rv rr))
        | _ => none
    | _ => none
  else some (create l k v r)

/-- `insert` (map.sam:52); `sortedTwoNodesSmaller/Larger` (map.sam:408-412) inlined. -/
def insert (cmp : K → K → Int) : Tree K V → K → V → Option (Tree K V)
  | .empty, key, value => some (.leaf key value)
  | .leaf k v, key, value =>
    let c := cmp key k
    if c = 0 then (if v = value then some (.leaf k v) else some (.leaf k value))
    else if c < 0 then some (.node 2 key value .empty (.leaf k v))
    else some (.node 2 key value (.leaf k v) .empty)
  | .node h k v l r, key, value =>
    let c := cmp key k
    if c = 0 then (if v = value then some (.node h k v l r) else some (.node h k value l r))
    else if c < 0 then
      match insert cmp l key value with
      | none => none
      | some ll => if l = ll then some (.node h k v l r) else balanced ll k v r
    else
      match insert cmp r key value with
      | none => none
      | some rr => if r = rr then some (.node h k v l r) else balanced l k v rr

/-- `addMinNode` (map.sam:497) -/
def addMinNode (nd : Tree K V) : Tree K V → Option (Tree K V)
  | .empty => some nd
  | .leaf k v => some (.node 2 k v nd .empty)
  | .node _ k v l r =>
    match addMinNode nd l with
    | none => none
    | some l' => balanced l' k v r

/-- `addMinBinding` (map.sam:504) -/
def addMinBinding (newK : K) (newV : V) : Tree K V → Option (Tree K V)
  | .empty => some (.leaf newK newV)
  | .leaf k v => some (.node 2 newK newV .empty (.leaf k v))
  | .node _ k v l r =>
    match addMinBinding newK newV l with
    | none => none
    | some l' => balanced l' k v r

/-- `addMaxNode` (map.sam:514) -/
def addMaxNode (nd : Tree K V) : Tree K V → Option (Tree K V)
  | .empty => some nd
  | .leaf k v => some (.node 2 k v .empty nd)
  | .node _ k v l r =>
    match addMaxNode nd r with
    | none => none
    | some r' => balanced l k v r'

/-- `addMaxBinding` (map.sam:521) -/
def addMaxBinding (newK : K) (newV : V) : Tree K V → Option (Tree K V)
  | .empty => some (.leaf newK newV)
  | .leaf k v => some (.node 2 newK newV (.leaf k v) .empty)
  | .node _ k v l r =>
    match addMaxBinding newK newV r with
    | none => none
    | some r' => balanced l k v r'

/-- `minBindingFromNodeUnsafe` (map.sam:472).  (Before fix C18-F3 the `Node` arm recursed on the
left child of the left child.) -/
def minBindingUnsafe : Tree K V → Option (K × V)
  | .node _ k v l _ =>
    match l with
    | .empty => some (k, v)
    | .leaf k1 v1 => some (k1, v1)
    | .node h' k' v' l' r' => minBindingUnsafe (.node h' k' v' l' r')
  | _ => none

/-- `removeMinBindingFromNodeUnsafe` (map.sam:481) -/
def removeMinUnsafe : Tree K V → Option (Tree K V)
  | .node _ k v l r =>
    match l with
    | .empty => some r
    | .leaf _ _ => balanced .empty k v r
    | .node _ _ _ _ _ =>
      match removeMinUnsafe l with
      | none => none
      | some l' => balanced l' k v r
  | _ => none

/-- `internalMerge` (map.sam:531) -/
def internalMerge (t1 t2 : Tree K V) : Option (Tree K V) :=
  match t1, t2 with
  | .empty, t => some t
  | t, .empty => some t
  | .leaf _ _, t => addMinNode t1 t
  | t, .leaf _ _ => addMaxNode t2 t
  | .node _ _ _ _ _, .node _ _ _ _ _ =>
    match minBindingUnsafe t2 with
    | none => none
    | some (k, v) =>
      match removeMinUnsafe t2 with
      | none => none
      | some t2' => balanced t1 k v t2'

/-- `remove` (map.sam:236) -/
def remove (cmp : K → K → Int) : Tree K V → K → Option (Tree K V)
  | .empty, _ => some .empty
  | .leaf k v, key => if cmp key k = 0 then some .empty else some (.leaf k v)
  | .node h k v l r, key =>
    let c := cmp key k
    if c = 0 then internalMerge l r
    else if c < 0 then
      match remove cmp l key with
      | none => none
      | some ll => if l = ll then some (.node h k v l r) else balanced ll k v r
    else
      match remove cmp r key with
      | none => none
      | some rr => if r = rr then some (.node h k v l r) else balanced l k v rr

/-- number of constructors; only used as a termination measure -/
def nodes : Tree K V → Nat
  | .empty => 0
  | .leaf _ _ => 1
  | .node _ _ _ l r => nodes l + nodes r + 1

/-- `join` (map.sam:545) -/
def join : Tree K V → K → V → Tree K V → Option (Tree K V)
  | .empty, k, v, r => addMinBinding k v r
  | .leaf a b, k, v, .empty => addMaxBinding k v (.leaf a b)
  | .node lh lk lv ll lr, k, v, .empty => addMaxBinding k v (.node lh lk lv ll lr)
  | .leaf a b, k, v, .leaf c d => some (.node 2 k v (.leaf a b) (.leaf c d))
  | .leaf a b, k, v, .node rh rk rv rl rr =>
    if rh > 3 then
      match join (.leaf a b) k v rl with
      | none => none
      | some t => balanced t rk rv rr
    else some (create (.leaf a b) k v (.node rh rk rv rl rr))
  | .node lh lk lv ll lr, k, v, .leaf c d =>
    if lh > 3 then
      match join lr k v (.leaf c d) with
      | none => none
      | some t => balanced ll lk lv t
    else some (create (.node lh lk lv ll lr) k v (.leaf c d))
  | .node lh lk lv ll lr, k, v, .node rh rk rv rl rr =>
    if lh > rh + 2 then
      match join lr k v (.node rh rk rv rl rr) with
      | none => none
      | some t => balanced ll lk lv t
    else if rh > lh + 2 then
      match join (.node lh lk lv ll lr) k v rl with
      | none => none
      | some t => balanced t rk rv rr
    else some (create (.node lh lk lv ll lr) k v (.node rh rk rv rl rr))
termination_by l _ _ r => nodes l + nodes r
decreasing_by all_goals (simp only [nodes]; omega)

/-- `concat` (map.sam:577) -/
def concat (t1 t2 : Tree K V) : Option (Tree K V) :=
  match t1, t2 with
  | .empty, t => some t
  | t, .empty => some t
  | .leaf _ _, t => addMinNode t1 t
  | t, .leaf _ _ => addMaxNode t2 t
  | .node _ _ _ _ _, .node _ _ _ _ _ =>
    match minBindingUnsafe t2 with
    | none => none
    | some (k, v) =>
      match removeMinUnsafe t2 with
      | none => none
      | some t2' => join t1 k v t2'

/-- `concatOrJoin` (map.sam:589) -/
def concatOrJoin (t1 : Tree K V) (k : K) (vOpt : Option V) (t2 : Tree K V) : Option (Tree K V) :=
  match vOpt with
  | some v => join t1 k v t2
  | none => concat t1 t2

/-- `split` (map.sam:82) -/
def split (cmp : K → K → Int) : Tree K V → K → Option (Tree K V × Option V × Tree K V)
  | .empty, _ => some (.empty, none, .empty)
  | .leaf k v, key =>
    let c := cmp key k
    if c = 0 then some (.empty, some v, .empty)
    else if c < 0 then some (.empty, none, .leaf k v)
    else some (.leaf k v, none, .empty)
  | .node _ k v l r, key =>
    let c := cmp key k
    if c = 0 then some (l, some v, r)
    else if c < 0 then
      match split cmp l key with
      | none => none
      | some (ll, pres, rl) =>
        match join rl k v r with
        | none => none
        | some t => some (ll, pres, t)
    else
      match split cmp r key with
      | none => none
      | some (lr, pres, rr) =>
        match join l k v lr with
        | none => none
        | some t => some (t, pres, rr)

/-- `update` (map.sam:151) -/
def update (cmp : K → K → Int) (f : Option V → Option V) : Tree K V → K → Option (Tree K V)
  | .empty, key =>
    match f none with
    | none => some .empty
    | some v => some (.leaf key v)
  | .leaf k v, key =>
    let c := cmp key k
    if c = 0 then
      match f (some v) with
      | none => some .empty
      | some data => if v = data then some (.leaf k v) else some (.leaf key data)
    else
      match f none with
      | none => some (.leaf k v)
      | some data =>
        if c < 0 then some (.node 2 key data .empty (.leaf k v))
        else some (.node 2 key data (.leaf k v) .empty)
  | .node h k v l r, key =>
    let c := cmp key k
    if c = 0 then
      match f (some v) with
      | none => internalMerge l r
      | some data => if v = data then some (.node h k v l r) else some (.node h key data l r)
    else if c < 0 then
      match update cmp f l key with
      | none => none
      | some ll => if l = ll then some (.node h k v l r) else balanced ll k v r
    else
      match update cmp f r key with
      | none => none
      | some rr => if r = rr then some (.node h k v l r) else balanced l k v rr

/-- `customizedUnion` (map.sam:191).  Fuelled (outer `none` = out of fuel).  (Before fix C18-F6 the
`h1 < h2` branch split `other` by `k1` and re-joined around `k1, v1`.) -/
def customizedUnion (cmp : K → K → Int) (f : K → V → V → Option V) :
    Nat → Tree K V → Tree K V → Option (Option (Tree K V))
  | 0, _, _ => none
  | fuel + 1, this, other =>
    match this, other with
    | .empty, _ => some (some other)
    | _, .empty => some (some this)
    | s, .leaf k v =>
      some (update cmp (fun d => match d with
        | none => some v
        | some v2 => f k v2 v) s k)
    | .leaf k v, s =>
      some (update cmp (fun d => match d with
        | none => some v
        | some v2 => f k v v2) s k)
    | .node h1 k1 v1 l1 r1, .node h2 k2 v2 l2 r2 =>
      if h1 ≥ h2 then
        match split cmp other k1 with
        | none => some none
        | some (l2New, d, r2New) =>
          match customizedUnion cmp f fuel l1 l2New with
          | none => none
          | some none => some none
          | some (some l) =>
            match customizedUnion cmp f fuel r1 r2New with
            | none => none
            | some none => some none
            | some (some r) =>
              match d with
              | none => some (join l k1 v1 r)
              | some v2New => some (concatOrJoin l k1 (f k1 v1 v2New) r)
      else
        match split cmp this k2 with
        | none => some none
        | some (l1New, d, r1New) =>
          match customizedUnion cmp f fuel l1New l2 with
          | none => none
          | some none => some none
          | some (some l) =>
            match customizedUnion cmp f fuel r1New r2 with
            | none => none
            | some none => some none
            | some (some r) =>
              match d with
              | none => some (join l k2 v2 r)
              | some v1New => some (concatOrJoin l k2 (f k2 v1New v2) r)

/-- `union` (map.sam:233): `defaultUnionMerger` keeps the receiver's value. -/
def union (cmp : K → K → Int) (fuel : Nat) (a b : Tree K V) : Option (Option (Tree K V)) :=
  customizedUnion cmp (fun _ v1 _ => some v1) fuel a b

/-- `merge` (map.sam:108), value types identified.  Fuelled.  The `Node`-vs-taller-map arm is
handled like the `(_, Node)` arm since fix C18-F7 (it was `Process.panic("Invalid state")`). -/
def merge (cmp : K → K → Int) (f : K → Option V → Option V → Option V) :
    Nat → Tree K V → Tree K V → Option (Option (Tree K V))
  | 0, _, _ => none
  | fuel + 1, this, other =>
    match this, other with
    | .empty, .empty => some (some .empty)
    | .leaf k v, .empty =>
      match f k (some v) none with
      | none => some (some .empty)
      | some data => some (some (.leaf k data))
    | .empty, .leaf k v =>
      match f k none (some v) with
      | none => some (some .empty)
      | some data => some (some (.leaf k data))
    | .leaf k1 v1, .leaf _ _ =>
      match split cmp other k1 with
      | none => some none
      | some (l2, v2, r2) =>
        match merge cmp f fuel .empty l2 with
        | none => none
        | some none => some none
        | some (some a) =>
          let mid := f k1 (some v1) v2
          match merge cmp f fuel .empty r2 with
          | none => none
          | some none => some none
          | some (some b) => some (concatOrJoin a k1 mid b)
    | .node h1 k1 v1 l1 r1, _ =>
      if h1 ≥ height other then
        match split cmp other k1 with
        | none => some none
        | some (l2, v2, r2) =>
          match merge cmp f fuel l1 l2 with
          | none => none
          | some none => some none
          | some (some a) =>
            let mid := f k1 (some v1) v2
            match merge cmp f fuel r1 r2 with
            | none => none
            | some none => some none
            | some (some b) => some (concatOrJoin a k1 mid b)
      else
        match other with
        | .node _ k2 v2 l2 r2 =>
          match split cmp this k2 with
          | none => some none
          | some (l1s, v1s, r1s) =>
            match merge cmp f fuel l1s l2 with
            | none => none
            | some none => some none
            | some (some a) =>
              let mid := f k2 v1s (some v2)
              match merge cmp f fuel r1s r2 with
              | none => none
              | some none => some none
              | some (some b) => some (concatOrJoin a k2 mid b)
        | _ => some none
    | _, .node _ k2 v2 l2 r2 =>
      match split cmp this k2 with
      | none => some none
      | some (l1, v1, r1) =>
        match merge cmp f fuel l1 l2 with
        | none => none
        | some none => some none
        | some (some a) =>
          let mid := f k2 v1 (some v2)
          match merge cmp f fuel r1 r2 with
          | none => none
          | some none => some none
          | some (some b) => some (concatOrJoin a k2 mid b)

/-- `fold` (map.sam:319) -/
def fold {A : Type} (f : A → K → V → A) : Tree K V → A → A
  | .empty, acc => acc
  | .leaf k v, acc => f acc k v
  | .node _ k v l r, acc => fold f r (f (fold f l acc) k v)

/-- `forAll` (map.sam:326) -/
def forAll (f : K → V → Bool) : Tree K V → Bool
  | .empty => true
  | .leaf k v => f k v
  | .node _ k v l r => f k v && forAll f l && forAll f r

/-- `exists` (map.sam:333) (the `Empty` arm was `true` before fix C18-F2). -/
def «exists» (f : K → V → Bool) : Tree K V → Bool
  | .empty => false
  | .leaf k v => f k v
  | .node _ k v l r => f k v || «exists» f l || «exists» f r

/-- `filter` (map.sam:340); evaluation order `l.filter`, `f(k,v)`, `r.filter`. -/
def filter (f : K → V → Bool) : Tree K V → Option (Tree K V)
  | .empty => some .empty
  | .leaf k v => if f k v then some (.leaf k v) else some .empty
  | .node h k v l r =>
    match filter f l with
    | none => none
    | some newL =>
      match filter f r with
      | none => none
      | some newR =>
        if f k v then
          if l = newL ∧ r = newR then some (.node h k v l r) else join newL k v newR
        else concat newL newR

/-- `partition` (map.sam:357) -/
def partition (f : K → V → Bool) : Tree K V → Option (Tree K V × Tree K V)
  | .empty => some (.empty, .empty)
  | .leaf k v => if f k v then some (.leaf k v, .empty) else some (.empty, .leaf k v)
  | .node _ k v l r =>
    match partition f l with
    | none => none
    | some (lt, lf) =>
      match partition f r with
      | none => none
      | some (rt, rf) =>
        if f k v then
          match join lt k v rt with
          | none => none
          | some a =>
            match concat lf rf with
            | none => none
            | some b => some (a, b)
        else
          match concat lt rt with
          | none => none
          | some a =>
            match join lf k v rf with
            | none => none
            | some b => some (a, b)

/-- `size` (map.sam:373) -/
def size : Tree K V → Int
  | .empty => 0
  | .leaf _ _ => 1
  | .node _ _ _ l r => size l + 1 + size r

/-- `entriesHelper` (map.sam:382) -/
def entriesHelper : Tree K V → List (K × V) → List (K × V)
  | .empty, acc => acc
  | .leaf k v, acc => (k, v) :: acc
  | .node _ k v l r, acc => entriesHelper l ((k, v) :: entriesHelper r acc)

/-- `entries` (map.sam:380) -/
def entries (t : Tree K V) : List (K × V) := entriesHelper t []

/-- `keysHelper` (map.sam:392) -/
def keysHelper : Tree K V → List K → List K
  | .empty, acc => acc
  | .leaf k _, acc => k :: acc
  | .node _ k _ l r, acc => keysHelper l (k :: keysHelper r acc)

/-- `keys` (map.sam:390) -/
def keys (t : Tree K V) : List K := keysHelper t []

/-- `min` (map.sam:389) -/
def min : Tree K V → Option (K × V)
  | .empty => none
  | .leaf k v => some (k, v)
  | .node _ k v child _ => if isEmpty child then some (k, v) else min child

/-- `max` (map.sam:396) (the recursive call was `child.min()` before fix C18-F1). -/
def max : Tree K V → Option (K × V)
  | .empty => none
  | .leaf k v => some (k, v)
  | .node _ k v _ child => if isEmpty child then some (k, v) else max child

/-- `map` (map.sam:394), value type kept -/
def mapValues (f : K → V → V) : Tree K V → Tree K V
  | .empty => .empty
  | .leaf k v => .leaf k (f k v)
  | .node h k v l r => .node h k (f k v) (mapValues f l) (mapValues f r)

/-! ### `compare` / `equal` / `iter` (ordered traversal through `NodeEnumerationHelper`) -/

/-- `NodeEnumerationHelper<K, V>(End, More(K, V, Map<K, V>, NodeEnumerationHelper<K, V>))` (map.sam:6) -/
inductive Enum (K V : Type) where
  | done : Enum K V
  | more (k : K) (v : V) (r : Tree K V) (e : Enum K V) : Enum K V

/-- `NodeEnumerationHelper.cons` (map.sam:10) -/
def Enum.cons : Enum K V → Tree K V → Enum K V
  | e, .empty => e
  | e, .leaf k v => .more k v .empty e
  | e, .node _ k v l r => Enum.cons (.more k v r e) l

/-- number of bindings -/
def card : Tree K V → Nat
  | .empty => 0
  | .leaf _ _ => 1
  | .node _ _ _ l r => card l + card r + 1

def Enum.size : Enum K V → Nat
  | .done => 0
  | .more _ _ r e => 1 + card r + Enum.size e

omit [DecidableEq K] [DecidableEq V] in
theorem Enum.size_cons (e : Enum K V) (t : Tree K V) : (Enum.cons e t).size = e.size + card t := by
  induction t generalizing e with
  | empty => simp [Enum.cons, card]
  | leaf k v => simp [Enum.cons, Enum.size, card]; omega
  | node h k v l r ihl _ => simp [Enum.cons, ihl, Enum.size, card]; omega

/-- `compareHelper` (map.sam:262) (returned `c` instead of `c1` before fix 9a6033f). -/
def compareHelper (cmp : K → K → Int) (f : V → V → Int) : Enum K V → Enum K V → Int
  | .done, .done => 0
  | .done, .more _ _ _ _ => -1
  | .more _ _ _ _, .done => 1
  | .more k1 v1 r1 e1, .more k2 v2 r2 e2 =>
    let c := cmp k1 k2
    if c ≠ 0 then c
    else
      let c1 := f v1 v2
      if c1 ≠ 0 then c1 else compareHelper cmp f (Enum.cons e1 r1) (Enum.cons e2 r2)
termination_by e1 _ => e1.size
decreasing_by (have := Enum.size_cons e1 r1; simp only [Enum.size]; omega)

/-- `compare` (map.sam:254) -/
def compare (cmp : K → K → Int) (f : V → V → Int) (a b : Tree K V) : Int :=
  compareHelper cmp f (Enum.cons .done a) (Enum.cons .done b)

/-- `equalHelper` (map.sam:291) -/
def equalHelper (cmp : K → K → Int) (f : V → V → Bool) : Enum K V → Enum K V → Bool
  | .done, .done => true
  | .done, .more _ _ _ _ => false
  | .more _ _ _ _, .done => false
  | .more k1 v1 r1 e1, .more k2 v2 r2 e2 =>
    cmp k1 k2 = 0 && f v1 v2 && equalHelper cmp f (Enum.cons e1 r1) (Enum.cons e2 r2)
termination_by e1 _ => e1.size
decreasing_by (have := Enum.size_cons e1 r1; simp only [Enum.size]; omega)

/-- `equal` (map.sam:284) -/
def equal (cmp : K → K → Int) (f : V → V → Bool) (a b : Tree K V) : Bool :=
  equalHelper cmp f (Enum.cons .done a) (Enum.cons .done b)

/-- `iter` (map.sam:305): the side-effecting callback is modelled as a state transformer; calls
happen in the order `l.iter(f)`, `f(k, v)`, `r.iter(f)`. -/
def iter {σ : Type} (f : K → V → σ → σ) : Tree K V → σ → σ
  | .empty, s => s
  | .leaf k v, s => f k v s
  | .node _ k v l r, s => iter f r (f k v (iter f l s))

/-- `minKey` / `maxKey` (map.sam:399-401) -/
def minKey (t : Tree K V) : Option K := (min t).map (·.1)
def maxKey (t : Tree K V) : Option K := (max t).map (·.1)

/-! ### Abstraction and invariants (used by the theorems; also printed by the driver) -/

/-- in-order list of bindings: the finite map a tree denotes -/
def abs : Tree K V → List (K × V)
  | .empty => []
  | .leaf k v => [(k, v)]
  | .node _ k v l r => abs l ++ (k, v) :: abs r

/-- stored heights are right, sibling heights differ by at most 2, and a `Node` is never a
disguised leaf (`create` turns height 1 into `Leaf`). -/
def Bal : Tree K V → Prop
  | .empty => True
  | .leaf _ _ => True
  | .node h _ _ l r =>
    Bal l ∧ Bal r ∧ h = (if height l ≥ height r then height l + 1 else height r + 1) ∧
      height l ≤ height r + 2 ∧ height r ≤ height l + 2 ∧ h ≥ 2

/-- 32-bit wrap (what `this.value - other.value` computes) -/
def wrap32 (x : Int) : Int := (x + 2147483648) % 4294967296 - 2147483648

/-- `Int.compare` of std/boxed.sam:4 -/
def boxedCompare (a b : Int) : Int := wrap32 (a - b)

end SamVerif.StdMap
