import SamVerif.Model.FmtFull
/-!
Evaluation semantics of the C08 expression fragment, used to show that the one tree change the
formatter still makes (`x ⊕ (y ⊕ z)` ↦ `(x ⊕ y) ⊕ z`, ⊕ ∈ {+, *, &&, ||}; finding C08-F5) does not
change the meaning of a program.

The semantics follows the language spec (packages/samlang-website/spec.md §6.7–6.9): operands are
evaluated left to right, `&&` / `||` short-circuit, `+ - *` are 32-bit wrap-around, `/ %` trap on a
zero divisor.  The outcome of an expression is the sequence of observable events it produced
(every opaque unit — identifier, call, member access, if/match, lambda — may emit events and may
trap) and its value or `none` (trap).  Opaque units are interpreted by an arbitrary `Interp`; the
theorems hold for every interpretation.  Values are coerced where the static semantics would reject
the program (a non-int operand of `+` counts as 0, a non-bool operand of `&&` as false), so the
semantics is total on untyped trees and agrees with the real one on well-typed programs.
Call arguments and tuple elements are evaluated left to right after the callee; `if` evaluates its
condition and then exactly one branch; `match` evaluates the scrutinee and hands the case bodies'
denotations to the interpretation.
-/
namespace SamVerif.Fmt

inductive Val where
  | int (n : Int)
  | bool (b : Bool)
  | str (s : List Nat)
  | other (k : Nat)
  deriving DecidableEq, Repr, Inhabited

/-- observable events so far, and the value (`none` = trapped). -/
abbrev M := List Nat × Option Val

def pureM (v : Val) : M := ([], some v)

def bindM (m : M) (f : Val → M) : M :=
  match m with
  | (t, none) => (t, none)
  | (t, some v) => (t ++ (f v).1, (f v).2)

def wrap32 (v : Int) : Int :=
  if v % 4294967296 < 2147483648 then v % 4294967296 else v % 4294967296 - 4294967296

def toI : Val → Int
  | .int n => n
  | _ => 0
def toB : Val → Bool
  | .bool b => b
  | _ => false
def toS : Val → List Nat
  | .str s => s
  | _ => []

/-- the strict binary operators on values. -/
def applyOp : BinOp → Val → Val → Option Val
  | .plus, a, b => some (.int (wrap32 (toI a + toI b)))
  | .minus, a, b => some (.int (wrap32 (toI a - toI b)))
  | .mul, a, b => some (.int (wrap32 (toI a * toI b)))
  | .div, a, b => if toI b = 0 then none else some (.int (wrap32 (Int.tdiv (toI a) (toI b))))
  | .mod, a, b => if toI b = 0 then none else some (.int (wrap32 (Int.tmod (toI a) (toI b))))
  | .concat, a, b => some (.str (toS a ++ toS b))
  | .lt, a, b => some (.bool (decide (toI a < toI b)))
  | .le, a, b => some (.bool (decide (toI a ≤ toI b)))
  | .gt, a, b => some (.bool (decide (toI a > toI b)))
  | .ge, a, b => some (.bool (decide (toI a ≥ toI b)))
  | .eq, a, b => some (.bool (decide (a = b)))
  | .ne, a, b => some (.bool (decide (a ≠ b)))
  | .and, a, b => some (.bool (toB a && toB b))
  | .or, a, b => some (.bool (toB a || toB b))

/-- a binary expression: left operand first; `&&` / `||` evaluate the right operand only if needed. -/
def evalBin (o : BinOp) (mx my : M) : M :=
  match o with
  | .and => bindM mx fun v => if toB v then bindM my fun w => pureM (.bool (toB w)) else pureM (.bool false)
  | .or => bindM mx fun v => if toB v then pureM (.bool true) else bindM my fun w => pureM (.bool (toB w))
  | o => bindM mx fun v => bindM my fun w => ([], applyOp o v w)

end SamVerif.Fmt

namespace SamVerif.FmtFull
open SamVerif.Fmt (BinOp UOp Val M pureM bindM wrap32 toI toB toS applyOp evalBin)

/-- events and the values of a list of expressions evaluated left to right. -/
abbrev ML := List Nat × Option (List Val)

def bindML (m : ML) (f : List Val → M) : M :=
  match m with
  | (t, none) => (t, none)
  | (t, some vs) => (t ++ (f vs).1, (f vs).2)

def consML (m : M) (ms : ML) : ML :=
  match m with
  | (t, none) => (t, none)
  | (t, some v) =>
    match ms with
    | (t', none) => (t ++ t', none)
    | (t', some vs) => (t ++ t', some (v :: vs))

/-- interpretation of the units that stay opaque: identifiers and literals, member access on an
evaluated object, calling an evaluated callee with evaluated arguments, building a tuple, selecting a
match case from the scrutinee value and the (pattern, body denotation) list, and the closure of a
lambda whose body denotes `d`. -/
structure Interp where
  atom : Nat → M
  member : Nat → Bool → Val → M
  call : Val → List Val → M
  tuple : List Val → M
  matchSel : Val → List (Nat × M) → M
  lam : Nat → M → M
  /-- binding the value of a `let` statement `k` (may emit events or trap on a failed pattern). -/
  letBind : Nat → Val → M

mutual
def eval (I : Interp) : Expr → M
  | .atom a => I.atom a
  | .tuple e es => bindML (consML (eval I e) (evalArgs I es)) I.tuple
  | .block b => evalBlk I b
  | .post e p f => bindM (eval I e) (I.member p f)
  | .call0 f => bindM (eval I f) fun v => I.call v []
  | .call f args => bindM (eval I f) fun v => bindML (evalArgs I args) fun vs => I.call v vs
  | .unary .not e => bindM (eval I e) fun v => pureM (.bool (!toB v))
  | .unary .neg e => bindM (eval I e) fun v => pureM (.int (wrap32 (- toI v)))
  | .binary o l r => evalBin o (eval I l) (eval I r)
  | .ifElse c t e => bindM (eval I c) fun v => if toB v then evalBlk I t else evalBlk I e
  | .matchE m cs => bindM (eval I m) fun v => I.matchSel v (evalCases I cs)
  | .lambda k b => I.lam k (eval I b)
def evalArgs (I : Interp) : Args → ML
  | .one e => consML (eval I e) ([], some [])
  | .cons e rest => consML (eval I e) (evalArgs I rest)
def evalCases (I : Interp) : Cases → List (Nat × M)
  | .one k b => [(k, eval I b)]
  | .cons k b rest => (k, eval I b) :: evalCases I rest
/-- a block: its statements in order, then the final expression (unit value if there is none). -/
def evalBlk (I : Interp) : Blk → M
  | .fin ss e => evalStmts I ss (eval I e)
  | .noFin ss => evalStmts I ss (pureM (.other 0))
def evalStmts (I : Interp) : Stmts → M → M
  | .nil, k => k
  | .letS n e rest, k => bindM (eval I e) fun v => bindM (I.letBind n v) fun _ => evalStmts I rest k
  | .exprS e rest, k => bindM (eval I e) fun _ => evalStmts I rest k
end

end SamVerif.FmtFull
