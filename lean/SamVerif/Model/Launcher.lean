/-!
# C01 kernel K7 — the launcher of an entry point

`crates/samlang-compiler/src/lib.rs`, `compile_sources` (l.92-117): for every entry module the
emitted `<Entry>.wasm.js` and `<Entry>.ts` end with a call of the encoded name of that module's
`Main.main`: `FunctionName { type_name: <module>.Main, fn_name: main }.write_encoded`, i.e.
`_` ++ module parts joined by `$` (with `-` → `_`, `ModuleReference::encoded`) ++ `_Main$main`.
Core Lean only.
-/
namespace SamVerif.Launcher

/-- A module reference: its path parts as character lists. -/
abbrev Mod := List (List Char)

def encodePart (p : List Char) : List Char := p.map fun c => if c = '-' then '_' else c

def joinParts : List (List Char) → List Char
  | [] => []
  | [p] => p
  | p :: rest => p ++ '$' :: joinParts rest

/-- Name called by the launcher of entry module `m`. -/
def mainName (m : Mod) : List Char :=
  '_' :: joinParts (m.map encodePart) ++ "_Main$main".toList

/-- The loop over the entry points: one launcher per entry, each with a fresh name buffer. -/
def launchers (entries : List Mod) : List (Mod × List Char) := entries.map fun m => (m, mainName m)

end SamVerif.Launcher
