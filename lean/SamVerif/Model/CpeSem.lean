import SamVerif.Model.TailRec
/-!
# C01 kernel K4b — what constant-parameter elimination does to a self-recursive function

A MIR fragment with its interpreter: one function `f(params)` whose body is a tree of `Binary`
statements, `print`s (observable), if-else and **self calls in any position** (`x := f(args)`,
arguments are atoms as in MIR). `atomsOf` is the flow-insensitive summary that the decision kernel
(`TailRec.localReads`, `meet`, `paramState`) consumes; `dropArg` / `substVar` are the two rewrites of
`mir_constant_param_elimination.rs::rewrite_sources` (l.358-412): a parameter whose state is `Unused`
or a constant is removed from the signature and from every call (`retain`, l.290-303), and uses of
a constant parameter are replaced by the literal (`rewrite_expr`, l.254-264).
-/
namespace SamVerif.CpeSem
open SamVerif.TailRec
open SamVerif.Opt (Op)

inductive CBody where
  | ret (e : Expr)
  | bin (x : Name) (op : Op) (e1 e2 : Expr) (k : CBody)
  | print (es : List Expr) (k : CBody)
  | ite (c : Expr) (t e : CBody)
  | call (x : Name) (args : List Expr) (k : CBody)      -- x := f(args)
deriving Repr, Inhabited

def exprReads : Expr → List Name
  | .lit _ => []
  | .var x => [x]

def exprArg : Expr → Arg
  | .lit n => .i32 n
  | .var x => .var x

/-- Summary consumed by the decision kernel (`collect_def_function_usages_stmt`). `self` = name of f. -/
def atomsOf (self : Nat) : CBody → List Atom
  | .ret e => (exprReads e).map .read
  | .bin _ _ e1 e2 k => (exprReads e1 ++ exprReads e2).map .read ++ atomsOf self k
  | .print es k => .call 999 (es.map exprArg) :: atomsOf self k
  | .ite c t e => (exprReads c).map .read ++ atomsOf self t ++ atomsOf self e
  | .call _ args k => .call self (args.map exprArg) :: atomsOf self k

/-- Result of a run: printed lines (each a list of numbers) and the returned value. -/
abbrev Res := List (List Int) × Int

/-- Interpreter. `fuel` bounds the call depth; `none` = trap or out of fuel. -/
def exec (ev : Op → Int → Int → Option Int) (params : List Name) (body : CBody) :
    Nat → Env → List (List Int) → CBody → Option Res
  | _, env, out, .ret e => some (out, e.eval env)
  | fuel, env, out, .bin x op e1 e2 k =>
    match ev op (e1.eval env) (e2.eval env) with
    | none => none
    | some v => exec ev params body fuel (upd env x v) out k
  | fuel, env, out, .print es k => exec ev params body fuel env (out ++ [es.map (Expr.eval env)]) k
  | fuel, env, out, .ite c t e =>
    if c.eval env ≠ 0 then exec ev params body fuel env out t else exec ev params body fuel env out e
  | 0, _, _, .call _ _ _ => none
  | fuel + 1, env, out, .call x args k =>
    match exec ev params body fuel (bindParams params (args.map (Expr.eval env))) out body with
    | none => none
    | some (out', v) => exec ev params body (fuel + 1) (upd env x v) out' k
termination_by fuel _ _ b => (fuel, sizeOf b)

def run (ev : Op → Int → Int → Option Int) (params : List Name) (body : CBody) (fuel : Nat)
    (vals : List Int) : Option Res :=
  exec ev params body fuel (bindParams params vals) [] body

/-- `arguments.retain_mut` (l.296-303): drop the `i`-th argument of every self call. -/
def dropArg (i : Nat) : CBody → CBody
  | .ret e => .ret e
  | .bin x op e1 e2 k => .bin x op e1 e2 (dropArg i k)
  | .print es k => .print es (dropArg i k)
  | .ite c t e => .ite c (dropArg i t) (dropArg i e)
  | .call x args k => .call x (args.eraseIdx i) (dropArg i k)

def substExpr (p : Name) (n : Int) : Expr → Expr
  | .lit m => .lit m
  | .var x => if x = p then .lit n else .var x

/-- `rewrite_expr` with `local_rewrite[p] = Int32(n)` applied to every operand. -/
def substVar (p : Name) (n : Int) : CBody → CBody
  | .ret e => .ret (substExpr p n e)
  | .bin x op e1 e2 k => .bin x op (substExpr p n e1) (substExpr p n e2) (substVar p n k)
  | .print es k => .print (es.map (substExpr p n)) (substVar p n k)
  | .ite c t e => .ite (substExpr p n c) (substVar p n t) (substVar p n e)
  | .call x args k => .call x (args.map (substExpr p n)) (substVar p n k)

/-- No statement of the body assigns the name (parameters are never re-assigned in MIR). -/
def assigns (p : Name) : CBody → Bool
  | .ret _ => false
  | .bin x _ _ _ k => x == p || assigns p k
  | .print _ k => assigns p k
  | .ite _ t e => assigns p t || assigns p e
  | .call x _ k => x == p || assigns p k

/-- Every self call passes one argument per parameter. -/
def callsArity (k : Nat) : CBody → Bool
  | .ret _ => true
  | .bin _ _ _ _ b => callsArity k b
  | .print _ b => callsArity k b
  | .ite _ t e => callsArity k t && callsArity k e
  | .call _ args b => args.length == k && callsArity k b

end SamVerif.CpeSem
