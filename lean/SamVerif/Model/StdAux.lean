/-
Models of `std/option.sam`, `std/result.sam`, `std/tuples.sam` and the `Bool` half of
`std/boxed.sam`, function by function, over their own inductive types so that the theorems of
`Props/C18.lean` relate every method to the corresponding operation on Lean's `Option` / `Except` /
`Prod` through explicit abstraction functions.  `Process.panic` = `none`.  Core Lean only.
-/
namespace SamVerif.StdAux

/-- `class Option<T>(None, Some(T))` (option.sam:7) -/
inductive SOption (T : Type) where
  | none : SOption T
  | some (v : T) : SOption T
  deriving DecidableEq, Repr, Inhabited

/-- `class Pair<E0, E1>(val e0, val e1)` (tuples.sam:7) -/
structure SPair (A B : Type) where
  e0 : A
  e1 : B
  deriving DecidableEq, Repr

/-- `class Triple<E0, E1, E2>` (tuples.sam:13); `Tuple4` … `Tuple16` have the same two methods -/
structure STriple (A B C : Type) where
  e0 : A
  e1 : B
  e2 : C
  deriving DecidableEq, Repr

variable {T R A B E : Type}

namespace SOption
def toOption : SOption T → Option T
  | .none => Option.none
  | .some v => Option.some v

/-- `both` (option.sam:8) -/
def both : SOption A → SOption B → SOption (SPair A B)
  | .none, _ => .none
  | .some a, ob =>
    match ob with
    | .none => .none
    | .some b => .some ⟨a, b⟩

/-- `isSome` / `isNone` (option.sam:17, 23) -/
def isSome : SOption T → Bool
  | .none => false
  | .some _ => true
def isNone : SOption T → Bool
  | .none => true
  | .some _ => false

/-- `map` (option.sam:29) -/
def map (f : T → R) : SOption T → SOption R
  | .none => .none
  | .some v => .some (f v)

/-- `filter` (option.sam:35) -/
def filter (f : T → Bool) : SOption T → SOption T
  | .none => .none
  | .some v => if f v then .some v else .none

/-- `valueMap` (option.sam:41) -/
def valueMap (default : R) (f : T → R) : SOption T → R
  | .none => default
  | .some v => f v

/-- `iter` (option.sam:47), callback as a state transformer -/
def iter {σ : Type} (f : T → σ → σ) : SOption T → σ → σ
  | .none, s => s
  | .some v, s => f v s

/-- `bind` (option.sam:53) -/
def bind (f : T → SOption R) : SOption T → SOption R
  | .none => .none
  | .some v => f v

/-- `expect` / `unwrap` (option.sam:59, 65): `none` = `Process.panic(msg)` -/
def expect : SOption T → Option T
  | .some v => Option.some v
  | .none => Option.none
def unwrap (o : SOption T) : Option T := expect o

/-- `tryUnwrap` (option.sam:67) -/
def tryUnwrap (o : SOption T) : SOption T := o
end SOption

/-- `class Result<T, E>(Ok(T), Error(E))` (result.sam:3) -/
inductive SResult (T E : Type) where
  | ok (v : T) : SResult T E
  | error (e : E) : SResult T E
  deriving DecidableEq, Repr

namespace SResult
def toExcept : SResult T E → Except E T
  | .ok v => .ok v
  | .error e => .error e

/-- `ignore` (result.sam:4) -/
def ignore : SResult T E → SResult Unit E
  | .ok _ => .ok ()
  | .error e => .error e
/-- `isOk` / `isError` (result.sam:10, 16) -/
def isOk : SResult T E → Bool
  | .ok _ => true
  | .error _ => false
def isError : SResult T E → Bool
  | .ok _ => false
  | .error _ => true
/-- `ok` (result.sam:22) -/
def ok? : SResult T E → SOption T
  | .ok v => .some v
  | .error _ => .none
/-- `fromOption` (result.sam:28) -/
def fromOption (o : SOption T) (error : E) : SResult T E :=
  match o with
  | .some v => .ok v
  | .none => .error error
/-- `iter` / `iterError` (result.sam:34, 40) -/
def iter {σ : Type} (f : T → σ → σ) : SResult T E → σ → σ
  | .ok v, s => f v s
  | .error _, s => s
def iterError {σ : Type} (f : E → σ → σ) : SResult T E → σ → σ
  | .ok _, s => s
  | .error e, s => f e s
/-- `map` / `mapError` (result.sam:46, 52) -/
def map (f : T → R) : SResult T E → SResult R E
  | .ok v => .ok (f v)
  | .error e => .error e
def mapError (f : E → R) : SResult T E → SResult T R
  | .ok v => .ok v
  | .error e => .error (f e)
/-- `expect` / `unwrap` (result.sam:58, 64) -/
def expect : SResult T E → Option T
  | .ok v => some v
  | .error _ => none
def unwrap (r : SResult T E) : Option T := expect r
/-- `tryUnwrap` (result.sam:66) -/
def tryUnwrap (r : SResult T E) : SOption T := ok? r
end SResult

/-- `first` / `second` of every tuple class (tuples.sam:8-9 …) -/
def SPair.first (p : SPair A B) : A := p.e0
def SPair.second (p : SPair A B) : B := p.e1
def STriple.first {C : Type} (p : STriple A B C) : A := p.e0
def STriple.second {C : Type} (p : STriple A B C) : B := p.e1

/-- `Bool.intValue`, `Bool.compare` (boxed.sam:10-12) -/
def boolIntValue (b : Bool) : Int := if b then 1 else 0
def boolCompare (a b : Bool) : Int := boolIntValue a - boolIntValue b

end SamVerif.StdAux
