/-
Model of the cast-insertion rules of `crates/samlang-compiler/src/wasm_lowering.rs` for variables whose
wasm local is `(ref eq)` although they are used at a concrete struct type - the `_this` of a method
(`lir_lowering.rs:86-97`: the context parameter of every closure-callable function is erased to
`AnyPointer`; recognised by `is_context_parameter`, mir_tail_recursion_rewrite.rs, also after the
tail-recursion rewrite has renamed the parameters - fix 2a09feb) - and of the validator's typing of the
places they flow into (fix 0ba77ec, findings C03-F11 / C03-F12):

* `lower_expr` / `get_without_type_update` (wasm_lowering.rs:541-560, 634-642): `local.get` (+ `ref.as_non_null`),
  type = the local's declared type                                              -> `lowerPlain`
* `lower_expr_for(e, declared type)` (…:562-578): `ref.cast T` around a variable whose local is `(ref eq)`
  when the place wants `(ref T)` - used for struct.new fields, the return value, if-else final
  assignments, break values, loop initial / loop values, late-init assignments          -> `lowerFor`
* `lower_expr_with_reference_type` (…:580-617): the pointer of an `IndexedAccess`, cast iff the local is `(ref eq)` -> `lowerPtr`
* direct and indirect call arguments (…:290-304): cast iff the local is `(ref eq)` and the parameter is `Id(_)` -> `lowerFor`
* closure-callable signature (`lower_function`, `lower_fn`): first parameter erased to `(ref eq)` iff it is
  the context parameter                                                          -> `erasedSig`, `isContext`

Core Lean only. Types are ids; `sub e k` / parents are not needed here (struct classes only).
-/
namespace SamVerif.CastInsert

inductive WTy where
  | i32
  | eq                    -- `(ref eq)`
  | ref (t : Nat)         -- `(ref $T)`
  deriving DecidableEq, Repr, Inhabited

/-- validator's subtyping on these types -/
def subTy : WTy → WTy → Bool
  | .i32, .i32 => true
  | .eq, .eq => true
  | .ref _, .eq => true
  | .ref a, .ref b => a == b
  | _, _ => false

/-- an LIR expression: a variable occurrence carries the LIR type it is used at -/
inductive Expr where
  | var (n : Nat) (occ : WTy)
  | lit                                -- an i32 literal
  deriving Repr, Inhabited

/-- lowered operand -/
inductive Op where
  | get (n : Nat)                      -- `(ref.as_non_null (local.get n))` / `(local.get n)`
  | cast (t : Nat) (n : Nat)           -- `(ref.cast (ref $t) …get n…)`
  | const
  deriving Repr, Inhabited

abbrev Locals := Nat → WTy             -- `local_variables`: declared wasm type of each local / parameter

def opTy (Γ : Locals) : Op → WTy
  | .get n => Γ n
  | .cast t _ => .ref t
  | .const => .i32

/-- `lower_expr` -/
def lowerPlain : Expr → Op
  | .var n _ => .get n
  | .lit => .const

/-- `lower_expr_for(e, target)` (also the call-argument rule) -/
def lowerFor (Γ : Locals) (e : Expr) (target : WTy) : Op :=
  match e, target with
  | .var n _, .ref t => if Γ n = .eq then .cast t n else .get n
  | e, _ => lowerPlain e

/-- `lower_expr_with_reference_type`: pointer of `IndexedAccess` used at `(ref t)` -/
def lowerPtr (Γ : Locals) (n : Nat) (t : Nat) : Op :=
  if Γ n = .eq then .cast t n else .get n

/-- the places a value flows into, each with the type the validator requires there -/
inductive Sink where
  | structField (e : Expr) (fieldTy : WTy)        -- operand i of `struct.new`
  | ret (e : Expr) (retTy : WTy)                  -- function result
  | assign (e : Expr) (localTy : WTy)             -- `local.set` of a declared local (if-else finals, break, loop values, late init)
  | arg (e : Expr) (paramTy : WTy)                -- argument of a direct call / `call_indirect`
  | load (n : Nat) (t : Nat)                      -- `struct.get $t i` on variable `n`
  deriving Repr, Inhabited

def Sink.target : Sink → WTy
  | .structField _ t | .ret _ t | .assign _ t | .arg _ t => t
  | .load _ t => .ref t

/-- the lowering after fix 0ba77ec -/
def lowerSink (Γ : Locals) : Sink → Op
  | .structField e t | .ret e t | .assign e t | .arg e t => lowerFor Γ e t
  | .load n t => lowerPtr Γ n t

/-- the lowering before the fix: only loads and call arguments were downcast -/
def lowerSinkOld (Γ : Locals) : Sink → Op
  | .structField e _ | .ret e _ | .assign e _ => lowerPlain e
  | .arg e t => lowerFor Γ e t
  | .load n t => lowerPtr Γ n t

def validates (Γ : Locals) (s : Sink) (o : Op) : Bool := subTy (opTy Γ o) s.target

/-- LIR well-typedness of the expression at its sink, up to erasure: the occurrence type is the sink's
type, and the local is declared at that type or erased to `(ref eq)` -/
def exprOk (Γ : Locals) (e : Expr) (target : WTy) : Prop :=
  match e with
  | .var n occ => occ = target ∧ (Γ n = target ∨ (Γ n = .eq ∧ ∃ t, target = .ref t))
  | .lit => target = .i32

def Sink.ok (Γ : Locals) : Sink → Prop
  | .structField e t | .ret e t | .assign e t | .arg e t => exprOk Γ e t
  | .load n t => Γ n = .ref t ∨ Γ n = .eq

/-! ### closure-callable signatures -/

def THIS : Nat := 0
/-- `_tailrec_param_<name>`: the tail-recursion rewrite renames every parameter (injective, fresh) -/
def tailrec (n : Nat) : Nat := 2 * n + 1

/-- `is_context_parameter` (after fix 2a09feb) / the test before it -/
def isContext (p : Nat) : Bool := p == THIS || p == tailrec THIS
def isContextOld (p : Nat) : Bool := p == THIS

/-- parameter types of the emitted function: context erased to `(ref eq)` -/
def erasedSig (ctx : Nat → Bool) (params : List Nat) (tys : List WTy) : List WTy :=
  match params, tys with
  | p :: _, _ :: ts => if ctx p then .eq :: ts else tys
  | _, _ => tys

end SamVerif.CastInsert
