/-
C04 — vocabulary shared by the generated operator table (`Generated/TsOps.lean`, written by
`/verif/extract/c04_tsops.py` from `/repo` on every run) and the hand-written semantics in
`Model/Backends.lean`.  Core Lean only.
-/
namespace SamVerif.Backends

/-- `hir::BinaryOperator` (`crates/samlang-ast/src/hir.rs:185-203`), same order. -/
inductive Op
  | MUL | DIV | MOD | PLUS | MINUS | LAND | LOR | SHL | SHR | XOR | LT | LE | GT | GE | EQ | NE
  deriving DecidableEq, Repr, Inhabited

/-- The JavaScript operator symbol printed by `BinaryOperator::as_str` (`hir.rs:206-225`);
`sar` is `>>`, `shr` is `>>>`, `seq`/`sne` are `===`/`!==`. -/
inductive JsSym
  | mul | div | mod | add | sub | band | bor | shl | sar | shr | xor
  | lt | le | gt | ge | eq | ne | seq | sne
  deriving DecidableEq, Repr, Inhabited

/-- What the TypeScript printer wraps around `e1 <sym> e2` (`lir.rs:268-320`). -/
inductive Wrap
  | plain | floor | trunc | number
  deriving DecidableEq, Repr, Inhabited

/-- The `i32.<op>` opcode chosen by the WebAssembly printer (`wasm.rs:186-213`). A few opcodes the
unchanged code never selects are included so that a changed table still has a meaning. -/
inductive WOp
  | mul | div_s | div_u | rem_s | rem_u | add | sub | and | or | shl | shr_s | shr_u | xor
  | lt_s | lt_u | le_s | le_u | gt_s | gt_u | ge_s | ge_u | eq | ne
  deriving DecidableEq, Repr, Inhabited

def Op.all : List Op :=
  [.MUL, .DIV, .MOD, .PLUS, .MINUS, .LAND, .LOR, .SHL, .SHR, .XOR, .LT, .LE, .GT, .GE, .EQ, .NE]

def Op.name : Op → String
  | .MUL => "MUL" | .DIV => "DIV" | .MOD => "MOD" | .PLUS => "PLUS" | .MINUS => "MINUS"
  | .LAND => "LAND" | .LOR => "LOR" | .SHL => "SHL" | .SHR => "SHR" | .XOR => "XOR"
  | .LT => "LT" | .LE => "LE" | .GT => "GT" | .GE => "GE" | .EQ => "EQ" | .NE => "NE"

end SamVerif.Backends
