/-!
# Model of the layout engine `crates/samlang-printer/src/prettier.rs`

Function by function (core Lean only, executable; the native driver `drv-c09` runs exactly these
definitions against the real `prettier::pretty_print` through hook H4):

* `Doc`            = `enum Document` (prettier.rs:39-57); `Text`/`NonStaticText` keep their tag.
* `flatten`        = `Document::flatten` (60-82)
* `concatV`        = `Document::concat` (84-95)
* `group`, `bracketFlexible`, `lineComment`, `multilineComment` = the four `Union` builders (97-176)
* `genBest`        = `generate_best_doc` (192-262): work list, `consumed`, `enforce_consumed`,
                     the collector is threaded explicitly and *truncated* after a failed attempt
                     exactly like the Rust code (`collector.truncate(prev_length)`).
* `render`, `post`, `prettyPrint` = `pretty_print` (266-307) including the hard-line undo, the
                     per-line `trim_end` and the final `trim_end` + newline.

Strings are `List Char`; `s.len()` of Rust is the UTF-8 byte length (`utf8Len`).
Assumption: `indentation + i` and `consumed + len` stay below 2^64 (`usize`).
-/
namespace SamVerif.Doc

abbrev Str := List Char

inductive Doc where
  | nil
  | concat (a b : Doc)
  | nest (n : Nat) (d : Doc)
  | text (s : Str)
  | nstext (s : Str)
  | line
  | lineNil
  | lineHard
  | union (a b : Doc)
  deriving Repr, DecidableEq, Inhabited

open Doc

/-- `Document::flatten` (prettier.rs:60-82). -/
def flatten : Doc → Option Doc
  | .nil => some .nil
  | .concat a b =>
    match flatten a, flatten b with
    | some a', some b' => some (.concat a' b')
    | _, _ => none
  | .nest n d => (flatten d).map (.nest n)
  | .text s => some (.text s)
  | .nstext s => some (.nstext s)
  | .line => some (.text [' '])
  | .lineNil => some .nil
  | .lineHard => none
  | .union a _ => flatten a

/-- `Document::concat(vec)` (84-95): right-nested, `Nil` for the empty vector. -/
def concatV : List Doc → Doc
  | [] => .nil
  | [x] => x
  | x :: y :: rest => .concat x (concatV (y :: rest))

/-- `Document::group` (97-103). -/
def group (d : Doc) : Doc :=
  match flatten d with
  | some f => .union f d
  | none => d

/-- `Document::bracket_flexible` (105-117). -/
def bracketFlexible (left : Str) (sep : Doc) (doc : Doc) (right : Str) : Doc :=
  group (concatV [.text left, .nest 2 (.concat sep doc), sep, .text right])

/-- Rust's `str::split(' ')`: always at least one piece, empty pieces kept. -/
def splitSp : Str → List Str
  | [] => [[]]
  | c :: cs =>
    if c = ' ' then [] :: splitSp cs
    else match splitSp cs with
      | [] => [[c]]          -- unreachable: `splitSp` is never empty
      | w :: ws => (c :: w) :: ws

def leaderLine : Str := ['/', '/', ' ']
def leaderStar : Str := [' ', '*', ' ']

/-- One word of a re-flowable comment (prettier.rs:130-142 / 155-167). -/
def commentWord (leader : Str) (w : Str) : Doc :=
  .union (.concat (.nstext w) (.text [' '])) (concatV [.nstext w, .lineHard, .text leader])

/-- `Document::line_comment` (126-149). -/
def lineComment (t : Str) : Doc :=
  .union (.concat (.text leaderLine) (.nstext t))
    (concatV (.text leaderLine :: (splitSp t).map (commentWord leaderLine)))

/-- `Document::multiline_comment` (151-176). -/
def multilineComment (starter : Str) (t : Str) : Doc :=
  .union (concatV [.text starter, .text [' '], .nstext t, .text [' ', '*', '/']])
    (concatV ([.text starter, .lineHard, .text leaderStar] ++ (splitSp t).map (commentWord leaderStar)
      ++ [.lineHard, .text [' ', '*', '/']]))

/-- `IntermediateDocumentTokenForPrinting` (180-184). -/
inductive Tok where
  | text (s : Str)
  | nstext (s : Str)
  | line (indent : Nat) (hard : Bool)
  deriving Repr, DecidableEq, Inhabited

def utf8Len (s : Str) : Nat := (s.map Char.utf8Size).sum

def size : Doc → Nat
  | .concat a b => size a + size b + 1
  | .nest _ d => size d + 1
  | .union a b => size a + size b + 1
  | _ => 1

/-- Termination measure of the work list (`DocumentList`). -/
def lsize : List (Nat × Doc) → Nat
  | [] => 0
  | (_, d) :: rest => size d + lsize rest

theorem size_pos (d : Doc) : 0 < size d := by cases d <;> simp [size]

/-- `generate_best_doc` (192-262). Returns the flag and the collector (which, after `false`,
may contain the failed attempt — the caller truncates it, as in Rust). -/
def genBest (w : Nat) (col : List Tok) (consumed : Nat) (enforce : Bool) :
    List (Nat × Doc) → Bool × List Tok
  | [] => if enforce && decide (consumed > w) then (false, col) else (true, col)
  | (i, d) :: rest =>
    if enforce && decide (consumed > w) then (false, col) else
    match d with
    | .nil => genBest w col consumed enforce rest
    | .concat a b => genBest w col consumed enforce ((i, a) :: (i, b) :: rest)
    | .nest n d' => genBest w col consumed enforce ((i + n, d') :: rest)
    | .text s => genBest w (col ++ [.text s]) (consumed + utf8Len s) enforce rest
    | .nstext s => genBest w (col ++ [.nstext s]) (consumed + utf8Len s) enforce rest
    | .line => genBest w (col ++ [.line i false]) i false rest
    | .lineNil => genBest w (col ++ [.line i false]) i false rest
    | .lineHard => genBest w (col ++ [.line i true]) i false rest
    | .union a b =>
      let r := genBest w col consumed true ((i, a) :: rest)
      if r.1 then r
      else genBest w (r.2.take col.length) consumed enforce ((i, b) :: rest)
termination_by l => lsize l
decreasing_by
  all_goals simp only [lsize, size]
  all_goals omega

/-- `char::is_whitespace` (Unicode `White_Space`), used by `trim_end`. -/
def isWs (c : Char) : Bool :=
  let n := c.toNat
  (9 ≤ n && n ≤ 13) || n == 32 || n == 0x85 || n == 0xA0 || n == 0x1680 ||
  (0x2000 ≤ n && n ≤ 0x200A) || n == 0x2028 || n == 0x2029 || n == 0x202F || n == 0x205F ||
  n == 0x3000

/-- `str::trim_end`. -/
def trimEnd (s : Str) : Str := (s.reverse.dropWhile isWs).reverse

/-- The token loop of `pretty_print` (276-302): state = (string_builder, prev_hard_line). -/
def renderStep (st : Str × Bool) : Tok → Str × Bool
  | .text s => (st.1 ++ s, false)
  | .nstext s => (st.1 ++ s, false)
  | .line indent hard =>
    let sb := if !hard && st.2 then trimEnd st.1 else st.1
    (sb ++ '\n' :: List.replicate indent ' ', hard)

def render (toks : List Tok) : Str := (toks.foldl renderStep ([], false)).1

/-- `str::split('\n')`. -/
def splitNl : Str → List Str
  | [] => [[]]
  | c :: cs =>
    if c = '\n' then [] :: splitNl cs
    else match splitNl cs with
      | [] => [[c]]
      | w :: ws => (c :: w) :: ws

def joinNl : List Str → Str
  | [] => []
  | [x] => x
  | x :: y :: rest => x ++ '\n' :: joinNl (y :: rest)

/-- Lines 304-306: per-line `trim_end`, final `trim_end`, trailing newline unless empty. -/
def post (sb : Str) : Str :=
  let p := trimEnd (joinNl ((splitNl sb).map trimEnd))
  if p.isEmpty then p else p ++ ['\n']

/-- The collector after the top-level call (268-274). -/
def tokens (w : Nat) (d : Doc) : List Tok := (genBest w [] 0 false [(0, d)]).2

/-- `prettier::pretty_print`. -/
def prettyPrint (w : Nat) (d : Doc) : Str := post (render (tokens w d))

/-! ### Valuations: what a reader keeps of a document -/

/-- A *key* says what is kept of a static text leaf and of a non-static text leaf; line breaks and
indentation are never kept. -/
structure Key (α : Type) where
  text : Str → List α
  ns : Str → List α

def Key.tok {α} (k : Key α) : Tok → List α
  | .text s => k.text s
  | .nstext s => k.ns s
  | .line _ _ => []

/-- The content of a document under `k`, reading the preferred (first) branch of each `Union`. -/
def val {α} (k : Key α) : Doc → List α
  | .nil => []
  | .concat a b => val k a ++ val k b
  | .nest _ d => val k d
  | .text s => k.text s
  | .nstext s => k.ns s
  | .line => []
  | .lineNil => []
  | .lineHard => []
  | .union a _ => val k a

/-- Every `Union` in the document offers two branches with the same content under `k`. -/
def Agree {α} (k : Key α) : Doc → Prop
  | .concat a b => Agree k a ∧ Agree k b
  | .nest _ d => Agree k d
  | .union a b => val k a = val k b ∧ Agree k a ∧ Agree k b
  | _ => True

/-- Executable version of `Agree` (used by the driver on the real documents of the printer). -/
def agreeB {α} [DecidableEq α] (k : Key α) : Doc → Bool
  | .concat a b => agreeB k a && agreeB k b
  | .nest _ d => agreeB k d
  | .union a b => decide (val k a = val k b) && agreeB k a && agreeB k b
  | _ => true

/-- Key 1: every non-whitespace character of every text leaf. -/
def nonWs (s : Str) : Str := s.filter (fun c => !isWs c)
def textKey : Key Char := ⟨nonWs, nonWs⟩

/-- Key 2: like `textKey`, but the comment continuation leaders `"// "` and `" * "` (static
leaves inserted by the comment builders at every re-flow point) are not counted. -/
def commentKey : Key Char :=
  ⟨fun s => if s = leaderLine ∨ s = leaderStar then [] else nonWs s, nonWs⟩

/-- Key 3: only the non-static leaves (identifiers, literals, comment words). -/
def nsKey : Key Char := ⟨fun _ => [], nonWs⟩

end SamVerif.Doc
