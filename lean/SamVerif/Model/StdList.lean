/-
Model of `std/list.sam` (class `List<T>(Nil, Cons(T, List<T>))`), function by function, over its
own inductive type `SList` so that the theorems of `Props/C18.lean` relate every method to the
corresponding operation on Lean's `List` through the abstraction `toList`.  Core Lean only.
-/
namespace SamVerif.StdList

inductive SList (T : Type) where
  | nil : SList T
  | cons (v : T) (rest : SList T) : SList T
  deriving DecidableEq, Repr, Inhabited

variable {T R A : Type}

def toList : SList T → List T
  | .nil => []
  | .cons v rest => v :: toList rest

def ofList : List T → SList T
  | [] => .nil
  | v :: rest => .cons v (ofList rest)

/-- `fold` (list.sam:101) -/
def fold (f : A → T → A) : SList T → A → A
  | .nil, acc => acc
  | .cons v rest, acc => fold f rest (f acc v)

/-- `foldRight` (list.sam:107) -/
def foldRight (f : T → A → A) : SList T → A → A
  | .nil, init => init
  | .cons v rest, init => f v (foldRight f rest init)

/-- `length` (list.sam:11): `this.fold((acc, elem) -> acc + 1, 0)` -/
def length (l : SList T) : Int := fold (fun acc _ => acc + 1) l 0

/-- `isEmpty` (list.sam:13) -/
def isEmpty : SList T → Bool
  | .nil => true
  | .cons _ _ => false

/-- `first` (list.sam:19) -/
def first : SList T → Option T
  | .nil => none
  | .cons v _ => some v

/-- `rest` (list.sam:25) -/
def rest : SList T → Option (SList T)
  | .nil => none
  | .cons _ r => some r

/-- `filter` (list.sam:31) -/
def filter (f : T → Bool) : SList T → SList T
  | .nil => .nil
  | .cons v rest =>
    let filteredRest := filter f rest
    if f v then .cons v filteredRest else filteredRest

/-- `map` (list.sam:40) -/
def map (f : T → R) : SList T → SList R
  | .nil => .nil
  | .cons v rest => .cons (f v) (map f rest)

/-- `filterMap` (list.sam:46) -/
def filterMap (f : T → Option R) : SList T → SList R
  | .nil => .nil
  | .cons v rest =>
    let mappedRest := filterMap f rest
    match f v with
    | none => mappedRest
    | some m => .cons m mappedRest

/-- `iter` (list.sam:60), callback as a state transformer -/
def iter {σ : Type} (f : T → σ → σ) : SList T → σ → σ
  | .nil, s => s
  | .cons v rest, s => iter f rest (f v s)

/-- `contains` (list.sam:67) -/
def contains (element : T) (equal : T → T → Bool) : SList T → Bool
  | .nil => false
  | .cons v rest => equal element v || contains element equal rest

/-- `forAll` (list.sam:73) -/
def forAll (f : T → Bool) : SList T → Bool
  | .nil => true
  | .cons v rest => f v && forAll f rest

/-- `exists` (list.sam:79) -/
def «exists» (f : T → Bool) : SList T → Bool
  | .nil => false
  | .cons v rest => f v || «exists» f rest

/-- `find` (list.sam:85) -/
def find (f : T → Bool) : SList T → Option T
  | .nil => none
  | .cons v rest => if f v then some v else find f rest

/-- `findMap` (list.sam:91) -/
def findMap (f : T → Option R) : SList T → Option R
  | .nil => none
  | .cons v rest =>
    match f v with
    | some r => some r
    | none => findMap f rest

/-- `append` (list.sam:95): `this.foldRight((elem, acc) -> Cons(elem, acc), other)` -/
def append (l other : SList T) : SList T := foldRight (fun e acc => .cons e acc) l other

/-- `reverseAndAppend` (list.sam:98): `this.fold((acc, elem) -> Cons(elem, acc), other)` -/
def reverseAndAppend (l other : SList T) : SList T := fold (fun acc e => .cons e acc) l other

/-- `bind` (list.sam:113) -/
def bind (f : T → SList R) (l : SList T) : SList R :=
  foldRight (fun e acc => append (f e) acc) l .nil

/-- `flatten` (list.sam:116) -/
def flatten (l : SList (SList T)) : SList T :=
  foldRight (fun inner acc => append inner acc) l .nil

/-- `reverseWithAccumulator` (list.sam:121) -/
def reverseWithAccumulator : SList T → SList T → SList T
  | .nil, acc => acc
  | .cons v rest, acc => reverseWithAccumulator rest (.cons v acc)

/-- `reverse` (list.sam:119) -/
def reverse (l : SList T) : SList T := reverseWithAccumulator l .nil

end SamVerif.StdList
