import SamVerif.Model.Useful
/-
Model of the pattern part of HIR lowering, `crates/samlang-compiler/src/hir_lowering.rs`:

* `lower_matching_pattern` (hir_lowering.rs:657-871) -> `lowerPat` / `lowerElems` / `lowerObj` / `lowerOr`
* `lower_match`            (hir_lowering.rs:873-947) -> `runMatch` (the if/else chain that ends in the
  "unreachable" fallback `Process.panic(0, "")`)

and of what the emitted statements do at run time (`evalCode`, `evalFields`).

Input of the lowering is the *checked* pattern (`MatchingPattern<Arc<Type>>`, written by
`check_matching_pattern`, main_checker.rs:1090-1512) - `CPat`: the checker has already resolved a
variant tag to `tag_order` (its declaration index; a variant is identified here by C07's `Ctor`,
class + tag, and the run-time tag of a variant value is that index) and an object element's field
name to `field_order` (main_checker.rs:1302-1306).  `absOf` is the abstract pattern node the checker
hands to the exhaustiveness analysis for the same (error-free) pattern (main_checker.rs:1237-1345,
1403-1414, 1438-1462): in particular an object pattern starts from one wildcard per field and
*overwrites* slot `field_order` per element (`abstract_pattern_nodes[*field_order] = abstract_node`).

The Rust function returns `LoweringResult { statements, expression }`; the *shape* of the emitted
statements is kept as a tree (`Code` / `Fields`), temporaries are not named: each `IndexedAccess` /
`ConditionalDestructure` binding is used exactly by the nested pattern lowered right after it, which
the tree expresses by nesting.  (Freshness of `allocate_temp_variable` names and the `LateInit…`
binding statements of `Id` patterns are outside the model; the `matchrun` tie runs the real checker,
compiler and engine on generated matches and compares with `runMatch`.)

Run-time faults are explicit: `evalCode … = none` means the emitted code performs an out-of-bounds /
ill-typed struct access or destructures a non-variant - the engine-level faults C03 excludes.
Core Lean only; values, abstract patterns, signatures are C07's (`Model/Useful.lean`).
-/
namespace SamVerif.MatchLower
open SamVerif.Useful

/-- checked source pattern, as `lower_matching_pattern` reads it -/
inductive CPat where
  | tuple (nfields : Nat) (es : List CPat)
      -- `nfields` = `resolved_struct_mappings.len()` of the scrutinee's id type
  | object (nfields : Nat) (orders : List Nat) (es : List CPat)
      -- elements in the order written; `orders[k]` = `field_order` of element `k`
  | variant (c : Ctor) (args : List CPat)     -- `tag_order` + `data_variables`
  | id (x : Nat)                              -- binds source name `x` (a `LateInitAssignment`)
  | wild
  | or (ps : List CPat)
  deriving Repr, Inhabited

mutual
/-- Statements + condition expression produced for one pattern on one scrutinee expression. -/
inductive Code where
  | one                                   -- `([], hir::ONE)`: `Wildcard`
  | bind (x : Nat)                        -- `([LateInitAssignment { binding_names[x], scrutinee }], hir::ONE)`: `Id`
  | zero                                  -- `([], hir::ZERO)`: `Or([])`
  | struct (fs : Fields)                  -- `Tuple` / `Object`: one `IndexedAccess` per element
  | destructure (c : Ctor) (nbind : Nat) (fs : Fields)
      -- `ConditionalDestructure { tag, bindings (nbind of them), s1 = fs, final = (fs.cond, ZERO) }`
  | orElse (first rest : Code)
      -- `first.stmts; IfElse { first.cond, s1 = [], s2 = rest.stmts, final = (ONE, rest.cond) }`
/-- The accumulator built right-to-left over the elements of a tuple/object/variant pattern. -/
inductive Fields where
  | done                                            -- `([], hir::ONE)`
  | seq (idx : Nat) (nested : Code) (rest : Fields)
      -- nested condition is literally `hir::ONE`: `[access idx] ++ nested.stmts ++ rest.stmts`, cond = rest.cond
  | guard (idx : Nat) (nested : Code) (rest : Fields)
      -- `[access idx] ++ nested.stmts ++ [IfElse { nested.cond, s1 = rest.stmts, s2 = [], final = (rest.cond, ZERO) }]`
end

mutual
/-- `condition == hir::ONE` (syntactic test on the returned expression). -/
def Code.isOne : Code → Bool
  | .one => true
  | .bind _ => true
  | .zero => false
  | .struct fs => fs.isOne
  | .destructure _ _ _ => false      -- a fresh temporary
  | .orElse _ _ => false             -- a fresh temporary
def Fields.isOne : Fields → Bool
  | .done => true
  | .seq _ _ rest => rest.isOne
  | .guard _ _ _ => false
end

/-- `if nested_pattern_condition == hir::ONE { append } else { IfElse }` (…:697-716, 746-765, 806-831). -/
def mkField (idx : Nat) (nested : Code) (rest : Fields) : Fields :=
  if nested.isOne then .seq idx nested rest else .guard idx nested rest

mutual
def lowerPat : CPat → Code
  | .id x => .bind x
  | .wild => .one
  | .tuple _ es => .struct (lowerElems es 0)
  | .object _ orders es => .struct (lowerObj orders es)
  | .variant c args => .destructure c args.length (lowerElems args 0)
  | .or ps => lowerOr ps
/-- elements of a tuple pattern / data variables of a variant pattern, from position `i` on
(`for (index, nested) in elements.iter().enumerate().rev()`: the accumulator of the later elements
is nested under the test of the earlier one) -/
def lowerElems : List CPat → Nat → Fields
  | [], _ => .done
  | p :: ps, i => mkField i (lowerPat p) (lowerElems ps (i + 1))
/-- elements of an object pattern in the order written; slot = `field_order` (since fix 007f40e) -/
def lowerObj : List Nat → List CPat → Fields
  | o :: orders, p :: es => mkField o (lowerPat p) (lowerObj orders es)
  | _, _ => .done
/-- `Or`: `[]` is `ZERO`, one alternative is that alternative, otherwise a right-nested chain -/
def lowerOr : List CPat → Code
  | [] => .zero
  | [p] => lowerPat p
  | p :: q :: ps => .orElse (lowerPat p) (lowerOr (q :: ps))
end

/-! ### The abstract pattern the checker builds for the same checked pattern -/

mutual
def absOf : CPat → Pat
  | .id _ => .wild
  | .wild => .wild
  | .tuple _ es => .struct none (absAll es)
  | .object n orders es => .struct none (absObj orders es (wilds n))
  | .variant c args => .struct (some c) (absAll args)
  | .or ps => mkOr (absAll ps)
def absAll : List CPat → List Pat
  | [] => []
  | p :: ps => absOf p :: absAll ps
/-- `abstract_pattern_nodes[*field_order] = abstract_node`, element by element -/
def absObj : List Nat → List CPat → List Pat → List Pat
  | o :: orders, p :: es, acc => absObj orders es (acc.set o (absOf p))
  | _, _, acc => acc
end

/-! ### Where the lowering itself would abort: `resolved_struct_mappings[index]` out of range -/

mutual
def lowerCrash : CPat → Bool
  | .id _ => false
  | .wild => false
  | .tuple n es => decide (n < es.length) || lowerCrashAll es
  | .object n orders es => orders.any (fun o => decide (n ≤ o)) || lowerCrashAll es
  | .variant _ args => lowerCrashAll args
  | .or ps => lowerCrashAll ps
def lowerCrashAll : List CPat → Bool
  | [] => false
  | p :: ps => lowerCrash p || lowerCrashAll ps
end

/-! ### What the emitted statements do -/

/-- no element at all: no `IndexedAccess` is emitted -/
def Fields.isDone : Fields → Bool
  | .done => true
  | _ => false

mutual
/-- `none` = engine-level fault (ill-typed / out-of-bounds struct access, destructuring a non-variant). -/
def evalCode : Code → Val → Option Bool
  | .one, _ => some true
  | .bind _, _ => some true
  | .zero, _ => some false
  | .struct fs, v =>
    match v with
    | .con none vs => evalFields fs vs
    | _ => if fs.isDone then some true else none      -- `IndexedAccess` on something that is no struct
  | .destructure c n fs, v =>
    match v with
    | .con (some c') args =>
      if c' = c then (if n ≤ args.length then evalFields fs args else none)
      else some false
    | _ => none
  | .orElse first rest, v =>
    match evalCode first v with
    | none => none
    | some true => some true
    | some false => evalCode rest v
def evalFields : Fields → List Val → Option Bool
  | .done, _ => some true
  | .seq i nested rest, vs =>
    match vs[i]? with
    | none => none
    | some x =>
      match evalCode nested x with
      | none => none
      | some _ => evalFields rest vs
  | .guard i nested rest, vs =>
    match vs[i]? with
    | none => none
    | some x =>
      match evalCode nested x with
      | none => none
      | some true => evalFields rest vs
      | some false => some false
end

/-! ### Bindings.
`Id` patterns emit `LateInitAssignment { name: binding_names[x], assigned_expression: scrutinee }`
(hir_lowering.rs:839-845); the temporaries are declared (`LateInitDeclaration`) before the pattern
code by `lower_match` / `lower_if_else` / `lower_block`, one per name of `pattern.bindings()`, and may
be assigned more than once (every alternative of an or-pattern assigns them; the assignments of an
alternative that fails later are *not* undone).  `execCode` returns, next to the condition, the
assignments performed, latest first; the environment after the pattern code is `Δ ++ env`. -/

abbrev Delta := List (Nat × Val)

mutual
def execCode : Code → Val → Option (Bool × Delta)
  | .one, _ => some (true, [])
  | .bind x, v => some (true, [(x, v)])
  | .zero, _ => some (false, [])
  | .struct fs, v =>
    match v with
    | .con none vs => execFields fs vs
    | _ => if fs.isDone then some (true, []) else none
  | .destructure c n fs, v =>
    match v with
    | .con (some c') args =>
      if c' = c then (if n ≤ args.length then execFields fs args else none)
      else some (false, [])
    | _ => none
  | .orElse first rest, v =>
    match execCode first v with
    | none => none
    | some (true, d) => some (true, d)
    | some (false, d) =>
      match execCode rest v with
      | none => none
      | some (b, d') => some (b, d' ++ d)
def execFields : Fields → List Val → Option (Bool × Delta)
  | .done, _ => some (true, [])
  | .seq i nested rest, vs =>
    match vs[i]? with
    | none => none
    | some x =>
      match execCode nested x with
      | none => none
      | some (_, d) =>
        match execFields rest vs with
        | none => none
        | some (b, d') => some (b, d' ++ d)
  | .guard i nested rest, vs =>
    match vs[i]? with
    | none => none
    | some x =>
      match execCode nested x with
      | none => none
      | some (false, d) => some (false, d)
      | some (true, d) =>
        match execFields rest vs with
        | none => none
        | some (b, d') => some (b, d' ++ d)
end

mutual
/-- `MatchingPattern::bindings()` (samlang-ast source.rs:342-371), as a list of names: an
or-pattern contributes the bindings of its *first* alternative. -/
def names : CPat → List Nat
  | .id x => [x]
  | .wild => []
  | .tuple _ es => namesL es
  | .object _ _ es => namesL es
  | .variant _ args => namesL args
  | .or ps => namesFirst ps
def namesL : List CPat → List Nat
  | [] => []
  | p :: ps => names p ++ namesL ps
def namesFirst : List CPat → List Nat
  | [] => []
  | p :: _ => names p
end

/-- same set of names -/
def sameNames (a b : List Nat) : Bool := a.all (fun x => b.contains x) && b.all (fun x => a.contains x)

mutual
/-- What the checker guarantees about bindings when it reports nothing: every alternative of an
or-pattern binds the same names (`report_or_pattern_inconsistent_bindings_error`,
main_checker.rs:1462-1500). -/
def bindsOk : CPat → Bool
  | .id _ => true
  | .wild => true
  | .tuple _ es => bindsOkL es
  | .object _ orders es => decide (orders.length = es.length) && bindsOkL es
  | .variant _ args => bindsOkL args
  | .or ps => bindsOkL ps && altsSame (namesFirst ps) ps
def bindsOkL : List CPat → Bool
  | [] => true
  | p :: ps => bindsOk p && bindsOkL ps
def altsSame (ns : List Nat) : List CPat → Bool
  | [] => true
  | p :: ps => sameNames (names p) ns && altsSame ns ps
end

mutual
/-- Source semantics of the bindings of a pattern that matches `v` (latest first): every `Id`
binds the sub-value at its position; an or-pattern binds what its first *matching* alternative binds. -/
def srcDelta : CPat → Val → Delta
  | .id x, v => [(x, v)]
  | .wild, _ => []
  | .tuple _ es, v =>
    match v with
    | .con none vs => srcDeltaL es vs
    | _ => []
  | .object _ orders es, v =>
    match v with
    | .con none vs => srcDeltaObj orders es vs
    | _ => []
  | .variant _ args, v =>
    match v with
    | .con (some _) ws => srcDeltaL args ws
    | _ => []
  | .or ps, v => srcDeltaOr ps v
def srcDeltaL : List CPat → List Val → Delta
  | p :: ps, v :: vs => srcDeltaL ps vs ++ srcDelta p v
  | _, _ => []
def srcDeltaObj : List Nat → List CPat → List Val → Delta
  | o :: orders, p :: es, vs =>
    match vs[o]? with
    | some x => srcDeltaObj orders es vs ++ srcDelta p x
    | none => srcDeltaObj orders es vs
  | _, _, _ => []
def srcDeltaOr : List CPat → Val → Delta
  | [], _ => []
  | p :: ps, v => if pmatch (absOf p) v then srcDelta p v else srcDeltaOr ps v
end

/-! ### Temporaries of the bindings.
`lower_match` / `lower_if_else` / `lower_block` build `binding_names` before lowering the pattern:
`for (n, t) in pattern.bindings() { let name = allocate_temp_variable(); binding_names.insert(n, name); … }`
(hir_lowering.rs:596-605, 900-908, 1142-1148).  `bindings()` is a `BTreeMap` (each source name once),
`allocate_temp_variable` hands out `_t<counter>` and increments the counter. -/

/-- `binding_names` for the (distinct) source names `ns`, starting at temp counter `c` -/
def allocTemps : List Nat → Nat → List (Nat × Nat)
  | [], _ => []
  | n :: ns, c => (n, c) :: allocTemps ns (c + 1)

/-- the assignments as the emitted code performs them: on the temporaries, not on the source names -/
def renameDelta (bn : Nat → Nat) (d : Delta) : Delta := d.map (fun b => (bn b.1, b.2))

/-! ### `if let p = e { a } else { b }` (hir_lowering.rs:586-645) and `let p = e;` (…:1138-1152) -/

/-- `condition == hir::ZERO` -/
def Code.isZero : Code → Bool
  | .zero => true
  | _ => false

inductive Branch where
  | thenB (d : Delta)    -- the `then` block runs, with these assignments done
  | elseB
  | fault
  deriving Repr

/-- `lower_if_else` with a `Guard(p, e)` condition: a condition that is literally `ONE` / `ZERO`
selects the block at compile time (the pattern statements are still emitted). -/
def runIfLet (c : Code) (v : Val) : Branch :=
  match execCode c v with
  | none => .fault
  | some (b, d) =>
    if c.isOne then .thenB d
    else if c.isZero then .elseB
    else if b then .thenB d else .elseB

/-- `let p = e;`: the pattern statements run, the condition is dropped; the rest of the block then
reads the bound temporaries. `none` = fault. -/
def runLet (c : Code) (v : Val) : Option Delta := (execCode c v).map (·.2)

/-- How a `match` ends (hir_lowering.rs:873-947): the arms are tested in order, the innermost `else`
is the call `Process.panic(0, "")`. -/
inductive MatchEnd where
  | arm (i : Nat)        -- body of arm `i` runs
  | fallback             -- the "unreachable" panic with the empty message
  | fault                -- engine-level fault while testing a pattern
  deriving DecidableEq, Repr

def runMatchFrom : List Code → Nat → Val → MatchEnd
  | [], _, _ => .fallback
  | c :: cs, i, v =>
    match evalCode c v with
    | none => .fault
    | some true => .arm i
    | some false => runMatchFrom cs (i + 1) v

def runMatch (arms : List Code) (v : Val) : MatchEnd := runMatchFrom arms 0 v

/-- `lower_match` on the checked arms -/
def lowerMatch (arms : List CPat) : List Code := arms.map lowerPat

/-- the abstract patterns the checker hands to the exhaustiveness analysis (main_checker.rs:971-999) -/
def abstractArms (arms : List CPat) : List Pat := arms.map absOf

/-! ### Checked patterns are typed (what `check_matching_pattern` guarantees when it reports nothing).
Since fix 76a01ae the checker also rejects an object pattern that names a field twice (before it,
`{ f as A, f as _ }` was accepted, the exhaustiveness analysis kept only the last sub-pattern while
the lowered code tested both: former finding C03-F3), so `orders` has no duplicates. -/

def nodupNat : List Nat → Bool
  | [] => true
  | x :: xs => !xs.contains x && nodupNat xs


mutual
def cpatTy (sig : Sig) : CPat → Nat → Bool
  | .id _, _ => true
  | .wild, _ => true
  | .tuple n es, t =>
    match sig t with
    | .struct fs => decide (n = fs.length) && cpatTys sig es (fs.map (fun f => f.2))
    | _ => false
  | .object n orders es, t =>
    match sig t with
    | .struct fs =>
      decide (n = fs.length) && nodupNat orders && cobjTy sig (fs.map (fun f => f.2)) orders es
    | _ => false
  | .variant c args, t =>
    match ctorFields sig t (some c) with
    | some tys => cpatTys sig args tys
    | none => false
  | .or ps, t => cpatTyAll sig ps t
def cpatTys (sig : Sig) : List CPat → List Nat → Bool
  | [], [] => true
  | p :: ps, t :: ts => cpatTy sig p t && cpatTys sig ps ts
  | [], _ :: _ => false
  | _ :: _, [] => false
def cobjTy (sig : Sig) (tys : List Nat) : List Nat → List CPat → Bool
  | [], [] => true
  | o :: orders, p :: es =>
    (match tys[o]? with
     | some t => cpatTy sig p t
     | none => false) && cobjTy sig tys orders es
  | [], _ :: _ => false
  | _ :: _, [] => false
def cpatTyAll (sig : Sig) : List CPat → Nat → Bool
  | [], _ => true
  | p :: ps, t => cpatTy sig p t && cpatTyAll sig ps t
end

end SamVerif.MatchLower
