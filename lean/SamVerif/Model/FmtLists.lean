/-!
C08: the bracketed, comma separated lists of the grammar and their trailing commas.

Printer: every such list goes through `comma_sep_list` (`source_printer.rs:114-147`), which puts the
comments written before the closing bracket *after a trailing comma* (`Foo<int, /* c */>`); the
cases of a `match` are each followed by `,`; import lines (`import_to_document`) never get one.
Parser: the lists are read by `parse_comma_separated_list_with_end_token(<closing token>, …)`
(`source_parser.rs:172-199`), which accepts a comma directly before the closing token it is given —
so the closing token passed at each call site decides whether the printer's normal form parses.
`vlib/listfamily.py` has the concrete syntax of each kind; the `trail` stream of the check compares
both tables with the real code on every run.
-/
namespace SamVerif.FmtLists

inductive ListKind where
  | callArgs | tuple | lambdaParams | fnParams | typeParams | memberTparams | typeArgsAnnot
  | typeArgsMember | fntypeParams | tuplePattern | variantPattern | objectPattern | structFields
  | variants | variantPayload | imports | matchCases
  deriving DecidableEq, Repr, Inhabited

/-- can the printed form of a list of this kind have a comma directly before its closing bracket?
(`comma_sep_list` with ending comments; `match` cases always) -/
def printerEmitsTrailing : ListKind → Bool
  | .imports => false
  | _ => true

/-- does the parser accept a comma directly before the closing bracket of a list of this kind? -/
def parserAcceptsTrailing : ListKind → Bool
  | _ => true

def ListKind.name : ListKind → String
  | .callArgs => "call-args" | .tuple => "tuple" | .lambdaParams => "lambda-params"
  | .fnParams => "fn-params" | .typeParams => "type-params" | .memberTparams => "member-tparams"
  | .typeArgsAnnot => "type-args-annot" | .typeArgsMember => "type-args-member"
  | .fntypeParams => "fntype-params" | .tuplePattern => "tuple-pattern"
  | .variantPattern => "variant-pattern" | .objectPattern => "object-pattern"
  | .structFields => "struct-fields" | .variants => "variants" | .variantPayload => "variant-payload"
  | .imports => "imports" | .matchCases => "match-cases"

def allKinds : List ListKind :=
  [.callArgs, .tuple, .lambdaParams, .fnParams, .typeParams, .memberTparams, .typeArgsAnnot,
   .typeArgsMember, .fntypeParams, .tuplePattern, .variantPattern, .objectPattern, .structFields,
   .variants, .variantPayload, .imports, .matchCases]

end SamVerif.FmtLists
