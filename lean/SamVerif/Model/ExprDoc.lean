import SamVerif.Model.Imports
/-!
# Document construction for the arithmetic expression fragment, with comments

Mirror of `create_doc` (`crates/samlang-printer/src/source_printer.rs`) for identifiers / int
literals, unary and binary expressions:
* `create_doc` = `create_opt_preceding_comment_doc(common.associated_comments,
  create_doc_without_preceding_comment(e))`;
* `Unary`: `Concat(Text(op), sub(.., true))`;
* `Binary`: the four layouts (left operand of the same level / right-operand shortcut / safest
  rule; the `<`-after-member-name rule cannot fire without member access), operator comments
  (`associated_comments_doc(Grouped, false)` wrapped in `group(Concat(Line, ..))`), operator =
  `Text " "`, `Text op`, `Text " "`;
* `create_doc_for_subexpression_considering_precedence_level` = `sub`.
Precedences and the shortcut rule as in `Model/Fmt.lean` (own copy of the table).
Tied by protocol `exprdoc`: structural equality with the real `Document` (hook `expression_doc`).
-/
namespace SamVerif.ExprDoc
open SamVerif.Doc
open SamVerif.Imports (commentsDocGrouped optPreceding commentDocs)
abbrev Str := List Char
open SamVerif.CommentQueue (Comment Kind)

/-- `expr::BinaryOperator` and `BinaryOperator::precedence` (source.rs); own copy so that this model
does not depend on another property's files (same table as `Model/Fmt.lean`). -/
inductive BinOp where
  | mul | div | mod | plus | minus | concat | lt | le | gt | ge | eq | ne | and | or
  deriving DecidableEq, Repr, Inhabited

def BinOp.pprec : BinOp → Nat
  | .mul | .div | .mod => 0
  | .plus | .minus | .concat => 1
  | .lt | .le | .gt | .ge | .eq | .ne => 2
  | .and => 3
  | .or => 4

inductive UOp where
  | not | neg
  deriving DecidableEq, Repr, Inhabited

inductive AExpr where
  | atom (cs : List Comment) (name : Str)
  | unary (cs : List Comment) (u : UOp) (e : AExpr)
  | binary (cs : List Comment) (o : BinOp) (ocs : List Comment) (l r : AExpr)
  deriving Repr, DecidableEq, Inhabited

def AExpr.prec : AExpr → Nat
  | .atom _ _ => 0
  | .unary _ _ _ => 2
  | .binary _ o _ _ _ => 4 + o.pprec

/-- `BinaryOperator::kind_str` / `UnaryOperator::kind_str`. -/
def opStr : BinOp → Str
  | .mul => "*".toList | .div => "/".toList | .mod => "%".toList | .plus => "+".toList
  | .minus => "-".toList | .concat => "::".toList | .lt => "<".toList | .le => "<=".toList
  | .gt => ">".toList | .ge => ">=".toList | .eq => "==".toList | .ne => "!=".toList
  | .and => "&&".toList | .or => "||".toList

def uopStr : UOp → Str
  | .not => "!".toList
  | .neg => "-".toList

/-- The operator comments document (source_printer.rs, `Binary` arm). -/
def opCommentsDoc (ocs : List Comment) : Doc :=
  match commentsDocGrouped ocs false with
  | some d => group (.concat .line d)
  | none => .nil

def operatorDoc (o : BinOp) : Doc := concatV [.text [' '], .text (opStr o), .text [' ']]

def parenDoc (d : Doc) : Doc := bracketFlexible ['('] .lineNil d [')']

def shortcutOkA (o : BinOp) (r : AExpr) : Bool :=
  match r with
  | .binary _ o' _ r1 _ =>
    (o == .plus || o == .mul || o == .and || o == .or) && o' == o && r1.prec != 4 + o.pprec
  | _ => false

def docOf : AExpr → Doc
  | .atom cs name => optPreceding cs (.nstext name)
  | .unary cs u e =>
    let d := docOf e
    optPreceding cs (.concat (.text (uopStr u)) (if e.prec ≥ 2 then parenDoc d else d))
  | .binary cs o ocs l r =>
    let p := 4 + o.pprec
    let dl := docOf l
    let dr := docOf r
    let subl := if l.prec ≥ p then parenDoc dl else dl
    let subr := if r.prec ≥ p then parenDoc dr else dr
    let mid := [opCommentsDoc ocs, operatorDoc o]
    optPreceding cs
      (if l.prec = p then concatV ([dl] ++ mid ++ [subr])
       else if r.prec = p ∧ shortcutOkA o r = true then concatV ([subl] ++ mid ++ [dr])
       else concatV ([subl] ++ mid ++ [subr]))

/-- What is printed: comments and token spellings, in order. -/
inductive Item where
  | comment (c : Comment)
  | tok (s : Str)
  deriving Repr, DecidableEq

def wrapP (b : Bool) (xs : List Item) : List Item :=
  if b then [.tok ['(']] ++ xs ++ [.tok [')']] else xs

def printA : AExpr → List Item
  | .atom cs name => cs.map .comment ++ [.tok name]
  | .unary cs u e => cs.map .comment ++ [.tok (uopStr u)] ++ wrapP (decide (e.prec ≥ 2)) (printA e)
  | .binary cs o ocs l r =>
    let p := 4 + o.pprec
    let mid := ocs.map .comment ++ [.tok (opStr o)]
    cs.map .comment ++
      (if l.prec = p then printA l ++ mid ++ wrapP (decide (r.prec ≥ p)) (printA r)
       else if r.prec = p ∧ shortcutOkA o r = true then
         wrapP (decide (l.prec ≥ p)) (printA l) ++ mid ++ printA r
       else wrapP (decide (l.prec ≥ p)) (printA l) ++ mid ++ wrapP (decide (r.prec ≥ p)) (printA r))

/-- The non-whitespace characters of the printed items (comment delimiters `//`, `/*`, `*/` of the
comment's kind included, continuation leaders not). -/
def commentChars (c : Comment) : Str :=
  match c.kind with
  | .line => nonWs c.text
  | .block => ['/', '*'] ++ nonWs c.text ++ ['*', '/']
  | .doc => ['/', '*', '*'] ++ nonWs c.text ++ ['*', '/']

def itemChars : Item → Str
  | .comment c => commentChars c
  | .tok s => nonWs s

end SamVerif.ExprDoc
