import SamVerif.Model.Imports
/-!
# Document construction for the arithmetic expression fragment, with comments

Mirror of `create_doc` (`crates/samlang-printer/src/source_printer.rs`) for identifiers / int
literals, unary and binary expressions:
* `create_doc` = `create_opt_preceding_comment_doc(common.associated_comments,
  create_doc_without_preceding_comment(e))`;
* `Unary`: `Concat(Text(op), sub(.., true))`;
* `Binary`: the four layouts (left operand of the same level / right-operand shortcut / safest
  rule; the `<`-after-member-name rule cannot fire without member access), operator comments
  (`associated_comments_doc(Grouped, false)` wrapped in `group(Concat(Line, ..))`), operator =
  `Text " "`, `Text op`, `Text " "`;
* `create_doc_for_subexpression_considering_precedence_level` = `sub`.
Precedences and the shortcut rule as in `Model/Fmt.lean` (own copy of the table).
Tied by protocol `exprdoc`: structural equality with the real `Document` (hook `expression_doc`).
-/
namespace SamVerif.ExprDoc
open SamVerif.Doc
open SamVerif.Imports (commentsDocGrouped optPreceding commentDocs)
abbrev Str := List Char
open SamVerif.CommentQueue (Comment Kind)

/-- `expr::BinaryOperator` and `BinaryOperator::precedence` (source.rs); own copy so that this model
does not depend on another property's files (same table as `Model/Fmt.lean`). -/
inductive BinOp where
  | mul | div | mod | plus | minus | concat | lt | le | gt | ge | eq | ne | and | or
  deriving DecidableEq, Repr, Inhabited

def BinOp.pprec : BinOp → Nat
  | .mul | .div | .mod => 0
  | .plus | .minus | .concat => 1
  | .lt | .le | .gt | .ge | .eq | .ne => 2
  | .and => 3
  | .or => 4

inductive UOp where
  | not | neg
  deriving DecidableEq, Repr, Inhabited

inductive AExpr where
  | atom (cs : List Comment) (name : Str)
  | unary (cs : List Comment) (u : UOp) (e : AExpr)
  | binary (cs : List Comment) (o : BinOp) (ocs : List Comment) (l r : AExpr)
  /-- `obj.name` (`FieldAccess` without explicit type arguments); `ncs` = comments of the name. -/
  | field (cs : List Comment) (obj : AExpr) (ncs : List Comment) (name : Str)
  /-- `callee(args)`; `scs` / `ecs` = start / ending comments of the argument list; `args` is a list
  built from `argsNil` / `argsCons`. -/
  | call (cs : List Comment) (callee : AExpr) (scs : List Comment) (args : AExpr) (ecs : List Comment)
  | argsNil
  | argsCons (e : AExpr) (rest : AExpr)
  deriving Repr, DecidableEq, Inhabited

def AExpr.prec : AExpr → Nat
  | .atom _ _ => 0
  | .unary _ _ _ => 2
  | .binary _ o _ _ _ => 4 + o.pprec
  | .field _ _ _ _ => 1
  | .call _ _ _ _ _ => 1
  | .argsNil => 0
  | .argsCons _ _ => 0

/-- `BinaryOperator::kind_str` / `UnaryOperator::kind_str`. -/
def opStr : BinOp → Str
  | .mul => "*".toList | .div => "/".toList | .mod => "%".toList | .plus => "+".toList
  | .minus => "-".toList | .concat => "::".toList | .lt => "<".toList | .le => "<=".toList
  | .gt => ">".toList | .ge => ">=".toList | .eq => "==".toList | .ne => "!=".toList
  | .and => "&&".toList | .or => "||".toList

def uopStr : UOp → Str
  | .not => "!".toList
  | .neg => "-".toList

/-- The operator comments document (source_printer.rs, `Binary` arm). -/
def opCommentsDoc (ocs : List Comment) : Doc :=
  match commentsDocGrouped ocs false with
  | some d => group (.concat .line d)
  | none => .nil

def operatorDoc (o : BinOp) : Doc := concatV [.text [' '], .text (opStr o), .text [' ']]

def parenDoc (d : Doc) : Doc := bracketFlexible ['('] .lineNil d [')']

def shortcutOkA (o : BinOp) (r : AExpr) : Bool :=
  match r with
  | .binary _ o' _ r1 _ =>
    (o == .plus || o == .mul || o == .and || o == .or) && o' == o && r1.prec != 4 + o.pprec
  | _ => false

/-- `associated_comments_doc(.., Flattened, add_final_line_break)` (33-80). -/
def commentsDocFlattened (cs : List Comment) (addFinal : Bool) : Option Doc :=
  let docs := cs.flatMap commentDocs
  if docs.isEmpty then none else
  let soft := decide (docs.getLast? = some .line)
  let main := concatV (if soft then docs.dropLast else docs)
  let main := (flatten main).getD main
  some (if addFinal && soft then .concat main .line else main)

/-- `create_member_preceding_comment_docs` (source_printer.rs). -/
def memberPre (flat : Bool) (cs : List Comment) : Doc :=
  if flat then
    match commentsDocFlattened cs false with
    | some d => .concat (.text [' ']) d
    | none => .nil
  else
    match SamVerif.Imports.commentsDoc cs true with
    | some d => .concat .lineHard d
    | none => .lineHard

/-- The chainable IR of `create_chainable_ir_docs`: base document and the members
(comments of the member name, documents of the member). -/
abbrev ChainIR := Doc × List (List Comment × List Doc)

def extendField (ir : ChainIR) (ncs : List Comment) (name : Str) : ChainIR :=
  (ir.1, ir.2 ++ [(ncs, [.nstext name, .nil])])

/-- The `Call` arm: the argument list joins the last member, or the base when there is none. -/
def extendCall (ir : ChainIR) (ad : Doc) : ChainIR :=
  match ir.2.getLast? with
  | some last => (ir.1, ir.2.dropLast ++ [(last.1, last.2 ++ [ad])])
  | none => (.concat ir.1 ad, [])

def seg (flat : Bool) (m : List Comment × List Doc) : List Doc :=
  [memberPre flat m.1, .text ['.']] ++ m.2

/-- `create_doc_for_dotted_chain`: the fully expanded alternative … -/
def chainExpanded0 (ir : ChainIR) : Doc :=
  concatV [ir.1, .nest 2 (concatV (ir.2.flatMap (seg false)))]

/-- … preferred over it, the "less expanded" one (first member on the base's line) … -/
def chainExpanded (ir : ChainIR) : Doc :=
  match ir.2 with
  | [] => chainExpanded0 ir
  | first :: rest =>
    .union (concatV [ir.1, memberPre true first.1, .text ['.'], concatV first.2,
      .nest 2 (concatV (rest.flatMap (seg false)))]) (chainExpanded0 ir)

/-- … and, if it has no hard line, the flattened one first. -/
def dottedChain (ir : ChainIR) : Doc :=
  match flatten (concatV ([ir.1] ++ ir.2.flatMap (seg true))) with
  | some f => .union f (chainExpanded ir)
  | none => chainExpanded ir

/-- `comma_sep_list` with ending comments (source_printer.rs:101-133). -/
def commaSepEnding (ds : List Doc) (ecs : List Comment) : Doc :=
  let base := SamVerif.Imports.commaSep ds
  match SamVerif.Imports.commentsDoc ecs false with
  | some cd => if ds.isEmpty then cd else concatV [base, .text [','], .line, cd]
  | none => base

/-- `create_doc_for_parenthesized_expression_list`. -/
def argsDoc (scs : List Comment) (ds : List Doc) (ecs : List Comment) : Doc :=
  optPreceding scs (parenDoc (commaSepEnding ds ecs))

/-- `ends_with_member_name` (source_printer.rs): `a.b < c` would be read as the start of type
arguments, so a left operand of `<` that ends with a member name keeps its parentheses. -/
def endsMember : AExpr → Bool
  | .field _ _ _ _ => true
  | .unary _ _ e => decide (e.prec < 2) && endsMember e
  | .binary _ _ _ _ r => endsMember r
  | _ => false

def unaryDoc (cs : List Comment) (u : UOp) (eprec : Nat) (d : Doc) : Doc :=
  optPreceding cs (.concat (.text (uopStr u)) (if eprec ≥ 2 then parenDoc d else d))

def binaryDoc (cs : List Comment) (o : BinOp) (ocs : List Comment) (l r : AExpr) (dl dr : Doc) : Doc :=
  let p := 4 + o.pprec
  let subl := if l.prec ≥ p then parenDoc dl else dl
  let subr := if r.prec ≥ p then parenDoc dr else dr
  let mid := [opCommentsDoc ocs, operatorDoc o]
  optPreceding cs
    (if o = .lt ∧ endsMember l = true then concatV ([parenDoc dl] ++ mid ++ [subr])
     else if l.prec = p then concatV ([dl] ++ mid ++ [subr])
     else if r.prec = p ∧ shortcutOkA o r = true then concatV ([subl] ++ mid ++ [dr])
     else concatV ([subl] ++ mid ++ [subr]))

mutual
def docOf : AExpr → Doc
  | .atom cs name => optPreceding cs (.nstext name)
  | .unary cs u e => unaryDoc cs u e.prec (docOf e)
  | .binary cs o ocs l r => binaryDoc cs o ocs l r (docOf l) (docOf r)
  | .field cs obj ncs name => optPreceding cs (dottedChain (extendField (chainIR obj) ncs name))
  | .call cs callee scs args ecs =>
    optPreceding cs (dottedChain (extendCall (chainIR callee) (argsDoc scs (argDocs args) ecs)))
  | .argsNil => .nil
  | .argsCons _ _ => .nil
/-- `create_chainable_ir_docs`; the comments of inner chain nodes are not looked at. The base is
parenthesised iff its precedence exceeds that of a member access / call (1). -/
def chainIR : AExpr → ChainIR
  | .field _ obj ncs name => extendField (chainIR obj) ncs name
  | .call _ callee scs args ecs => extendCall (chainIR callee) (argsDoc scs (argDocs args) ecs)
  | .atom cs name => (optPreceding cs (.nstext name), [])
  | .unary cs u e => (parenDoc (unaryDoc cs u e.prec (docOf e)), [])
  | .binary cs o ocs l r => (parenDoc (binaryDoc cs o ocs l r (docOf l) (docOf r)), [])
  | .argsNil => (.nil, [])
  | .argsCons _ _ => (.nil, [])
def argDocs : AExpr → List Doc
  | .argsCons e rest => docOf e :: argDocs rest
  | _ => []
end

/-- What is printed: comments and token spellings, in order. -/
inductive Item where
  | comment (c : Comment)
  | tok (s : Str)
  deriving Repr, DecidableEq

def wrapP (b : Bool) (xs : List Item) : List Item :=
  if b then [.tok ['(']] ++ xs ++ [.tok [')']] else xs

def unaryItems (cs : List Comment) (u : UOp) (eprec : Nat) (xs : List Item) : List Item :=
  cs.map .comment ++ [.tok (uopStr u)] ++ wrapP (decide (eprec ≥ 2)) xs

def binaryItems (cs : List Comment) (o : BinOp) (ocs : List Comment) (l r : AExpr) (xl xr : List Item) :
    List Item :=
  let p := 4 + o.pprec
  let mid := ocs.map .comment ++ [.tok (opStr o)]
  cs.map .comment ++
    (if o = .lt ∧ endsMember l = true then wrapP true xl ++ mid ++ wrapP (decide (r.prec ≥ p)) xr
     else if l.prec = p then xl ++ mid ++ wrapP (decide (r.prec ≥ p)) xr
     else if r.prec = p ∧ shortcutOkA o r = true then wrapP (decide (l.prec ≥ p)) xl ++ mid ++ xr
     else wrapP (decide (l.prec ≥ p)) xl ++ mid ++ wrapP (decide (r.prec ≥ p)) xr)

/-- Items of an argument list: the printer adds a `,` in front of the ending comments of a
non-empty list. -/
def argsItems (scs : List Comment) (xs : List (List Item)) (ecs : List Comment) : List Item :=
  let rec join : List (List Item) → List Item
    | [] => []
    | [x] => x
    | x :: y :: rest => x ++ [.tok [',']] ++ join (y :: rest)
  scs.map .comment ++ [.tok ['(']] ++ join xs ++
    (if ecs.isEmpty then [] else (if xs.isEmpty then [] else [.tok [',']]) ++ ecs.map .comment) ++
    [.tok [')']]

mutual
def printA : AExpr → List Item
  | .atom cs name => cs.map .comment ++ [.tok name]
  | .unary cs u e => unaryItems cs u e.prec (printA e)
  | .binary cs o ocs l r => binaryItems cs o ocs l r (printA l) (printA r)
  | .field cs obj ncs name => cs.map .comment ++ chainItems obj ++ ncs.map .comment ++ [.tok ['.'], .tok name]
  | .call cs callee scs args ecs => cs.map .comment ++ chainItems callee ++ argsItems scs (argItems args) ecs
  | .argsNil => []
  | .argsCons _ _ => []
/-- Items of a chain member position: the comments of inner chain nodes are not printed. -/
def chainItems : AExpr → List Item
  | .field _ obj ncs name => chainItems obj ++ ncs.map .comment ++ [.tok ['.'], .tok name]
  | .call _ callee scs args ecs => chainItems callee ++ argsItems scs (argItems args) ecs
  | .atom cs name => cs.map .comment ++ [.tok name]
  | .unary cs u e => wrapP true (unaryItems cs u e.prec (printA e))
  | .binary cs o ocs l r => wrapP true (binaryItems cs o ocs l r (printA l) (printA r))
  | .argsNil => []
  | .argsCons _ _ => []
def argItems : AExpr → List (List Item)
  | .argsCons e rest => printA e :: argItems rest
  | _ => []
end

/-- The non-whitespace characters of the printed items (comment delimiters `//`, `/*`, `*/` of the
comment's kind included, continuation leaders not). -/
def commentChars (c : Comment) : Str :=
  match c.kind with
  | .line => nonWs c.text
  | .block => ['/', '*'] ++ nonWs c.text ++ ['*', '/']
  | .doc => ['/', '*', '*'] ++ nonWs c.text ++ ['*', '/']

def itemChars : Item → Str
  | .comment c => commentChars c
  | .tok s => nonWs s

end SamVerif.ExprDoc
