import SamVerif.Model.TailRec
/-!
# C01 kernel K3b — the tail-recursion rewrite over full MIR statement lists

Model of `crates/samlang-compiler/src/mir_tail_recursion_rewrite.rs`, function by function:
`tryRw` = `try_rewrite_stmts_for_tailrec_without_using_return_value` (l.16-150) including the
return-collector plumbing (`expected_return_collector`, the relevant final assignment, the dummy
`rc = 0 + 0`, `Break(fa.e1)` values, fresh temporaries of the `(Ok, Ok)` case), `rewriteFn` =
`optimize_function_by_tailrec_rewrite_aux` (l.156-215, with the snapshot of fix c57720b).

A statement list is kept in continuation form (`Blk`): every statement carries the rest of its list,
`done` is the empty list; "the last statement" is the one whose continuation is `done`. This is the
same data as `Vec<Statement>` and lets the rewrite, which works from the end of the list, recurse
structurally. Statements: `Binary`, `Cast`, self `Call`, `IfElse` with final assignments,
`SingleIf`, `Break` (the last two only occur in rewritten code).
-/
namespace SamVerif.TailStmt
open SamVerif.TailRec (Name Expr Env upd bindParams seqAssign readsOther)
open SamVerif.Opt (Op)

/-- `IfElseFinalAssignment { name, e1, e2 }` -/
abbrev Final := Name × Expr × Expr

inductive Blk where
  | done
  | bin (x : Name) (op : Op) (e1 e2 : Expr) (k : Blk)
  | cast (x : Name) (e : Expr) (k : Blk)
  | call (args : List Expr) (rc : Option Name) (k : Blk)      -- self call `f(args)`
  | ifElse (c : Expr) (s1 s2 : Blk) (finals : List Final) (k : Blk)
  | sif (c : Expr) (inv : Bool) (body : Blk) (k : Blk)
  | brk (e : Expr)
deriving Repr, Inhabited

/-- `a.chain(b)` on statement lists. A list ending in `Break` has nothing after it. -/
def Blk.append : Blk → Blk → Blk
  | .done, b => b
  | .bin x op e1 e2 k, b => .bin x op e1 e2 (k.append b)
  | .cast x e k, b => .cast x e (k.append b)
  | .call args rc k, b => .call args rc (k.append b)
  | .ifElse c s1 s2 fs k, b => .ifElse c s1 s2 fs (k.append b)
  | .sif c inv body k, b => .sif c inv body (k.append b)
  | .brk e, _ => .brk e

def Blk.isDone : Blk → Bool
  | .done => true
  | _ => false

def asVar : Expr → Option Name
  | .var x => some x
  | .lit _ => none

/-- Temporaries `heap.alloc_temp_str()` are the names `tempBase + k`. -/
def tempBase : Nat := 100000

def mkTemps (n count : Nat) : List Name := (List.range count).map fun i => tempBase + n + i

/-- Result of the rewrite: rewritten statements, the loop values, next free temporary. -/
abbrev RwRes := Blk × List Expr × Nat

/-- `try_rewrite_stmts_for_tailrec_without_using_return_value`; `none` = `Err(stmts)` (unchanged).
`nparams` = `function_parameter_types.len()` (the zip at l.129 truncates to it). -/
def tryRw (nparams : Nat) : Blk → Option Name → Nat → Option RwRes
  | .done, _, _ => none                                            -- l.24-28
  | .brk _, _, _ => none                                           -- l.148
  | .bin x op e1 e2 k, erc, n =>
    if k.isDone then none                                          -- last statement is a Binary: l.148
    else (tryRw nparams k erc n).map fun r => (.bin x op e1 e2 r.1, r.2)
  | .cast x e k, erc, n =>
    if k.isDone then none
    else (tryRw nparams k erc n).map fun r => (.cast x e r.1, r.2)
  | .sif c inv body k, erc, n =>
    if k.isDone then none
    else (tryRw nparams k erc n).map fun r => (.sif c inv body r.1, r.2)
  | .call args rc k, erc, n =>
    if k.isDone then
      -- l.32-51: a self call whose return collector is the expected one
      if rc = erc then
        some ((match erc with
               | some r => .bin r .add (.lit 0) (.lit 0) .done       -- l.38-46
               | none => .done), args, n)
      else none
    else (tryRw nparams k erc n).map fun r => (.call args rc r.1, r.2)
  | .ifElse c s1 s2 finals k, erc, n =>
    if k.isDone then
      -- l.52-147
      let rel := finals.find? fun f => erc == some f.1
      let newErc : Option (Option Name × Option Name) :=
        match erc with
        | some _ =>
          match rel with
          | some f => some (asVar f.2.1, asVar f.2.2)
          | none => none                                            -- l.58-64
        | none => some (none, none)
      match newErc with
      | none => none
      | some (c1, c2) =>
        match tryRw nparams s1 c1 n with
        | none =>
          match tryRw nparams s2 c2 n with
          | none => none                                            -- (Err, Err)
          | some (st2, args, n2) =>                                 -- (Err, Ok) l.88-103
            some (.sif c false (s1.append (.brk (match rel with | some f => f.2.1 | none => .lit 0))) st2,
                  args, n2)
        | some (st1, a1, n1) =>
          match tryRw nparams s2 c2 n1 with
          | none =>                                                 -- (Ok, Err) l.104-119
            some (.sif c true (s2.append (.brk (match rel with | some f => f.2.2 | none => .lit 0))) st1,
                  a1, n1)
          | some (st2, a2, n2) =>                                   -- (Ok, Ok) l.120-145
            let cnt := min (min a1.length a2.length) nparams
            let temps := mkTemps n2 cnt
            let kept := finals.filter fun f => !(erc == some f.1)
            let added : List Final := (temps.zip (a1.zip a2)).map fun t => (t.1, t.2.1, t.2.2)
            some (.ifElse c st1 st2 (kept ++ added) .done, temps.map .var, n2 + cnt)
    else (tryRw nparams k erc n).map fun r => (.ifElse c s1 s2 finals r.1, r.2)

/-- A function of the fragment: parameters, body, returned expression. -/
structure Fn where
  params : List Name
  body : Blk
  ret : Expr
deriving Repr, Inhabited

/-- The rewritten function (l.176-215): `While { loop_variables, statements, break_collector }` as
only statement, parameters renamed to `_tailrec_param_<p>`. Kept in the pieces the code builds it
from: `body` = the rewritten statements, `args` = the loop values found by `tryRw`, `snapshot` =
`reads_other_parameter` (fix c57720b: the loop values are first copied by `Cast`s into the fresh
temporaries `mkTemps nextTemp …`, appended to the body, and the loop variables read those). -/
structure LoopFn where
  params : List Name
  body : Blk
  args : List Expr
  snapshot : Bool
  nextTemp : Nat
  breakCollector : Option Name
  ret : Expr
deriving Repr, Inhabited

/-- `_tailrec_param_<name>` -/
def trpBase : Nat := 200000
def trp (p : Name) : Name := trpBase + p

/-- `for (arg, t) in args.zip(types) { stmts.push(Cast { temp, arg }) }` -/
def castChain : List (Name × Expr) → Blk
  | [] => .done
  | (t, a) :: rest => .cast t a (castChain rest)

/-- `optimize_function_by_tailrec_rewrite_aux`; `none` = function unchanged. -/
def rewriteFn (f : Fn) : Option LoopFn :=
  let erc := asVar f.ret                    -- l.160-164 (literal: None; variable: its name)
  match tryRw f.params.length f.body erc 0 with
  | none => none
  | some (stmts, args, n) =>
    some { params := f.params, body := stmts, args := args, snapshot := readsOther f.params args,
           nextTemp := n, breakCollector := erc, ret := f.ret }

/-- The statements of the emitted `While` (with the snapshot `Cast`s) and its loop values. -/
def LoopFn.emitted (lf : LoopFn) : Blk × List Expr :=
  if lf.snapshot then
    let cnt := min lf.args.length lf.params.length
    let temps := mkTemps lf.nextTemp cnt
    (lf.body.append (castChain (temps.zip lf.args)), temps.map Expr.var ++ lf.args.drop cnt)
  else (lf.body, lf.args)

/-! ## Semantics -/

inductive Flow where
  | next (env : Env)
  | broke (v : Int)

/-- Final assignments of an `IfElse`: every value is read in the environment at the end of the taken
branch, then the names are written (the names are fresh single-assignment names). -/
def applyFinals (env : Env) (b : Bool) (fs : List Final) : Env :=
  fs.foldl (fun e f => upd e f.1 ((if b then f.2.1 else f.2.2).eval env)) env

/-- One statement list. `callee` = the function itself on the argument values (one level less fuel).
`none` = trap, or the callee did not return. -/
def execBlk (ev : Op → Int → Int → Option Int) (callee : List Int → Option Int) : Env → Blk → Option Flow
  | env, .done => some (.next env)
  | env, .bin x op e1 e2 k =>
    match ev op (e1.eval env) (e2.eval env) with
    | none => none
    | some v => execBlk ev callee (upd env x v) k
  | env, .cast x e k => execBlk ev callee (upd env x (e.eval env)) k
  | env, .call args rc k =>
    match callee (args.map (Expr.eval env)) with
    | none => none
    | some r => execBlk ev callee (match rc with | some x => upd env x r | none => env) k
  | env, .ifElse c s1 s2 fs k =>
    if c.eval env ≠ 0 then
      match execBlk ev callee env s1 with
      | none => none
      | some (.broke v) => some (.broke v)
      | some (.next e1) => execBlk ev callee (applyFinals e1 true fs) k
    else
      match execBlk ev callee env s2 with
      | none => none
      | some (.broke v) => some (.broke v)
      | some (.next e1) => execBlk ev callee (applyFinals e1 false fs) k
  | env, .sif c inv body k =>
    if (decide (c.eval env ≠ 0) != inv) = true then
      match execBlk ev callee env body with
      | none => none
      | some (.broke v) => some (.broke v)
      | some (.next e1) => execBlk ev callee e1 k
    else execBlk ev callee env k
  | env, .brk e => some (.broke (e.eval env))

/-- The recursive function; `fuel` bounds the call depth. -/
def runRec (ev : Op → Int → Int → Option Int) (f : Fn) : Nat → List Int → Option Int
  | 0, _ => none
  | fuel + 1, vals =>
    match execBlk ev (runRec ev f fuel) (bindParams f.params vals) f.body with
    | some (.next env) => some (f.ret.eval env)
    | _ => none

/-- The rewritten function as the backends run it: each iteration starts from the loop variables'
values (locals are single-assignment); the loop values are assigned one after the other
(`wasm_lowering.rs:437-441`), or — with the snapshot of fix c57720b, whose temporaries are fresh —
all read before any loop variable is written. A `Break` value is what the function returns when
its returned expression is the break collector; a literal is returned as such. -/
def runLoop (ev : Op → Int → Int → Option Int) (lf : LoopFn) : Nat → List Int → Option Int
  | 0, _ => none
  | fuel + 1, vals =>
    match execBlk ev (runLoop ev lf fuel) (bindParams lf.params vals) lf.body with
    | none => none
    | some (.broke v) => some (match lf.ret with | .var _ => v | .lit m => m)
    | some (.next env) =>
      if lf.snapshot then runLoop ev lf fuel (lf.args.map (Expr.eval env))
      else runLoop ev lf fuel (lf.params.map (seqAssign env (lf.params.zip lf.args)))

/-! ## The shape of front-end output the theorem assumes -/

/-- Only statements of un-rewritten code (no `SingleIf` / `Break`). -/
def plain : Blk → Bool
  | .done => true
  | .bin _ _ _ _ k => plain k
  | .cast _ _ k => plain k
  | .call _ _ k => plain k
  | .ifElse _ s1 s2 _ k => plain s1 && plain s2 && plain k
  | .sif _ _ _ _ => false
  | .brk _ => false

/-- The list does not end (through the branches of a final `IfElse`) in a self call that drops its
result. -/
def noBareTail : Blk → Bool
  | .done => true
  | .brk _ => true
  | .bin _ _ _ _ k => k.isDone || noBareTail k
  | .cast _ _ k => k.isDone || noBareTail k
  | .sif _ _ _ k => k.isDone || noBareTail k
  | .call _ rc k => if k.isDone then rc.isSome else noBareTail k
  | .ifElse _ s1 s2 _ k => if k.isDone then noBareTail s1 && noBareTail s2 else noBareTail k

def exprVar : Expr → List Name
  | .var x => [x]
  | .lit _ => []

/-- Shape condition for a list rewritten with expected collector `erc`:
* a final self call has one argument per parameter and its collector is not among its arguments;
* the final assignments of a final `IfElse` have distinct names; when a value is expected
  (`erc = some _`) and the relevant final assignment carries a *literal* for a branch, that branch
  does not end in a result-dropping self call (HIR lowering never produces that: a self call whose
  value is the branch's value has a collector). -/
def good (np : Nat) : Blk → Option Name → Bool
  | .done, _ => true
  | .brk _, _ => true
  | .bin _ _ _ _ k, erc => good np k erc
  | .cast _ _ k, erc => good np k erc
  | .sif _ _ _ k, erc => good np k erc
  | .call args rc k, erc =>
    if k.isDone then args.length == np && (match rc with
      | some r => !(args.flatMap exprVar).contains r
      | none => true)
    else good np k erc
  | .ifElse _ s1 s2 fs k, erc =>
    if k.isDone then
      (fs.map (·.1)).Nodup &&
      (match erc with
       | some _ =>
         match fs.find? fun f => erc == some f.1 with
         | some f =>
           good np s1 (asVar f.2.1) && good np s2 (asVar f.2.2) &&
           ((asVar f.2.1).isSome || noBareTail s1) && ((asVar f.2.2).isSome || noBareTail s2)
         | none => true
       | none => good np s1 none && good np s2 none)
    else good np k erc

end SamVerif.TailStmt
