import SamVerif.Model.TailRec
/-!
# C01 kernel K3b — the tail-recursion rewrite over full MIR statement lists

Model of `crates/samlang-compiler/src/mir_tail_recursion_rewrite.rs`, function by function:
`tryRw` = `try_rewrite_stmts_for_tailrec_without_using_return_value` (l.16-150) including the
return-collector plumbing (`expected_return_collector`, the relevant final assignment, the dummy
`rc = 0 + 0`, `Break(fa.e1)` values, fresh temporaries of the `(Ok, Ok)` case), `rewriteFn` =
`optimize_function_by_tailrec_rewrite_aux` (l.156-215, with the snapshot of fix c57720b).

A statement list is kept in continuation form (`Blk`): every statement carries the rest of its list,
`done` is the empty list; "the last statement" is the one whose continuation is `done`. This is the
same data as `Vec<Statement>` and lets the rewrite, which works from the end of the list, recurse
structurally. Statements: `Binary`, `Cast`, self `Call`, `IfElse` with final assignments,
`SingleIf`, `Break` (the last two only occur in rewritten code).
-/
namespace SamVerif.TailStmt
open SamVerif.TailRec (Name Expr Env upd bindParams seqAssign readsOther)
open SamVerif.Opt (Op)

/-- `IfElseFinalAssignment { name, e1, e2 }` -/
abbrev Final := Name × Expr × Expr

inductive Blk where
  | done
  | bin (x : Name) (op : Op) (e1 e2 : Expr) (k : Blk)
  | cast (x : Name) (e : Expr) (k : Blk)
  | call (args : List Expr) (rc : Option Name) (k : Blk)      -- self call `f(args)`
  | ifElse (c : Expr) (s1 s2 : Blk) (finals : List Final) (k : Blk)
  | sif (c : Expr) (inv : Bool) (body : Blk) (k : Blk)
  | brk (e : Expr)
deriving Repr, Inhabited

/-- `a.chain(b)` on statement lists. A list ending in `Break` has nothing after it. -/
def Blk.append : Blk → Blk → Blk
  | .done, b => b
  | .bin x op e1 e2 k, b => .bin x op e1 e2 (k.append b)
  | .cast x e k, b => .cast x e (k.append b)
  | .call args rc k, b => .call args rc (k.append b)
  | .ifElse c s1 s2 fs k, b => .ifElse c s1 s2 fs (k.append b)
  | .sif c inv body k, b => .sif c inv body (k.append b)
  | .brk e, _ => .brk e

def Blk.isDone : Blk → Bool
  | .done => true
  | _ => false

def asVar : Expr → Option Name
  | .var x => some x
  | .lit _ => none

/-- Temporaries `heap.alloc_temp_str()` are the names `tempBase + k`. -/
def tempBase : Nat := 100000

def mkTemps (n count : Nat) : List Name := (List.range count).map fun i => tempBase + n + i

/-- Result of the rewrite: rewritten statements, the loop values, next free temporary. -/
abbrev RwRes := Blk × List Expr × Nat

/-- `try_rewrite_stmts_for_tailrec_without_using_return_value`; `none` = `Err(stmts)` (unchanged).
`nparams` = `function_parameter_types.len()` (the zip at l.129 truncates to it). -/
def tryRw (nparams : Nat) : Blk → Option Name → Nat → Option RwRes
  | .done, _, _ => none                                            -- l.24-28
  | .brk _, _, _ => none                                           -- l.148
  | .bin x op e1 e2 k, erc, n =>
    if k.isDone then none                                          -- last statement is a Binary: l.148
    else (tryRw nparams k erc n).map fun r => (.bin x op e1 e2 r.1, r.2)
  | .cast x e k, erc, n =>
    if k.isDone then none
    else (tryRw nparams k erc n).map fun r => (.cast x e r.1, r.2)
  | .sif c inv body k, erc, n =>
    if k.isDone then none
    else (tryRw nparams k erc n).map fun r => (.sif c inv body r.1, r.2)
  | .call args rc k, erc, n =>
    if k.isDone then
      -- l.32-51: a self call whose return collector is the expected one
      if rc = erc then
        some ((match erc with
               | some r => .bin r .add (.lit 0) (.lit 0) .done       -- l.38-46
               | none => .done), args, n)
      else none
    else (tryRw nparams k erc n).map fun r => (.call args rc r.1, r.2)
  | .ifElse c s1 s2 finals k, erc, n =>
    if k.isDone then
      -- l.52-147
      let rel := finals.find? fun f => erc == some f.1
      let newErc : Option (Option Name × Option Name) :=
        match erc with
        | some _ =>
          match rel with
          | some f => some (asVar f.2.1, asVar f.2.2)
          | none => none                                            -- l.58-64
        | none => some (none, none)
      match newErc with
      | none => none
      | some (c1, c2) =>
        match tryRw nparams s1 c1 n with
        | none =>
          match tryRw nparams s2 c2 n with
          | none => none                                            -- (Err, Err)
          | some (st2, args, n2) =>                                 -- (Err, Ok) l.88-103
            some (.sif c false (s1.append (.brk (match rel with | some f => f.2.1 | none => .lit 0))) st2,
                  args, n2)
        | some (st1, a1, n1) =>
          match tryRw nparams s2 c2 n1 with
          | none =>                                                 -- (Ok, Err) l.104-119
            some (.sif c true (s2.append (.brk (match rel with | some f => f.2.2 | none => .lit 0))) st1,
                  a1, n1)
          | some (st2, a2, n2) =>                                   -- (Ok, Ok) l.120-145
            let cnt := min (min a1.length a2.length) nparams
            let temps := mkTemps n2 cnt
            let kept := finals.filter fun f => !(erc == some f.1)
            let added : List Final := (temps.zip (a1.zip a2)).map fun t => (t.1, t.2.1, t.2.2)
            some (.ifElse c st1 st2 (kept ++ added) .done, temps.map .var, n2 + cnt)
    else (tryRw nparams k erc n).map fun r => (.ifElse c s1 s2 finals r.1, r.2)

/-- A function of the fragment: parameters, body, returned expression. -/
structure Fn where
  params : List Name
  body : Blk
  ret : Expr
deriving Repr, Inhabited

/-- The rewritten function: `While { loop_variables, statements, break_collector }` as only
statement (l.176-197) and renamed parameters. -/
structure LoopFn where
  params : List Name                 -- `_tailrec_param_<p>`
  vars : List (Name × Expr × Expr)   -- (name, initial_value, loop_value)
  body : Blk
  breakCollector : Option Name
  ret : Expr
deriving Repr, Inhabited

/-- `_tailrec_param_<name>` -/
def trpBase : Nat := 200000
def trp (p : Name) : Name := trpBase + p

/-- `for (arg, t) in args.zip(types) { stmts.push(Cast { temp, arg }) }` -/
def castChain : List (Name × Expr) → Blk
  | [] => .done
  | (t, a) :: rest => .cast t a (castChain rest)

/-- `optimize_function_by_tailrec_rewrite_aux`; `none` = function unchanged. -/
def rewriteFn (f : Fn) : Option LoopFn :=
  let erc := asVar f.ret                    -- l.160-164 (literal: None; variable: its name)
  match tryRw f.params.length f.body erc 0 with
  | none => none
  | some (stmts, args, n) =>
    -- fix c57720b: snapshot when an argument is a parameter of another position
    let (stmts, args) :=
      if readsOther f.params args then
        let cnt := min args.length f.params.length
        let temps := mkTemps n cnt
        (stmts.append (castChain (temps.zip args)), temps.map Expr.var ++ args.drop cnt)
      else (stmts, args)
    some { params := f.params.map trp,
           vars := (f.params.zip args).map fun pa => (pa.1, .var (trp pa.1), pa.2),
           body := stmts, breakCollector := erc, ret := f.ret }

end SamVerif.TailStmt
