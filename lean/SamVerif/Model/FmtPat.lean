/-!
C08: patterns (`let`, `match` cases, `if let`).  Core Lean only.

Printer: `matching_pattern_to_document` / `tuple_pattern_to_document`
(`crates/samlang-printer/src/source_printer.rs:801-910`): tuple `( p , … )`, object `{ f , g as p , … }`,
variant `Tag` / `Tag ( p , … )`, identifier, `_`, or-pattern `p | q | …` — never any parentheses added.
Parser: `pattern_parser` (`crates/samlang-parser/src/source_parser.rs:1806-1931`):
`parse_matching_pattern` (a single pattern followed by `| single` …), `parse_single_matching_pattern`,
`parse_tuple_pattern`; lists through `parse_comma_separated_list_with_end_token` (a trailing comma is
accepted, at least one element).  `(` always starts a tuple pattern: there are no parenthesised
patterns, so an or-pattern is never nested directly in an or-pattern — the model's types say so:
`OPat` is a non-empty list of single patterns `Pat` (`MatchingPattern::Or` iff it has ≥ 2 elements).
Identifiers and tags are opaque (numbered).
-/
namespace SamVerif.FmtPat

mutual
/-- a single pattern. -/
inductive Pat where
  | id (n : Nat)
  | wild
  | variant (tag : Nat)
  | variantT (tag : Nat) (ps : Pats)
  | tuple (ps : Pats)
  | obj (fs : Fields)
  deriving DecidableEq
/-- `p | q | …` (one element = no or-pattern). -/
inductive OPat where
  | one (p : Pat)
  | alt (p : Pat) (rest : OPat)
  deriving DecidableEq
/-- non-empty comma separated list of patterns. -/
inductive Pats where
  | one (o : OPat)
  | cons (o : OPat) (rest : Pats)
  deriving DecidableEq
/-- non-empty list of object-pattern fields: `f` (shorthand) or `f as p`. -/
inductive Fields where
  | oneS (f : Nat)
  | oneA (f : Nat) (o : OPat)
  | consS (f : Nat) (rest : Fields)
  | consA (f : Nat) (o : OPat) (rest : Fields)
  deriving DecidableEq
end

inductive PTok where
  | lp | rp | lb | rb | comma | bar | us | kwAs
  | lower (n : Nat)
  | upper (n : Nat)
  | other (k : Nat)     -- anything else (`=`, `:`, `->`, …)
  deriving DecidableEq, Repr, Inhabited

mutual
def printP : Pat → List PTok
  | .id n => [.lower n]
  | .wild => [.us]
  | .variant t => [.upper t]
  | .variantT t ps => .upper t :: .lp :: (printPs ps ++ [.rp])
  | .tuple ps => .lp :: (printPs ps ++ [.rp])
  | .obj fs => .lb :: (printFs fs ++ [.rb])
def printO : OPat → List PTok
  | .one p => printP p
  | .alt p rest => printP p ++ .bar :: printO rest
def printPs : Pats → List PTok
  | .one o => printO o
  | .cons o rest => printO o ++ .comma :: printPs rest
def printFs : Fields → List PTok
  | .oneS f => [.lower f]
  | .oneA f o => .lower f :: .kwAs :: printO o
  | .consS f rest => .lower f :: .comma :: printFs rest
  | .consA f o rest => .lower f :: .kwAs :: (printO o ++ .comma :: printFs rest)
end

mutual
/-- `parse_single_matching_pattern`. -/
def parseP : Nat → List PTok → Option (Pat × List PTok)
  | 0, _ => none
  | f + 1, .lp :: ts =>
    match parsePs f ts with
    | some (ps, r) => some (.tuple ps, r)
    | none => none
  | f + 1, .lb :: ts =>
    match parseFs f ts with
    | some (fs, r) => some (.obj fs, r)
    | none => none
  | f + 1, .upper t :: .lp :: ts =>
    match parsePs f ts with
    | some (ps, r) => some (.variantT t ps, r)
    | none => none
  | _ + 1, .upper t :: ts => some (.variant t, ts)
  | _ + 1, .us :: ts => some (.wild, ts)
  | _ + 1, .lower n :: ts => some (.id n, ts)
  | _ + 1, _ => none
/-- `parse_matching_pattern`. -/
def parseO : Nat → List PTok → Option (OPat × List PTok)
  | 0, _ => none
  | f + 1, ts =>
    match parseP f ts with
    | some (p, .bar :: r) =>
      match parseO f r with
      | some (rest, r') => some (.alt p rest, r')
      | none => none
    | some (p, r) => some (.one p, r)
    | none => none
/-- comma separated patterns through the closing `)` (trailing comma accepted). -/
def parsePs : Nat → List PTok → Option (Pats × List PTok)
  | 0, _ => none
  | f + 1, ts =>
    match parseO f ts with
    | some (o, .rp :: r) => some (.one o, r)
    | some (o, .comma :: .rp :: r) => some (.one o, r)
    | some (o, .comma :: r) =>
      match parsePs f r with
      | some (rest, r') => some (.cons o rest, r')
      | none => none
    | _ => none
/-- object-pattern fields through the closing `}`. -/
def parseFs : Nat → List PTok → Option (Fields × List PTok)
  | 0, _ => none
  | f + 1, .lower n :: .kwAs :: ts =>
    match parseO f ts with
    | some (o, .rb :: r) => some (.oneA n o, r)
    | some (o, .comma :: .rb :: r) => some (.oneA n o, r)
    | some (o, .comma :: r) =>
      match parseFs f r with
      | some (rest, r') => some (.consA n o rest, r')
      | none => none
    | _ => none
  | _ + 1, .lower n :: .rb :: r => some (.oneS n, r)
  | _ + 1, .lower n :: .comma :: .rb :: r => some (.oneS n, r)
  | f + 1, .lower n :: .comma :: r =>
    match parseFs f r with
    | some (rest, r') => some (.consS n rest, r')
    | none => none
  | _ + 1, _ => none
end

mutual
def sizeP : Pat → Nat
  | .id _ | .wild | .variant _ => 1
  | .variantT _ ps => sizePs ps + 2
  | .tuple ps => sizePs ps + 2
  | .obj fs => sizeFs fs + 2
def sizeO : OPat → Nat
  | .one p => sizeP p + 1
  | .alt p rest => sizeP p + sizeO rest + 1
def sizePs : Pats → Nat
  | .one o => sizeO o + 1
  | .cons o rest => sizeO o + sizePs rest + 1
def sizeFs : Fields → Nat
  | .oneS _ => 1
  | .oneA _ o => sizeO o + 1
  | .consS _ rest => sizeFs rest + 1
  | .consA _ o rest => sizeO o + sizeFs rest + 1
end

/-- the parser's pattern entry point with a budget that suffices for every printed pattern. -/
def parsePattern (ts : List PTok) : Option (OPat × List PTok) := parseO (2 * ts.length + 2) ts

end SamVerif.FmtPat
