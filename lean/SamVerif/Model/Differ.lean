/-!
# Model of the list differ behind the language server's text edits (C16)

Mirrors `crates/samlang-services/src/ast_differ.rs`, function by function:

* `followSnake`   — `list_differ::follow_snake`   (ast_differ.rs:29-46)
* `expand`/`bfs`/`longestTrace` — `list_differ::longest_trace` (ast_differ.rs:50-92)
* `deletes`, `insertsFrom`, `cle`, `fuse`, `computeWith`, `compute` — `list_differ::compute`
  (ast_differ.rs:94-175)
* `rangeOf`       — the location given to a change by `wrapped_list_diff` (ast_differ.rs:305-344)
* `applyFrom`/`applyScript` — what a sorted list of text edits *means* (specification side).

Core Lean only (the same definitions are compiled into the native driver `drv-c16`).
Indices are `Nat`, script positions `Int` (the Rust code uses `i32` with `-1` = "before the first
element"); lengths are assumed `< 2^31` (the `as i32` casts are not modelled).
-/
namespace SamVerif.Differ

/-- `ChangeWithoutLoc` (ast_differ.rs:13-17). The `separator` field is always `None` in
`list_differ` and is not modelled; `leading` is `leading_separator`. -/
inductive Change (α : Type) where
  | insert (items : List α) (leading : Bool)
  | delete (x : α)
  | replace (x y : α)
deriving DecidableEq, Repr

/-- `Vec<(i32, ChangeWithoutLoc<T>)>` -/
abbrev Script (α : Type) := List (Int × Change α)

/-- A trace: match points `(x, y)` meaning `old[x] == new[y]`. -/
abbrev Trace := List (Nat × Nat)

variable {α : Type} [DecidableEq α]

/-! ## `follow_snake` -/

/-- `follow_snake` (ast_differ.rs:29-46). The trace accumulator is newest-first, like the `Rc` cons
list of the implementation. Terminates because `x` approaches `old.length`. -/
def followSnake (old new : List α) (x y : Nat) (tr : Trace) : Nat × Nat × Trace :=
  if h : x < old.length then
    match new[y]? with
    | some b => if old[x] = b then followSnake old new (x + 1) (y + 1) ((x, y) :: tr) else (x, y, tr)
    | none => (x, y, tr)
  else (x, y, tr)
termination_by old.length - x

/-! ## `longest_trace`: breadth-first search over snake end points -/

/-- `visited: HashMap<(usize, usize), Rc<Trace>>` as an association list (only looked up by key,
never iterated, so order is irrelevant). -/
abbrev Visited := List ((Nat × Nat) × Trace)

def lookupV (v : Visited) (k : Nat × Nat) : Option Trace :=
  (v.find? (fun e => e.1 = k)).map (·.2)

/-- `visited.entry(k).or_insert_with(|| { new_frontier.push(k); t })` (ast_differ.rs:81-88) -/
def visit (v : Visited) (nf : List (Nat × Nat)) (k : Nat × Nat) (t : Trace) :
    Visited × List (Nat × Nat) :=
  if (lookupV v k).isSome then (v, nf) else ((k, t) :: v, nf ++ [k])

/-- The `for (x, y) in frontier` loop (ast_differ.rs:73-89). `visited.get(&(x, y)).unwrap()` cannot
fail (every frontier node was inserted into `visited`); the model skips such a node. -/
def expand (old new : List α) : List (Nat × Nat) → Visited → List (Nat × Nat) →
    Visited × List (Nat × Nat)
  | [], v, nf => (v, nf)
  | (x, y) :: fr, v, nf =>
    match lookupV v (x, y) with
    | none => expand old new fr v nf
    | some tr =>
      let a := followSnake old new (x + 1) y tr
      let b := followSnake old new x (y + 1) tr
      let r1 := visit v nf (a.1, a.2.1) a.2.2
      let r2 := visit r1.1 r1.2 (b.1, b.2.1) b.2.2
      expand old new fr r2.1 r2.2

/-- The outer `loop` (ast_differ.rs:62-91), one unit of fuel per round. -/
def bfs (old new : List α) : Nat → Visited → List (Nat × Nat) → Option Trace
  | 0, _, _ => none
  | fuel + 1, v, fr =>
    match lookupV v (old.length, new.length) with
    | some tr => some tr.reverse
    | none =>
      let r := expand old new fr v []
      bfs old new fuel r.1 r.2

/-- `longest_trace` (ast_differ.rs:50-92). `none` = out of fuel (the Rust loop has no bound). -/
def longestTrace (fuel : Nat) (old new : List α) : Option Trace :=
  let s := followSnake old new 0 0 []
  bfs old new fuel [((s.1, s.2.1), s.2.2)] [(s.1, s.2.1)]

/-- Fuel that always suffices (`longestTrace_total` in `Props/C16.lean`): every round that does not
finish moves every frontier node's `x + y` up by at least one. -/
def defaultFuel (old new : List α) : Nat := old.length + new.length + 2

/-! ## `compute` -/

/-- The delete script (ast_differ.rs:118-123): positions of `old` that are not on the trace,
ascending. -/
def deletesIn (old : List α) (xs : List Nat) (a len : Nat) : Script α :=
  ((List.range' a len).filter (fun p => !xs.contains p)).filterMap
    (fun (p : Nat) => old[p]?.map fun e => (Int.ofNat p, Change.delete e))

def deletes (old : List α) (xs : List Nat) : Script α := deletesIn old xs 0 old.length

/-- `new_list[first..last]` -/
def slice (l : List α) (first last : Nat) : List α := (l.drop first).take (last - first)

/-- The insert loop (ast_differ.rs:127-143): `k` runs from `-1` to `trace_len - 1`; iteration `k`
looks at `prev = trace[k]` (`none` for `k = -1`) and `trace[k+1]` (the head of `rest`, or the end
of `new` when `rest` is empty). -/
def insertsFrom (new : List α) (prev : Option (Nat × Nat)) (rest : Trace) : Script α :=
  let first := match prev with | none => 0 | some p => p.2 + 1
  let start : Int := match prev with | none => -1 | some p => (p.1 : Int)
  let last := match rest with | [] => new.length | q :: _ => q.2
  let here : Script α :=
    if first < last then [(start, Change.insert (slice new first last) false)] else []
  match rest with
  | [] => here
  | q :: rest' => here ++ insertsFrom new (some q) rest'

/-- `cmp_change_type_to_int` (ast_differ.rs:94-100) -/
def Change.rank : Change α → Nat
  | .insert _ _ => 1
  | .delete _ => 2
  | .replace _ _ => 3

/-- `cmp_indexed_change_without_loc a b != Greater` (ast_differ.rs:102-107) -/
def cle (a b : Int × Change α) : Bool :=
  decide (a.1 < b.1) || (a.1 == b.1 && decide (a.2.rank ≤ b.2.rank))

/-- The fusion loop (ast_differ.rs:149-173): an insert directly followed by a delete at the next
position becomes a replace; the rest of the inserted items stays as an insert *after* the replaced
element with `leading_separator = true`.  `items[0]` would panic on an empty insert — `FuseOk`
below says that never happens. -/
def fuse : Script α → Script α
  | [] => []
  | [c] => [c]
  | (i1, .insert (it :: rest) ld) :: (i2, .delete y) :: q =>
    if i1 = i2 - 1 then
      (i2, .replace y it) ::
        (if rest.isEmpty then fuse q else fuse ((i2, .insert rest true) :: q))
    else (i1, .insert (it :: rest) ld) :: fuse ((i2, .delete y) :: q)
  | c :: n :: q => c :: fuse (n :: q)
termination_by s => s.length
decreasing_by all_goals simp_all <;> omega

/-- No empty insert (so `items[0]` at ast_differ.rs:157 is in bounds). -/
def FuseOk (s : Script α) : Prop := ∀ p ld, (p, Change.insert [] ld) ∉ s

/-- `compute` after `longest_trace` (ast_differ.rs:114-175) for a given trace. -/
def presort (old new : List α) (tr : Trace) : Script α :=
  deletes old (tr.map Prod.fst) ++ insertsFrom new none tr

def computeWith (old new : List α) (tr : Trace) : Script α :=
  fuse ((presort old new tr).mergeSort cle)

/-- `list_differ::compute` -/
def compute (fuel : Nat) (old new : List α) : Option (Script α) :=
  (longestTrace fuel old new).map (computeWith old new)

def diff (old new : List α) : Option (Script α) := compute (defaultFuel old new) old new

/-! ## What a trace must satisfy -/

/-- `tr` (oldest first) is a strictly increasing sequence of match points of `old`/`new`, all
`≥ (lx, ly)`. -/
def ValidFrom (old new : List α) : Nat → Nat → Trace → Prop
  | _, _, [] => True
  | lx, ly, (x, y) :: tr =>
    lx ≤ x ∧ ly ≤ y ∧ (∃ a, old[x]? = some a ∧ new[y]? = some a) ∧ ValidFrom old new (x + 1) (y + 1) tr

def ValidTrace (old new : List α) (tr : Trace) : Prop := ValidFrom old new 0 0 tr

/-! ## Meaning of a script -/

/-- Apply a position-sorted script left to right. `pos` is the index (in the old list) of the head
of `rest`. `insert` at `p` puts its items after old element `p` (`p = -1`: before everything),
`delete`/`replace` at `p` act on old element `p`. -/
def applyFrom : Int → List α → Script α → List α
  | _, rest, [] => rest
  | pos, rest, (p, .insert items _) :: s =>
    let k := (p + 1 - pos).toNat
    rest.take k ++ items ++ applyFrom (pos + k) (rest.drop k) s
  | pos, rest, (p, .delete _) :: s =>
    let k := (p - pos).toNat
    rest.take k ++ applyFrom (pos + k + 1) (rest.drop (k + 1)) s
  | pos, rest, (p, .replace _ b) :: s =>
    let k := (p - pos).toNat
    rest.take k ++ b :: applyFrom (pos + k + 1) (rest.drop (k + 1)) s

def applyScript (old : List α) (s : Script α) : List α := applyFrom 0 old s

/-- Order in which the final script lists its changes: strictly increasing positions, except that
a `replace` at `p` may be followed by the `insert` after `p`. -/
def Before (a b : Int × Change α) : Prop :=
  a.1 < b.1 ∨ (a.1 = b.1 ∧ (∃ x y, a.2 = .replace x y) ∧ ∃ it ld, b.2 = .insert it ld)

/-- Text range given to a change by `wrapped_list_diff` (ast_differ.rs:305-344) when old element
`i` occupies `[st i, en i)` of the document: replace/delete take the element's range, an insert
after `p` is the empty range at `en p`, an insert before everything is the empty range at `st 0`
(for an empty old list the callers use the document start / end of the last import instead). -/
def rangeOf (st en : Nat → Nat) : Int × Change α → Nat × Nat
  | (p, .insert _ _) => if p < 0 then (st 0, st 0) else (en p.toNat, en p.toNat)
  | (p, _) => (st p.toNat, en p.toNat)

end SamVerif.Differ
