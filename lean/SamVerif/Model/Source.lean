/-!
# Reference semantics of the samlang source language (SRC)

A fuelled big-step interpreter over the *checked* source AST
(`crates/samlang-ast/src/source.rs:636-651`, the 13 expression forms; `:285-304`, the 6 pattern
forms).  It is written from the language specification (`packages/samlang-website/spec.md`, §6
expressions, §6.15 evaluation order, §7 statements, §8 patterns, §10 built-ins, §2.2 escape table),
*not* from the compiler: nothing here mentions HIR/MIR/LIR, temporaries, closure contexts or enum
layouts.  Where the specification is silent or contradicts itself the choice is listed below and
the run is *flagged* so that a consumer can exclude it.

Input: the dump of `harness/src/bin/srcdump.rs` (real parser + real type checker); the only resolved
information consumed is what the compiler consumes too: `field_order`, `tag_order`, the static
receiver class of a member access, the tuple's nominal class.

Choices / flags (see `Flags`):
* `ovf`    — an arithmetic result left the 32-bit range (excluded by property C01); the value wraps.
* `div0`   — division or remainder by zero ends the run with `trap "div0"` (excluded by C01).
* `refeq`  — `==`/`!=`/`Vec.eq` compared values that are not `int`/`bool`/`Str`/`unit`.  §6.9 says
             "structural", §5.12 says "reference identity (`==`-style) … samlang's default semantics
             for boxed values"; the back ends implement reference identity.  The model answers
             structurally and raises the flag.
* `negdiv` — a division with a negative inexact quotient (the TypeScript back end floors: C04-F1 open).
* `vec31`  — an `int` outside 31 bits was stored in a `Vec` (wasm back end boxes as i31: C04-F5 open).
* `cap`    — `.capacity()` was observed or `withCapacity` got a negative size (§5.12: a hint).
* `toint`  — `.toInt()` on a string that is not `-?[0-9]+` within range (§10.1: implementation-defined).
* Callee before arguments: §6.7.5/§6.15 say the callee is evaluated after the arguments; every
  back end evaluates the receiver/callee expression first (`hir_lowering.rs:391,431`).  The model
  follows the implementation (receiver, then arguments left to right) and raises nothing; an
  effectful callee *expression* is the only way to observe the difference (reports/SRC.md).
* `\r` is accepted as an escape although the §2.2 table omits it (`lexer.rs`, both printers).

Fuel: `eval (n+1) = step (eval n)`; every nesting level of the syntax tree and every call costs
one unit, list traversals (arguments, statements, match arms) cost nothing.  `step` is a monotone
functional for the order "out of fuel ⊑ anything" — that is `eval_fuel_mono` in `Props/SRC.lean`.
-/
namespace SamVerif.Source

/-! ## Syntax -/

/-- `source.rs:285-304` -/
inductive Pat where
  | wild
  | var (x : String)
  /-- tuple pattern: by position (`hir_lowering.rs:663-710`) -/
  | tuple (ps : List Pat)
  /-- object pattern: the i-th sub-pattern looks at field `idxs[i]` (`field_order`, `:711-759`);
      `x as y` and the shorthand `x` are both `(field_order x, var y)` -/
  | obj (idxs : List Nat) (ps : List Pat)
  /-- variant pattern: `tag_order` + data patterns (none when written without parentheses) -/
  | variant (tag : Nat) (ps : List Pat)
  /-- or-pattern: first matching alternative decides the bindings (§8.9) -/
  | or (ps : List Pat)
  deriving Repr, Inhabited

inductive BinOp where
  | mul | div | mod | add | sub | lt | le | gt | ge | eq | ne | and | or | concat
  deriving Repr, DecidableEq, Inhabited

inductive UnOp where
  | not | neg
  deriving Repr, DecidableEq, Inhabited

/-- static receiver of a member access: a class, or a type parameter (bounded generic) -/
inductive Recv where
  | cls (c : String)
  | dyn
  deriving Repr, DecidableEq, Inhabited

/-- `source.rs:636-651`; `Literal` and `IfElse` are split by their sub-form. -/
inductive Expr where
  | int (n : Int)
  | bool (b : Bool)
  /-- string literal as the AST holds it: escapes not yet decoded (only `\"` is, by the parser) -/
  | str (raw : String)
  | var (x : String)
  | classId (c : String)
  | tuple (c : String) (es : List Expr)
  | field (idx : Nat) (e : Expr)
  | method (r : Recv) (name : String) (e : Expr)
  | unary (op : UnOp) (e : Expr)
  | call (f : Expr) (args : List Expr)
  | binary (op : BinOp) (e1 e2 : Expr)
  | ite (c e1 e2 : Expr)
  | iflet (p : Pat) (e e1 e2 : Expr)
  | «match» (e : Expr) (cases : List (Pat × Expr))
  | lam (params : List String) (body : Expr)
  /-- statements are `let p = e;`; an expression statement `e;` is `let _ = e;` -/
  | block (stmts : List (Pat × Expr)) (final : Option Expr)
  deriving Repr, Inhabited

structure MemberDef where
  name : String
  isMethod : Bool
  params : List String
  body : Expr
  deriving Repr, Inhabited

inductive TypeDef where
  | struct (fields : List String)
  | enum (variants : List (String × Nat))
  | none
  deriving Repr, Inhabited

structure ClassDef where
  name : String
  td : TypeDef
  members : List MemberDef
  deriving Repr, Inhabited

/-- A program is a finite map from fully qualified class names to definitions (the driver uses a
hash map, the examples association lists).  Interfaces carry no code (`InterfaceDeclaration` has
declarations only, `source.rs:765`) and do not take part in evaluation. -/
structure Program where
  classOf : String → Option ClassDef

/-! ## Values, state, results -/

inductive Val where
  | int (n : Int)
  | bool (b : Bool)
  | str (s : String)
  | unit
  /-- struct instance (tag 0), tuple (class `std.tuples.*`, tag 0) or enum variant -/
  | obj (cls : String) (tag : Nat) (fields : List Val)
  /-- lambda value: parameters, body, captured environment -/
  | clo (params : List String) (body : Expr) (env : List (String × Val))
  /-- member reference `e.m` / `C.f` / `C.Variant`: resolved class, member, receiver -/
  | mref (cls : String) (name : String) (self : Val)
  /-- `Vec`: address of a mutable array in the store -/
  | vec (addr : Nat)
  /-- value of a class reference expression -/
  | cls (c : String)
  deriving Repr, Inhabited

abbrev Env := List (String × Val)

structure Flags where
  ovf : Bool := false
  refeq : Bool := false
  negdiv : Bool := false
  vec31 : Bool := false
  cap : Bool := false
  toint : Bool := false
  deriving Repr, DecidableEq, Inhabited

structure St where
  /-- printed lines, most recent first -/
  out : List String := []
  /-- store of `Vec` contents -/
  vecs : Array (Array Val) := #[]
  flags : Flags := {}
  deriving Repr, Inhabited

inductive Res (α : Type) where
  | ok (a : α) (s : St)
  | panic (msg : String) (s : St)
  /-- `div0`, or a stuck state that the type checker excludes (`stuck:…`) -/
  | trap (kind : String) (s : St)
  | oof
  deriving Repr, Inhabited

@[inline] def Res.bind {α β : Type} (r : Res α) (k : α → St → Res β) : Res β :=
  match r with
  | .ok a s => k a s
  | .panic m s => .panic m s
  | .trap t s => .trap t s
  | .oof => .oof

abbrev Ev := Env → St → Expr → Res Val

/-! ## Primitive operations -/

def minInt : Int := -2147483648
def maxInt : Int := 2147483647

def inRange (n : Int) : Bool := minInt ≤ n && n ≤ maxInt

/-- two's complement wrap to 32 bits -/
def wrap32 (n : Int) : Int := (n + 2147483648) % 4294967296 - 2147483648

def St.flagOvf (s : St) : St := { s with flags := { s.flags with ovf := true } }
def St.flagRefeq (s : St) : St := { s with flags := { s.flags with refeq := true } }
def St.flagNegdiv (s : St) : St := { s with flags := { s.flags with negdiv := true } }
def St.flagVec31 (s : St) : St := { s with flags := { s.flags with vec31 := true } }
def St.flagCap (s : St) : St := { s with flags := { s.flags with cap := true } }
def St.flagToint (s : St) : St := { s with flags := { s.flags with toint := true } }

def stuck {α : Type} (what : String) (s : St) : Res α := .trap ("stuck:" ++ what) s

/-- result of an arithmetic operation: in range, or wrapped and flagged -/
def arith (r : Int) (s : St) : Res Val :=
  if inRange r then .ok (.int r) s else .ok (.int (wrap32 r)) s.flagOvf

/-- §2.2 escape table (+ `\r`); `\"` was already resolved by the parser
(`source_parser.rs` `unescape_quotes`); an unknown escape keeps both characters. -/
def unescapeChars : List Char → List Char
  | '\\' :: c :: rest =>
    (match c with
     | 't' => ['\t']
     | 'v' => [Char.ofNat 11]
     | '0' => [Char.ofNat 0]
     | 'b' => [Char.ofNat 8]
     | 'f' => [Char.ofNat 12]
     | 'n' => ['\n']
     | 'r' => ['\r']
     | '\\' => ['\\']
     | o => ['\\', o]) ++ unescapeChars rest
  | c :: rest => c :: unescapeChars rest
  | [] => []

def unescape (raw : String) : String := String.ofList (unescapeChars raw.toList)

def isDigit (c : Char) : Bool := '0' ≤ c && c ≤ '9'

def digitsVal (cs : List Char) : Int :=
  cs.foldl (fun acc c => acc * 10 + ((c.toNat : Int) - 48)) 0

/-- `.toInt()`: defined on `-?[0-9]+` within the 32-bit range (§10.1) -/
def parseInt (str : String) : Option Int :=
  let cs := str.toList
  let (neg, ds) := match cs with
    | '-' :: r => (true, r)
    | _ => (false, cs)
  if ds.isEmpty || !ds.all isDigit || ds.length > 12 then none else
  let n := if neg then - digitsVal ds else digitsVal ds
  if inRange n then some n else none

def isPrim : Val → Bool
  | .int _ | .bool _ | .str _ | .unit => true
  | _ => false

mutual
/-- structural equality (§6.9); closures and member references are never equal -/
def valEq : Val → Val → Bool
  | .int a, .int b => a == b
  | .bool a, .bool b => a == b
  | .str a, .str b => a == b
  | .unit, .unit => true
  | .obj c t fs, .obj c' t' fs' => c == c' && t == t' && valEqList fs fs'
  | .vec a, .vec b => a == b
  | .cls a, .cls b => a == b
  | _, _ => false
def valEqList : List Val → List Val → Bool
  | [], [] => true
  | a :: as, b :: bs => valEq a b && valEqList as bs
  | _, _ => false
end

/-- `==` on two values, flagging comparisons of non-primitive values -/
def eqOp (a b : Val) (s : St) : Bool × St :=
  (valEq a b, if isPrim a && isPrim b then s else s.flagRefeq)

def unop (op : UnOp) (v : Val) (s : St) : Res Val :=
  match op, v with
  | .not, .bool b => .ok (.bool (!b)) s
  | .neg, .int n => arith (0 - n) s
  | _, _ => stuck "unary" s

/-- the non-short-circuit binary operators (§6.9), operands already evaluated -/
def binop (op : BinOp) (a b : Val) (s : St) : Res Val :=
  match op, a, b with
  | .mul, .int x, .int y => arith (x * y) s
  | .add, .int x, .int y => arith (x + y) s
  | .sub, .int x, .int y => arith (x - y) s
  | .div, .int x, .int y =>
    if y == 0 then .trap "div0" s else
    arith (Int.tdiv x y) (if Int.tmod x y != 0 && ((x < 0) != (y < 0)) then s.flagNegdiv else s)
  | .mod, .int x, .int y =>
    if y == 0 then .trap "div0" s else arith (Int.tmod x y) s
  | .lt, .int x, .int y => .ok (.bool (x < y)) s
  | .le, .int x, .int y => .ok (.bool (x ≤ y)) s
  | .gt, .int x, .int y => .ok (.bool (x > y)) s
  | .ge, .int x, .int y => .ok (.bool (x ≥ y)) s
  | .eq, a, b => let (r, s) := eqOp a b s; .ok (.bool r) s
  | .ne, a, b => let (r, s) := eqOp a b s; .ok (.bool (!r)) s
  | .concat, .str x, .str y => .ok (.str (x ++ y)) s
  | _, _, _ => stuck "binary" s

/-! ## Environments and pattern matching -/

def lookup (x : String) : Env → Option Val
  | [] => none
  | (y, v) :: rest => if x == y then some v else lookup x rest

def bindParams : List String → List Val → Env
  | x :: xs, v :: vs => (x, v) :: bindParams xs vs
  | _, _ => []

mutual
/-- §8.8: the bindings a successful match produces (later binders first), or `none`. -/
def matchPat : Pat → Val → Option Env
  | .wild, _ => some []
  | .var x, v => some [(x, v)]
  | .tuple ps, .obj _ _ fs => matchPats ps fs
  | .obj idxs ps, .obj _ _ fs => matchFields idxs ps fs
  | .variant tag ps, .obj _ t fs => if tag == t then matchPats ps fs else none
  | .or ps, v => matchAlts ps v
  | _, _ => none
/-- sub-patterns against the leading fields, left to right -/
def matchPats : List Pat → List Val → Option Env
  | [], _ => some []
  | p :: ps, v :: vs =>
    match matchPat p v with
    | none => none
    | some b => match matchPats ps vs with
      | none => none
      | some bs => some (bs ++ b)
  | _ :: _, [] => none
/-- object pattern elements: i-th sub-pattern against field `idxs[i]` -/
def matchFields : List Nat → List Pat → List Val → Option Env
  | i :: idxs, p :: ps, fs =>
    match fs[i]? with
    | none => none
    | some v => match matchPat p v with
      | none => none
      | some b => match matchFields idxs ps fs with
        | none => none
        | some bs => some (bs ++ b)
  | _, _, _ => some []
/-- or-pattern: the first alternative that matches -/
def matchAlts : List Pat → Val → Option Env
  | [], _ => none
  | p :: ps, v =>
    match matchPat p v with
    | some b => some b
    | none => matchAlts ps v
end

mutual
/-- the variables a pattern binds (`collect_bindings`, `source.rs:348-371`: an or-pattern binds
what its first alternative binds) -/
def Pat.binds : Pat → List String
  | .wild => []
  | .var x => [x]
  | .tuple ps => Pat.bindsList ps
  | .obj _ ps => Pat.bindsList ps
  | .variant _ ps => Pat.bindsList ps
  | .or ps => Pat.bindsHead ps
def Pat.bindsList : List Pat → List String
  | [] => []
  | p :: ps => Pat.binds p ++ Pat.bindsList ps
def Pat.bindsHead : List Pat → List String
  | [] => []
  | p :: _ => Pat.binds p
end

/-! ## Built-in classes (§5.10–5.12, §10) -/

def isBuiltinClass (c : String) : Bool := c == "Str" || c == "Process" || c == "Vec"

def fits31 (n : Int) : Bool := -1073741824 ≤ n && n < 1073741824

def flagElem (v : Val) (s : St) : St :=
  match v with
  | .int n => if fits31 n then s else s.flagVec31
  | _ => s

/-- element comparison of `Vec.eq`: "`==`-style" -/
def vecElemsEq : List Val → List Val → St → Bool × St
  | [], [], s => (true, s)
  | a :: as, b :: bs, s =>
    let (r, s) := eqOp a b s
    if r then vecElemsEq as bs s else (false, s)
  | _, _, s => (false, s)

/-- contents of the `Vec` at address `a` -/
def St.vecGet (s : St) (a : Nat) : Array Val := s.vecs[a]?.getD #[]

/-- a new `Vec` with the given contents -/
def St.vecAlloc (s : St) (arr : Array Val) : Res Val :=
  .ok (.vec s.vecs.size) { s with vecs := s.vecs.push arr }

def St.vecSet (s : St) (a : Nat) (arr : Array Val) : St :=
  { s with vecs := s.vecs.setIfInBounds a arr }

inductive Builtin where
  | println | panic | fromInt | toInt
  | vEmpty | vOf | vWithCapacity | vLength | vCapacity | vReserve | vPush | vPop | vGet | vSet | vEq
  deriving Repr, DecidableEq, Inhabited

def builtinOf (cls name : String) : Option Builtin :=
  if cls == "Process" then
    (if name == "println" then some .println else if name == "panic" then some .panic else none)
  else if cls == "Str" then
    (if name == "fromInt" then some .fromInt else if name == "toInt" then some .toInt else none)
  else if cls == "Vec" then
    (if name == "empty" then some .vEmpty else if name == "of" then some .vOf
     else if name == "withCapacity" then some .vWithCapacity
     else if name == "length" then some .vLength else if name == "capacity" then some .vCapacity
     else if name == "reserve" then some .vReserve else if name == "push" then some .vPush
     else if name == "pop" then some .vPop else if name == "get" then some .vGet
     else if name == "set" then some .vSet else if name == "eq" then some .vEq else none)
  else none

def runBuiltin (b : Builtin) (self : Val) (args : List Val) (s : St) : Res Val :=
  match b, self, args with
  | .println, _, [.str line] => .ok .unit { s with out := line :: s.out }
  | .panic, _, [.str msg] => .panic msg s
  | .fromInt, _, [.int n] => .ok (.str (toString n)) s
  | .toInt, .str str, [] =>
    (match parseInt str with
     | some n => .ok (.int n) s
     | none => .ok (.int 0) s.flagToint)
  | .vEmpty, _, [] => s.vecAlloc #[]
  | .vOf, _, [v] => (flagElem v s).vecAlloc #[v]
  | .vWithCapacity, _, [.int n] => (if n < 0 then s.flagCap else s).vecAlloc #[]
  | .vLength, .vec a, [] => .ok (.int (s.vecGet a).size) s
  | .vCapacity, .vec a, [] => .ok (.int (s.vecGet a).size) s.flagCap
  | .vReserve, .vec _, [.int _] => .ok .unit s
  | .vPush, .vec a, [v] => .ok .unit ((flagElem v s).vecSet a ((s.vecGet a).push v))
  | .vPop, .vec a, [] =>
    (match (s.vecGet a).back? with
     | none => .panic "pop from empty Vec" s
     | some v => .ok v (s.vecSet a (s.vecGet a).pop))
  | .vGet, .vec a, [.int i] =>
    if i < 0 then .panic "Vec index out of bounds" s else
    (match (s.vecGet a)[i.toNat]? with
     | none => .panic "Vec index out of bounds" s
     | some v => .ok v s)
  | .vSet, .vec a, [.int i, v] =>
    if i < 0 || i.toNat ≥ (s.vecGet a).size then .panic "Vec index out of bounds" s else
    .ok .unit ((flagElem v s).vecSet a ((s.vecGet a).setIfInBounds i.toNat v))
  | .vEq, .vec a, [.vec b] =>
    if a == b then .ok (.bool true) s else
    if (s.vecGet a).size != (s.vecGet b).size then .ok (.bool false) s else
    let (r, s) := vecElemsEq (s.vecGet a).toList (s.vecGet b).toList s
    .ok (.bool r) s
  | _, _, _ => stuck "builtin" s

def builtin (cls name : String) (self : Val) (args : List Val) (s : St) : Res Val :=
  match builtinOf cls name with
  | some b => runBuiltin b self args s
  | none => stuck "builtin" s

/-! ## Calls -/

/-- run-time class of a value (what a bounded-generic call dispatches on) -/
def classOfVal : Val → String
  | .obj c _ _ => c
  | .str _ => "Str"
  | .vec _ => "Vec"
  | .cls c => c
  | _ => "?"

/-- class whose member a member access denotes: the static class when it is a class of the
program (or built in), the receiver's run-time class otherwise (type parameter, interface). -/
def resolveCls (P : Program) (r : Recv) (v : Val) : String :=
  match r with
  | .cls c => if isBuiltinClass c || (P.classOf c).isSome then c else classOfVal v
  | .dyn => classOfVal v

def findMember (name : String) : List MemberDef → Option MemberDef
  | [] => none
  | m :: ms => if m.name == name then some m else findMember name ms

def findVariant (name : String) : List (String × Nat) → Nat → Option Nat
  | [], _ => none
  | (v, _) :: vs, i => if v == name then some i else findVariant name vs (i + 1)

/-- Invocation of member `name` of class `cls` (§6.7.1, §6.7.2, §10.4): a declared function or
method body in a fresh environment (`this` + parameters), or an auto-generated constructor. -/
def invoke (P : Program) (ev : Ev) (cls name : String) (self : Val) (args : List Val) (s : St) :
    Res Val :=
  if isBuiltinClass cls then builtin cls name self args s else
  match P.classOf cls with
  | none => stuck "class" s
  | some c =>
    match findMember name c.members with
    | some m =>
      ev ((if m.isMethod then [("this", self)] else []) ++ bindParams m.params args) s m.body
    | none =>
      match c.td with
      | .struct _ => if name == "init" then .ok (.obj cls 0 args) s else stuck "member" s
      | .enum vs =>
        (match findVariant name vs 0 with
         | some tag => .ok (.obj cls tag args) s
         | none => stuck "member" s)
      | .none => stuck "member" s

/-- application of a function value (§6.7.3) -/
def applyVal (P : Program) (ev : Ev) (f : Val) (args : List Val) (s : St) : Res Val :=
  match f with
  | .clo ps body env => ev (bindParams ps args ++ env) s body
  | .mref cls name self => invoke P ev cls name self args s
  | _ => stuck "apply" s

/-! ## The evaluator -/

/-- arguments / tuple components: left to right (§6.7.5) -/
def evalList (ev : Ev) (env : Env) : St → List Expr → Res (List Val)
  | s, [] => .ok [] s
  | s, e :: es =>
    (ev env s e).bind fun v s => (evalList ev env s es).bind fun vs s => .ok (v :: vs) s

/-- statements of a block in order (§6.13); each `let` extends the environment -/
def evalStmts (ev : Ev) : Env → St → List (Pat × Expr) → Res Env
  | env, s, [] => .ok env s
  | env, s, (p, e) :: rest =>
    (ev env s e).bind fun v s =>
      match matchPat p v with
      | some b => evalStmts ev (b ++ env) s rest
      | none => stuck "let" s

/-- arms of a `match` in order: the first arm whose pattern matches is evaluated with the
pattern's bindings in scope (§6.11, §8.8) -/
def evalCases (ev : Ev) (env : Env) (s : St) (v : Val) : List (Pat × Expr) → Res Val
  | [] => stuck "match" s
  | (p, body) :: rest =>
    match matchPat p v with
    | some b => ev (b ++ env) s body
    | none => evalCases ev env s v rest

/-- one level of evaluation; sub-expressions and call bodies go through `ev` -/
def step (P : Program) (ev : Ev) (env : Env) (s : St) : Expr → Res Val
  | .int n => .ok (.int n) s
  | .bool b => .ok (.bool b) s
  | .str raw => .ok (.str (unescape raw)) s
  | .var x =>
    (match lookup x env with
     | some v => .ok v s
     | none => stuck "unbound" s)
  | .classId c => .ok (.cls c) s
  | .tuple c es => (evalList ev env s es).bind fun vs s => .ok (.obj c 0 vs) s
  | .field i e =>
    (ev env s e).bind fun v s =>
      match v with
      | .obj _ _ fs =>
        (match fs[i]? with
         | some x => .ok x s
         | none => stuck "field" s)
      | _ => stuck "field" s
  | .method r name o => (ev env s o).bind fun v s => .ok (.mref (resolveCls P r v) name v) s
  | .unary op e => (ev env s e).bind fun v s => unop op v s
  | .call f args =>
    (ev env s f).bind fun fv s =>
      (evalList ev env s args).bind fun vs s => applyVal P ev fv vs s
  | .binary op e1 e2 =>
    (match op with
     | .and =>
       (ev env s e1).bind fun a s =>
         match a with
         | .bool false => .ok (.bool false) s
         | .bool true =>
           (ev env s e2).bind fun b s =>
             match b with
             | .bool b => .ok (.bool b) s
             | _ => stuck "and" s
         | _ => stuck "and" s
     | .or =>
       (ev env s e1).bind fun a s =>
         match a with
         | .bool true => .ok (.bool true) s
         | .bool false =>
           (ev env s e2).bind fun b s =>
             match b with
             | .bool b => .ok (.bool b) s
             | _ => stuck "or" s
         | _ => stuck "or" s
     | op => (ev env s e1).bind fun a s => (ev env s e2).bind fun b s => binop op a b s)
  | .ite c e1 e2 =>
    (ev env s c).bind fun v s =>
      match v with
      | .bool true => ev env s e1
      | .bool false => ev env s e2
      | _ => stuck "if" s
  | .iflet p e e1 e2 =>
    (ev env s e).bind fun v s =>
      match matchPat p v with
      | some b => ev (b ++ env) s e1
      | none => ev env s e2
  | .match e cases => (ev env s e).bind fun v s => evalCases ev env s v cases
  | .lam ps body => .ok (.clo ps body env) s
  | .block stmts final =>
    (evalStmts ev env s stmts).bind fun env' s =>
      match final with
      | some e => ev env' s e
      | none => .ok .unit s

/-- `eval P fuel env s e` -/
def eval (P : Program) : Nat → Ev
  | 0 => fun _ _ _ => .oof
  | n + 1 => step P (eval P n)

/-! ## Whole programs -/

inductive End where
  | ok
  | panic (msg : String)
  | trap (kind : String)
  | oof
  deriving Repr, DecidableEq, Inhabited

structure Outcome where
  /-- the arguments of `Process.println` in order -/
  lines : List String
  «end» : End
  flags : Flags
  deriving Repr, DecidableEq, Inhabited

def outcomeOf : Res Val → Outcome
  | .ok _ s => ⟨s.out.reverse, .ok, s.flags⟩
  | .panic m s => ⟨s.out.reverse, .panic m, s.flags⟩
  | .trap k s => ⟨s.out.reverse, .trap k, s.flags⟩
  | .oof => ⟨[], .oof, {}⟩

/-- `Main.main()` of the entry module (`hir_lowering.rs:1299-1313`) -/
def run (P : Program) (entryModule : String) (fuel : Nat) : Outcome :=
  outcomeOf (invoke P (eval P fuel) (entryModule ++ ".Main") "main" .unit [] {})

end SamVerif.Source
