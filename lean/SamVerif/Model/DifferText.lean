import SamVerif.Model.Differ
/-!
# Text level of the list differ (C16): documents, text edits, `to_edit`, `wrapped_list_diff`

Mirrors `crates/samlang-services/src/ast_differ.rs:177-425` for one list of items (the import list):

* `changeText`      — `Change::to_edit` text assembly (ast_differ.rs:281-302), separator `None` = "\n"
* `rangeOfPos`      — the `Location` `wrapped_list_diff` gives to a change (ast_differ.rs:313-340); for an
                      empty old list the insert before everything is the `Err` path of
                      `compute_module_diff` for imports: `Location::document_start` (ast_differ.rs:378-386)
* `importEdits`     — `wrapped_list_diff` + `to_edit` for the import list
                      (`generic_non_recursive_compute_diff` = `None`, so a `Replace` stays a replace)
* `autoImportEdits` — `rewrite::generate_auto_import_edits` (lib.rs:554-590, after fix 2ac0a3a: the
                      insert behind an existing import starts with "\n")
* `Doc`, `off`, `applyTE`, `applyEdits` — a document as lines of bytes, LSP-style positions
  `(line, column)` (columns = bytes, the lexer's unit), application of a sorted list of
  non-overlapping edits (equal positions: array order).

Specification side: `Chunk`, `insChunks`, `segChunks`, `expChunks` describe the expected text as a
sequence of chunks — verbatim pieces of the old document (gaps between items, kept items) and
renderings of new items; theorem `text_lift` (Props/C16.lean) says the edited text is exactly the
concatenation of these chunks and that the item chunks, in order, are the new list.
-/
namespace SamVerif.Differ

abbrev Text := List UInt8
abbrev Pos := Nat × Nat

structure TextEdit where
  start : Pos
  stop : Pos
  text : Text
deriving DecidableEq, Repr

/-- A document: its lines (without the terminating `\n`). -/
abbrev Doc := List Text

def sepNL : Text := [10]

def joinSep (sep : Text) : List Text → Text
  | [] => []
  | [t] => t
  | t :: ts => t ++ sep ++ joinSep sep ts

/-- The document as one byte string. -/
def flatten (doc : Doc) : Text := joinSep sepNL doc

/-- Byte offset of `(line, col)`. -/
def off (doc : Doc) (p : Pos) : Nat :=
  (doc.take p.1).foldl (fun a l => a + l.length + 1) 0 + p.2

/-- Split a byte string into lines at `\n` (inverse of `flatten`). -/
def splitLines : Text → Doc
  | [] => [[]]
  | b :: t =>
    if b = 10 then [] :: splitLines t
    else match splitLines t with
      | [] => [[b]]
      | l :: ls => (b :: l) :: ls

/-- Apply offset edits `(start, stop, text)` that are sorted and non-overlapping; `pos` is the offset
of the head of `rest`. -/
def applyTE : Nat → Text → List (Nat × Nat × Text) → Text
  | _, rest, [] => rest
  | pos, rest, (s, e, t) :: eds => rest.take (s - pos) ++ t ++ applyTE e (rest.drop (e - pos)) eds

def applyEdits (doc : Doc) (edits : List TextEdit) : Text :=
  applyTE 0 (flatten doc) (edits.map fun ed => (off doc ed.start, off doc ed.stop, ed.text))

variable {α : Type}

/-- `Change::to_edit` (ast_differ.rs:281-302): the replacement text (`rnd` = `printed(..).trim_end()`). -/
def changeText (rnd : α → Text) : Change α → Text
  | .replace _ b => rnd b
  | .delete _ => []
  | .insert items ld => (if ld then sepNL else []) ++ joinSep sepNL (items.map rnd)

/-- Offset version of the range of a change: `rangeOf` + `changeText`. -/
def toOffEdits (st en : Nat → Nat) (rnd : α → Text) (s : Script α) : List (Nat × Nat × Text) :=
  s.map fun ch => ((rangeOf st en ch).1, (rangeOf st en ch).2, changeText rnd ch.2)

def locStart (locs : List (Pos × Pos)) (i : Nat) : Pos := (locs[i]?.map (·.1)).getD (0, 0)
def locStop (locs : List (Pos × Pos)) (i : Nat) : Pos := (locs[i]?.map (·.2)).getD (0, 0)

/-- `wrapped_list_diff` location of a change (ast_differ.rs:313-340); `locs[i]` = location of old
item `i`.  With no old item the insert before everything goes to the document start `(0,0)`
(the `Err` path taken for the import list, ast_differ.rs:378-386). -/
def rangeOfPos (locs : List (Pos × Pos)) : Int × Change α → Pos × Pos
  | (p, .insert _ _) =>
    if p < 0 then (locStart locs 0, locStart locs 0) else (locStop locs p.toNat, locStop locs p.toNat)
  | (p, _) => (locStart locs p.toNat, locStop locs p.toNat)

/-- `wrapped_list_diff` + `to_edit` for the import list. -/
def importEdits (locs : List (Pos × Pos)) (rnd : α → Text) (s : Script α) : List TextEdit :=
  s.map fun ch => ⟨(rangeOfPos locs ch).1, (rangeOfPos locs ch).2, changeText rnd ch.2⟩

/-- `generate_auto_import_edits` (lib.rs:554-590): diff `imports` against `imports ++ [x]`, then put the
insert behind an existing import on its own line. `none` = the differ ran out of fuel (never, by
`longestTrace_total`). -/
def autoImportEdits [DecidableEq α] (locs : List (Pos × Pos)) (rnd : α → Text) (old : List α) (x : α) :
    Option (List TextEdit) :=
  (diff old (old ++ [x])).map fun s =>
    (importEdits locs rnd s).map fun ed =>
      if !old.isEmpty && ed.start == ed.stop then { ed with text := sepNL ++ ed.text } else ed

/-- Location of a toplevel change (ast_differ.rs:388-407).  `compute_toplevel_diff` (:350-360) returns a
`Replace` of the whole toplevel in its only non-`None` branch and `None` otherwise, which
`wrapped_list_diff` also turns into a `Replace`: toplevel changes are positioned like import
changes.  With no old toplevel (`Err` path) the insert goes to the end of the last old import, or to
the document start when there is no import either. -/
def rangeOfPosT (locsI locsT : List (Pos × Pos)) (ch : Int × Change α) : Pos × Pos :=
  if locsT.isEmpty then
    let e := if locsI.isEmpty then ((0, 0) : Pos) else locStop locsI (locsI.length - 1)
    (e, e)
  else rangeOfPos locsT ch

def toplevelEdits (locsI locsT : List (Pos × Pos)) (rnd : α → Text) (s : Script α) : List TextEdit :=
  s.map fun ch => ⟨(rangeOfPosT locsI locsT ch).1, (rangeOfPosT locsI locsT ch).2, changeText rnd ch.2⟩

/-- `compute_module_diff` (ast_differ.rs:362-409) for equal comment stores: import edits, then
toplevel edits. -/
def moduleEdits {β : Type} (locsI locsT : List (Pos × Pos)) (rndI : α → Text) (rndT : β → Text)
    (sI : Script α) (sT : Script β) : List TextEdit :=
  importEdits locsI rndI sI ++ toplevelEdits locsI locsT rndT sT

/-- `Location::full_document`: `(0,0) – (u32::MAX, u32::MAX)`. -/
def fullDocument : Pos × Pos := ((0, 0), (4294967295, 4294967295))

/-- `compute_module_diff_edits` (ast_differ.rs:411-425) including the give-up path: when the comment
stores of the two modules differ (`commentsEqual = false`, :367-371) the whole document is replaced by
the pretty-printed new module `printedNew`; otherwise the per-node edits of `moduleEdits`. -/
def moduleDiffEdits {β : Type} (commentsEqual : Bool) (printedNew : Text) (locsI locsT : List (Pos × Pos))
    (rndI : α → Text) (rndT : β → Text) (sI : Script α) (sT : Script β) : List TextEdit :=
  if commentsEqual then moduleEdits locsI locsT rndI rndT sI sT
  else [⟨fullDocument.1, fullDocument.2, printedNew⟩]

/-- `completion::autocomplete_opt`, `ToplevelName` arm (lib.rs:668-714): the completion item for class
`n` of module `M` carries the auto-import edit unless the name is already available in the document
(`available` = members of all its imports ++ names of its own toplevels, compared by name only, whatever
module they come from) or `M` is the builtin root module.  The edit never extends an existing import of
`M`; it is always a new import line (`autoImportEdits`). -/
def completionAdditionalEdits [DecidableEq α] {ν : Type} [DecidableEq ν] (locs : List (Pos × Pos))
    (rnd : α → Text) (imports : List α) (available : List ν) (isRoot : Bool) (n : ν) (x : α) :
    Option (List TextEdit) :=
  if available.contains n || isRoot then some [] else autoImportEdits locs rnd imports x

/-- `rewrite::code_actions` (lib.rs:505-530): for a `CannotResolveClass { module_reference = lookup,
name }` error of document `docModule`, the quick fix "Import `name` from `M`" is offered iff the
error's location covers the requested range, the class was looked up in the document itself
(`lookup = docModule`: the name is not imported at all — when it is imported from a module that does
not export it, `lookup` is that module and nothing is offered), and `M` declares the name. -/
def codeActionOffered {μ : Type} [DecidableEq μ] (covers : Bool) (lookup docModule : μ)
    (declaresName : Bool) : Bool :=
  covers && decide (lookup = docModule) && declaresName

/-- The edits of an offered quick fix are the auto-import edits computed on the error's `lookup`
module, i.e. (because of the guard) on the document's own import list. -/
def codeActionEdits [DecidableEq α] {μ : Type} [DecidableEq μ] (covers : Bool) (lookup docModule : μ)
    (declaresName : Bool) (docLocs : List (Pos × Pos)) (rnd : α → Text) (docImports : List α) (x : α) :
    Option (List TextEdit) :=
  if codeActionOffered covers lookup docModule declaresName then autoImportEdits docLocs rnd docImports x
  else none

/-! ## Expected text, as chunks -/

/-- A piece of the edited document: `some a` = the text of item `a`, `none` = text between items. -/
abbrev Chunk (α : Type) := Option α × Text

def flatChunks (cs : List (Chunk α)) : Text := (cs.map (·.2)).flatten

def dslice (doc : Text) (a b : Nat) : Text := (doc.drop a).take (b - a)

/-- Inserted items: renderings joined by "\n", with a leading "\n" if `ld`. -/
def insChunks (rnd : α → Text) : List α → Bool → List (Chunk α)
  | [], _ => []
  | a :: as, ld => (if ld then [(none, sepNL)] else []) ++ (some a, rnd a) :: insChunks rnd as true

/-- The insertion point just behind item `c - 1` (start of item 0 for `c = 0`). -/
def bnd (st en : Nat → Nat) (c : Nat) : Nat := if c = 0 then st 0 else en (c - 1)

/-- One segment: `items` are to be placed from the boundary behind item `c - 1` on, old items
`c … c+len-1` disappear.  Each vanishing old item is overwritten by the next pending new item
(replace) or removed (delete) — the gap in front of it stays; what is left of `items` is inserted
behind the last overwritten item with a leading separator. -/
def segChunks (doc : Text) (st en : Nat → Nat) (rnd : α → Text) : List α → Bool → Nat → Nat → List (Chunk α)
  | items, ld, _, 0 => insChunks rnd items ld
  | [], ld, c, len + 1 =>
    (none, dslice doc (bnd st en c) (st c)) :: segChunks doc st en rnd [] ld (c + 1) len
  | it :: rest, _, c, len + 1 =>
    (none, dslice doc (bnd st en c) (st c)) :: (some it, rnd it) :: segChunks doc st en rnd rest true (c + 1) len

/-- The whole expected document behind the boundary of item `c - 1`: segments between trace points,
every matched old item `x` kept verbatim (with the gap in front of it), the tail of the document
behind the last old item kept verbatim. -/
def expChunks (doc : Text) (st en : Nat → Nat) (rnd : α → Text) (old new : List α) :
    Nat → Nat → Trace → List (Chunk α)
  | c, first, [] =>
    segChunks doc st en rnd (slice new first new.length) false c (old.length - c) ++
      [(none, doc.drop (bnd st en old.length))]
  | c, first, (x, y) :: tr =>
    segChunks doc st en rnd (slice new first y) false c (x - c) ++
      ((none, dslice doc (bnd st en x) (st x)) :: (old[x]?, dslice doc (st x) (en x)) ::
        expChunks doc st en rnd old new (x + 1) (y + 1) tr)

/-- `expChunks` without its last chunk (the verbatim tail of the document behind the last old item). -/
def expChunksBody (doc : Text) (st en : Nat → Nat) (rnd : α → Text) (old new : List α) :
    Nat → Nat → Trace → List (Chunk α)
  | c, first, [] => segChunks doc st en rnd (slice new first new.length) false c (old.length - c)
  | c, first, (x, y) :: tr =>
    segChunks doc st en rnd (slice new first y) false c (x - c) ++
      ((none, dslice doc (bnd st en x) (st x)) :: (old[x]?, dslice doc (st x) (en x)) ::
        expChunksBody doc st en rnd old new (x + 1) (y + 1) tr)

/-- Run offset edits and return (output so far, final cursor, rest of the document behind it). -/
def runTE : Nat → Text → List (Nat × Nat × Text) → Text × Nat × Text
  | pos, rest, [] => ([], pos, rest)
  | pos, rest, (s, e, t) :: eds =>
    let r := runTE e (rest.drop (e - pos)) eds
    (rest.take (s - pos) ++ t ++ r.1, r.2.1, r.2.2)

/-- What LSP requires of an edit list, in the order it is sent: no reversed range, and every range
ends before (or where) the next one starts. -/
def OrderedEdits (es : List (Nat × Nat × Text)) : Prop :=
  (∀ e ∈ es, e.1 ≤ e.2.1) ∧ es.Pairwise (fun a b => a.2.1 ≤ b.1)

end SamVerif.Differ
