import SamVerif.Model.OptKernel
/-!
# C01 kernels K3 (tail recursion → loop) and K4 (constant-parameter elimination decision)

## K3 — `crates/samlang-compiler/src/mir_tail_recursion_rewrite.rs`

`try_rewrite_stmts_for_tailrec_without_using_return_value` (l.16-150) walks the statement list of
a function from its *last* statement: a self call whose result is the returned value (l.32-51), or
an `IfElse` whose relevant final assignment carries the returned value (l.52-147), recursively.
What it walks is therefore an if-else tree whose leaves are either "a value is returned" (`Err`: no
rewrite below) or "the self call is the last thing done" (`Ok`); the statements in front of the
tree are kept as they are.  `Body` is that tree (leading statements: MIR `Binary`), `rw` is the
rewrite, with its four `(s1_result, s2_result)` cases (l.82-146):

* `(Err, Err)`  → `Err`
* `(Err, Ok)`   → `SingleIf c {s1; Break v1}` followed by the rewritten `s2`   (l.88-103)
* `(Ok, Err)`   → `SingleIf !c {s2; Break v2}` followed by the rewritten `s1`  (l.104-119)
* `(Ok, Ok)`    → `IfElse c s1' s2'` with one *fresh temporary per parameter* as final
                  assignment; the loop values are those temporaries             (l.120-145)

`optimize_function_by_tailrec_rewrite_aux` (l.156-201) wraps the result in
`While { loop_variables: params.zip(args) … }`.  Both backends execute the loop variables'
`loop_value` assignments **one after the other** (`wasm_lowering.rs:437-441`, and the TS printer
`lir.rs`), each reading the values already updated: `seqAssign`.  The recursive function binds
all parameters at once: `parAssign`.

The abstraction: the state carried from one iteration to the next is the list of parameter values
(locals are single-assignment and defined before use on every path).

## K4 — `mir_constant_param_elimination.rs`

`meet_param_state` (l.21-43), the per-function usage collection with the "copied to the same
position of a self call" exemption (l.92-104), the call-site fold (l.197-216) and the keep/replace
decision (l.358-405) over a flow-insensitive summary of the program (`Atom`s).
-/
namespace SamVerif.TailRec
open SamVerif.Opt (Op)

abbrev Name := Nat
abbrev Env := Name → Int

inductive Expr where
  | lit (n : Int)
  | var (x : Name)
deriving DecidableEq, Repr, Inhabited

def Expr.eval (env : Env) : Expr → Int
  | .lit n => n
  | .var x => env x

def upd (env : Env) (x : Name) (v : Int) : Env := fun y => if y = x then v else env y

/-- Binds the parameters to values, all at once (function entry). Unbound names read 0. -/
def bindParams : List Name → List Int → Env
  | p :: ps, v :: vs => upd (bindParams ps vs) p v
  | _, _ => fun _ => 0

/-- `wasm_lowering.rs:437-441`: `for v in loop_variables { set v.name := lower(v.loop_value) }`. -/
def seqAssign (env : Env) : List (Name × Expr) → Env
  | [] => env
  | (p, a) :: rest => seqAssign (upd env p (a.eval env)) rest

/-- The if-else tree walked by the rewrite. -/
inductive Body where
  | ret (e : Expr)                                   -- returns a value (no self call below)
  | tail (args : List Expr)                          -- `f(args)` is the last thing done
  | ite (c : Expr) (t e : Body)
  | bin (x : Name) (op : Op) (e1 e2 : Expr) (k : Body)   -- a leading `Binary` statement
deriving Repr, Inhabited

/-- Loop body produced by the rewrite. -/
inductive LBody where
  | done (args : List Expr)                          -- end of the loop body: loop values = args
  | bin (x : Name) (op : Op) (e1 e2 : Expr) (k : LBody)
  | sif (c : Expr) (inv : Bool) (v : Body) (k : LBody)   -- `SingleIf c/!c { v…; Break value }`, then k
  | merge (c : Expr) (t e : LBody)                   -- `(Ok, Ok)`: IfElse + fresh temporaries
deriving Repr, Inhabited

/-- `try_rewrite_stmts_for_tailrec_without_using_return_value`; `none` = `Err`. -/
def rw : Body → Option LBody
  | .ret _ => none
  | .tail args => some (.done args)
  | .bin x op e1 e2 k => (rw k).map (.bin x op e1 e2)
  | .ite c t e =>
    match rw t, rw e with
    | none, none => none
    | none, some l2 => some (.sif c false t l2)
    | some l1, none => some (.sif c true e l1)
    | some l1, some l2 => some (.merge c l1 l2)

/-- Outcome of walking a tree once. -/
inductive Walk where
  | value (v : Int)
  | again (vals : List Int)      -- the self call's argument values
deriving DecidableEq, Repr

/-- One activation of the recursive function, up to its return or its tail call. `none` = trap. -/
def walkRec (ev : Op → Int → Int → Option Int) (env : Env) : Body → Option Walk
  | .ret e => some (.value (e.eval env))
  | .tail args => some (.again (args.map (Expr.eval env)))
  | .ite c t e => if c.eval env ≠ 0 then walkRec ev env t else walkRec ev env e
  | .bin x op e1 e2 k =>
    match ev op (e1.eval env) (e2.eval env) with
    | none => none
    | some v => walkRec ev (upd env x v) k

/-- Outcome of one loop iteration. `next env args`: fell off the end of the body with loop-value
expressions `args` still to be assigned (sequentially) in `env`; `nextVals`: the loop values went
through fresh temporaries (`merge`), i.e. they were all read before any parameter is written. -/
inductive LWalk where
  | brk (v : Int)
  | next (env : Env) (args : List Expr)
  | nextVals (vals : List Int)

def walkLoop (ev : Op → Int → Int → Option Int) (env : Env) : LBody → Option LWalk
  | .done args => some (.next env args)
  | .bin x op e1 e2 k =>
    match ev op (e1.eval env) (e2.eval env) with
    | none => none
    | some v => walkLoop ev (upd env x v) k
  | .sif c inv v k =>
    if (decide (c.eval env ≠ 0) != inv) = true then
      match walkRec ev env v with
      | some (.value r) => some (.brk r)
      | _ => none            -- unreachable: `v` has no tail call (it was an `Err` branch)
    else walkLoop ev env k
  | .merge c t e =>
    match (if c.eval env ≠ 0 then walkLoop ev env t else walkLoop ev env e) with
    | none => none
    | some (.brk r) => some (.brk r)
    | some (.next env' args) => some (.nextVals (args.map (Expr.eval env')))   -- final assignments
    | some (.nextVals vs) => some (.nextVals vs)

/-- The recursive function: `fuel` bounds the number of activations. -/
def runRec (ev : Op → Int → Int → Option Int) (params : List Name) (b : Body) :
    Nat → List Int → Option Int
  | 0, _ => none
  | fuel + 1, vals =>
    match walkRec ev (bindParams params vals) b with
    | none => none
    | some (.value v) => some v
    | some (.again vals') => runRec ev params b fuel vals'

/-- `reads_other_parameter` (fix c57720b, `optimize_function_by_tailrec_rewrite_aux`): some argument
of the tail call is a parameter that belongs to another position. -/
def readsOther (params : List Name) (args : List Expr) : Bool :=
  (List.range args.length).any fun i =>
    match args[i]? with
    | some (.var x) => (List.range params.length).any fun j => i != j && params[j]? == some x
    | _ => false

/-- `lir_lowering.rs`, `mir::Statement::While` (fix c8954cc): when a loop value is another loop
variable, every loop value is first copied by a `Cast` into a fresh temporary (appended to the loop
body) and the loop variables read the temporaries; otherwise the loop values are used as they are.
Result: the appended casts and the loop values the backends then assign one after the other. -/
def lowerLoopUpdate (names : List Name) (args : List Expr) (temps : List Name) :
    List (Name × Expr) × List Expr :=
  if readsOther names args then (temps.zip args, temps.map Expr.var) else ([], args)

/-- The rewritten function as the backends run it (`seq = true`), or with all loop values read
before any loop variable is written (`seq = false`, what the recursion means). -/
def runLoop (ev : Op → Int → Int → Option Int) (seq : Bool) (params : List Name) (l : LBody) :
    Nat → List Int → Option Int
  | 0, _ => none
  | fuel + 1, vals =>
    match walkLoop ev (bindParams params vals) l with
    | none => none
    | some (.brk v) => some v
    | some (.nextVals vs) => runLoop ev seq params l fuel vs
    | some (.next env args) =>
      -- fix c57720b: when an argument reads a parameter of another position, all new values are
      -- first copied into fresh temporaries (`Cast`), i.e. read before any loop variable is written
      if seq && !readsOther params args then
        runLoop ev seq params l fuel (params.map (seqAssign env (params.zip args)))
      else runLoop ev seq params l fuel (args.map (Expr.eval env))

/-- Position of a name in the parameter list. -/
def indexOf (params : List Name) (x : Name) : Option Nat :=
  match params with
  | [] => none
  | p :: ps => if p = x then some 0 else (indexOf ps x).map (· + 1)

/-- No loop value reads a parameter that an *earlier* loop-variable assignment has already
overwritten with something else: if argument `i` is not parameter `i` itself, no later argument is
parameter `i`. -/
def noBackwardRef : List Name → List Expr → Bool
  | p :: ps, a :: rest => (a == .var p || rest.all (fun b => b != .var p)) && noBackwardRef ps rest
  | _, _ => true

/-- All directly used loop-value lists (those not passing through `merge` temporaries) are safe. -/
def safeArgs (params : List Name) : LBody → Bool
  | .done args => noBackwardRef params args && args.length == params.length
  | .bin _ _ _ _ k => safeArgs params k
  | .sif _ _ _ k => safeArgs params k
  | .merge _ _ _ => true

/-- Well-typedness of the tail calls: every directly used loop-value list has one value per
parameter (`debug_assert` of the MIR; calls are type checked). -/
def arityOk (k : Nat) : LBody → Bool
  | .done args => args.length == k
  | .bin _ _ _ _ b => arityOk k b
  | .sif _ _ _ b => arityOk k b
  | .merge _ _ _ => true

/-! ## K4 — constant-parameter elimination decision -/

/-- `ParamUsageAnalysisState` (l.11-19); `StrConstant` is carried as a number. -/
inductive PState where
  | unused | referenced | c32 (n : Int) | c31 (n : Int) | cstr (n : Int) | unopt
deriving DecidableEq, Repr, Inhabited

/-- `meet_param_state` (l.21-43). -/
def meet (a b : PState) : PState :=
  match a, b with
  | .unused, _ => .unused
  | _, .unused => .unused
  | .unopt, _ => .unopt
  | _, .unopt => .unopt
  | .referenced, o => o
  | o, .referenced => o
  | a, b => if a = b then a else .unopt

/-- An argument / operand as the analysis sees it. -/
inductive Arg where
  | i32 (n : Int) | i31 (n : Int) | str (n : Int) | var (x : Name)
deriving DecidableEq, Repr, Inhabited

/-- Flow-insensitive summary of a function body: which variables are read by something other than
a direct call's argument list, and the direct calls with their arguments. -/
inductive Atom where
  | read (x : Name)
  | call (f : Nat) (args : List Arg)
deriving Repr, Inhabited

structure Fn where
  name : Nat
  params : List Name
  atoms : List Atom
  closureTarget : Bool := false     -- named by some `ClosureInit` (l.189-196): never optimised
deriving Repr, Inhabited

/-- Names counted as used by the argument list of a self call (l.94-104): every variable argument
except a parameter copied to its own position. -/
def selfCallReads : List Name → List Arg → List Name
  | p :: ps, .var x :: rest => if x = p then selfCallReads ps rest else x :: selfCallReads ps rest
  | _ :: ps, _ :: rest => selfCallReads ps rest
  | [], args => args.filterMap fun a => match a with | .var x => some x | _ => none
  | _, [] => []

def argReads (args : List Arg) : List Name :=
  args.filterMap fun a => match a with | .var x => some x | _ => none

/-- `collect_def_function_usages_*`: names marked `Referenced` in a body. -/
def localReads (f : Fn) : List Name :=
  f.atoms.flatMap fun a => match a with
    | .read x => [x]
    | .call g args => if g = f.name then selfCallReads f.params args else argReads args

def localState (f : Fn) (p : Name) : PState :=
  if (localReads f).contains p then .referenced else .unused

def argState : Arg → PState
  | .i32 n => .c32 n
  | .i31 n => .c31 n
  | .str n => .cstr n
  | .var _ => .unopt

/-- All direct call sites of `g` in program order (`collect_global_usages_*`, l.152-218). -/
def callSites (prog : List Fn) (g : Nat) : List (List Arg) :=
  prog.flatMap fun f => f.atoms.filterMap fun a => match a with
    | .call h args => if h = g then some args else none
    | _ => none

/-- Final state of parameter number `i` of `f`. -/
def paramState (prog : List Fn) (f : Fn) (i : Nat) (p : Name) : PState :=
  (callSites prog f.name).foldl (fun s args => match args[i]? with
      | some a => meet s (argState a)
      | none => s) (localState f p)

/-- `rewrite_sources` (l.358-405): for every optimisable function the final state of each
parameter; a parameter is kept iff its state is `unopt`. -/
def decide (prog : List Fn) : List (Nat × Option (List PState)) :=
  prog.map fun f =>
    (f.name, if f.closureTarget then none
             else some ((List.range f.params.length).zip f.params |>.map fun (i, p) => paramState prog f i p))

end SamVerif.TailRec
