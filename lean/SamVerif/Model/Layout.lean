/-!
# Model of the enum layout choice during generics specialisation (C12, shared idea with C01 K1)

`crates/samlang-compiler/src/mir_generics_specialization.rs`
* `rewrite_type` for an `Id` type, lines 566-631: a type name that is not yet in
  `specialized_type_definition_names` is inserted there (*in progress*), its definition is
  rewritten (which demands the types of its fields, recursively), and only then the finished
  definition is inserted into `specialized_type_definitions` (*done*).
* the variant loop, lines 581-612 (`variantLoop`/`stepV`): an empty variant is `Int31`; the first
  non-empty variant may become `Unboxed` if it has exactly one field whose type passes
  `type_permit_enum_boxed_optimization`; a later non-empty variant reverts it to `Boxed`.
* `type_permit_enum_boxed_optimization`, lines 638-670 (`permit`): `int` → false; a *done* enum →
  all variants `Boxed`; an enum that is **in progress** → `false` (since /repo e715c2f; before that
  fix it answered `true`, which conflated `Cons(Nil)` with `Nil` — C01-F1 / C12-F3).  The answer
  still depends on whether the referenced type is done or in progress, i.e. on the demand order.
  A *struct* (class with fields; also closure contexts and tuples) is always a heap pointer: done or
  in progress it permits (`names.contains(t) && !enum_type_names_in_progress.contains(t)`, and
  `TypeDefinitionMappings::Struct(_) => true`).
* struct definitions (lines 573-579): the field types are rewritten (demanded) left to right.
-/
namespace SamVerif.Layout

inductive Ty where
  | int
  | id (n : Nat)
  deriving Repr, DecidableEq

inductive VLayout where
  | int31
  | unboxed
  | boxed
  deriving Repr, DecidableEq

/-- a type definition: an enum with its variants (field types) or a struct with its field types -/
inductive Def where
  | enum (variants : List (List Ty))
  | struct (fields : List Ty)
  deriving Repr, DecidableEq

abbrev Defs := List (Nat × Def)

/-- a finished definition: the variant layouts of an enum, or a struct (always a pointer) -/
inductive DLayout where
  | enumL (vs : List VLayout)
  | structL
  deriving Repr, DecidableEq

structure St where
  names : List Nat                       -- specialized_type_definition_names
  done : List (Nat × DLayout)            -- specialized_type_definitions
  deriving Repr, DecidableEq

def lookup {β : Type} (l : List (Nat × β)) (n : Nat) : Option β :=
  match l with
  | [] => none
  | (k, v) :: rest => if k = n then some v else lookup rest n

def isStruct (defs : Defs) (n : Nat) : Bool :=
  match lookup defs n with
  | some (.struct _) => true
  | _ => false

/-- lines 638-670 -/
def permit (defs : Defs) (st : St) : Ty → Bool
  | .int => false
  | .id n =>
    match lookup st.done n with
    | some (.enumL vs) => vs.all (· == .boxed)
    | some .structL => true
    -- in progress: a struct is a pointer, an enum still being decided may become i31/unboxed;
    -- unknown name: false
    | none => st.names.contains n && isStruct defs n

structure LoopSt where
  out : List VLayout
  permitFlag : Bool
  pending : Option Nat
  deriving Repr, DecidableEq

/-- One iteration of the loop over `hir_variants` (lines 585-610); `v = (arity, permit bit)` where
the permit bit is `type_permit_enum_boxed_optimization(mapping_types[1])` evaluated at that time. -/
def stepV (s : LoopSt) (v : Nat × Bool) : LoopSt :=
  if v.1 = 0 then { s with out := s.out ++ [.int31] } else
  let out := match s.pending with
    | some i => s.out.set i .boxed
    | none => s.out
  if s.permitFlag && v.1 == 1 && v.2 then
    { out := out ++ [.unboxed], permitFlag := false, pending := some out.length }
  else
    { out := out ++ [.boxed], permitFlag := false, pending := none }

def variantLoop (vs : List (Nat × Bool)) : List VLayout :=
  (vs.foldl stepV { out := [], permitFlag := true, pending := none }).out

/-- Demand the `Id` field types of one variant, left to right (lines 596-598). `rec` is the
recursive `rewrite_type`. -/
def demandFields (rec : St → Nat → St) (s : St) (fields : List Ty) : St :=
  fields.foldl (fun s t => match t with
    | .int => s
    | .id m => rec s m) s

/-- `type_permit_enum_boxed_optimization(mapping_types[1])` for the variant's first field. -/
def firstBit (defs : Defs) (st : St) : List Ty → Bool
  | t :: _ => permit defs st t
  | [] => false

/-- The loop over the variants as far as it touches the specialisation state: per variant, demand
the field types, then evaluate the permit bit. Returns the state and `(arity, bit)` per variant. -/
def demandVariants (defs : Defs) (rec : St → Nat → St) (st : St) (variants : List (List Ty)) :
    St × List (Nat × Bool) :=
  variants.foldl (fun acc fields =>
    let st' := demandFields rec acc.1 fields
    (st', acc.2 ++ [(fields.length, firstBit defs st' fields)])) (st, [])

/-- `rewrite_type` on `Id n` (fuel = recursion depth; `defs.length + 1` always suffices because
every recursive call first adds a new name to `names`). -/
def demand (defs : Defs) : Nat → St → Nat → St
  | 0, st, _ => st
  | fuel + 1, st, n =>
    if st.names.contains n then st else
    match lookup defs n with
    | none => st
    | some (.enum variants) =>
      let r := demandVariants defs (demand defs fuel) { st with names := n :: st.names } variants
      { r.1 with done := (n, .enumL (variantLoop r.2)) :: r.1.done }
    | some (.struct fields) =>
      let st' := demandFields (demand defs fuel) { st with names := n :: st.names } fields
      { st' with done := (n, .structL) :: st'.done }

/-- Specialise from the given roots in order (each root = a type first mentioned by a `main`). -/
def layoutAll (defs : Defs) (roots : List Nat) : St :=
  roots.foldl (fun st r => demand defs (defs.length + 1) st r) { names := [], done := [] }

def layoutOf (defs : Defs) (roots : List Nat) (n : Nat) : Option DLayout :=
  lookup (layoutAll defs roots).done n

end SamVerif.Layout
