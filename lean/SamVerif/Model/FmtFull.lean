import SamVerif.Model.Fmt
/-!
C08, third model: the expression fragment of `Model/Fmt.lean` with the formerly opaque units opened
up — call arguments, tuple elements, the condition and the two branches of if-else, the matched
expression and the case bodies of match, blocks `{ e }`, lambda bodies are recursive sub-expressions.
Blocks have statements (`let … = e;`, `e;`) and an optional final expression.
Still opaque (one token each): identifiers/literals, member names with their optional explicit type
arguments, match patterns (`pattern ->`), the `let pattern [: type] =` prefix of a declaration statement
(patterns themselves: `Model/FmtPat.lean`), lambda parameter lists.

Printer (`source_printer.rs`): `create_doc_without_preceding_comment` (578-790) with
`create_doc_for_parenthesized_expression_list` (486-508; tuples and call arguments, elements never
parenthesised), `create_chainable_ir_docs` (430-484), `create_doc_for_block` (510-576; blocks with a
final expression and no statements), `create_doc_for_if_else` (236-331; `else` followed by a block),
the `Match` arm (701-723; every case is followed by `,`).
Parser (`source_parser.rs`): `parse_expression`/`parse_match`/`parse_if_else` (678-795),
`parse_disjunction` … `parse_factor`, `parse_unary_expression`, `parse_function_call_or_field_access`
(1001-1068: `.name`, `.name<targs>`, `(args)`), `parse_base_expression` (1083-1450: atoms, lambda,
`( e )` unwrapped, `( e , … )` tuple, `{ e }` block), `parse_parenthesized_expression_list` and
`parse_comma_separated_list_with_end_token` (1553-1592, 172-199; a trailing comma is accepted),
`parse_block` (1628-1730), `parse_pattern_to_expression` (725-745).
`BinOp`, `UOp`, the two tables and the literal models are those of `Model/Fmt.lean`.
-/
namespace SamVerif.FmtFull
open SamVerif.Fmt (BinOp UOp)

mutual
/-- `post e p fld`: member access; `fld = true`: plain `.name`, `false`: `.name<targs>`.
`call0 f` = `f()`, `call f args` = `f(a1, …)`; `tuple e es` = `(e, es…)` (at least two elements);
`block b` = `{ statements… final? }`; `ifElse c t e` = `if c t else e` with blocks `t`, `e`;
`matchE m cs`; `lambda k body`. -/
inductive Expr where
  | atom (a : Nat)
  | tuple (e : Expr) (es : Args)
  | block (b : Blk)
  | post (e : Expr) (p : Nat) (field : Bool)
  | call0 (f : Expr)
  | call (f : Expr) (args : Args)
  | unary (u : UOp) (e : Expr)
  | binary (o : BinOp) (l r : Expr)
  | ifElse (c : Expr) (t e : Blk)
  | matchE (m : Expr) (cs : Cases)
  | lambda (k : Nat) (body : Expr)
  deriving DecidableEq
/-- non-empty list of expressions. -/
inductive Args where
  | one (e : Expr)
  | cons (e : Expr) (rest : Args)
  deriving DecidableEq
/-- non-empty list of match cases (opaque pattern, body). -/
inductive Cases where
  | one (pat : Nat) (body : Expr)
  | cons (pat : Nat) (body : Expr) (rest : Cases)
  deriving DecidableEq
/-- statements of a block: `let pattern [: type] = e;` (`k` numbers the opaque text up to `=`) and
expression statements `e;`. -/
inductive Stmts where
  | nil
  | letS (k : Nat) (e : Expr) (rest : Stmts)
  | exprS (e : Expr) (rest : Stmts)
  deriving DecidableEq
/-- a block: statements and an optional final expression. -/
inductive Blk where
  | fin (ss : Stmts) (e : Expr)
  | noFin (ss : Stmts)
  deriving DecidableEq
end

instance : Inhabited Expr := ⟨.atom 0⟩

/-- `E::precedence` (source.rs:698-708). -/
def Expr.prec : Expr → Nat
  | .atom _ | .tuple _ _ => 0
  | .block _ | .post _ _ _ | .call0 _ | .call _ _ => 1
  | .unary _ _ => 2
  | .binary o _ _ => 4 + o.pprec
  | .ifElse _ _ _ => 10
  | .matchE _ _ => 11
  | .lambda _ _ => 12

inductive Tok where
  | lp | rp | bang | comma | lb | rb | kwIf | kwElse | kwMatch | semi
  | op (o : BinOp)
  | atom (a : Nat)
  | post (p : Nat) (field : Bool)
  | pat (k : Nat)      -- `pattern ->`
  | letK (k : Nat)     -- `let pattern [: type] =`
  | lam (k : Nat)      -- `(params) ->`
  deriving DecidableEq, Repr, Inhabited

def paren (ts : List Tok) : List Tok := Tok.lp :: (ts ++ [Tok.rp])

def needParen (p : Nat) (equalLevelParenthesis : Bool) (e : Expr) : Bool :=
  if equalLevelParenthesis then decide (e.prec ≥ p) else decide (e.prec > p)

def sub (p : Nat) (equalLevelParenthesis : Bool) (e : Expr) (ts : List Tok) : List Tok :=
  if needParen p equalLevelParenthesis e then paren ts else ts

def utok : UOp → Tok
  | .not => .bang
  | .neg => .op .minus

/-- the right-operand shortcut (after fixes 9730edb, 8fbb1c9). -/
def shortcutOk (o : BinOp) (r : Expr) : Bool :=
  match r with
  | .binary o' r1 _ =>
    (o == .plus || o == .mul || o == .and || o == .or) && o' == o && r1.prec != 4 + o.pprec
  | _ => false

/-- `ends_with_member_name` (fix 0291c0a). -/
def endsMember : Expr → Bool
  | .post _ _ fld => fld
  | .unary _ a => decide (a.prec < 2) && endsMember a
  | .binary _ _ r => endsMember r
  | .lambda _ b => endsMember b
  | _ => false

mutual
def printE : Expr → List Tok
  | .atom a => [.atom a]
  | .tuple e es => .lp :: (printE e ++ .comma :: (printArgs es ++ [.rp]))
  | .block b => .lb :: printBody b
  | .post e p fld => sub 1 false e (printE e) ++ [.post p fld]
  | .call0 f => sub 1 false f (printE f) ++ [.lp, .rp]
  | .call f args => sub 1 false f (printE f) ++ .lp :: (printArgs args ++ [.rp])
  | .unary u e => utok u :: sub 2 true e (printE e)
  | .binary o l r =>
    let p := 4 + o.pprec
    if o = .lt ∧ endsMember l = true then
      paren (printE l) ++ [.op o] ++ sub p true r (printE r)
    else if l.prec = p then
      printE l ++ [.op o] ++ sub p true r (printE r)
    else if r.prec = p ∧ shortcutOk o r = true then
      sub p true l (printE l) ++ [.op o] ++ printE r
    else
      sub p true l (printE l) ++ [.op o] ++ sub p true r (printE r)
  | .ifElse c t e =>
    .kwIf :: (printE c ++ .lb :: (printBody t ++ .kwElse :: .lb :: printBody e))
  | .matchE m cs => .kwMatch :: (printE m ++ .lb :: (printCases cs ++ [.rb]))
  | .lambda k body => .lam k :: sub 12 false body (printE body)
def printArgs : Args → List Tok
  | .one e => printE e
  | .cons e rest => printE e ++ .comma :: printArgs rest
def printCases : Cases → List Tok
  | .one k b => .pat k :: (printE b ++ [.comma])
  | .cons k b rest => .pat k :: (printE b ++ .comma :: printCases rest)
/-- `create_doc_for_block` after the opening brace (source_printer.rs:510-576): statements, final
expression, closing brace. -/
def printBody : Blk → List Tok
  | .fin ss e => printStmts ss ++ (printE e ++ [.rb])
  | .noFin ss => printStmts ss ++ [.rb]
/-- `statement_to_document` / `declaration_statement_to_document` (883-929). -/
def printStmts : Stmts → List Tok
  | .nil => []
  | .letS k e rest => .letK k :: (printE e ++ .semi :: printStmts rest)
  | .exprS e rest => printE e ++ .semi :: printStmts rest
end

def startsLt : List Tok → Bool
  | .op .lt :: _ => true
  | _ => false

abbrev PResult := Option (Expr × List Tok)

def Blk.consLet (k : Nat) (e : Expr) : Blk → Blk
  | .fin ss x => .fin (.letS k e ss) x
  | .noFin ss => .noFin (.letS k e ss)
def Blk.consExpr (e : Expr) : Blk → Blk
  | .fin ss x => .fin (.exprS e ss) x
  | .noFin ss => .noFin (.exprS e ss)

mutual
/-- `parse_expression`. -/
def parseTop : Nat → List Tok → PResult
  | 0, _ => none
  | f + 1, .kwMatch :: ts =>
    match parseTop f ts with
    | some (m, .lb :: r) =>
      match parseCases f r with
      | some (cs, r') => some (.matchE m cs, r')
      | none => none
    | _ => none
  | f + 1, .kwIf :: ts =>
    match parseTop f ts with
    | some (c, .lb :: r) =>
      match parseStmts f r with
      | some (t, .kwElse :: .lb :: r2) =>
        match parseStmts f r2 with
        | some (e, r3) => some (.ifElse c t e, r3)
        | none => none
      | _ => none
    | _ => none
  | f + 1, ts => parseLevel f 0 ts
/-- `parse_block` after the opening brace (1628-1730): `let` statements, empty statements, expression
statements, the optional final expression, through the closing brace. -/
def parseStmts : Nat → List Tok → Option (Blk × List Tok)
  | 0, _ => none
  | _ + 1, .rb :: r => some (.noFin .nil, r)
  | f + 1, .semi :: r => parseStmts f r
  | f + 1, .letK k :: ts =>
    match parseTop f ts with
    | some (e, .semi :: r) =>
      match parseStmts f r with
      | some (b, r') => some (b.consLet k e, r')
      | none => none
    | _ => none
  | f + 1, ts =>
    match parseTop f ts with
    | some (e, .semi :: r) =>
      match parseStmts f r with
      | some (b, r') => some (b.consExpr e, r')
      | none => none
    | some (e, .rb :: r) => some (.fin .nil e, r)
    | _ => none
/-- `parse_pattern_to_expression` loop of `parse_match`, through the closing brace. -/
def parseCases : Nat → List Tok → Option (Cases × List Tok)
  | 0, _ => none
  | f + 1, .pat k :: ts =>
    match parseTop f ts with
    | some (b, .rb :: r) => some (.one k b, r)
    | some (b, .comma :: .rb :: r) => some (.one k b, r)
    | some (b, .comma :: r) =>
      match parseCases f r with
      | some (cs, r') => some (.cons k b cs, r')
      | none => none
    | _ => none
  | _ + 1, _ => none
/-- `parse_comma_separated_list_with_end_token(RightParenthesis, …)` + the closing parenthesis. -/
def parseArgs : Nat → List Tok → Option (Args × List Tok)
  | 0, _ => none
  | f + 1, ts =>
    match parseTop f ts with
    | some (e, .rp :: r) => some (.one e, r)
    | some (e, .comma :: .rp :: r) => some (.one e, r)
    | some (e, .comma :: r) =>
      match parseArgs f r with
      | some (es, r') => some (.cons e es, r')
      | none => none
    | _ => none
/-- `parse_base_expression`. -/
def parseBase : Nat → List Tok → PResult
  | 0, _ => none
  | _ + 1, .atom a :: ts => some (.atom a, ts)
  | f + 1, .lam k :: ts =>
    match parseTop f ts with
    | some (body, r) => some (.lambda k body, r)
    | none => none
  | f + 1, .lb :: ts =>
    match parseStmts f ts with
    | some (b, r) => some (.block b, r)
    | none => none
  | f + 1, .lp :: ts =>
    match parseTop f ts with
    | some (e, .rp :: r) => some (e, r)
    | some (e, .comma :: .rp :: r) => some (e, r)     -- `(e,)` is just `e` (build_tuple, 1686-1688)
    | some (e, .comma :: r) =>
      match parseArgs f r with
      | some (es, r') => some (.tuple e es, r')
      | none => none
    | _ => none
  | _ + 1, _ => none
def parseUnary : Nat → List Tok → PResult
  | 0, _ => none
  | f + 1, .bang :: ts =>
    match parseLevel f 6 ts with
    | some (e, r) => some (.unary .not e, r)
    | none => none
  | f + 1, .op .minus :: ts =>
    match parseLevel f 6 ts with
    | some (e, r) => some (.unary .neg e, r)
    | none => none
  | f + 1, ts => parseLevel f 6 ts
def parseLevel : Nat → Nat → List Tok → PResult
  | 0, _, _ => none
  | f + 1, k, ts =>
    if k ≥ 6 then
      match parseBase f ts with
      | none => none
      | some (e, r) => parseLoop f 6 e r
    else if k = 5 then parseUnary f ts
    else
      match parseLevel f (k + 1) ts with
      | none => none
      | some (e, r) => parseLoop f k e r
def parseLoop : Nat → Nat → Expr → List Tok → PResult
  | 0, _, _, _ => none
  | f + 1, k, e, .op o :: ts =>
    if o.plevel = k then
      match parseLevel f (k + 1) ts with
      | none => none
      | some (e2, r) => parseLoop f k (.binary o e e2) r
    else some (e, .op o :: ts)
  | f + 1, k, e, .post p fld :: ts =>
    if k = 6 then
      if fld && startsLt ts then none else parseLoop f k (.post e p fld) ts
    else some (e, .post p fld :: ts)
  | f + 1, k, e, .lp :: ts =>
    if k = 6 then
      match ts with
      | .rp :: r => parseLoop f k (.call0 e) r
      | _ =>
        match parseArgs f ts with
        | some (args, r) => parseLoop f k (.call e args) r
        | none => none
    else some (e, .lp :: ts)
  | _ + 1, _, e, ts => some (e, ts)
end

def parseFuel (f : Nat) (ts : List Tok) : Option Expr :=
  match parseTop f ts with
  | some (e, []) => some e
  | _ => none

def fuelFor (ts : List Tok) : Nat := 256 * ts.length + 256

def parseE (ts : List Tok) : Option Expr := parseFuel (fuelFor ts) ts

def Expr.operandOk : Expr → Bool
  | .ifElse _ _ _ | .matchE _ _ | .lambda _ _ => false
  | _ => true

def Expr.lvl : Expr → Nat
  | .atom _ | .tuple _ _ | .block _ | .post _ _ _ | .call0 _ | .call _ _ => 6
  | .unary _ _ => 5
  | .binary o _ _ => o.plevel
  | .ifElse _ _ _ | .matchE _ _ | .lambda _ _ => 0

def lParen (o : BinOp) (l : Expr) : Bool :=
  if o = .lt ∧ endsMember l = true then true
  else if l.prec = 4 + o.pprec then false else needParen (4 + o.pprec) true l
def rParen (o : BinOp) (l r : Expr) : Bool :=
  if l.prec = 4 + o.pprec then needParen (4 + o.pprec) true r
  else if r.prec = 4 + o.pprec ∧ shortcutOk o r = true then false
  else needParen (4 + o.pprec) true r

/-- the printed form of the expression ends with a plain member name (`.name`). -/
def lastField : Expr → Bool
  | .post _ _ fld => fld
  | .unary _ a => if needParen 2 true a then false else lastField a
  | .binary o l r => if rParen o l r then false else lastField r
  | .lambda _ b => lastField b
  | _ => false

def usesShortcut (o : BinOp) (l r : Expr) : Bool :=
  l.prec != 4 + o.pprec && r.prec == 4 + o.pprec && shortcutOk o r

def wrapCtx (ctx : Option (BinOp × Expr)) (x : Expr) : Expr :=
  match ctx with
  | none => x
  | some (o, acc) => .binary o acc x

mutual
/-- the tree read back from the printed form (see `Model/Fmt.lean`, `rg`). -/
def rg (ctx : Option (BinOp × Expr)) : Expr → Expr
  | .atom a => wrapCtx ctx (.atom a)
  | .tuple e es => wrapCtx ctx (.tuple (rg none e) (rgArgs es))
  | .block b => wrapCtx ctx (.block (rgBlk b))
  | .post e p f => wrapCtx ctx (.post (rg none e) p f)
  | .call0 f => wrapCtx ctx (.call0 (rg none f))
  | .call f args => wrapCtx ctx (.call (rg none f) (rgArgs args))
  | .unary u e => wrapCtx ctx (.unary u (rg none e))
  | .ifElse c t e => wrapCtx ctx (.ifElse (rg none c) (rgBlk t) (rgBlk e))
  | .matchE m cs => wrapCtx ctx (.matchE (rg none m) (rgCases cs))
  | .lambda k b => wrapCtx ctx (.lambda k (rg none b))
  | .binary o' a b =>
    match ctx with
    | none =>
      if usesShortcut o' a b then rg (some (o', rg none a)) b
      else .binary o' (rg none a) (rg none b)
    | some (o, acc) =>
      if usesShortcut o a b then rg (some (o, .binary o acc (rg none a))) b
      else .binary o (.binary o acc (rg none a)) (rg none b)
def rgArgs : Args → Args
  | .one e => .one (rg none e)
  | .cons e rest => .cons (rg none e) (rgArgs rest)
def rgCases : Cases → Cases
  | .one k b => .one k (rg none b)
  | .cons k b rest => .cons k (rg none b) (rgCases rest)
def rgBlk : Blk → Blk
  | .fin ss e => .fin (rgStmts ss) (rg none e)
  | .noFin ss => .noFin (rgStmts ss)
def rgStmts : Stmts → Stmts
  | .nil => .nil
  | .letS k e rest => .letS k (rg none e) (rgStmts rest)
  | .exprS e rest => .exprS (rg none e) (rgStmts rest)
end

/-! ### the tuple size limit (`MAX_STRUCT_SIZE`, source_parser.rs:7; `build_tuple` and
`parse_parenthesized_expression_list_with_start`) -/

def Args.len : Args → Nat
  | .one _ => 1
  | .cons _ rest => rest.len + 1

mutual
/-- every tuple expression has at most 16 elements. The real parser has two code paths that build a
tuple (`( lowerId …` through the lambda/tuple cover grammar, anything else through the expression
list); both report "Maximum allowed tuple size is 16" beyond that, so acceptance depends only on the
number of elements — which is all the model says. -/
def sizeOk : Expr → Bool
  | .atom _ => true
  | .tuple e es => decide (es.len + 1 ≤ 16) && sizeOk e && sizeOkArgs es
  | .block b => sizeOkBlk b
  | .post e _ _ => sizeOk e
  | .call0 f => sizeOk f
  | .call f args => sizeOk f && sizeOkArgs args
  | .unary _ e => sizeOk e
  | .binary _ l r => sizeOk l && sizeOk r
  | .ifElse c t e => sizeOk c && sizeOkBlk t && sizeOkBlk e
  | .matchE m cs => sizeOk m && sizeOkCases cs
  | .lambda _ b => sizeOk b
def sizeOkArgs : Args → Bool
  | .one e => sizeOk e
  | .cons e rest => sizeOk e && sizeOkArgs rest
def sizeOkCases : Cases → Bool
  | .one _ b => sizeOk b
  | .cons _ b rest => sizeOk b && sizeOkCases rest
def sizeOkBlk : Blk → Bool
  | .fin ss e => sizeOkStmts ss && sizeOk e
  | .noFin ss => sizeOkStmts ss
def sizeOkStmts : Stmts → Bool
  | .nil => true
  | .letS _ e rest => sizeOk e && sizeOkStmts rest
  | .exprS e rest => sizeOk e && sizeOkStmts rest
end

/-- the parser with its size check: a parse is accepted iff every tuple is within the limit. -/
def parseExpr (ts : List Tok) : Option Expr :=
  match parseE ts with
  | some e => if sizeOk e then some e else none
  | none => none

def regroup (e : Expr) : Expr := rg none e
def graftR (o : BinOp) (acc : Expr) (r : Expr) : Expr := rg (some (o, acc)) r

end SamVerif.FmtFull
