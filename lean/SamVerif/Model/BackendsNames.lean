import SamVerif.Generated.TsReserved
import SamVerif.Generated.Keywords
/-
C04 — names of variables in the emitted TypeScript (`push_variable_name`, `crates/samlang-ast/src/lir.rs`).
samlang identifiers are a superset of what JavaScript allows as a binding name: every lower-case
identifier that is not a samlang keyword is legal in samlang, among them `with`, `default`, `new`,
`typeof`, `arguments`, `undefined` …  The TypeScript printer prefixes the words of the table
`TS_RESERVED_WORDS` (regenerated into `Generated/TsReserved.lean` on every run) with `$`; the
WebAssembly printer writes `$name` locals and needs nothing.
This is the ONLY file of C04 that imports another property's generated table
(`Generated/Keywords.lean`, samlang's keyword tokens, maintained by C05's translator).
Core Lean only.
-/
namespace SamVerif.Backends

/-- ECMAScript 2024 §12.7.2 ReservedWord: never a binding name -/
def esReservedWords : List (List UInt8) := [
  [98, 114, 101, 97, 107] /- break -/,
  [99, 97, 115, 101] /- case -/,
  [99, 97, 116, 99, 104] /- catch -/,
  [99, 108, 97, 115, 115] /- class -/,
  [99, 111, 110, 115, 116] /- const -/,
  [99, 111, 110, 116, 105, 110, 117, 101] /- continue -/,
  [100, 101, 98, 117, 103, 103, 101, 114] /- debugger -/,
  [100, 101, 102, 97, 117, 108, 116] /- default -/,
  [100, 101, 108, 101, 116, 101] /- delete -/,
  [100, 111] /- do -/,
  [101, 108, 115, 101] /- else -/,
  [101, 110, 117, 109] /- enum -/,
  [101, 120, 112, 111, 114, 116] /- export -/,
  [101, 120, 116, 101, 110, 100, 115] /- extends -/,
  [102, 97, 108, 115, 101] /- false -/,
  [102, 105, 110, 97, 108, 108, 121] /- finally -/,
  [102, 111, 114] /- for -/,
  [102, 117, 110, 99, 116, 105, 111, 110] /- function -/,
  [105, 102] /- if -/,
  [105, 109, 112, 111, 114, 116] /- import -/,
  [105, 110] /- in -/,
  [105, 110, 115, 116, 97, 110, 99, 101, 111, 102] /- instanceof -/,
  [110, 101, 119] /- new -/,
  [110, 117, 108, 108] /- null -/,
  [114, 101, 116, 117, 114, 110] /- return -/,
  [115, 117, 112, 101, 114] /- super -/,
  [115, 119, 105, 116, 99, 104] /- switch -/,
  [116, 104, 105, 115] /- this -/,
  [116, 104, 114, 111, 119] /- throw -/,
  [116, 114, 117, 101] /- true -/,
  [116, 114, 121] /- try -/,
  [116, 121, 112, 101, 111, 102] /- typeof -/,
  [118, 97, 114] /- var -/,
  [118, 111, 105, 100] /- void -/,
  [119, 104, 105, 108, 101] /- while -/,
  [119, 105, 116, 104] /- with -/
]

/-- reserved in strict-mode code / modules (an emitted .ts may be loaded as either), plus `let`, `await` -/
def esStrictWords : List (List UInt8) := [
  [121, 105, 101, 108, 100] /- yield -/,
  [108, 101, 116] /- let -/,
  [115, 116, 97, 116, 105, 99] /- static -/,
  [105, 109, 112, 108, 101, 109, 101, 110, 116, 115] /- implements -/,
  [105, 110, 116, 101, 114, 102, 97, 99, 101] /- interface -/,
  [112, 97, 99, 107, 97, 103, 101] /- package -/,
  [112, 114, 105, 118, 97, 116, 101] /- private -/,
  [112, 114, 111, 116, 101, 99, 116, 101, 100] /- protected -/,
  [112, 117, 98, 108, 105, 99] /- public -/,
  [97, 119, 97, 105, 116] /- await -/
]

/-- not reserved, but the emitted code relies on their global meaning inside function bodies (`undefined as any`) or strict mode forbids binding them -/
def esSpecialNames : List (List UInt8) := [
  [97, 114, 103, 117, 109, 101, 110, 116, 115] /- arguments -/,
  [101, 118, 97, 108] /- eval -/,
  [117, 110, 100, 101, 102, 105, 110, 101, 100] /- undefined -/
]

/-- every word that must not reach the emitted TypeScript as a binding name -/
def esWords : List (List UInt8) := esReservedWords ++ esStrictWords ++ esSpecialNames

/-- samlang keyword tokens (`lexer.rs`, via C05's generated table) -/
def samKeywords : List (List UInt8) := SamVerif.Generated.Keywords.keywords.map (·.1)

def isLower (b : UInt8) : Bool := 97 ≤ b && b ≤ 122
def isAlnum (b : UInt8) : Bool := isLower b || (65 ≤ b && b ≤ 90) || (48 ≤ b && b ≤ 57)

/-- a word the samlang lexer and parser accept as a variable / parameter name: a lower-case
identifier that is not a keyword -/
def isSamIdent (w : List UInt8) : Bool :=
  match w with
  | [] => false
  | c :: r => isLower c && r.all isAlnum && !samKeywords.contains w

/-- `push_variable_name` -/
def mangle (w : List UInt8) : List UInt8 := if tsReservedWords.contains w then 36 :: w else w

end SamVerif.Backends
