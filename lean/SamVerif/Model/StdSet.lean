/-
Model of `std/set.sam` (class `Set<V: Comparable<V>>`), function by function.  Core Lean only.
Conventions as in `Model/StdMap.lean`: `cmp a b` = `a.compare(b)`; a `Process.panic` (including
`Option.unwrap` of `None`) = `none`; reference equality `l == ll` = structural equality (same
argument as for maps); `union` / `subset` / `map` carry fuel (outer `none` = out of fuel).
-/
namespace SamVerif.StdSet

inductive STree (E : Type) where
  | empty : STree E
  | leaf (v : E) : STree E
  | node (h : Int) (v : E) (l r : STree E) : STree E
  deriving DecidableEq, Repr, Inhabited

variable {E : Type} [DecidableEq E]

/-- `height` (set.sam:373) -/
def height : STree E → Int
  | .empty => 0
  | .leaf _ => 1
  | .node h _ _ _ => h

/-- `isEmpty` (set.sam:28) -/
def isEmpty : STree E → Bool
  | .empty => true
  | _ => false

/-- `contains` (set.sam:35) -/
def contains (cmp : E → E → Int) : STree E → E → Bool
  | .empty, _ => false
  | .leaf v, value => cmp v value = 0
  | .node _ v l r, value =>
    let c := cmp value v
    c = 0 || (if c < 0 then contains cmp l value else contains cmp r value)

/-- `create` (set.sam:380): always a `Node` -/
def create (l : STree E) (v : E) (r : STree E) : STree E :=
  let lh := height l
  let rh := height r
  let h := if lh ≥ rh then lh + 1 else rh + 1
  .node h v l r

/-- `unsafeNode` (set.sam:387) -/
def unsafeNode (l : STree E) (v : E) (r : STree E) : STree E :=
  match l, r with
  | .empty, .empty => .leaf v
  | .leaf _, .empty => .node 2 v l r
  | .empty, .leaf _ => .node 2 v l r
  | .leaf _, .leaf _ => .node 2 v l r
  | .node h _ _ _, .leaf _ => .node (h + 1) v l r
  | .node h _ _ _, .empty => .node (h + 1) v l r
  | .leaf _, .node h _ _ _ => .node (h + 1) v l r
  | .empty, .node h _ _ _ => .node (h + 1) v l r
  | .node hl _ _ _, .node hr _ _ _ =>
    let h := if hl ≥ hr then hl + 1 else hr + 1
    .node h v l r

/-- `balanced` (set.sam:411), `forcedNodeWithoutHeight` inlined -/
def balanced (l : STree E) (v : E) (r : STree E) : Option (STree E) :=
  let lh := height l
  let rh := height r
  if lh > rh + 2 then
    match l with
    | .node _ lv ll lr =>
      if height ll ≥ height lr then some (create ll lv (unsafeNode lr v r))
      else
        match lr with
        | .node _ lrv lrl lrr => some (create (unsafeNode ll lv lrl) lrv (unsafeNode lrr v r))
        | _ => none
    | _ => none
  else if rh > lh + 2 then
    match r with
    | .node _ rv rl rr =>
      if height rr ≥ height rl then some (create (unsafeNode l v rl) rv rr)
      else
        match rl with
        | .node _ rlv rll rlr => some (create (unsafeNode l v rll) rlv (unsafeNode rlr rv rr))
        | _ => none
    | _ => none
  else some (unsafeNode l v r)

/-- `insert` (set.sam:45) -/
def insert (cmp : E → E → Int) : STree E → E → Option (STree E)
  | .empty, value => some (.leaf value)
  | .leaf v, value =>
    let c := cmp value v
    if c = 0 then some (.leaf v)
    else if c < 0 then some (unsafeNode (.leaf value) v .empty)
    else some (unsafeNode (.leaf v) value .empty)
  | .node h v l r, value =>
    let c := cmp value v
    if c = 0 then some (.node h v l r)
    else if c < 0 then
      match insert cmp l value with
      | none => none
      | some ll => if l = ll then some (.node h v l r) else balanced ll v r
    else
      match insert cmp r value with
      | none => none
      | some rr => if r = rr then some (.node h v l r) else balanced l v rr

/-- `addMinElement` (set.sam:440) -/
def addMinElement (newV : E) : STree E → Option (STree E)
  | .empty => some (.leaf newV)
  | .leaf v => some (unsafeNode (.leaf newV) v .empty)
  | .node _ v l r =>
    match addMinElement newV l with
    | none => none
    | some l' => balanced l' v r

/-- `addMaxElement` (set.sam:447) -/
def addMaxElement (newV : E) : STree E → Option (STree E)
  | .empty => some (.leaf newV)
  | .leaf v => some (unsafeNode .empty v (.leaf newV))
  | .node _ v l r =>
    match addMaxElement newV r with
    | none => none
    | some r' => balanced l v r'

def nodes : STree E → Nat
  | .empty => 0
  | .leaf _ => 1
  | .node _ _ l r => nodes l + nodes r + 1

/-- `join` (set.sam:455) -/
def join : STree E → E → STree E → Option (STree E)
  | .empty, v, r => addMinElement v r
  | .leaf a, v, .empty => addMaxElement v (.leaf a)
  | .node lh lv ll lr, v, .empty => addMaxElement v (.node lh lv ll lr)
  | .leaf a, v, .leaf c => some (unsafeNode (.leaf a) v (.leaf c))
  | .leaf a, v, .node rh rv rl rr =>
    if rh > 3 then
      match join (.leaf a) v rl with
      | none => none
      | some t => balanced t rv rr
    else some (create (.leaf a) v (.node rh rv rl rr))
  | .node lh lv ll lr, v, .leaf c =>
    if lh > 3 then
      match join lr v (.leaf c) with
      | none => none
      | some t => balanced ll lv t
    else some (create (.node lh lv ll lr) v (.leaf c))
  | .node lh lv ll lr, v, .node rh rv rl rr =>
    if lh > rh + 2 then
      match join lr v (.node rh rv rl rr) with
      | none => none
      | some t => balanced ll lv t
    else if rh > lh + 2 then
      match join (.node lh lv ll lr) v rl with
      | none => none
      | some t => balanced t rv rr
    else some (create (.node lh lv ll lr) v (.node rh rv rl rr))
termination_by l _ r => nodes l + nodes r
decreasing_by all_goals (simp only [nodes]; omega)

/-- `min` (set.sam:347) -/
def min : STree E → Option E
  | .empty => none
  | .leaf v => some v
  | .node _ v child _ => if isEmpty child then some v else min child

/-- `max` (set.sam:354) (the recursive call was `child.min()` before fix C18-F1). -/
def max : STree E → Option E
  | .empty => none
  | .leaf v => some v
  | .node _ v _ child => if isEmpty child then some v else max child

/-- `removeMin` (set.sam:361) -/
def removeMin : STree E → Option (STree E)
  | .empty => none
  | .leaf _ => some .empty
  | .node _ _ .empty r => some r
  | .node _ v (.leaf _) r => balanced .empty v r
  | .node _ v (.node lh lv ll lr) r =>
    match removeMin (.node lh lv ll lr) with
    | none => none
    | some l' => balanced l' v r

/-- `concat` (set.sam:489) -/
def concat (t1 t2 : STree E) : Option (STree E) :=
  match t1, t2 with
  | .empty, t => some t
  | t, .empty => some t
  | _, _ =>
    match min t2 with
    | none => none
    | some m =>
      match removeMin t2 with
      | none => none
      | some t2' => join t1 m t2'

/-- `split` (set.sam:69) -/
def split (cmp : E → E → Int) : STree E → E → Option (STree E × Bool × STree E)
  | .empty, _ => some (.empty, false, .empty)
  | .leaf v, value =>
    let c := cmp value v
    if c = 0 then some (.empty, true, .empty)
    else if c < 0 then some (.empty, false, .leaf v)
    else some (.leaf v, false, .empty)
  | .node _ v l r, value =>
    let c := cmp value v
    if c = 0 then some (l, true, r)
    else if c < 0 then
      match split cmp l value with
      | none => none
      | some (ll, pres, rl) =>
        match join rl v r with
        | none => none
        | some t => some (ll, pres, t)
    else
      match split cmp r value with
      | none => none
      | some (lr, pres, rr) =>
        match join l v lr with
        | none => none
        | some t => some (t, pres, rr)

/-- `union` (set.sam:98), fuelled -/
def union (cmp : E → E → Int) : Nat → STree E → STree E → Option (Option (STree E))
  | 0, _, _ => none
  | fuel + 1, this, other =>
    match this, other with
    | .empty, _ => some (some other)
    | _, .empty => some (some this)
    | .leaf v, s2 => some (insert cmp s2 v)
    | s1, .leaf v => some (insert cmp s1 v)
    | .node h1 v1 l1 r1, .node h2 v2 l2 r2 =>
      if h1 ≥ h2 then
        if h2 = 1 then some (insert cmp this v2)
        else
          match split cmp other v1 with
          | none => some none
          | some (ll2, _, rr2) =>
            match union cmp fuel l1 ll2 with
            | none => none
            | some none => some none
            | some (some a) =>
              match union cmp fuel r1 rr2 with
              | none => none
              | some none => some none
              | some (some b) => some (join a v1 b)
      else if h1 = 1 then some (insert cmp other v1)
      else
        match split cmp this v2 with
        | none => some none
        | some (ll1, _, rr1) =>
          match union cmp fuel ll1 l2 with
          | none => none
          | some none => some none
          | some (some a) =>
            match union cmp fuel rr1 r2 with
            | none => none
            | some none => some none
            | some (some b) => some (join a v2 b)

/-- `intersection` (set.sam:123) -/
def intersection (cmp : E → E → Int) : STree E → STree E → Option (STree E)
  | .empty, _ => some .empty
  | .leaf v, other =>
    match other with
    | .empty => some .empty
    | _ => if contains cmp other v then some (.leaf v) else some .empty
  | .node _ v1 l1 r1, other =>
    match other with
    | .empty => some .empty
    | _ =>
      match split cmp other v1 with
      | none => none
      | some (l2, b, r2) =>
        match intersection cmp l1 l2 with
        | none => none
        | some a =>
          match intersection cmp r1 r2 with
          | none => none
          | some c => if b then join a v1 c else concat a c

/-- `diff` (set.sam:140) (the `(_, Empty)` arm returned `other` before fix C18-F5). -/
def diff (cmp : E → E → Int) : STree E → STree E → Option (STree E)
  | .empty, _ => some .empty
  | .leaf v, other =>
    match other with
    | .empty => some (.leaf v)
    | _ => if contains cmp other v then some .empty else some (.leaf v)
  | .node h v1 l1 r1, other =>
    match other with
    | .empty => some (.node h v1 l1 r1)
    | _ =>
      match split cmp other v1 with
      | none => none
      | some (l2, b, r2) =>
        match diff cmp l1 l2 with
        | none => none
        | some a =>
          match diff cmp r1 r2 with
          | none => none
          | some c => if b then concat a c else join a v1 c

/-- `subset` (set.sam:157), fuelled -/
def subset (cmp : E → E → Int) : Nat → STree E → STree E → Option Bool
  | 0, _, _ => none
  | fuel + 1, this, other =>
    match this, other with
    | .empty, _ => some true
    | _, .empty => some false
    | .leaf v1, .leaf v2 => some (cmp v1 v2 = 0)
    | .node h v1 _ _, .leaf v2 => some (h = 1 && cmp v1 v2 = 0)
    | .leaf v1, .node _ v2 l2 r2 =>
      let c := cmp v1 v2
      if c = 0 then some true
      else if c < 0 then subset cmp fuel this l2 else subset cmp fuel this r2
    | .node _ v1 l1 r1, .node _ v2 l2 r2 =>
      let c := cmp v1 v2
      if c = 0 then
        match subset cmp fuel l1 l2 with
        | none => none
        | some false => some false
        | some true => subset cmp fuel r1 r2
      else if c < 0 then
        match subset cmp fuel (unsafeNode l1 v1 .empty) l2 with
        | none => none
        | some false => some false
        | some true => subset cmp fuel r1 other
      else
        match subset cmp fuel (unsafeNode .empty v1 r1) r2 with
        | none => none
        | some false => some false
        | some true => subset cmp fuel l1 other

/-- `internalMerge` (set.sam:181) (both `Empty` arms returned `Set.empty()` before fix C18-F4). -/
def internalMerge (this other : STree E) : Option (STree E) :=
  match this, other with
  | .empty, _ => some other
  | _, .empty => some this
  | _, _ =>
    match min other with
    | none => none
    | some m =>
      match removeMin other with
      | none => none
      | some o' => balanced this m o'

/-- `remove` (set.sam:189) -/
def remove (cmp : E → E → Int) : STree E → E → Option (STree E)
  | .empty, _ => some .empty
  | .leaf v, value => if cmp value v = 0 then some .empty else some (.leaf v)
  | .node h v l r, value =>
    let c := cmp value v
    if c = 0 then internalMerge l r
    else if c < 0 then
      match remove cmp l value with
      | none => none
      | some ll => if l = ll then some (.node h v l r) else balanced ll v r
    else
      match remove cmp r value with
      | none => none
      | some rr => if r = rr then some (.node h v l r) else balanced l v rr

/-- `fromList` (set.sam:205): `list.fold((acc, e) -> acc.insert(e), empty)` -/
def fromList (cmp : E → E → Int) : List E → STree E → Option (STree E)
  | [], acc => some acc
  | e :: rest, acc =>
    match insert cmp acc e with
    | none => none
    | some acc' => fromList cmp rest acc'

/-- `fold` (set.sam:290) -/
def fold {A : Type} (f : A → E → A) : STree E → A → A
  | .empty, acc => acc
  | .leaf v, acc => f acc v
  | .node _ v l r, acc => fold f r (f (fold f l acc) v)

/-- `forAll` (set.sam:297) -/
def forAll (f : E → Bool) : STree E → Bool
  | .empty => true
  | .leaf v => f v
  | .node _ v l r => f v && forAll f l && forAll f r

/-- `exists` (set.sam:304) (the `Empty` arm was `true` before fix C18-F2). -/
def «exists» (f : E → Bool) : STree E → Bool
  | .empty => false
  | .leaf v => f v
  | .node _ v l r => f v || «exists» f l || «exists» f r

/-- `filter` (set.sam:311) -/
def filter (f : E → Bool) : STree E → Option (STree E)
  | .empty => some .empty
  | .leaf v => if f v then some (.leaf v) else some .empty
  | .node h v l r =>
    match filter f l with
    | none => none
    | some newL =>
      match filter f r with
      | none => none
      | some newR =>
        if f v then
          if l = newL ∧ r = newR then some (.node h v l r) else join newL v newR
        else concat newL newR

/-- `partition` (set.sam:326) -/
def partition (f : E → Bool) : STree E → Option (STree E × STree E)
  | .empty => some (.empty, .empty)
  | .leaf v => if f v then some (.leaf v, .empty) else some (.empty, .leaf v)
  | .node _ v l r =>
    match partition f l with
    | none => none
    | some (lt, lf) =>
      match partition f r with
      | none => none
      | some (rt, rf) =>
        if f v then
          match join lt v rt with
          | none => none
          | some a =>
            match concat lf rf with
            | none => none
            | some b => some (a, b)
        else
          match concat lt rt with
          | none => none
          | some a =>
            match join lf v rf with
            | none => none
            | some b => some (a, b)

/-- `size` (set.sam:340) -/
def size : STree E → Int
  | .empty => 0
  | .leaf _ => 1
  | .node _ _ l r => size l + 1 + size r

/-- `elementsHelper` (set.sam:366) -/
def elementsHelper : STree E → List E → List E
  | .empty, acc => acc
  | .leaf v, acc => v :: acc
  | .node _ v l r, acc => elementsHelper l (v :: elementsHelper r acc)

/-- `elements` (set.sam:364) -/
def elements (t : STree E) : List E := elementsHelper t []

/-- left half of `tryJoin`'s condition: `l.isEmpty() || l.max().unwrap().compare(v) < 0`
(`none` = `unwrap` panic) -/
def okLeft (cmp : E → E → Int) (l : STree E) (v : E) : Option Bool :=
  if isEmpty l then some true else
    match max l with
    | none => none
    | some m => some (cmp m v < 0)

/-- right half: `r.isEmpty() || v.compare(r.min().unwrap()) < 0` -/
def okRight (cmp : E → E → Int) (r : STree E) (v : E) : Option Bool :=
  if isEmpty r then some true else
    match min r with
    | none => none
    | some m => some (cmp v m < 0)

/-- `tryJoin` (set.sam:498), fuelled through `union`; `&&` short-circuits. -/
def tryJoin (cmp : E → E → Int) (fuel : Nat) (l : STree E) (v : E) (r : STree E) :
    Option (Option (STree E)) :=
  match okLeft cmp l v with
  | none => some none
  | some bl =>
    match (if !bl then some false else okRight cmp r v) with
    | none => some none
    | some br =>
      if bl && br then some (join l v r)
      else
        match insert cmp r v with
        | none => some none
        | some r' => union cmp fuel l r'

/-- `map` (set.sam:375), fuelled.  `refEq newV v` is samlang's `newV == v` on elements (reference
equality on boxed elements: the driver passes `fun _ _ => false` because the mapped function of
the generated programs always allocates a new object). -/
def map (cmp : E → E → Int) (refEq : E → E → Bool) (f : E → E) (fuel : Nat) :
    STree E → Option (Option (STree E))
  | .empty => some (some .empty)
  | .leaf v =>
    let newV := f v
    if refEq newV v then some (some (.leaf v)) else some (some (.leaf newV))
  | .node h v l r =>
    match map cmp refEq f fuel l with
    | none => none
    | some none => some none
    | some (some newL) =>
      let newV := f v
      match map cmp refEq f fuel r with
      | none => none
      | some none => some none
      | some (some newR) =>
        if l = newL ∧ refEq v newV ∧ r = newR then some (some (.node h v l r))
        else tryJoin cmp fuel newL newV newR

/-! ### `compare` / `equal` / `iter` / `disjoint` -/

/-- `NodeEnumerationHelper<E, Set<E>>(End, More(E, Set<E>, …))` (set.sam:6) -/
inductive Enum (E : Type) where
  | done : Enum E
  | more (v : E) (r : STree E) (e : Enum E) : Enum E

/-- `NodeEnumerationHelper.cons(set, helper)` (set.sam:10) -/
def Enum.cons : STree E → Enum E → Enum E
  | .empty, e => e
  | .leaf v, e => .more v .empty e
  | .node _ v l r, e => Enum.cons l (.more v r e)

def card : STree E → Nat
  | .empty => 0
  | .leaf _ => 1
  | .node _ _ l r => card l + card r + 1

def Enum.size : Enum E → Nat
  | .done => 0
  | .more _ r e => 1 + card r + Enum.size e

omit [DecidableEq E] in
theorem Enum.size_cons (t : STree E) (e : Enum E) : (Enum.cons t e).size = e.size + card t := by
  induction t generalizing e with
  | empty => simp [Enum.cons, card]
  | leaf v => simp [Enum.cons, Enum.size, card]; omega
  | node h v l r ihl _ => simp [Enum.cons, ihl, Enum.size, card]; omega

/-- `compareHelper` (set.sam:214) (returned `c` instead of `c1` before fix 9a6033f). -/
def compareHelper (cmp : E → E → Int) (f : E → E → Int) : Enum E → Enum E → Int
  | .done, .done => 0
  | .done, .more _ _ _ => -1
  | .more _ _ _, .done => 1
  | .more v1 r1 e1, .more v2 r2 e2 =>
    let c := cmp v1 v2
    if c ≠ 0 then c
    else
      let c1 := f v1 v2
      if c1 ≠ 0 then c1 else compareHelper cmp f (Enum.cons r1 e1) (Enum.cons r2 e2)
termination_by e1 _ => e1.size
decreasing_by (have := Enum.size_cons r1 e1; simp only [Enum.size]; omega)

/-- `compare` (set.sam:207) -/
def compare (cmp : E → E → Int) (f : E → E → Int) (a b : STree E) : Int :=
  compareHelper cmp f (Enum.cons a .done) (Enum.cons b .done)

/-- `equalHelper` (set.sam:250) -/
def equalHelper (cmp : E → E → Int) (f : E → E → Bool) : Enum E → Enum E → Bool
  | .done, .done => true
  | .done, .more _ _ _ => false
  | .more _ _ _, .done => false
  | .more v1 r1 e1, .more v2 r2 e2 =>
    cmp v1 v2 = 0 && f v1 v2 && equalHelper cmp f (Enum.cons r1 e1) (Enum.cons r2 e2)
termination_by e1 _ => e1.size
decreasing_by (have := Enum.size_cons r1 e1; simp only [Enum.size]; omega)

/-- `equal` (set.sam:243) -/
def equal (cmp : E → E → Int) (f : E → E → Bool) (a b : STree E) : Bool :=
  equalHelper cmp f (Enum.cons a .done) (Enum.cons b .done)

/-- `iter` (set.sam:279), callback as a state transformer -/
def iter {σ : Type} (f : E → σ → σ) : STree E → σ → σ
  | .empty, s => s
  | .leaf v, s => f v s
  | .node _ v l r, s => iter f r (f v (iter f l s))

/-- `disjoint` (set.sam:138) -/
def disjoint (cmp : E → E → Int) (a b : STree E) : Option Bool :=
  (intersection cmp a b).map isEmpty

/-- in-order list of elements -/
def abs : STree E → List E
  | .empty => []
  | .leaf v => [v]
  | .node _ v l r => abs l ++ v :: abs r

end SamVerif.StdSet
