/-!
# A fuller MIR interpreter for the renaming-invariance theorem of C12

All 14 statement kinds of `samlang-ast/src/mir.rs` `Statement`: `IsPointer`, `Not`, `Binary`,
`IndexedAccess`, `Call` (direct function name or closure value), `IfElse` with final assignments,
`SingleIf`, `Break` with break collector, `While` with loop variables, `Cast`,
`LateInitDeclaration`, `LateInitAssignment`, `StructInit`, `ClosureInit` (object `[fn f, context]`),
plus `println` (the builtin call that makes behaviour observable).  Enum run-time representations
are the values the lowered code builds with these statements: an int tag for data-less variants, a
heap object `[tag, fields…]` for boxed variants, the payload pointer itself for unboxed variants;
`Cast` is a run-time no-op and `IsPointer` tells tags from references.  Binary operators: add, sub,
mul, lt, eq (the others behave alike for this theorem).

Names are numbers: function names `f`, string-global names `g`, variable / temporary names `x`.
The compiler hands these out in `HashMap` iteration order and through a shared atomic counter,
so two processes emit programs that differ by an injective renaming (`numbering_is_renaming`).
Values: integers, string contents, function-name values (inside closures) and heap addresses;
objects are immutable lists of values allocated in execution order.
-/
namespace SamVerif.MirFull

inductive Val where
  | int (n : Int)
  | str (s : List Nat)
  | fn (f : Nat)
  | ptr (a : Nat)
  deriving Repr, DecidableEq

inductive Printed where
  | int (n : Int)
  | str (s : List Nat)
  deriving Repr, DecidableEq

inductive Expr where
  | lit (n : Int)
  | var (x : Nat)
  | glob (g : Nat)
  | fname (f : Nat)
  deriving Repr, DecidableEq

inductive Callee where
  | direct (f : Nat)
  | closure (e : Expr)
  deriving Repr, DecidableEq

inductive BinOp where
  | add | sub | mul | lt | eq
  deriving Repr, DecidableEq

inductive Stmt where
  | skip
  | seq (a b : Stmt)
  | bin (x : Nat) (op : BinOp) (a b : Expr)
  | print (e : Expr)
  | call (x : Nat) (c : Callee) (args : List Expr)
  | structInit (x : Nat) (es : List Expr)
  | index (x : Nat) (e : Expr) (i : Nat)
  /-- `finals`: `(x, e₁, e₂)`: after the branch, `x := e₁` (then-branch) or `e₂` (else-branch) -/
  | ite (c : Expr) (t e : Stmt) (finals : List (Nat × Expr × Expr))
  /-- `vars`: `(name, initial_value, loop_value)`; `bc`: break collector -/
  | while (vars : List (Nat × Expr × Expr)) (body : Stmt) (bc : Nat)
  /-- a `while` whose loop variables are already bound (internal) -/
  | loop (vars : List (Nat × Expr × Expr)) (body : Stmt) (bc : Nat)
  | brk (e : Expr)
  /-- `Not`: boolean negation of an int-encoded bool -/
  | not (x : Nat) (e : Expr)
  /-- `IsPointer`: 1 if the operand is a heap reference (boxed enum variant / unboxed payload),
  0 if it is an int31-style tag -/
  | isPointer (x : Nat) (e : Expr)
  /-- `Cast`: run-time no-op, binds the same value under a new name (enum run-time
  representations are ints for data-less variants and pointers otherwise) -/
  | cast (x : Nat) (e : Expr)
  | lateDecl (x : Nat)
  | lateAssign (x : Nat) (e : Expr)
  /-- `SingleIf { condition, invert_condition, statements }` -/
  | singleIf (c : Expr) (invert : Bool) (body : Stmt)
  /-- `ClosureInit`: object `[fn f, context]` -/
  | closureInit (x : Nat) (f : Nat) (ctx : Expr)
  deriving Repr

structure Fn where
  params : List Nat
  body : Stmt
  ret : Expr
  deriving Repr

structure Prog where
  funs : List (Nat × Fn)
  globs : List (Nat × List Nat)
  deriving Repr

structure St where
  env : List (Nat × Val)
  heap : List (List Val)
  out : List Printed
  deriving Repr

inductive Outcome where
  | normal
  | broke (v : Val)
  deriving Repr

def lookup {β : Type} (l : List (Nat × β)) (k : Nat) : Option β :=
  match l with
  | [] => none
  | (k', v) :: rest => if k = k' then some v else lookup rest k

def evalE (p : Prog) (σ : St) : Expr → Option Val
  | .lit n => some (.int n)
  | .var x => lookup σ.env x
  | .glob g => (lookup p.globs g).map .str
  | .fname f => some (.fn f)

def evalInt (p : Prog) (σ : St) (e : Expr) : Option Int :=
  match evalE p σ e with
  | some (.int n) => some n
  | _ => none

def evalPrinted (p : Prog) (σ : St) (e : Expr) : Option Printed :=
  match evalE p σ e with
  | some (.int n) => some (.int n)
  | some (.str s) => some (.str s)
  | _ => none

def evalArgs (p : Prog) (σ : St) : List Expr → Option (List Val)
  | [] => some []
  | e :: es =>
    match evalE p σ e with
    | none => none
    | some v =>
      match evalArgs p σ es with
      | none => none
      | some vs => some (v :: vs)

def evalIsPtr (p : Prog) (σ : St) (e : Expr) : Option Int :=
  match evalE p σ e with
  | some (.ptr _) => some 1
  | some _ => some 0
  | none => none

/-- `IndexedAccess` -/
def evalIndex (p : Prog) (σ : St) (e : Expr) (i : Nat) : Option Val :=
  match evalE p σ e with
  | some (.ptr a) =>
    match σ.heap[a]? with
    | some obj => obj[i]?
    | none => none
  | _ => none

/-- Function to run and its full argument list: a direct call, or a closure call that passes the
closure's context as the first argument. -/
def resolveCallee (p : Prog) (σ : St) (c : Callee) (args : List Val) : Option (Nat × List Val) :=
  match c with
  | .direct f => some (f, args)
  | .closure e =>
    match evalE p σ e with
    | some (.ptr a) =>
      match σ.heap[a]? with
      | some [.fn f, ctx] => some (f, ctx :: args)
      | _ => none
    | _ => none

def bindParams : List Nat → List Val → List (Nat × Val)
  | x :: xs, v :: vs => (x, v) :: bindParams xs vs
  | _, _ => []

def binop : BinOp → Int → Int → Int
  | .add, a, b => a + b
  | .sub, a, b => a - b
  | .mul, a, b => a * b
  | .lt, a, b => if a < b then 1 else 0
  | .eq, a, b => if a = b then 1 else 0

def names (l : List (Nat × Expr × Expr)) : List Nat := l.map (·.1)
def inits (l : List (Nat × Expr × Expr)) : List Expr := l.map (·.2.1)
def loopVals (l : List (Nat × Expr × Expr)) : List Expr := l.map (·.2.2)

def pickFinals (thenBranch : Bool) (finals : List (Nat × Expr × Expr)) : List Expr :=
  finals.map fun f => if thenBranch then f.2.1 else f.2.2

/-- Fuelled big-step execution. `none` = stuck or out of fuel. Fuel is spent by calls, by entering a
loop and by every loop iteration. -/
def exec (p : Prog) : Nat → Stmt → St → Option (Outcome × St)
  | _, .skip, σ => some (.normal, σ)
  | fuel, .seq a b, σ =>
    match exec p fuel a σ with
    | none => none
    | some (.broke v, σ') => some (.broke v, σ')
    | some (.normal, σ') => exec p fuel b σ'
  | _, .bin x op a b, σ =>
    match evalInt p σ a with
    | none => none
    | some m =>
      match evalInt p σ b with
      | none => none
      | some n => some (.normal, { σ with env := (x, .int (binop op m n)) :: σ.env })
  | _, .print e, σ =>
    match evalPrinted p σ e with
    | none => none
    | some v => some (.normal, { σ with out := σ.out ++ [v] })
  | 0, .call .., _ => none
  | fuel + 1, .call x c args, σ =>
    match evalArgs p σ args with
    | none => none
    | some vs =>
      match resolveCallee p σ c vs with
      | none => none
      | some (f, full) =>
        match lookup p.funs f with
        | none => none
        | some fn =>
          match exec p fuel fn.body { σ with env := bindParams fn.params full } with
          | none => none
          | some (.broke _, _) => none
          | some (.normal, σ') =>
            match evalE p σ' fn.ret with
            | none => none
            | some r => some (.normal, { σ' with env := (x, r) :: σ.env })
  | _, .structInit x es, σ =>
    match evalArgs p σ es with
    | none => none
    | some vs => some (.normal, { σ with env := (x, .ptr σ.heap.length) :: σ.env, heap := σ.heap ++ [vs] })
  | _, .index x e i, σ =>
    match evalIndex p σ e i with
    | none => none
    | some v => some (.normal, { σ with env := (x, v) :: σ.env })
  | fuel, .ite c t e finals, σ =>
    match evalInt p σ c with
    | none => none
    | some n =>
      match exec p fuel (if n ≠ 0 then t else e) σ with
      | none => none
      | some (.broke v, σ') => some (.broke v, σ')
      | some (.normal, σ') =>
        match evalArgs p σ' (pickFinals (n ≠ 0) finals) with
        | none => none
        | some vs => some (.normal, { σ' with env := bindParams (names finals) vs ++ σ'.env })
  | 0, .while .., _ => none
  | fuel + 1, .while vars body bc, σ =>
    match evalArgs p σ (inits vars) with
    | none => none
    | some vs => exec p fuel (.loop vars body bc) { σ with env := bindParams (names vars) vs ++ σ.env }
  | 0, .loop .., _ => none
  | fuel + 1, .loop vars body bc, σ =>
    match exec p fuel body σ with
    | none => none
    | some (.broke v, σ') => some (.normal, { σ' with env := (bc, v) :: σ'.env })
    | some (.normal, σ') =>
      match evalArgs p σ' (loopVals vars) with
      | none => none
      | some vs => exec p fuel (.loop vars body bc) { σ' with env := bindParams (names vars) vs ++ σ'.env }
  | _, .brk e, σ =>
    match evalE p σ e with
    | none => none
    | some v => some (.broke v, σ)
  | _, .not x e, σ =>
    match evalInt p σ e with
    | none => none
    | some n => some (.normal, { σ with env := (x, .int (if n = 0 then 1 else 0)) :: σ.env })
  | _, .isPointer x e, σ =>
    match evalIsPtr p σ e with
    | none => none
    | some n => some (.normal, { σ with env := (x, .int n) :: σ.env })
  | _, .cast x e, σ =>
    match evalE p σ e with
    | none => none
    | some v => some (.normal, { σ with env := (x, v) :: σ.env })
  | _, .lateDecl _, σ => some (.normal, σ)
  | _, .lateAssign x e, σ =>
    match evalE p σ e with
    | none => none
    | some v => some (.normal, { σ with env := (x, v) :: σ.env })
  | fuel, .singleIf c invert body, σ =>
    match evalInt p σ c with
    | none => none
    | some n => if (n ≠ 0) != invert then exec p fuel body σ else some (.normal, σ)
  | _, .closureInit x f ctx, σ =>
    match evalE p σ ctx with
    | none => none
    | some v => some (.normal, { σ with env := (x, .ptr σ.heap.length) :: σ.env, heap := σ.heap ++ [[.fn f, v]] })
termination_by fuel s => (fuel, sizeOf s)
decreasing_by
  all_goals simp_wf
  all_goals first
    | (apply Prod.Lex.right; simp_arith; done)
    | (apply Prod.Lex.left; omega)
    | (apply Prod.Lex.right; split <;> omega)
    | (apply Prod.Lex.right; omega)

/-- Run an entry point without arguments: what it prints. -/
def run (p : Prog) (fuel : Nat) (main : Nat) : Option (List Printed) :=
  match lookup p.funs main with
  | none => none
  | some fn =>
    match exec p fuel fn.body { env := [], heap := [], out := [] } with
    | some (.normal, σ) => some σ.out
    | _ => none

/-! ## Renaming -/

structure Ren where
  f : Nat → Nat
  g : Nat → Nat
  v : Nat → Nat

def renVal (ρ : Ren) : Val → Val
  | .fn f => .fn (ρ.f f)
  | v => v

def renE (ρ : Ren) : Expr → Expr
  | .lit n => .lit n
  | .var x => .var (ρ.v x)
  | .glob g => .glob (ρ.g g)
  | .fname f => .fname (ρ.f f)

def renCallee (ρ : Ren) : Callee → Callee
  | .direct f => .direct (ρ.f f)
  | .closure e => .closure (renE ρ e)

def renTriple (ρ : Ren) (t : Nat × Expr × Expr) : Nat × Expr × Expr :=
  (ρ.v t.1, renE ρ t.2.1, renE ρ t.2.2)

def renS (ρ : Ren) : Stmt → Stmt
  | .skip => .skip
  | .seq a b => .seq (renS ρ a) (renS ρ b)
  | .bin x op a b => .bin (ρ.v x) op (renE ρ a) (renE ρ b)
  | .print e => .print (renE ρ e)
  | .call x c args => .call (ρ.v x) (renCallee ρ c) (args.map (renE ρ))
  | .structInit x es => .structInit (ρ.v x) (es.map (renE ρ))
  | .index x e i => .index (ρ.v x) (renE ρ e) i
  | .ite c t e finals => .ite (renE ρ c) (renS ρ t) (renS ρ e) (finals.map (renTriple ρ))
  | .while vars body bc => .while (vars.map (renTriple ρ)) (renS ρ body) (ρ.v bc)
  | .loop vars body bc => .loop (vars.map (renTriple ρ)) (renS ρ body) (ρ.v bc)
  | .brk e => .brk (renE ρ e)
  | .not x e => .not (ρ.v x) (renE ρ e)
  | .isPointer x e => .isPointer (ρ.v x) (renE ρ e)
  | .cast x e => .cast (ρ.v x) (renE ρ e)
  | .lateDecl x => .lateDecl (ρ.v x)
  | .lateAssign x e => .lateAssign (ρ.v x) (renE ρ e)
  | .singleIf c invert body => .singleIf (renE ρ c) invert (renS ρ body)
  | .closureInit x f ctx => .closureInit (ρ.v x) (ρ.f f) (renE ρ ctx)

def renFn (ρ : Ren) (fn : Fn) : Fn :=
  { params := fn.params.map ρ.v, body := renS ρ fn.body, ret := renE ρ fn.ret }

def renProg (ρ : Ren) (p : Prog) : Prog :=
  { funs := p.funs.map fun kf => (ρ.f kf.1, renFn ρ kf.2),
    globs := p.globs.map fun ks => (ρ.g ks.1, ks.2) }

def renEnv (ρ : Ren) (env : List (Nat × Val)) : List (Nat × Val) :=
  env.map fun kv => (ρ.v kv.1, renVal ρ kv.2)

def renSt (ρ : Ren) (σ : St) : St :=
  { env := renEnv ρ σ.env, heap := σ.heap.map (·.map (renVal ρ)), out := σ.out }

def renOutcome (ρ : Ren) : Outcome → Outcome
  | .normal => .normal
  | .broke v => .broke (renVal ρ v)

end SamVerif.MirFull
