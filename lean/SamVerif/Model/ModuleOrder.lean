import SamVerif.Model.ErrorSet
/-!
# Model of the order in which `compile_sources` parses the modules (C12)

`crates/samlang-compiler/src/lib.rs:44-50` (since /repo 06eeb5e): the source handles are sorted by
`module_reference.pretty_print(heap)` — the *printed name*, i.e. the contents of the name parts
joined by `.` — and parsed in that order.  Parsing interns identifiers, so the parse order decides
the ids of heap strings.  A module reference is modelled by its name parts; a part is a `PStr`:
`Atom.inl bytes` (≤ 15 bytes, compared by content) or `Atom.heap h` (> 15 bytes: content
`content h`, compared by allocation id `ids h`; `crates/samlang-heap/src/lib.rs:99-108`).
`orderByParts` is what a sort keyed by `get_parts(heap)` (`&[PStr]`, derived slice order) would do.
-/
namespace SamVerif.ErrorSet

def partBytes (content : Nat → List Nat) : Atom → List Nat
  | .inl bs => bs
  | .heap h => content h
  | .num _ => []

/-- `ModuleReference::pretty_print`: parts joined by `.` (byte 46) -/
def printedName (content : Nat → List Nat) : List Atom → List Nat
  | [] => []
  | [p] => partBytes content p
  | p :: ps => partBytes content p ++ 46 :: printedName content ps

/-- parse order = the printed names in `String` order (bytewise, a proper prefix first) -/
def orderByName (content : Nat → List Nat) (mods : List (List Atom)) : List (List Nat) :=
  ofList lexLt (mods.map (printedName content))

def ltParts (ids : Nat → Nat) (a b : List Atom) : Bool := lexLt (atomsKey ids a) (atomsKey ids b)

/-- order of the modules under a sort keyed by the `PStr` parts -/
def orderByParts (ids : Nat → Nat) (mods : List (List Atom)) : List (List Atom) :=
  ofList (ltParts ids) mods

/-! ## Lowering order (`hir_lowering.rs` `compile_sources_with_generics_preserved`, /repo 15327a3)

`sorted_sources.sort_by_cached_key(|m| m.pretty_print(heap))`: a *stable* sort of the modules in
`HashMap` iteration order.  `sSort` is a stable insertion sort for a comparator `lt`; with a comparator
under which two distinct modules tie, the tied modules keep their input (hash) order. -/

def sIns {α : Type} (lt : α → α → Bool) (x : α) : List α → List α
  | [] => [x]
  | y :: ys => if lt x y then x :: y :: ys else y :: sIns lt x ys

/-- stable sort: equal elements stay in input order -/
def sSort {α : Type} (lt : α → α → Bool) (l : List α) : List α :=
  l.foldl (fun acc x => sIns lt x acc) []

/-- comparing the name parts pairwise through `zip` and never the lengths (contents compared as
strings): a module whose path is a proper prefix of another's compares *equal* to it -/
def zipLt : List (List Nat) → List (List Nat) → Bool
  | p :: ps, q :: qs => if lexLt p q then true else if lexLt q p then false else zipLt ps qs
  | _, _ => false

end SamVerif.ErrorSet
