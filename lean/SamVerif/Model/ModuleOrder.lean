import SamVerif.Model.ErrorSet
/-!
# Model of the order in which `compile_sources` parses the modules (C12)

`crates/samlang-compiler/src/lib.rs:44-50` (since /repo 06eeb5e): the source handles are sorted by
`module_reference.pretty_print(heap)` — the *printed name*, i.e. the contents of the name parts
joined by `.` — and parsed in that order.  Parsing interns identifiers, so the parse order decides
the ids of heap strings.  A module reference is modelled by its name parts; a part is a `PStr`:
`Atom.inl bytes` (≤ 15 bytes, compared by content) or `Atom.heap h` (> 15 bytes: content
`content h`, compared by allocation id `ids h`; `crates/samlang-heap/src/lib.rs:99-108`).
`orderByParts` is what a sort keyed by `get_parts(heap)` (`&[PStr]`, derived slice order) would do.
-/
namespace SamVerif.ErrorSet

def partBytes (content : Nat → List Nat) : Atom → List Nat
  | .inl bs => bs
  | .heap h => content h
  | .num _ => []

/-- `ModuleReference::pretty_print`: parts joined by `.` (byte 46) -/
def printedName (content : Nat → List Nat) : List Atom → List Nat
  | [] => []
  | [p] => partBytes content p
  | p :: ps => partBytes content p ++ 46 :: printedName content ps

/-- parse order = the printed names in `String` order (bytewise, a proper prefix first) -/
def orderByName (content : Nat → List Nat) (mods : List (List Atom)) : List (List Nat) :=
  ofList lexLt (mods.map (printedName content))

def ltParts (ids : Nat → Nat) (a b : List Atom) : Bool := lexLt (atomsKey ids a) (atomsKey ids b)

/-- order of the modules under a sort keyed by the `PStr` parts -/
def orderByParts (ids : Nat → Nat) (mods : List (List Atom)) : List (List Atom) :=
  ofList (ltParts ids) mods

end SamVerif.ErrorSet
