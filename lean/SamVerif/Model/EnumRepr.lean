/-
Model of the run-time representation of enum (variant) values and of the code that takes them
apart — the kernel behind "no illegal cast / no out-of-bounds struct access" for accepted programs:

* enum layout choice, `mir_generics_specialization.rs:596-634` (variant loop) + `:652-684`
  (`type_permit_enum_boxed_optimization`) -> `layoutOf`, `permit`, `layoutTable`.
  The Rust loop gives the FIRST payload variant a provisional `Unboxed(t)` (single field of a type
  that is always a pointer) and reverts it to `Boxed` as soon as a second payload variant shows up;
  payload-free variants are `Int31`.  `layoutOf` is the closed form of that loop (exactly one payload
  variant, with one permitted field => unboxed; otherwise every payload variant boxed); the `layout`
  correspondence stream compares it with the real `mir::TypeDefinition`s on every run.
* LIR type erasure, `lir_lowering.rs:10-24, 320-334`: an enum type whose values are not all
  sub-structs of the enum's own struct type is erased to `AnyPointer` (`(ref eq)`):
  `needsAny` (since fix of C03-F7: int31 OR unboxed variants; before it only int31).
* the variant sub-struct types `derived_type_name_with_subtype_tag`, `lir_lowering.rs:357-381`
  -> `TyName.sub e k` with parent `TyName.base e`.
* lowering of `ConditionalDestructure`, `mir_generics_specialization.rs:101-262`, together with the
  cast insertion of `wasm_lowering.rs` (`lower_expr_with_reference_type`: `ref.cast` when the local is
  `(ref eq)`, :554-595; `Statement::Cast`: `ref.cast` whenever source and target are reference types,
  :449-474; `IsPointer` = `ref.test`) -> `runGuard`.
* constructors (`hir_lowering.rs lower_constructors` + specialisation): a variant value is
  `ref.i31 k`, the payload itself, or a struct of the variant's sub-type whose field 0 is the `i32`
  tag `2k+1` -> `repr`.

Outcome `trap` of `runGuard` = the engine-level faults C03 excludes (`illegal cast`, struct access on
a value of the wrong type).  Core Lean only.  Type ids index a table; id 0 is `int`; table entries
refer to earlier ids or to themselves (the generators produce such tables; specialisation of a
referenced type completes before the referring enum's layout is decided, except for self-reference,
which `enum_type_names_in_progress` answers with "not a pointer").
-/
namespace SamVerif.EnumRepr

inductive TDef where
  | prim                                   -- int
  | struct (fields : List Nat)
  | enum (variants : List (List Nat))      -- field type ids of each variant, in declaration order
  deriving Repr, Inhabited, DecidableEq

abbrev Table := List TDef

/-- `mir::EnumTypeDefinition` -/
inductive VL where
  | int31
  | unboxed (t : Nat)
  | boxed (fields : List Nat)
  deriving Repr, Inhabited, DecidableEq

def VL.isBoxed : VL → Bool
  | .boxed _ => true
  | _ => false

def VL.isInt31 : VL → Bool
  | .int31 => true
  | _ => false

abbrev Layouts := List (Option (List VL))     -- per type id: `some` for enums

def layAt (lay : Layouts) (t : Nat) : List VL := (lay.getD t none).getD []

/-- `type_permit_enum_boxed_optimization(field type)` while the layout of enum `self` is decided -/
def permit (tbl : Table) (lay : Layouts) (self : Nat) (t : Nat) : Bool :=
  match tbl.getD t .prim with
  | .prim => false
  | .struct _ => true
  | .enum _ => if t = self then false else decide (t < lay.length) && (layAt lay t).all VL.isBoxed

/-- closed form of the variant loop -/
def layoutOf (p : Nat → Bool) (variants : List (List Nat)) : List VL :=
  match variants.filter (fun fs => !fs.isEmpty) with
  | [[f]] =>
    if p f then variants.map (fun fs => if fs.isEmpty then .int31 else .unboxed f)
    else variants.map (fun fs => if fs.isEmpty then .int31 else .boxed fs)
  | _ => variants.map (fun fs => if fs.isEmpty then .int31 else .boxed fs)

/-- layouts of a whole table, in id order -/
def layoutFrom (tbl : Table) : List TDef → Layouts → Layouts
  | [], lay => lay
  | .enum vs :: rest, lay => layoutFrom tbl rest (lay ++ [some (layoutOf (permit tbl lay lay.length) vs)])
  | _ :: rest, lay => layoutFrom tbl rest (lay ++ [none])

def layoutTable (tbl : Table) : Layouts := layoutFrom tbl tbl []

/-- `types_needing_any_pointer` (lir_lowering.rs:320-334, after the fix of C03-F7) -/
def needsAny (vs : List VL) : Bool := vs.any (fun v => !v.isBoxed)

/-- the test before the fix: only int31 variants -/
def needsAnyOld (vs : List VL) : Bool := vs.any VL.isInt31

/-! ### wasm-level types and values -/

inductive TyName where
  | base (t : Nat)              -- struct type of a class / parent struct type of an enum
  | sub (e : Nat) (k : Nat)     -- `$E$_Sub<k>`: boxed variant `k` of enum `e`, subtype of `base e`
  deriving Repr, DecidableEq, Inhabited

inductive WTy where
  | i32
  | eq                          -- `(ref eq)`: LIR `AnyPointer`
  | ref (n : TyName)
  deriving Repr, DecidableEq, Inhabited

inductive RV where
  | int (n : Int)                               -- an i32 (struct field / local)
  | i31 (n : Nat)                               -- `ref.i31`
  | obj (ty : TyName) (fields : List RV)
  deriving Repr, Inhabited

def subTy (a b : TyName) : Bool :=
  a == b || (match a, b with | .sub e _, .base e' => e == e' | _, _ => false)

/-- run-time subtyping check the validator assumes and `ref.test` / `ref.cast` perform -/
def rvHasTy : RV → WTy → Bool
  | .int _, .i32 => true
  | .i31 _, .eq => true
  | .obj _ _, .eq => true
  | .obj ty _, .ref n => subTy ty n
  | _, _ => false

/-- wasm type of a local / parameter / field holding a source value of type `t` -/
def lowerTy (tbl : Table) (lay : Layouts) (needs : List VL → Bool) (t : Nat) : WTy :=
  match tbl.getD t .prim with
  | .prim => .i32
  | .struct _ => .ref (.base t)
  | .enum _ => if needs (layAt lay t) then .eq else .ref (.base t)

/-! ### source values and their representation -/

inductive SV where
  | int (n : Int)
  | struct (t : Nat) (fields : List SV)
  | variant (e : Nat) (k : Nat) (payload : List SV)
  deriving Repr, Inhabited

mutual
def svTy (tbl : Table) : SV → Nat → Bool
  | .int _, t => tbl.getD t .prim == .prim
  | .struct t' fs, t =>
    t' == t && (match tbl.getD t .prim with
      | .struct tys => svTys tbl fs tys
      | _ => false)
  | .variant e k ps, t =>
    e == t && (match tbl.getD t .prim with
      | .enum vs => (match vs[k]? with
        | some tys => svTys tbl ps tys
        | none => false)
      | _ => false)
def svTys (tbl : Table) : List SV → List Nat → Bool
  | [], [] => true
  | v :: vs, t :: ts => svTy tbl v t && svTys tbl vs ts
  | _, _ => false
end

mutual
def repr (lay : Layouts) : SV → RV
  | .int n => .int n
  | .struct t fs => .obj (.base t) (reprL lay fs)
  | .variant e k ps =>
    match (layAt lay e)[k]? with
    | some .int31 => .i31 k
    | some (.unboxed _) => ((reprL lay ps).head?).getD (.i31 k)     -- the single payload itself
    | some (.boxed _) => .obj (.sub e k) (.int (2 * k + 1) :: reprL lay ps)
    | none => .i31 k           -- not a typed value
def reprL (lay : Layouts) : List SV → List RV
  | [] => []
  | v :: vs => repr lay v :: reprL lay vs
end

/-! ### the guard code of `ConditionalDestructure { test_expr: x, tag: k, bindings }` -/

inductive Outcome where
  | success (bound : List RV)     -- branch `s1` runs with these bindings
  | fail                          -- branch `s2`
  | trap                          -- illegal cast / struct access on a wrong type
  deriving Repr

/-- `ref.cast (ref n) v` -/
def refCast (n : TyName) (v : RV) : Option RV := if rvHasTy v (.ref n) then some v else none

/-- `struct.get n i` on an operand the validator accepted as `(ref n)`; reading past the fields or
from a non-struct is a fault -/
def structGet (v : RV) (i : Nat) : Option RV :=
  match v with
  | .obj _ fs => fs[i]?
  | _ => none

/-- operand of an `IndexedAccess` on the variable `x : Id(n)` whose local has wasm type `τ`:
`ref.cast` exactly when the local is `(ref eq)` (wasm_lowering.rs:575-585) -/
def accessOperand (τ : WTy) (n : TyName) (x : RV) : Option RV :=
  match τ with
  | .eq => refCast n x
  | _ => some x

def loadAll (v : RV) : Nat → Nat → Option (List RV)
  | 0, _ => some []
  | n + 1, i =>
    match structGet v i, loadAll v n (i + 1) with
    | some a, some rest => some (a :: rest)
    | _, _ => none

/-- `τ` = wasm type of the local holding the scrutinee, `vs` = layout of its enum `e`. -/
def runGuard (τ : WTy) (vs : List VL) (e : Nat) (k : Nat) (x : RV) : Outcome :=
  match vs[k]? with
  | none => .trap                                 -- `get_subtype` would panic at compile time
  | some .int31 =>
    -- `Binary EQ x (Int31Literal k)`: `ref.eq`
    match x with
    | .i31 j => if j = k then .success [] else .fail
    | _ => .fail
  | some (.unboxed t) =>
    -- `IsPointer(t, x)`; then `Cast x : Id(t)` (always a `ref.cast`)
    if rvHasTy x (.ref (.base t)) then
      match refCast (.base t) x with
      | some y => .success [y]
      | none => .trap
    else .fail
  | some (.boxed fields) =>
    let hasInt31 := vs.any VL.isInt31       -- `enum_has_int31_variants`
    -- with int31 variants: `IsPointer(Sub_k, x)` first
    if hasInt31 && !rvHasTy x (.ref (.sub e k)) then .fail else
    -- tag: `IndexedAccess x : Id(e), 0`
    match accessOperand τ (.base e) x with
    | none => .trap
    | some y =>
      match structGet y 0 with
      | some (.int tag) =>
        if tag = 2 * (k : Int) + 1 then
          -- `Cast x : Id(Sub_k)` then one `IndexedAccess casted, i+1` per binding
          match refCast (.sub e k) x with
          | none => .trap
          | some c =>
            match loadAll c fields.length 1 with
            | some bs => .success bs
            | none => .trap
        else .fail
      | _ => .trap

end SamVerif.EnumRepr
