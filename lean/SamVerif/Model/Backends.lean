import SamVerif.Generated.TsOps
import SamVerif.Generated.StrEsc
/-
C04 — executable models of the two back ends on the shared value domain.

* operators: `tsBin` = what the emitted TypeScript computes for `let x = e1 <op> e2`
  (`crates/samlang-ast/src/lir.rs:261-320`, table extracted into `Generated/TsOps.lean`), over JS
  numbers restricted to what one operator application on two int32 operands can produce;
  `wasmBin` = the `i32.<op>` instruction selected by `crates/samlang-ast/src/wasm.rs:169-213`
  (trap = `none`).
* string constants: `tsCook` (raw text inside a JS template literal, `lir.rs:662-668`) vs
  `wasmDecode` (raw UTF-8 bytes in a data segment, read back with `array.get_s` and
  `String.fromCharCode`, `wasm_lowering.rs:642-671`, `libsam.wat:7-9`, `loader.js:6-14`), plus the
  lexer's acceptance test for a literal (`lexer.rs:317-355`, `685-702`) and `unescape_quotes`
  (`source_parser.rs:2210`).
* `Str.fromInt` / `Str.toInt`: `libsam.wat:35-224` vs `String(v)` / `parseInt(v, 10)`.
* `Vec`: `libsam.wat:270-374` + i31 boxing at the call site (`wasm_lowering.rs:75-106,282-343`)
  vs the JS-array runtime of `lir.rs:596-651`.
Core Lean only (linked into `drv-c04`).
-/
namespace SamVerif.Backends

/-! ## 32-bit integers -/

def MIN : Int := -2147483648
def MAX : Int := 2147483647

/-- a value of samlang type `int` -/
def InRange (n : Int) : Prop := -2147483648 ≤ n ∧ n ≤ 2147483647

instance (n : Int) : Decidable (InRange n) := by unfold InRange; infer_instance

/-- two's complement wrap to signed 32 bit -/
def wrap32 (n : Int) : Int := (n + 2147483648) % 4294967296 - 2147483648

/-- the same bits read as unsigned -/
def toU32 (n : Int) : Int := n % 4294967296

def bitNat (f : Nat → Nat → Nat) (a b : Int) : Int :=
  wrap32 (Int.ofNat (f (toU32 a).toNat (toU32 b).toNat))

/-! ## TypeScript side: JS numbers -/

/-- JS values that one operator application on two int32 operands can produce -/
inductive JsVal
  | int (n : Int)          -- an integral double (exact; |n| ≤ 2^62 only arises for `*`)
  | frac (num den : Int)   -- the non-integral quotient num/den
  | nan
  | inf (neg : Bool)
  | bool (b : Bool)
  deriving DecidableEq, Repr

def b2i (b : Bool) : Int := if b then 1 else 0

/-- `a <sym> b` on two integral JS numbers (ECMAScript Number::multiply … / Int32 bit operators).
Not modelled: `-0` (prints and compares like `0`), rounding of products above 2^53. -/
def evalJs : JsSym → Int → Int → JsVal
  | .mul, a, b => .int (a * b)
  | .div, a, b =>
    if b = 0 then (if a = 0 then .nan else .inf (decide (a < 0)))
    else if a % b = 0 then .int (a / b) else .frac a b
  | .mod, a, b => if b = 0 then .nan else .int (Int.tmod a b)
  | .add, a, b => .int (a + b)
  | .sub, a, b => .int (a - b)
  | .band, a, b => .int (bitNat Nat.land a b)
  | .bor, a, b => .int (bitNat Nat.lor a b)
  | .xor, a, b => .int (bitNat Nat.xor a b)
  | .shl, a, b => .int (wrap32 (wrap32 a * 2 ^ (toU32 b % 32).toNat))
  | .sar, a, b => .int (wrap32 a / 2 ^ (toU32 b % 32).toNat)
  | .shr, a, b => .int (toU32 a / 2 ^ (toU32 b % 32).toNat)
  | .lt, a, b => .bool (decide (a < b))
  | .le, a, b => .bool (decide (a ≤ b))
  | .gt, a, b => .bool (decide (a > b))
  | .ge, a, b => .bool (decide (a ≥ b))
  | .eq, a, b => .bool (decide (a = b))
  | .ne, a, b => .bool (decide (a ≠ b))
  | .seq, a, b => .bool (decide (a = b))
  | .sne, a, b => .bool (decide (a ≠ b))

/-- `Math.floor(·)`, `Math.trunc(·)`, `Number(·)` or nothing. For `|a|,|b| < 2^31` the double
quotient is close enough to the rational one that floor/trunc of it are the exact ones. -/
def applyWrap : Wrap → JsVal → JsVal
  | .plain, v => v
  | .floor, .frac a b => .int (Int.fdiv a b)
  | .floor, .bool b => .int (b2i b)
  | .floor, v => v
  | .trunc, .frac a b => .int (Int.tdiv a b)
  | .trunc, .bool b => .int (b2i b)
  | .trunc, v => v
  | .number, .bool b => .int (b2i b)
  | .number, v => v

/-- value of `let x = e1 <op> e2` in the emitted TypeScript -/
def tsBin (op : Op) (a b : Int) : JsVal := applyWrap (tsForm op).1 (evalJs (tsForm op).2 a b)

/-! ## WebAssembly side -/

/-- `i32.<op>` on two in-range operands; `none` = trap -/
def evalWasm : WOp → Int → Int → Option Int
  | .mul, a, b => some (wrap32 (a * b))
  | .div_s, a, b =>
    if b = 0 then none else if a = -2147483648 ∧ b = -1 then none else some (Int.tdiv a b)
  | .div_u, a, b => if b = 0 then none else some (wrap32 (toU32 a / toU32 b))
  | .rem_s, a, b => if b = 0 then none else some (Int.tmod a b)
  | .rem_u, a, b => if b = 0 then none else some (wrap32 (toU32 a % toU32 b))
  | .add, a, b => some (wrap32 (a + b))
  | .sub, a, b => some (wrap32 (a - b))
  | .and, a, b => some (bitNat Nat.land a b)
  | .or, a, b => some (bitNat Nat.lor a b)
  | .xor, a, b => some (bitNat Nat.xor a b)
  | .shl, a, b => some (wrap32 (wrap32 a * 2 ^ (toU32 b % 32).toNat))
  | .shr_s, a, b => some (wrap32 a / 2 ^ (toU32 b % 32).toNat)
  | .shr_u, a, b => some (wrap32 (toU32 a / 2 ^ (toU32 b % 32).toNat))
  | .lt_s, a, b => some (b2i (decide (a < b)))
  | .le_s, a, b => some (b2i (decide (a ≤ b)))
  | .gt_s, a, b => some (b2i (decide (a > b)))
  | .ge_s, a, b => some (b2i (decide (a ≥ b)))
  | .lt_u, a, b => some (b2i (decide (toU32 a < toU32 b)))
  | .le_u, a, b => some (b2i (decide (toU32 a ≤ toU32 b)))
  | .gt_u, a, b => some (b2i (decide (toU32 a > toU32 b)))
  | .ge_u, a, b => some (b2i (decide (toU32 a ≥ toU32 b)))
  | .eq, a, b => some (b2i (decide (a = b)))
  | .ne, a, b => some (b2i (decide (a ≠ b)))

def wasmBin (op : Op) (a b : Int) : Option Int := evalWasm (wasmOpcode op) a b

/-- both back ends computed the same int -/
def Agree (t : JsVal) (w : Option Int) : Prop := ∃ r, t = .int r ∧ w = some r

instance (t : JsVal) (w : Option Int) : Decidable (Agree t w) :=
  match t, w with
  | .int r, some r' => if h : r = r' then isTrue ⟨r, rfl, by rw [h]⟩ else isFalse (by
      rintro ⟨x, h1, h2⟩; cases h1; cases h2; exact h rfl)
  | .int _, none => isFalse (by rintro ⟨x, _, h2⟩; cases h2)
  | .frac _ _, _ => isFalse (by rintro ⟨x, h1, _⟩; cases h1)
  | .nan, _ => isFalse (by rintro ⟨x, h1, _⟩; cases h1)
  | .inf _, _ => isFalse (by rintro ⟨x, h1, _⟩; cases h1)
  | .bool _, _ => isFalse (by rintro ⟨x, h1, _⟩; cases h1)

/-- Runs the property excludes: 32-bit overflow of the mathematical result, division by zero. -/
def Excluded : Op → Int → Int → Prop
  | .PLUS, a, b => ¬ InRange (a + b)
  | .MINUS, a, b => ¬ InRange (a - b)
  | .MUL, a, b => ¬ InRange (a * b)
  | .DIV, a, b => b = 0 ∨ (a = -2147483648 ∧ b = -1)
  | .MOD, _, b => b = 0
  | _, _, _ => False

instance (op : Op) (a b : Int) : Decidable (Excluded op a b) := by
  cases op <;> unfold Excluded <;> infer_instance

/-! ## Boxing of `int` elements of a `Vec` (`ref.i31` / `i31.get_s`) -/

/-- `i31.get_s (ref.i31 n)`: keeps the low 31 bits, sign-extends bit 30 -/
def i31wrap (n : Int) : Int := (n + 1073741824) % 2147483648 - 1073741824

def InI31 (n : Int) : Prop := -1073741824 ≤ n ∧ n < 1073741824

instance (n : Int) : Decidable (InI31 n) := by unfold InI31; infer_instance

/-! ## Identity comparisons of references (variant tests, `==` on objects) -/

/-- run-time values of the emitted TypeScript that can meet in an identity comparison: a number
(an int, or an i31 variant tag printed as `2k+1`), an array with an identity (struct, unboxed
payload, `Vec`, `_Str = [tag, raw]`), and the raw JS string that only occurs as second element of
a `_Str`. -/
inductive JsV
  | num (n : Int)
  | raw (s : List Nat)
  | arr (id : Nat) (es : List JsV)

/-- `ToNumber(ToPrimitive(v))` as far as it can be an integer: an array becomes the comma-joined
string of its elements, so `[]` is `""` → 0, `[e]` is `String(e)`, two or more elements contain a
comma → NaN (`none`). A raw string is never coerced on its own (it sits in a two-element array). -/
def primNum : JsV → Option Int
  | .num n => some n
  | .raw _ => none
  | .arr _ [] => some 0
  | .arr _ [e] => primNum e
  | .arr _ (_ :: _ :: _) => none

/-- JS `a == b` (IsLooselyEqual) on these shapes -/
def looseEq : JsV → JsV → Bool
  | .num a, .num b => a == b
  | .arr i _, .arr j _ => i == j
  | .num a, .arr i es => primNum (.arr i es) == some a
  | .arr i es, .num b => primNum (.arr i es) == some b
  | _, _ => false

/-- JS `a === b` -/
def strictEq : JsV → JsV → Bool
  | .num a, .num b => a == b
  | .arr i _, .arr j _ => i == j
  | _, _ => false

/-- what the emitted TypeScript computes for EQ on reference operands (`lir.rs`, table flag
`tsRefCmpStrict` extracted on every run; `true` after fix d380f36, before it `==`: C04-F8) -/
def tsRefEq (a b : JsV) : Bool := if tsRefCmpStrict then strictEq a b else looseEq a b

/-- the same values in WebAssembly: an i31 or a reference to a heap object -/
inductive WRef
  | i31 (n : Int)
  | obj (id : Nat)
  deriving DecidableEq

def repOf : JsV → WRef
  | .num n => .i31 n
  | .raw _ => .obj 0
  | .arr id _ => .obj id

/-- `ref.eq` -/
def wasmRefEq (a b : WRef) : Bool := a == b

/-- a value that can be an operand (not a bare raw string) -/
def IsRefVal : JsV → Prop
  | .raw _ => False
  | _ => True

/-- variant test sequence of a `match` whose first arms are the payload-free variants with tags
`0 … k-1` (printed `1, 3, …`): index of the first tag the value is "equal" to -/
def firstTag (eq : JsV → Int → Bool) (v : JsV) : Nat → Nat → Option Nat
  | _, 0 => none
  | k, fuel + 1 => if eq v (2 * k + 1) then some k else firstTag eq v (k + 1) fuel

/-! ## String constants -/

/-- code points (Unicode scalar values) of a source text -/
abbrev Text := List Nat

def BACKSLASH : Nat := 92
def QUOTE : Nat := 34
def BACKTICK : Nat := 96
def DOLLAR : Nat := 36
def LBRACE : Nat := 123
def LF : Nat := 10
def CR : Nat := 13

/-- UTF-8 encoding of one scalar value (`str::as_bytes`) -/
def utf8 (v : Nat) : List Nat :=
  if v < 0x80 then [v]
  else if v < 0x800 then [0xC0 + v / 64, 0x80 + v % 64]
  else if v < 0x10000 then [0xE0 + v / 4096, 0x80 + v / 64 % 64, 0x80 + v % 64]
  else [0xF0 + v / 262144, 0x80 + v / 4096 % 64, 0x80 + v / 64 % 64, 0x80 + v % 64]

/-- UTF-16 encoding of one scalar value (what a JS string holds) -/
def utf16 (v : Nat) : List Nat :=
  if v < 0x10000 then [v] else [0xD800 + (v - 0x10000) / 1024, 0xDC00 + (v - 0x10000) % 1024]

/-- `array.get_s` sign-extends the i8; storing it into a `Uint8Array` keeps it modulo 256, i.e. the
original byte (`loader.js:6-15` after fix 8056d1e; before the fix each sign-extended byte went
through `String.fromCharCode` on its own: finding C04-F4). -/
def byteToU8 (b : Nat) : Nat := (if b < 128 then b else 65280 + b) % 256

def isCont (b : Nat) : Bool := 128 ≤ b && b < 192

/-- `new TextDecoder().decode(bytes)`: UTF-8 to scalar values; a malformed sequence yields U+FFFD
(the exact resynchronisation of the WHATWG decoder is not modelled: malformed input cannot arise
from samlang strings, which are `&str` constants, `Str.fromInt` results and concatenations). -/
def utf8Decode : List Nat → List Nat
  | [] => []
  | b0 :: rest =>
    if b0 < 128 then b0 :: utf8Decode rest
    else if 192 ≤ b0 ∧ b0 < 224 ∧ isCont (rest.getD 0 0) then
      ((b0 - 192) * 64 + (rest.getD 0 0 - 128)) :: utf8Decode (rest.drop 1)
    else if 224 ≤ b0 ∧ b0 < 240 ∧ isCont (rest.getD 0 0) ∧ isCont (rest.getD 1 0) then
      ((b0 - 224) * 4096 + (rest.getD 0 0 - 128) * 64 + (rest.getD 1 0 - 128)) :: utf8Decode (rest.drop 2)
    else if 240 ≤ b0 ∧ b0 < 248 ∧ isCont (rest.getD 0 0) ∧ isCont (rest.getD 1 0) ∧ isCont (rest.getD 2 0) then
      ((b0 - 240) * 262144 + (rest.getD 0 0 - 128) * 4096 + (rest.getD 1 0 - 128) * 64 + (rest.getD 2 0 - 128))
        :: utf8Decode (rest.drop 3)
    else 65533 :: utf8Decode rest
termination_by l => l.length
decreasing_by all_goals simp_wf <;> omega

/-- the character an escape letter stands for (`string_constant_bytes`, `wasm_lowering.rs`, fix 9fd2988);
`wasmEscTable` is regenerated from the source on every run -/
def escChar (e : Nat) : Option Nat := wasmEscTable.lookup e

/-- `string_constant_bytes`: the characters the source text of the literal denotes -/
def wasmUnescape : Text → Text
  | [] => []
  | 92 :: [] => [92]
  | 92 :: e :: r =>
    match escChar e with
    | some c => c :: wasmUnescape r
    | none => 92 :: e :: wasmUnescape r
  | c :: r => c :: wasmUnescape r

/-- WebAssembly: the UTF-8 bytes of the denoted characters in the data segment, read back byte by
byte and decoded as UTF-8 by the loader; the JS string holds the UTF-16 code units. (Before fix
9fd2988 the raw source text was stored: finding C04-F2.) -/
def wasmDecode (s : Text) : List Nat :=
  (utf8Decode (((wasmUnescape s).flatMap utf8).map byteToU8)).flatMap utf16

def isDigit (c : Nat) : Bool := 48 ≤ c && c ≤ 57

/-- TypeScript: the content is pasted between back quotes; JS "cooks" it (ECMAScript 12.9.6
Template Literal Lexical Components). `none`: not a single substitution-free template literal
(a back quote closes it, `${` opens a substitution) or an escape that is a SyntaxError in a
template (`\0` before a digit, `\1`…`\9`, malformed `\x`, `\u` — the last not modelled further). -/
def hexDigitVal (c : Nat) : Option Nat :=
  if 48 ≤ c ∧ c ≤ 57 then some (c - 48)
  else if 97 ≤ c ∧ c ≤ 102 then some (c - 87)
  else if 65 ≤ c ∧ c ≤ 70 then some (c - 55)
  else none

def tsCook : Text → Option (List Nat)
  | [] => some []
  | 96 :: _ => none
  | 36 :: 123 :: _ => none
  | 92 :: [] => none
  | 92 :: 13 :: 10 :: rest => tsCook rest                   -- line continuation \<CR><LF>
  | 92 :: 120 :: h1 :: h2 :: rest =>                         -- \xHH
    match hexDigitVal h1, hexDigitVal h2 with
    | some a, some b => (tsCook rest).map ((16 * a + b) :: ·)
    | _, _ => none
  | 92 :: c :: rest =>
    if c = 110 then (tsCook rest).map (10 :: ·)            -- \n
    else if c = 116 then (tsCook rest).map (9 :: ·)        -- \t
    else if c = 118 then (tsCook rest).map (11 :: ·)       -- \v
    else if c = 98 then (tsCook rest).map (8 :: ·)         -- \b
    else if c = 102 then (tsCook rest).map (12 :: ·)       -- \f
    else if c = 114 then (tsCook rest).map (13 :: ·)       -- \r
    else if c = 48 then                                     -- \0 (not before a digit)
      if (rest.head?.map isDigit).getD false then none else (tsCook rest).map (0 :: ·)
    else if isDigit c || c = 120 || c = 117 then none       -- \1..\9, \x, \u
    else if c = 10 || c = 13 || c = 8232 || c = 8233 then tsCook rest -- line continuation
    else (tsCook rest).map (utf16 c ++ ·)                   -- \\ \" \' \` \$ and non-escapes
  | 13 :: 10 :: rest => (tsCook rest).map (10 :: ·)         -- <CR><LF> is normalised to <LF>
  | 13 :: rest => (tsCook rest).map (10 :: ·)               -- <CR> too
  | c :: rest => (tsCook rest).map (utf16 c ++ ·)
termination_by s => s.length
decreasing_by all_goals simp_wf <;> omega

/-- `template_literal_text` (`lir.rs`, after fixes 0e855e5 and 9fd2988): the text written between the
back quotes. Escape sequences are kept (JS cooks them to the characters the specification
prescribes); a back quote and `${` are escaped, a raw CR is written `\\r`, and `\\0` before a digit
(an octal escape, SyntaxError in a template) is written `\\x00`. Before the fixes the content was
pasted as is (findings C04-F2, C04-F3). -/
def tsRewriteOf (c : Nat) (next : Option Nat) : Option (List Nat) :=
  tsRewrites.findSome? fun (ch, guard, rep) =>
    if ch = c ∧ (guard = none ∨ guard = next) then some rep else none

/-- The rewrite table `tsRewrites` and the text `tsNulBeforeDigit` are regenerated from `lir.rs` on
every run (`extract/c04_strings.py`). -/
def tsEscape : Text → Text
  | [] => []
  | 92 :: [] => [92]
  | 92 :: n :: r =>
    if n = 48 ∧ (r.head?.map isDigit).getD false = true then tsNulBeforeDigit ++ tsEscape r
    else 92 :: n :: tsEscape r
  | c :: r =>
    match tsRewriteOf c r.head? with
    | some rep => rep ++ tsEscape r
    | none => c :: tsEscape r

/-- the JS string the emitted TypeScript holds for a constant with this content -/
def tsDecode (s : Text) : Option (List Nat) := tsCook (tsEscape s)

/-- `string_has_valid_escape` (`lexer.rs:685-702`) run over the literal's inside -/
def validEscapes : Bool → Text → Bool
  | _, [] => true
  | pending, c :: rest =>
    if c = 92 then validEscapes (!pending) rest
    else if pending then
      lexEscapes.contains c && validEscapes false rest
    else validEscapes false rest

/-- `lex_str_lit_opt` (`lexer.rs:317-355`): `"raw"` is lexed as exactly one string literal.
`bs` = number of consecutive backslashes just before the current position. -/
def closesAtEnd : Nat → Text → Bool
  | bs, [] => bs % 2 == 0
  | bs, c :: rest =>
    if c = 10 then false
    else if c = 34 then (bs % 2 == 1) && closesAtEnd 0 rest
    else if c = 92 then closesAtEnd (bs + 1) rest
    else closesAtEnd 0 rest

/-- the literal `"raw"` is accepted by the lexer -/
def lexAccepts (raw : Text) : Bool := closesAtEnd 0 raw && validEscapes false raw

/-- `unescape_quotes`: `source.replace("\\\"", "\"")` -/
def unescapeQuotes : Text → Text
  | 92 :: 34 :: rest => 34 :: unescapeQuotes rest
  | c :: rest => c :: unescapeQuotes rest
  | [] => []

/-- run-time content of the string constant written as `"raw"` -/
def content (raw : Text) : Text := unescapeQuotes raw

/-! ## `Str.fromInt` / `Str.toInt` -/

/-- digits of `p`, least significant first: the `$set_characters_loop` of `libsam.wat:94-118`
(`(p - p/10*10) | 48`, `p := p/10` while `p ≥ 1`) -/
def digitsRev : Nat → Nat → List Nat
  | 0, _ => []
  | fuel + 1, p => if p < 1 then [] else (48 ||| (p - p / 10 * 10)) :: digitsRev fuel (p / 10)

/-- `$__Str$fromInt` (`libsam.wat:35-152`): special cases `MIN` and `0`, sign, digits written
backwards and then reversed in place (the in-place reversal is modelled by `List.reverse`). -/
def wasmFromInt (n : Int) : List Nat :=
  if n = -2147483648 then [45, 50, 49, 52, 55, 52, 56, 51, 54, 52, 56]
  else if n = 0 then [48]
  else
    let p := n.natAbs
    (if n < 0 then [45] else []) ++ (digitsRev 11 p).reverse

/-- `$__Str$toInt` (`libsam.wat:153-224`) on the code units (as signed bytes) of a string:
optional `-`, then only digits (anything else: result 0), 32-bit wrapping accumulation. -/
def wasmToIntLoop : List Nat → Int → Option Int
  | [], acc => some acc
  | c :: rest, acc =>
    if (c + 208) % 256 > 9 then none      -- ((c - 48) & 255) >u 9
    else wasmToIntLoop rest (wrap32 (wrap32 (wrap32 (acc * 10) + c) - 48))

/-- The empty string yields 0 (after fix 394f1b2; before it the "check empty string" block re-used
the label `$B0` and `"".toInt()` trapped). `Option` is kept for the protocol: always `some`. -/
def wasmToInt (s : List Nat) : Option Int :=
  match s with
  | [] => some 0
  | c :: rest =>
    let neg := c = 45
    match wasmToIntLoop (if neg then rest else s) 0 with
    | none => some 0
    | some num => some (if neg then wrap32 (0 - num) else num)

/-- canonical decimal digits, most significant first -/
def natDigits (fuel : Nat) (p : Nat) : List Nat :=
  match fuel with
  | 0 => []
  | fuel + 1 => if p < 10 then [48 + p] else natDigits fuel (p / 10) ++ [48 + p % 10]

/-- `String(v)` for an integral JS number below 10^21 (ECMAScript Number::toString): optional
`-`, then the decimal digits without leading zeros. -/
def tsFromInt (n : Int) : List Nat :=
  (if n < 0 then [45] else []) ++ natDigits 22 n.natAbs

/-- value of a digit string -/
def decVal : List Nat → Nat → Nat
  | [], acc => acc
  | c :: rest, acc => decVal rest (acc * 10 + (c - 48))

/-- `parseInt(s, 10)` on ASCII input: skip leading white space, optional sign, longest digit
prefix; `none` = NaN. -/
def tsToInt (s : List Nat) : Option Int :=
  let s := s.dropWhile (fun c => c = 32 || (9 ≤ c && c ≤ 13))
  let (neg, s) := match s with
    | 45 :: r => (true, r)
    | 43 :: r => (false, r)
    | _ => (false, s)
  let ds := s.takeWhile isDigit
  if ds.isEmpty then none
  else some (if neg then -(Int.ofNat (decVal ds 0)) else Int.ofNat (decVal ds 0))

/-! ## `Vec<int>` -/

inductive VOp
  | push (v : Int)
  | pop
  | get (i : Int)
  | set (i : Int) (v : Int)
  | len
  | reserve (n : Int)
  deriving DecidableEq, Repr

/-- what one call shows to the program -/
inductive VRes
  | unit
  | val (n : Int)
  | fail (msg : String)   -- run stops here
  deriving DecidableEq, Repr

/-- messages of `$__$vecPanic` (after fix 361669d both runtimes panic with the same text; before it
the WebAssembly runtime executed `unreachable`: finding C04-F6) -/
def POP_EMPTY : String := "pop from empty Vec"
def OOB : String := "Vec index out of bounds"

/-- TypeScript runtime (`lir.rs:596-651`): a JS array of plain numbers -/
def tsVecStep (t : List Int) : VOp → List Int × VRes
  | .push v => (t ++ [v], .unit)
  | .pop =>
    if t.length = 0 then (t, .fail POP_EMPTY)
    else (t.take (t.length - 1), .val (t.getD (t.length - 1) 0))
  | .get i =>
    if i < 0 ∨ i ≥ t.length then (t, .fail OOB) else (t, .val (t.getD i.toNat 0))
  | .set i v =>
    if i < 0 ∨ i ≥ t.length then (t, .fail OOB) else (t.set i.toNat v, .unit)
  | .len => (t, .val t.length)
  | .reserve _ => (t, .unit)                 -- `(_t, _n) => 0`

/-- `Vec.capacity` in TypeScript is the length (`lir.rs:617-619`); the specification calls the
value an implementation hint, so it is modelled but not compared between the back ends. -/
def tsCapacity (t : List Int) : Nat := t.length

/-- `Vec.of(v)`: `[v]` -/
def tsVecOf (v : Int) : List Int := [v]

/-- WebAssembly runtime (`libsam.wat:270-374`): `{data : array (ref null eq), length : i32}` -/
structure WVec where
  data : List (Option Int)   -- `none` = `ref.null`; `some n` = `ref.i31` holding `n`
  len : Nat
  deriving DecidableEq, Repr

def WVec.empty : WVec := ⟨[], 0⟩

/-- `$__Vec$reserve`: grow to `max(min, 2*cap, 4)` when `min > cap`, copying `len` elements -/
def wReserve (w : WVec) (min : Nat) : WVec :=
  let cap := w.data.length
  if min ≤ cap then w
  else
    let c1 := 2 * cap
    let c2 := if c1 < min then min else c1
    let c3 := if c2 < 4 then 4 else c2
    { w with data := w.data.take w.len ++ List.replicate (c3 - w.len) none }

/-- one call, including the boxing / unboxing at the call site. `box` is what a stored element
looks like when it is read back: `i31wrap` for `Vec<int>` (`ref.i31` then `$__$unwrapI31`), the
identity for a `Vec` of references (elements are then object identities; `ref.cast` does not change
them, `wasm_lowering.rs:330-343`). -/
def wasmVecStep (box : Int → Int) (w : WVec) : VOp → WVec × VRes
  | .push v =>
    let w1 := wReserve w (w.len + 1)
    ({ data := w1.data.set w.len (some (box v)), len := w.len + 1 }, .unit)
  | .pop =>
    if w.len = 0 then (w, .fail POP_EMPTY)
    else
      match w.data.getD (w.len - 1) none with
      | none => (w, .fail "null")
      | some n => ({ data := w.data.set (w.len - 1) none, len := w.len - 1 }, .val n)
  | .get i =>
    -- `i32.ge_u i len`: a negative index is a huge unsigned one
    if i < 0 ∨ i ≥ w.len then (w, .fail OOB)
    else match w.data.getD i.toNat none with
      | none => (w, .fail "null")
      | some n => (w, .val n)
  | .set i v =>
    if i < 0 ∨ i ≥ w.len then (w, .fail OOB)
    else ({ w with data := w.data.set i.toNat (some (box v)) }, .unit)
  | .len => (w, .val w.len)
  | .reserve n => (wReserve w n.toNat, .unit)   -- `i32.le_s min cap`: a negative `min` never grows

/-- `$__Vec$capacity`: length of the backing array -/
def wasmCapacity (w : WVec) : Nat := w.data.length

/-- `$__Vec$of` with the argument boxed at the call site -/
def wasmVecOf (box : Int → Int) (v : Int) : WVec := ⟨[some (box v)], 1⟩

/-- `$__Vec$withCapacity`; a negative capacity is a huge unsigned array size (engine trap): `none` -/
def wasmVecWithCapacity (n : Int) : Option WVec :=
  if n < 0 then none else some ⟨List.replicate n.toNat none, 0⟩

/-! ### `Vec.eq` -/

/-- the `for` loop of the TypeScript `Vec.eq` after the length guard (`lir.rs:648-652`) -/
def tsVecEqLoop : List Int → List Int → Bool
  | x :: xs, y :: ys => if x ≠ y then false else tsVecEqLoop xs ys
  | _, _ => true

/-- TypeScript `Vec.eq`; `same` = both arguments are the same object (`a === b`) -/
def tsVecEq (same : Bool) (a b : List Int) : Int :=
  if same then 1 else if a.length ≠ b.length then 0 else b2i (tsVecEqLoop a b)

/-- the loop of `$__Vec$eq` (`libsam.wat:352-374`): `ref.eq` on the first `n` slots -/
def wasmVecEqLoop : Nat → List (Option Int) → List (Option Int) → Bool
  | 0, _, _ => true
  | n + 1, x :: xs, y :: ys => if x ≠ y then false else wasmVecEqLoop n xs ys
  | _ + 1, _, _ => true    -- unreachable when `len ≤ capacity` on both sides

def wasmVecEq (same : Bool) (a b : WVec) : Int :=
  if same then 1 else if a.len ≠ b.len then 0 else b2i (wasmVecEqLoop a.len a.data b.data)

/-! ### `Str.concat`, string `==` (strings = lists of code units) -/

/-- one copy loop of `$__Str$concat` (`libsam.wat:225-262`): `arr[off + i] := src[i]` -/
def copyLoop : List Nat → Nat → List Nat → List Nat
  | arr, _, [] => arr
  | arr, off, c :: cs => copyLoop (arr.set off c) (off + 1) cs

/-- `$__Str$concat`: new zeroed array of the total length, two copy loops -/
def wasmStrConcat (a b : List Nat) : List Nat :=
  copyLoop (copyLoop (List.replicate (a.length + b.length) 0) 0 a) a.length b

/-- TypeScript `([, a], [, b]) => [1, a + b]` -/
def tsStrConcat (a b : List Nat) : List Nat := a ++ b

/-- `array.get_s` / `array.get_u` of one byte of a string -/
def readByte (signed : Bool) (b : Nat) : Int := if signed ∧ b ≥ 128 then (b : Int) - 256 else b

/-- loop of `$__Str$eq` (`libsam.wat:10-29`) after the reference and length tests, with the two
operands read the way the code reads them (`a` with `signedA`, `b` with `signedB`) -/
def strEqLoopWith (signedA signedB : Bool) : List Nat → List Nat → Bool
  | x :: xs, y :: ys =>
    if readByte signedA x ≠ readByte signedB y then false else strEqLoopWith signedA signedB xs ys
  | _, _ => true

/-- … with the signedness flags regenerated from `libsam.wat` on every run -/
def wasmStrEqLoop (a b : List Nat) : Bool := strEqLoopWith strEqSignedA strEqSignedB a b

def wasmStrEq (same : Bool) (a b : List Nat) : Int :=
  if same then 1 else if a.length ≠ b.length then 0 else b2i (wasmStrEqLoop a b)

/-- TypeScript `Number(a[1] == b[1])`: JS string equality -/
def tsStrEq (a b : List Nat) : Int := b2i (decide (a = b))

/-- run a call sequence until the first failing call; results in order -/
def tsVecRun : List Int → List VOp → List VRes
  | _, [] => []
  | t, op :: ops =>
    match tsVecStep t op with
    | (_, .fail m) => [.fail m]
    | (t', r) => r :: tsVecRun t' ops

def wasmVecRun (box : Int → Int) : WVec → List VOp → List VRes
  | _, [] => []
  | w, op :: ops =>
    match wasmVecStep box w op with
    | (_, .fail m) => [.fail m]
    | (w', r) => r :: wasmVecRun box w' ops

end SamVerif.Backends
