import SamVerif.Model.FmtFull
import SamVerif.Model.Doc
/-!
C08: the *document* the printer builds for an expression of `Model/FmtFull.lean`, i.e. `printE` one
level earlier — before the layout engine (`Model/Doc.lean`, C09's model of `prettier.rs`) has chosen
between the alternatives of each `Union`.

Mirror of `create_doc` (`crates/samlang-printer/src/source_printer.rs`) for expressions without
comments (every `create_opt_preceding_comment_doc` returns its main document, every
`associated_comments_doc` returns `None`):

* `create_doc_for_subexpression_considering_precedence_level` = `subD`
* `create_doc_for_parenthesized_expression_list` / `comma_sep_list` = `parenD` / `docArgs`
* `create_chainable_ir_docs` = `irOf` on `post`/`call0`/`call` (`baseIR`, `pushArgs`);
  `create_doc_for_dotted_chain` = `dottedChain` with its three layouts
  (flattened ∪ (less expanded ∪ expanded))
* `create_doc_for_if_else` / `create_doc_for_if_else_customized_flattened` = `ifElseDoc`
  (flattened ∪ expanded); `create_doc_for_block` = `blockOf`
* the `Unary`, `Binary` (member-name-before-`<`, left operand, right-operand shortcut, safest rule),
  `Match` (`bracket_flexible("{", LineHard, …, "}")`) and `Lambda` arms of
  `create_doc_without_preceding_comment`
* `statement_to_document` / `declaration_statement_to_document` = `stmtSegs`.

The units that are opaque in `Model/FmtFull.lean` are documents supplied by a `Leaves` record.
Tied by the `doc=` field of protocol `E` (driver `Driver/C08.lean`): `docOf` of the parsed expression
equals the real `Document` (hook `samlang_printer::verif_hooks::expression_doc`) node by node.
-/
namespace SamVerif.FmtDoc
open SamVerif.Doc SamVerif.FmtFull
open SamVerif.Fmt (BinOp UOp)

/-- The documents of the opaque units: identifiers/literals, member names and their optional explicit
type arguments (`optional_targs`), match patterns (`matching_pattern_to_document`), the pattern and
the optional `: type` of a `let`, the `comma_sep_list` of lambda parameters. -/
structure Leaves where
  atom : Nat → Doc
  name : Nat → Doc
  targs : Nat → Doc
  pat : Nat → Doc
  letPat : Nat → Doc
  letAnnot : Nat → Doc
  params : Nat → Doc

/-- `BinaryOperator::kind_str`. -/
def opStr : BinOp → Str
  | .mul => ['*'] | .div => ['/'] | .mod => ['%'] | .plus => ['+']
  | .minus => ['-'] | .concat => [':', ':'] | .lt => ['<'] | .le => ['<', '=']
  | .gt => ['>'] | .ge => ['>', '='] | .eq => ['=', '='] | .ne => ['!', '=']
  | .and => ['&', '&'] | .or => ['|', '|']

/-- `UnaryOperator::kind_str`. -/
def uopStr : UOp → Str
  | .not => ['!']
  | .neg => ['-']

/-- `parenthesis_surrounded_doc` = `no_space_bracket("(", d, ")")`. -/
def parenD (d : Doc) : Doc := bracketFlexible ['('] .lineNil d [')']
/-- `braces_surrounded_doc` = `spaced_bracket("{", d, "}")`. -/
def bracesD (d : Doc) : Doc := bracketFlexible ['{'] .line d ['}']

/-- `create_doc_for_subexpression_considering_precedence_level`. -/
def subD (p : Nat) (eq : Bool) (e : Expr) (d : Doc) : Doc :=
  if needParen p eq e then parenD d else d

/-- One member of a chain: the (absent) comment document, the dot, the member's documents. -/
def seg (lead : Doc) (ds : List Doc) : List Doc := lead :: .text ['.'] :: ds

/-- `create_doc_for_dotted_chain` without comments: `create_member_preceding_comment_docs` is `Nil`
in the flattened layout and `LineHard` in the expanded ones. -/
def expanded0 (base : Doc) (chain : List (List Doc)) : Doc :=
  concatV [base, .nest 2 (concatV (chain.flatMap (seg .lineHard)))]

/-- `expanded` after the `split_first` step: less expanded ∪ expanded. -/
def expandedChain (base : Doc) : List (List Doc) → Doc
  | [] => expanded0 base []
  | first :: rest =>
    .union (concatV [base, .nil, .text ['.'], concatV first,
      .nest 2 (concatV (rest.flatMap (seg .lineHard)))]) (expanded0 base (first :: rest))

def dottedChain (base : Doc) (chain : List (List Doc)) : Doc :=
  match flatten (concatV (base :: chain.flatMap (seg .nil))) with
  | some f => .union f (expandedChain base chain)
  | none => expandedChain base chain

/-- `last_docs.push(args_doc)` on a non-empty chain. -/
def pushLast : List (List Doc) → Doc → List (List Doc)
  | [], _ => []
  | [x], a => [x ++ [a]]
  | x :: y :: r, a => x :: pushLast (y :: r) a

/-- The `Call` arm of `create_chainable_ir_docs`. -/
def pushArgs (ir : Doc × List (List Doc)) (a : Doc) : Doc × List (List Doc) :=
  match ir.2 with
  | [] => (.concat ir.1 a, [])
  | c :: cs => (ir.1, pushLast (c :: cs) a)

def isChain : Expr → Bool
  | .post _ _ _ | .call0 _ | .call _ _ => true
  | _ => false

/-- `create_chainable_ir_docs` on the object / callee `e`, given `irOf e`: a chainable expression
continues the chain, anything else is the base (parenthesised when it binds weaker than a chain). -/
def baseIR (e : Expr) (ir : Doc × List (List Doc)) : Doc × List (List Doc) :=
  if isChain e then ir else (subD 1 false e ir.1, [])

/-- `create_doc` from the intermediate form. -/
def close (e : Expr) (ir : Doc × List (List Doc)) : Doc :=
  if isChain e then dottedChain ir.1 ir.2 else ir.1

/-- `segments.push(final)` / `segments.pop()` of `create_doc_for_block`. -/
def segsWithFinal (segs : List Doc) : Option Doc → List Doc
  | some d => segs ++ [d]
  | none => segs.dropLast

/-- `create_doc_for_block` (no ending comments): `segs` = the statements, each followed by
`LineHard`; `final` = the document of the final expression. -/
def blockOf (forceExpanded : Bool) (segs : List Doc) (final : Option Doc) : Doc :=
  if segs.isEmpty then
    if forceExpanded then
      concatV [.text ['{'], .nest 2 (concatV [.lineHard, final.getD .nil]), .line, .text ['}']]
    else bracesD (final.getD .nil)
  else
    let sep : Doc := if forceExpanded then .lineHard else .line
    concatV [.text ['{'], .nest 2 (concatV (sep :: segsWithFinal segs final)), sep, .text ['}']]

/-- `create_doc_for_if_else_customized_flattened` for `if c t else e`. -/
def ifElseCustom (c t e : Doc) : Doc :=
  concatV [concatV [.text ['i', 'f', ' '], c, .text [' ']], t, .text [' ', 'e', 'l', 's', 'e', ' '], e]

/-- `create_doc_for_if_else`: `tf`/`ef` are the blocks with `force_expanded = false`, `tx`/`ex` with
`force_expanded = true`. -/
def ifElseDoc (c tf ef tx ex : Doc) : Doc :=
  match flatten (ifElseCustom c tf ef) with
  | some f => .union f (ifElseCustom c tx ex)
  | none => ifElseCustom c tx ex

def operatorDoc (o : BinOp) : Doc := concatV [.text [' '], .text (opStr o), .text [' ']]

mutual
/-- `create_chainable_ir_docs(e, e)` for a chainable `e`; `(create_doc e, [])` otherwise. -/
def irOf (L : Leaves) : Expr → Doc × List (List Doc)
  | .atom a => (L.atom a, [])
  | .tuple e es =>
    (parenD (concatV [close e (irOf L e), .text [','], .line, docArgs L es]), [])
  | .block b => (blockDoc L false b, [])
  | .post e p fld =>
    let ir := baseIR e (irOf L e)
    (ir.1, ir.2 ++ [[L.name p, if fld then .nil else L.targs p]])
  | .call0 f => pushArgs (baseIR f (irOf L f)) (parenD .nil)
  | .call f args => pushArgs (baseIR f (irOf L f)) (parenD (docArgs L args))
  | .unary u e => (.concat (.text (uopStr u)) (subD 2 true e (close e (irOf L e))), [])
  | .binary o l r =>
    let p := 4 + o.pprec
    let dl := close l (irOf L l)
    let dr := close r (irOf L r)
    (if o = .lt ∧ endsMember l = true then
      concatV [parenD dl, .nil, operatorDoc o, subD p true r dr]
    else if l.prec = p then
      concatV [dl, .nil, operatorDoc o, subD p true r dr]
    else if r.prec = p ∧ shortcutOk o r = true then
      concatV [subD p true l dl, .nil, operatorDoc o, dr]
    else
      concatV [subD p true l dl, .nil, operatorDoc o, subD p true r dr], [])
  | .ifElse c t e =>
    (ifElseDoc (close c (irOf L c)) (blockDoc L false t) (blockDoc L false e)
      (blockDoc L true t) (blockDoc L true e), [])
  | .matchE m cs =>
    (concatV [.text ['m', 'a', 't', 'c', 'h', ' '], close m (irOf L m), .text [' '],
      bracketFlexible ['{'] .lineHard (concatV (docCases L cs)) ['}']], [])
  | .lambda k body =>
    (concatV [parenD (L.params k), .text [' ', '-', '>', ' '],
      subD 12 false body (close body (irOf L body))], [])
/-- `comma_sep_list` of a non-empty expression list. -/
def docArgs (L : Leaves) : Args → Doc
  | .one e => close e (irOf L e)
  | .cons e rest => concatV [close e (irOf L e), .text [','], .line, docArgs L rest]
/-- The `list` of the `Match` arm, the final `Line` popped. -/
def docCases (L : Leaves) : Cases → List Doc
  | .one k b => [L.pat k, .text [' ', '-', '>', ' '], close b (irOf L b), .text [',']]
  | .cons k b rest =>
    L.pat k :: .text [' ', '-', '>', ' '] :: close b (irOf L b) :: .text [','] :: .line :: docCases L rest
def blockDoc (L : Leaves) (forceExpanded : Bool) : Blk → Doc
  | .fin ss e => blockOf forceExpanded (stmtSegs L ss) (some (close e (irOf L e)))
  | .noFin ss => blockOf forceExpanded (stmtSegs L ss) none
/-- `segments` of `create_doc_for_block`: every statement followed by `LineHard`. -/
def stmtSegs (L : Leaves) : Stmts → List Doc
  | .nil => []
  | .letS k e rest =>
    concatV [.nil, .text ['l', 'e', 't', ' '], L.letPat k, L.letAnnot k, .text [' ', '=', ' '],
      close e (irOf L e), .text [';']] :: .lineHard :: stmtSegs L rest
  | .exprS e rest => concatV [close e (irOf L e), .text [';']] :: .lineHard :: stmtSegs L rest
end

/-- `create_doc`. -/
def docOf (L : Leaves) (e : Expr) : Doc := close e (irOf L e)

/-- The non-whitespace characters of a printed token. -/
def tokChars (L : Leaves) : FmtFull.Tok → List Char
  | .lp => ['('] | .rp => [')'] | .bang => ['!'] | .comma => [','] | .lb => ['{'] | .rb => ['}']
  | .kwIf => ['i', 'f'] | .kwElse => ['e', 'l', 's', 'e'] | .kwMatch => ['m', 'a', 't', 'c', 'h']
  | .semi => [';']
  | .op o => opStr o
  | .atom a => val textKey (L.atom a)
  | .post p fld => '.' :: (val textKey (L.name p) ++ (if fld then [] else val textKey (L.targs p)))
  | .pat k => val textKey (L.pat k) ++ ['-', '>']
  | .letK k => ['l', 'e', 't'] ++ val textKey (L.letPat k) ++ val textKey (L.letAnnot k) ++ ['=']
  | .lam k => '(' :: (val textKey (L.params k) ++ [')', '-', '>'])

/-- The non-whitespace characters of a printed token sequence. -/
def chars (L : Leaves) (ts : List FmtFull.Tok) : List Char := ts.flatMap (tokChars L)

end SamVerif.FmtDoc
