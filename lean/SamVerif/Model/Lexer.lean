import SamVerif.Generated.Keywords
/-
Byte-level model of the scanner of `crates/samlang-parser/src/lexer.rs`, function by function
(core Lean only, executable: the driver `Driver/C05.lean` / `Driver/C14.lean` links it natively).

* `WrappedLogosLexer::next_token` (lexer.rs:170-305)  → `nextRaw`
* `skip_whitespace` (462-474)                          → `wsRun` + `bump`
* `lex_str_lit_opt` (317-355)                          → `strEnd`, `lexStrLit`
* `string_has_valid_escape` (685-702)                  → `validEscape`
* `lex_line_comment_opt` (416-433)                     → `lexLineComment`
* `lex_block_comment_opt` + `post_process_block_comment` (357-414) → `blockEnd`, `lexBlockComment`,
  `postProcess`
* error-token resynchronisation (199-217)              → `lexError`
* logos' generated DFA: abstracted as *longest match* over the token tables of
  `Generated/Keywords.lean` (regenerated from the source on every run) and the three identifier /
  integer regexes; literal tokens win ties against regexes (logos priority rule) → `logosNext`
* `TokenProducer::{next_token, process_raw_token}` (715-767) → `processRaw`, `produce`
* positions: `next_n_column`, `next_line_or_column`, `loc_of_advance` (436-460) → `Pos`, `advance`
* `Location::union` (samlang-ast/src/loc.rs:51-56)     → `posMin`, `posMax`

Where Rust would panic the model says so: a `&str` slice or `logos::Lexer::bump` at an index that is
not a char boundary (`isBoundary` is literally `str::is_char_boundary`), and a byte slice whose start
exceeds its end (`slice`) yield `panic`.  `String::from_utf8(prefix).unwrap()` in `lex_str_lit_opt`
is modelled by the boundary check of the cut (for valid UTF-8 input they coincide).
Not modelled: `u32` overflow of line/column counters (inputs ≥ 4 GiB), allocation failure.
-/
namespace SamVerif.Lexer
open SamVerif.Generated.Keywords

abbrev Bytes := List UInt8

/-! ## positions -/

/-- `Position(line, column)`; columns count bytes. -/
structure Pos where
  line : Nat
  col : Nat
  deriving DecidableEq, Repr, Inhabited

/-- `next_line_or_column` (lexer.rs:453) -/
def advance (p : Pos) (b : UInt8) : Pos :=
  if b.toNat = 10 then ⟨p.line + 1, 0⟩ else ⟨p.line, p.col + 1⟩

/-- `next_n_column` (lexer.rs:449) -/
def addCol (p : Pos) (n : Nat) : Pos := ⟨p.line, p.col + n⟩

/-- derived `Ord` of `Position` (lexicographic) -/
def Pos.le (a b : Pos) : Prop := a.line < b.line ∨ (a.line = b.line ∧ a.col ≤ b.col)
instance : LE Pos := ⟨Pos.le⟩
instance (a b : Pos) : Decidable (a ≤ b) := by unfold LE.le instLEPos Pos.le; exact inferInstance
def Pos.lt (a b : Pos) : Prop := a.line < b.line ∨ (a.line = b.line ∧ a.col < b.col)
instance : LT Pos := ⟨Pos.lt⟩
instance (a b : Pos) : Decidable (a < b) := by unfold LT.lt instLTPos Pos.lt; exact inferInstance

/-- `Location::union` start / end components (loc.rs:53-54) -/
def posMin (a b : Pos) : Pos := if a < b then a else b
def posMax (a b : Pos) : Pos := if b < a then a else b

/-! ## byte classes -/

/-- `u8::is_ascii_whitespace`: space, \t, \n, \x0C, \r -/
def isAsciiWs (b : UInt8) : Bool :=
  b.toNat = 32 || b.toNat = 9 || b.toNat = 10 || b.toNat = 12 || b.toNat = 13
/-- UTF-8 continuation byte `10xxxxxx` -/
def isCont (b : UInt8) : Bool := 128 ≤ b.toNat && b.toNat < 192
def isUpper (b : UInt8) : Bool := 65 ≤ b.toNat && b.toNat ≤ 90
def isLower (b : UInt8) : Bool := 97 ≤ b.toNat && b.toNat ≤ 122
def isDigit (b : UInt8) : Bool := 48 ≤ b.toNat && b.toNat ≤ 57
def isAlnum (b : UInt8) : Bool := isUpper b || isLower b || isDigit b

/-- `str::is_char_boundary(n)` on the bytes of a `&str` -/
def isBoundary (bs : Bytes) (n : Nat) : Bool :=
  n = 0 || n = bs.length || (match bs[n]? with | some b => !isCont b | none => false)

/-- `logos::Lexer::bump(n)` / `&s[..n]` / `&s[n..]`: panics (`none`) off a char boundary. -/
def bump (bs : Bytes) (n : Nat) : Option Bytes :=
  if isBoundary bs n then some (bs.drop n) else none

/-- byte-slice `&b[a..e]`: panics when `a > e` or `e > len`. -/
def slice (bs : Bytes) (a e : Nat) : Option Bytes :=
  if a ≤ e ∧ e ≤ bs.length then some ((bs.take e).drop a) else none

/-- length of the longest prefix whose bytes satisfy `p` -/
def run (p : UInt8 → Bool) : Bytes → Nat
  | [] => 0
  | b :: bs => if p b then run p bs + 1 else 0

/-! ## Unicode `White_Space` trimming on UTF-8 bytes (`str::trim*`), used for comment text only -/

/-- byte length of a `White_Space` scalar at the head (0 if none):
U+0009..000D, 0020, 0085, 00A0, 1680, 2000..200A, 2028, 2029, 202F, 205F, 3000 -/
def wsLen : Bytes → Nat
  | [] => 0
  | b :: rest =>
    let n := b.toNat
    if (9 ≤ n ∧ n ≤ 13) ∨ n = 32 then 1
    else match rest with
      | [] => 0
      | c :: rest2 =>
        if n = 0xC2 then (if c.toNat = 0x85 ∨ c.toNat = 0xA0 then 2 else 0)
        else match rest2 with
          | [] => 0
          | d :: _ =>
            let c := c.toNat; let d := d.toNat
            if n = 0xE1 ∧ c = 0x9A ∧ d = 0x80 then 3
            else if n = 0xE2 ∧ c = 0x80 ∧ ((0x80 ≤ d ∧ d ≤ 0x8A) ∨ d = 0xA8 ∨ d = 0xA9 ∨ d = 0xAF) then 3
            else if n = 0xE2 ∧ c = 0x81 ∧ d = 0x9F then 3
            else if n = 0xE3 ∧ c = 0x80 ∧ d = 0x80 then 3
            else 0

/-- the same on the reversed byte string (last byte first) -/
def wsLenRev : Bytes → Nat
  | [] => 0
  | d :: rest =>
    let dn := d.toNat
    if (9 ≤ dn ∧ dn ≤ 13) ∨ dn = 32 then 1
    else match rest with
      | [] => 0
      | c :: rest2 =>
        let cn := c.toNat
        if cn = 0xC2 ∧ (dn = 0x85 ∨ dn = 0xA0) then 2
        else match rest2 with
          | [] => 0
          | b :: _ =>
            let n := b.toNat
            if n = 0xE1 ∧ cn = 0x9A ∧ dn = 0x80 then 3
            else if n = 0xE2 ∧ cn = 0x80 ∧ ((0x80 ≤ dn ∧ dn ≤ 0x8A) ∨ dn = 0xA8 ∨ dn = 0xA9 ∨ dn = 0xAF) then 3
            else if n = 0xE2 ∧ cn = 0x81 ∧ dn = 0x9F then 3
            else if n = 0xE3 ∧ cn = 0x80 ∧ dn = 0x80 then 3
            else 0

def stripWith (len : Bytes → Nat) : Nat → Bytes → Bytes
  | 0, bs => bs
  | fuel + 1, bs => match len bs with
    | 0 => bs
    | k => stripWith len fuel (bs.drop k)

/-- `str::trim_start` -/
def trimStart (bs : Bytes) : Bytes := stripWith wsLen bs.length bs
/-- `str::trim_end` -/
def trimEnd (bs : Bytes) : Bytes := (stripWith wsLenRev bs.length bs.reverse).reverse
/-- `str::trim` -/
def trim (bs : Bytes) : Bytes := trimEnd (trimStart bs)

/-- `str::split('\n')` -/
def splitLines : Bytes → List Bytes
  | [] => [[]]
  | b :: bs =>
    match splitLines bs with
    | [] => [[b]]      -- unreachable
    | l :: ls => if b.toNat = 10 then [] :: l :: ls else (b :: l) :: ls

def joinSp : List Bytes → Bytes
  | [] => []
  | [x] => x
  | x :: xs => x ++ 32 :: joinSp xs

/-- one line of `post_process_block_comment`: `stripStar` = the ` * ` decoration star is removed here -/
def postLine (stripStar : Bool) (line : Bytes) : Bytes :=
  let l := trimStart line
  match l with
  | b :: rest => if stripStar && b.toNat = 42 then trim rest else trimEnd l
  | [] => []

/-- `post_process_block_comment` (lexer.rs:358-371). Two variants, selected by the translator from the
source: the star is stripped on every line (original), or only on continuation lines - index > 0 -
(repair of C09-F9: `/* *kwargs */` keeps its star). -/
def postProcess (body : Bytes) : Bytes :=
  match splitLines body with
  | [] => []
  | first :: rest =>
    joinSp ((postLine (!commentStarOnlyOnContinuationLines) first :: rest.map (postLine true)).filter
      (fun l => !l.isEmpty))

/-! ## tokens -/

inductive Kind where
  | kw | op | upper | lower | str | int | line | block | doc | error
  deriving DecidableEq, Repr, Inhabited

/-- `Token(Location, TokenContent)`; `text` is the interned content (keyword/operator spelling). -/
structure Token where
  kind : Kind
  text : Bytes
  start : Pos
  stop : Pos
  deriving DecidableEq, Repr, Inhabited

inductive ErrCode where
  | esc   -- "Invalid escape in string."
  | tok   -- "Invalid token."
  | int   -- "Not a 32-bit integer."
  deriving DecidableEq, Repr, Inhabited

/-- an `InvalidSyntax` entry of the `ErrorSet` -/
structure Err where
  start : Pos
  stop : Pos
  code : ErrCode
  deriving DecidableEq, Repr, Inhabited

/-- three-valued answer of the hand-written sub-lexers: not applicable / Rust panics / token -/
inductive Try (α : Type) where
  | no
  | panic
  | yes (a : α)
  deriving Repr

/-- one scanner step: token, reported errors, remaining input, position after the token -/
structure Scanned where
  tok : Token
  errs : List Err
  rest : Bytes
  pos : Pos
  deriving Repr

/-! ## `skip_whitespace` -/

/-- position after the whitespace run (the run's length is `run isAsciiWs`) -/
def wsPos : Bytes → Pos → Pos
  | [], p => p
  | b :: bs, p => if isAsciiWs b then wsPos bs (advance p b) else p

/-! ## `lex_str_lit_opt` -/

/-- Scan after the opening quote. `esc` = length of the run of backslashes immediately before the
current byte (what the backwards loop at lexer.rs:332-337 counts), `pos` = index of the current byte
in the remainder. Returns the total length `pos + 1` at the closing quote; `none` at end of input or
at a newline. -/
def strEnd : Bytes → Nat → Nat → Option Nat
  | [], _, _ => none
  | c :: cs, esc, pos =>
    if c.toNat = 34 ∧ esc % 2 = 0 then some (pos + 1)
    else if c.toNat = 10 then none
    else strEnd cs (if c.toNat = 92 then esc + 1 else 0) (pos + 1)

/-- `string_has_valid_escape` (lexer.rs:685), byte-wise (non-ASCII bytes are never in the escape set) -/
def validEscape : Bytes → Bool → Bool
  | [], _ => true
  | c :: cs, pendingEsc =>
    if c.toNat = 92 then validEscape cs (!pendingEsc)
    else if pendingEsc then
      (if c.toNat = 116 ∨ c.toNat = 118 ∨ c.toNat = 48 ∨ c.toNat = 98 ∨ c.toNat = 102 ∨ c.toNat = 110
          ∨ c.toNat = 114 ∨ c.toNat = 34 then validEscape cs false else false)
    else validEscape cs false

def lexStrLit (rest : Bytes) (pos : Pos) : Try Scanned :=
  match rest with
  | q :: body =>
    if q.toNat = 34 then
      match strEnd body 0 1 with
      | none => .no
      | some n =>
        -- `String::from_utf8(remainder_bytes[..n].to_vec()).unwrap()` then `self.lexer.bump(n)`
        match bump rest n with
        | none => .panic
        | some rest' =>
          let s := rest.take n
          let stop := addCol pos n
          let errs := if validEscape s false then [] else [⟨pos, stop, .esc⟩]
          .yes ⟨⟨.str, s, pos, stop⟩, errs, rest', stop⟩
    else .no
  | [] => .no

/-! ## `lex_line_comment_opt` -/

def lexLineComment (rest : Bytes) (pos : Pos) : Try Scanned :=
  match rest with
  | a :: b :: body =>
    if a.toNat = 47 ∧ b.toNat = 47 then
      let n := 2 + run (fun c => c.toNat ≠ 10) body
      let text := trim ((rest.take n).drop 2)
      let stop := addCol pos n          -- `loc_of_advance(bump_counter)`
      match bump rest n with
      | none => .panic
      | some rest' => .yes ⟨⟨.line, text, pos, stop⟩, [], rest', stop⟩
    else .no
  | _ => .no

/-! ## `lex_block_comment_opt` -/

/-- Loop at lexer.rs:382-395 on the bytes after `/*`: `n` = `comment_length`, `p` = tracked position.
`none` when the input ends before `*/`. -/
def blockEnd : Bytes → Pos → Nat → Option (Nat × Pos)
  | c :: d :: cs, p, n =>
    if c.toNat = 42 ∧ d.toNat = 47 then some (n + 2, addCol p 2)
    else blockEnd (d :: cs) (advance p c) (n + 1)
  | _, _, _ => none

def lexBlockComment (rest : Bytes) (pos : Pos) : Try Scanned :=
  match rest with
  | a :: b :: body =>
    if a.toNat = 47 ∧ b.toNat = 42 then
      match blockEnd body (addCol pos 2) 2 with
      | none => .no                       -- position restored, `None`
      | some (n, stop) =>
        match bump rest n with            -- `self.lexer.bump(comment_length)`
        | none => .panic
        | some rest' =>
          let chars := rest.take n
          -- `chars.len() > 4 && chars[2] == b'*'` (since fix c949025: `/**/` is an empty block comment)
          let isDoc := 4 < chars.length ∧ (chars[2]?.map (·.toNat)) = some 42
          -- `&chars[3..(chars.len() - 2)]` resp. `&chars[2..(chars.len() - 2)]`
          match slice chars (if isDoc then 3 else 2) (chars.length - 2) with
          | none => .panic
          | some bodyBytes =>
            .yes ⟨⟨if isDoc then .doc else .block, postProcess bodyBytes, pos, stop⟩, [], rest', stop⟩
    else .no
  | _ => .no

/-! ## logos: longest match over the generated tables and the three regexes -/

/-- longest table literal that is a prefix of `rest`: (length, printed text); length 0 = none -/
def bestLit (table : List (Bytes × Bytes)) (rest : Bytes) : Nat × Bytes :=
  table.foldl (fun best e => if e.1.isPrefixOf rest && best.1 < e.1.length then (e.1.length, e.2) else best) (0, [])

/-- `[A-Z][A-Za-z0-9]*`, `[a-z][A-Za-z0-9]*`, `0|([1-9][0-9]*)`: (kind, length); length 0 = none -/
def regexMatch : Bytes → Kind × Nat
  | [] => (.error, 0)
  | b :: bs =>
    if isUpper b then (.upper, run isAlnum bs + 1)
    else if isLower b then (.lower, run isAlnum bs + 1)
    else if b.toNat = 48 then (.int, 1)
    else if isDigit b then (.int, run isDigit bs + 1)
    else (.error, 0)

inductive Logos where
  | err
  | tok (k : Kind) (n : Nat) (text : Bytes)
  deriving Repr

/-- `self.lexer.next()` on a non-empty remainder -/
def logosNext (rest : Bytes) : Logos :=
  let kw := bestLit keywords rest
  let op := bestLit operators rest
  let re := regexMatch rest
  if kw.1 = 0 ∧ op.1 = 0 ∧ re.2 = 0 then .err
  else if op.1 ≤ kw.1 ∧ re.2 ≤ kw.1 then .tok .kw kw.1 kw.2
  else if re.2 ≤ op.1 then .tok .op op.1 op.2
  else .tok re.1 re.2 (rest.take re.2)

/-- Error arm (lexer.rs:199-217). logos ends the error span at
`find_boundary(max(offset, start + 1))`: one whole scalar. -/
def lexError (rest : Bytes) (pos : Pos) : Try Scanned :=
  let errLen := 1 + run isCont (rest.drop 1)
  let remainder := rest.drop errLen
  let skip := run (fun c => !isAsciiWs c) remainder
  -- `&self.lexer.remainder()[..skip_count]`, then `self.lexer.bump(skip_count)`
  match bump remainder skip with
  | none => .panic
  | some rest' =>
    let stop := addCol (addCol pos errLen) skip
    .yes ⟨⟨.error, rest.take (errLen + skip), pos, stop⟩, [⟨pos, stop, .tok⟩], rest', stop⟩

/-! ## `WrappedLogosLexer::next_token` -/

inductive Step where
  | eof
  | panic
  | tok (s : Scanned)
  deriving Repr

def ofTry (t : Try Scanned) (otherwise : Step) : Step :=
  match t with
  | .no => otherwise
  | .panic => .panic
  | .yes s => .tok s

def nextRaw (input : Bytes) (pos0 : Pos) : Step :=
  let pos := wsPos input pos0
  match bump input (run isAsciiWs input) with   -- `self.lexer.bump(bump_counter)`
  | none => .panic
  | some rest =>
    ofTry (lexStrLit rest pos) <|
    ofTry (lexLineComment rest pos) <|
    ofTry (lexBlockComment rest pos) <|
    if rest.isEmpty then .eof
    else match logosNext rest with
      | .err => ofTry (lexError rest pos) .panic
      | .tok k n text =>
        let stop := addCol pos n      -- `loc_of_lexer_span`
        .tok ⟨⟨k, text, pos, stop⟩, [], rest.drop n, stop⟩

/-! ## the raw token stream -/

inductive End where
  | ok | panic | fuel
  deriving DecidableEq, Repr, Inhabited

structure RawResult where
  toks : List Token
  errs : List Err
  fin : End
  deriving Repr

/-- Repeated `next_token` until it returns `None` or panics. The fuel argument only makes the
recursion structural; `Props/C05.lean` (`scan_progress`) shows `len + 1` is never exhausted. -/
def rawLoop : Nat → Bytes → Pos → RawResult
  | 0, _, _ => ⟨[], [], .fuel⟩
  | fuel + 1, rest, pos =>
    match nextRaw rest pos with
    | .eof => ⟨[], [], .ok⟩
    | .panic => ⟨[], [], .panic⟩
    | .tok s =>
      let r := rawLoop fuel s.rest s.pos
      ⟨s.tok :: r.toks, s.errs ++ r.errs, r.fin⟩

def rawTokens (doc : Bytes) : RawResult := rawLoop (doc.length + 1) doc ⟨0, 0⟩

/-! ## `TokenProducer` -/

def digitsVal : Bytes → Nat → Nat
  | [], acc => acc
  | b :: bs, acc => digitsVal bs (acc * 10 + (b.toNat - 48))

def twoPow31 : Nat := 2147483648

structure PState where
  pending : Option Token
  out : List Token      -- yielded so far, in order
  errs : List Err
  deriving Repr

/-- `process_raw_token` + the `pending.replace` of `next_token` (lexer.rs:715-767).
`s.parse::<i64>()` fails exactly for values above `i64::MAX`, which the first disjunct covers. -/
def processRaw (st : PState) (t : Token) : PState :=
  let yield (st : PState) (t : Token) : PState :=
    { st with pending := some t, out := match st.pending with | some p => st.out ++ [p] | none => st.out }
  if t.kind = .int then
    let v := digitsVal t.text 0
    -- `follows_minus` (since fix d5c9a21: 2147483648 is only accepted directly after `-`)
    let followsMinus : Bool := match st.pending with
      | some p => p.kind = .op ∧ p.text = [45]
      | none => false
    if twoPow31 < v ∨ (v = twoPow31 ∧ followsMinus = false) then
      yield { st with errs := st.errs ++ [⟨t.start, t.stop, .int⟩] } t
    else if v = twoPow31 then
      match st.pending with
      | some p =>
        if p.kind = .op ∧ p.text = [45] then
          -- merge `-` and 2147483648 into one literal; nothing is yielded
          { st with pending := some ⟨.int, 45 :: t.text, posMin p.start t.start, posMax p.stop t.stop⟩ }
        else yield st t
      | none => yield st t
    else yield st t
  else yield st t

structure Result where
  toks : List Token
  errs : List Err
  fin : End
  deriving Repr

/-- Everything `TokenProducer::next_token` yields until it returns `None` (the pending token is
flushed) or a panic unwinds (the pending token is lost). -/
def produce (raw : RawResult) : Result :=
  let st := raw.toks.foldl processRaw ⟨none, [], []⟩
  let out := match raw.fin, st.pending with
    | .ok, some p => st.out ++ [p]
    | _, _ => st.out
  ⟨out, raw.errs ++ st.errs, raw.fin⟩

def tokenize (doc : Bytes) : Result := produce (rawTokens doc)

/-! ## ground truth for positions (C14) -/

/-- position after reading `bs` starting at `p` (count `\n`, byte columns) -/
def advanceAll (p : Pos) (bs : Bytes) : Pos := bs.foldl advance p

/-- position of byte offset `pre.length` in a document that starts with `pre` -/
def posOf (pre : Bytes) : Pos := advanceAll ⟨0, 0⟩ pre

/-! ## input assumptions used as hypotheses of theorems -/

/-- The input is a Rust `&str`. `Valid` is deliberately *weaker* than well-formed UTF-8 (it only
checks lead-byte class and the number of continuation bytes, not overlong forms or surrogates), so
every real `&str` satisfies it and theorems assuming it cover every real input. -/
inductive Valid : Bytes → Prop where
  | nil : Valid []
  | one (b : UInt8) (r : Bytes) : b.toNat < 128 → Valid r → Valid (b :: r)
  | two (b0 b1 : UInt8) (r : Bytes) : 192 ≤ b0.toNat → b0.toNat < 224 → isCont b1 = true →
      Valid r → Valid (b0 :: b1 :: r)
  | three (b0 b1 b2 : UInt8) (r : Bytes) : 224 ≤ b0.toNat → b0.toNat < 240 → isCont b1 = true →
      isCont b2 = true → Valid r → Valid (b0 :: b1 :: b2 :: r)
  | four (b0 b1 b2 b3 : UInt8) (r : Bytes) : 240 ≤ b0.toNat → isCont b1 = true →
      isCont b2 = true → isCont b3 = true → Valid r → Valid (b0 :: b1 :: b2 :: b3 :: r)

/-- the text contains the four bytes `/**/` somewhere (historical: side condition of the former
`scan_total_partial`, finding C05-F1, fixed by c949025) -/
def hasEmptyDoc : Bytes → Bool
  | [] => false
  | a :: rest =>
    (match rest with
      | b :: c :: d :: _ => a.toNat = 47 && b.toNat = 42 && c.toNat = 42 && d.toNat = 47
      | _ => false) || hasEmptyDoc rest

end SamVerif.Lexer
