/-
Model of the decision kernels of the type checker that every "wrong type" diagnostic of C06 goes
through (`crates/samlang-checker/src/type_system.rs`), function by function:

* `contains_placeholder`            (type_system.rs:11-21)
* `assignability_check_visit`       (type_system.rs:23-76)   -> `assignable`
* `type_meet_visit`                 (type_system.rs:89-169)  -> `meet`
* `subst_type` / `subst_fn_type`    (type_system.rs:182-188, 306-330) -> `subst`
* `solve_type_constraints_internal` (type_system.rs:190-236) -> `solve`
* `solve_multiple_type_constrains`, `solve_type_constraints` (type_system.rs:243-292)
* branch joins of `check_if_else` / `check_match` (main_checker.rs:950-967, 986-990) -> `ifChainOk`, `matchArmsOk`
* `ISourceType::is_the_same_type`   (type_.rs:80-89,141-147,218-227) -> `sameType`
  (used by interface conformance, main_checker.rs:1630,1643, and bound validation, :191)

Core Lean only.  `Reason`s (locations) are not part of a type's identity in any of these functions
and are dropped; `PStr`/`ModuleReference` names are natural numbers; the `HashMap<PStr, Arc<Type>>`
substitution is an association list with first-binding-wins (the Rust code only inserts absent
keys, type_system.rs:211).  The error stack only explains a `false`; it is not modelled.
-/
namespace SamVerif.Assign

inductive Prim where
  | unit | bool | int
  deriving DecidableEq, Repr, Inhabited

/-- `type_::Type` without reasons. -/
inductive Ty where
  | any (placeholder : Bool)
  | prim (k : Prim)
  | nominal (statics : Bool) (modRef : Nat) (id : Nat) (targs : List Ty)
  | generic (name : Nat)
  | fn (args : List Ty) (ret : Ty)
  deriving Repr, Inhabited

mutual
/-- `contains_placeholder` -/
def containsPlaceholder : Ty → Bool
  | .any p => p
  | .prim _ => false
  | .generic _ => false
  | .nominal _ _ _ ts => containsPlaceholderL ts
  | .fn as r => containsPlaceholderL as || containsPlaceholder r
def containsPlaceholderL : List Ty → Bool
  | [] => false
  | t :: ts => containsPlaceholder t || containsPlaceholderL ts
end

mutual
/-- No `Any` (placeholder or not) anywhere inside. -/
def anyFree : Ty → Bool
  | .any _ => false
  | .prim _ => true
  | .generic _ => true
  | .nominal _ _ _ ts => anyFreeL ts
  | .fn as r => anyFreeL as && anyFree r
def anyFreeL : List Ty → Bool
  | [] => true
  | t :: ts => anyFree t && anyFreeL ts
end

mutual
/-- No class-statics nominal type inside (what `Type::from_annotation` produces). -/
def noStatics : Ty → Bool
  | .any _ => true
  | .prim _ => true
  | .generic _ => true
  | .nominal s _ _ ts => !s && noStaticsL ts
  | .fn as r => noStaticsL as && noStatics r
def noStaticsL : List Ty → Bool
  | [] => true
  | t :: ts => noStatics t && noStaticsL ts
end

mutual
/-- `assignability_check_visit(lower, upper)` returns `true`. The length test and the
short-circuiting `zip(..).all(..)` of the Rust code are the list function. -/
def assignable : Ty → Ty → Bool
  | .any _, _ => true
  | .prim _, .any _ => true
  | .nominal _ _ _ _, .any _ => true
  | .generic _, .any _ => true
  | .fn _ _, .any _ => true
  | .prim a, .prim b => a == b
  | .generic a, .generic b => a == b
  | .nominal s1 m1 i1 as, .nominal s2 m2 i2 bs =>
    m1 == m2 && i1 == i2 && s1 == s2 && assignableL as bs
  | .fn as r, .fn bs r' => assignableL as bs && assignable r r'
  | _, _ => false
def assignableL : List Ty → List Ty → Bool
  | [], [] => true
  | a :: as, b :: bs => assignable a b && assignableL as bs
  | _, _ => false
end

mutual
/-- `type_meet_visit(lower, upper)`; `none` = an error is pushed. -/
def meet : Ty → Ty → Option Ty
  | .any p, .any q => some (.any (p && q))
  | .any _, .prim k => some (.prim k)
  | .any _, .nominal s m i ts => some (.nominal s m i ts)
  | .any _, .generic n => some (.generic n)
  | .any _, .fn as r => some (.fn as r)
  | .prim k, .any _ => some (.prim k)
  | .nominal s m i ts, .any _ => some (.nominal s m i ts)
  | .generic n, .any _ => some (.generic n)
  | .fn as r, .any _ => some (.fn as r)
  | .prim a, .prim b => if a == b then some (.prim a) else none
  | .generic a, .generic b => if a == b then some (.generic a) else none
  | .nominal s1 m1 i1 as, .nominal s2 m2 i2 bs =>
    if m1 == m2 && i1 == i2 && s1 == s2 then
      match meetL as bs with
      | some cs => some (.nominal s1 m1 i1 cs)
      | none => none
    else none
  | .fn as r, .fn bs r' =>
    match meetL as bs with
    | some cs =>
      match meet r r' with
      | some c => some (.fn cs c)
      | none => none
    | none => none
  | _, _ => none
def meetL : List Ty → List Ty → Option (List Ty)
  | [], [] => some []
  | a :: as, b :: bs =>
    match meet a b with
    | some c =>
      match meetL as bs with
      | some cs => some (c :: cs)
      | none => none
    | none => none
  | _, _ => none
end

mutual
/-- `is_the_same_type` (note: ignores `is_class_statics`, and any two `Any` are "the same"). -/
def sameType : Ty → Ty → Bool
  | .any _, .any _ => true
  | .prim a, .prim b => a == b
  | .nominal _ m1 i1 as, .nominal _ m2 i2 bs => m1 == m2 && i1 == i2 && sameTypeL as bs
  | .generic a, .generic b => a == b
  | .fn as r, .fn bs r' => sameTypeL as bs && sameType r r'
  | _, _ => false
def sameTypeL : List Ty → List Ty → Bool
  | [], [] => true
  | a :: as, b :: bs => sameType a b && sameTypeL as bs
  | _, _ => false
end

mutual
/-- Specification notion (not code): `c` is obtained from `a` by filling every `any` hole with
some type. -/
def refines : Ty → Ty → Bool
  | .any _, _ => true
  | .prim a, .prim b => a == b
  | .generic a, .generic b => a == b
  | .nominal s1 m1 i1 as, .nominal s2 m2 i2 bs =>
    m1 == m2 && i1 == i2 && s1 == s2 && refinesL as bs
  | .fn as r, .fn bs r' => refinesL as bs && refines r r'
  | _, _ => false
def refinesL : List Ty → List Ty → Bool
  | [], [] => true
  | a :: as, b :: bs => refines a b && refinesL as bs
  | _, _ => false
end

mutual
/-- Fill every hole with `int` (witness that a refinement always exists). -/
def fillInt : Ty → Ty
  | .any _ => .prim .int
  | .prim k => .prim k
  | .generic n => .generic n
  | .nominal s m i ts => .nominal s m i (fillIntL ts)
  | .fn as r => .fn (fillIntL as) (fillInt r)
def fillIntL : List Ty → List Ty
  | [] => []
  | t :: ts => fillInt t :: fillIntL ts
end

mutual
/-- A common any-free instance of two assignable types (holes of one side filled from the other). -/
def common : Ty → Ty → Ty
  | .any _, b => fillInt b
  | .prim k, _ => .prim k
  | .generic n, _ => .generic n
  | .nominal s m i as, .nominal _ _ _ bs => .nominal s m i (commonL as bs)
  | .nominal s m i as, _ => fillInt (.nominal s m i as)
  | .fn as r, .fn bs r' => .fn (commonL as bs) (common r r')
  | .fn as r, _ => fillInt (.fn as r)
def commonL : List Ty → List Ty → List Ty
  | a :: as, b :: bs => common a b :: commonL as bs
  | _, _ => []
end

abbrev Subst := List (Nat × Ty)

def Subst.get (s : Subst) (n : Nat) : Option Ty :=
  match s with
  | [] => none
  | (k, v) :: rest => if k = n then some v else Subst.get rest n

mutual
/-- `subst_type` -/
def subst (m : Subst) : Ty → Ty
  | .any p => .any p
  | .prim k => .prim k
  | .nominal s mr i ts => .nominal s mr i (substL m ts)
  | .generic n => match m.get n with
    | some t => t
    | none => .generic n
  | .fn as r => .fn (substL m as) (subst m r)
def substL (m : Subst) : List Ty → List Ty
  | [] => []
  | t :: ts => subst m t :: substL m ts
end

mutual
/-- `solve_type_constraints_internal(concrete, generic, type_parameters, partially_solved)`;
recursion on the generic type. Function types are zipped without a length test
(type_system.rs:222-224), nominal types only descend when the lengths agree (:203). -/
def solve (tps : List Nat) : Ty → Ty → Subst → Subst
  | _, .any _, s => s
  | _, .prim _, s => s
  | c, .nominal _ gm gi gts, s =>
    match c with
    | .nominal _ cm ci cts =>
      if gm == cm && gi == ci && gts.length == cts.length then solveL tps cts gts s else s
    | _ => s
  | c, .generic n, s =>
    if tps.contains n && (s.get n).isNone then
      if !containsPlaceholder c then s ++ [(n, c)] else s
    else s
  | c, .fn gas gr, s =>
    match c with
    | .fn cas cr => solve tps cr gr (solveL tps cas gas s)
    | _ => s
def solveL (tps : List Nat) : List Ty → List Ty → Subst → Subst
  | c :: cs, g :: gs, s => solveL tps cs gs (solve tps c g s)
  | _, _, s => s
end

/-- `solve_multiple_type_constrains` -/
def solveMultiple (tps : List Nat) (cs : List (Ty × Ty)) : Subst :=
  cs.foldl (fun s cg => solve tps cg.1 cg.2 s) []

/-- Fill every unsolved type parameter with a placeholder (type_system.rs:273-278). -/
def fillPlaceholders (tps : List Nat) (s : Subst) : Subst :=
  tps.foldl (fun s n => if (s.get n).isNone then s ++ [(n, .any true)] else s) s

/-- `solve_type_constraints(concrete, generic, type_parameter_signatures, error_set)`:
(solved substitution, solved generic type, an error was reported). -/
def solveTypeConstraints (tps : List Nat) (concrete generic : Ty) : Subst × Ty × Bool :=
  let s := fillPlaceholders tps (solveMultiple tps [(concrete, generic)])
  let g := subst s generic
  (s, g, (meet concrete g).isNone)

/-- Branch-join rule of `check_if_else` (main_checker.rs:950-967) on the list of branch-body types
`[B1, …, Bn]` of a chain `if c1 {B1} else if c2 {B2} … else {Bn}`: the type of a chain is the type
of its first block (:966); an `else if` link checks the nested chain's type against `B1` (:956-957),
a final `else` block checks `Bn` against `B(n-1)` (:961-962). So exactly the adjacent pairs are
compared, each later one as `lower` against the earlier one as `upper`. -/
def ifChainOk : List Ty → Bool
  | [] => true
  | [_] => true
  | a :: b :: rest => assignable b a && ifChainOk (b :: rest)

/-- Branch-join rule of `check_match` (main_checker.rs:986-990): the first arm fixes
`matching_list_type`; every later arm body is checked against it. -/
def matchArmsOk : List Ty → Bool
  | [] => true
  | a :: rest => rest.all (fun b => assignable b a)

/-- Arity gate of a call: `generic_function_type.argument_types.len() != function_arguments.len()`
(main_checker.rs:766-794 / 416-444 for explicit type arguments). -/
def arityOk (expected actual : Nat) : Bool := expected == actual

end SamVerif.Assign
