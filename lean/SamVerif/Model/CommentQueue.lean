/-!
# Model of the parser's pending-comment queue and of the comment store helpers

* `State`, `peek`, `consume` = `SourceParser::{peek, consume}`
  (`crates/samlang-parser/src/source_parser.rs:46-84`): comment tokens met while looking for the next
  real token are appended to `pending_comments`; `consume` hands out *all* pending comments and drops
  the peeked token. After the producer is exhausted, `peek` keeps answering `EOF`.
* `Store`, `createRef`, `prepend` = `CommentStore::create_comment_reference`
  (`crates/samlang-ast/src/source.rs:69-78`) and
  `utils::mod_associated_comments_with_additional_preceding_comments`
  (`source_parser.rs:2181-2196`). Until /repo commit 5884ffb (`fix:` for finding C09-F1) its
  `NoComment` arm created a fresh entry but returned the *old* reference; the model follows the
  fixed code.

The token stream (what `TokenProducer::next_token` yields, comment texts already post-processed by
the lexer) is an input of the model. Core Lean only, executable.
-/
namespace SamVerif.CommentQueue

abbrev Str := List Char

inductive Kind where
  | line | block | doc
  deriving Repr, DecidableEq, Inhabited

structure Comment where
  kind : Kind
  text : Str
  deriving Repr, DecidableEq, Inhabited

/-- One item of the token producer's output. -/
inductive RawTok where
  | comment (c : Comment)
  | tok (t : Str)
  deriving Repr, DecidableEq, Inhabited

/-- What `peek` answers. -/
inductive PTok where
  | tok (t : Str)
  | eof
  deriving Repr, DecidableEq, Inhabited

structure State where
  rest : List RawTok
  peeked : Option PTok := none
  pending : List Comment := []
  deriving Repr, DecidableEq, Inhabited

/-- The `loop` of `peek` (source_parser.rs:50-72). -/
def drain : List RawTok → List Comment → PTok × List RawTok × List Comment
  | [], pend => (.eof, [], pend)
  | .comment c :: r, pend => drain r (pend ++ [c])
  | .tok t :: r, pend => (.tok t, r, pend)

def peek (st : State) : State × PTok :=
  match st.peeked with
  | some t => (st, t)
  | none =>
    let (t, r, p) := drain st.rest st.pending
    ({ rest := r, peeked := some t, pending := p }, t)

/-- `consume` (76-84): returns the comments handed to the caller. -/
def consume (st : State) : State × List Comment :=
  let st1 := (peek st).1
  ({ st1 with peeked := none, pending := [] }, st1.pending)

inductive Op where
  | peek | consume
  deriving Repr, DecidableEq, Inhabited

/-- Runs a sequence of parser actions, collecting what every `consume` returned. -/
def run : List Op → State → State × List (List Comment)
  | [], st => (st, [])
  | .peek :: ops, st => run ops (peek st).1
  | .consume :: ops, st =>
    let (st1, cs) := consume st
    let (st2, out) := run ops st1
    (st2, cs :: out)

/-- The trailing-comma idiom of `parse_comma_separated_list_with_end_token_with_start`,
`collect_remaining_and_build_tuple` and the identifier cover (since /repo fix "comments before a
trailing comma ..."): after the `,` was consumed and the closing token peeked, the comma's comments
are put back in front of the pending ones (`additional_comments.append(&mut pending);
pending = additional_comments`). -/
def pushBack (cs : List Comment) (st : State) : State := { st with pending := cs ++ st.pending }

/-- One comma separated list of single-token elements, as the list parser runs on the queue:
`elem (, elem)* [,] end`. Returns the elements with the comments handed to them, the comments handed
to the closing token, and the state after it. `fuel` bounds the number of elements. -/
def parseList (endTok : Str) : Nat → State → List Comment → List (Str × List Comment) →
    State × List (Str × List Comment) × List Comment
  | 0, st, extra, acc => (st, acc.reverse, extra)
  | fuel + 1, st, extra, acc =>
    -- element: the production consumes its token and gets `extra` plus the token's comments
    let (st0, t) := peek st
    let (st1, cs) := consume st0
    let name := match t with | .tok s => s | .eof => []
    let acc := (name, extra ++ cs) :: acc
    match (peek st1).2 with
    | .tok s =>
      if s = [','] then
        let (st2, ccs) := consume (peek st1).1
        match (peek st2).2 with
        | .tok s2 =>
          if s2 = endTok then
            let (st3, ecs) := consume (pushBack ccs (peek st2).1)
            (st3, acc.reverse, ecs)
          else parseList endTok fuel (peek st2).1 ccs acc
        | .eof => ((peek st2).1, acc.reverse, ccs)
      else if s = endTok then
        let (st3, ecs) := consume (peek st1).1
        (st3, acc.reverse, ecs)
      else ((peek st1).1, acc.reverse, [])
    | .eof => ((peek st1).1, acc.reverse, [])

def commentsOf : List RawTok → List Comment
  | [] => []
  | .comment c :: r => c :: commentsOf r
  | .tok _ :: r => commentsOf r

def tokensOf : List RawTok → List Str
  | [] => []
  | .comment _ :: r => tokensOf r
  | .tok t :: r => t :: tokensOf r

def init (stream : List RawTok) : State := { rest := stream }

/-! ### Comment store -/

/-- `CommentStore.store`; `[]` stands for `CommentsNode::NoComment` (index 0 always is). -/
abbrev Store := List (List Comment)

def emptyStore : Store := [[]]

/-- `create_comment_reference` (source.rs:69-78). -/
def createRef (st : Store) (cs : List Comment) : Store × Nat :=
  if cs.isEmpty then (st, 0) else (st ++ [cs], st.length)

/-- `CommentStore::get`; `none` = index out of bounds (Rust would panic). -/
def get (st : Store) (r : Nat) : Option (List Comment) := st[r]?

/-- `mod_associated_comments_with_additional_preceding_comments` (source_parser.rs:2181-2197). -/
def prepend (st : Store) (r : Nat) (extra : List Comment) : Option (Store × Nat) :=
  match st[r]? with
  | none => none
  | some [] => some (createRef st extra)   -- new entry, new reference (since fix 5884ffb)
  | some (e :: es) => some (st.set r (extra ++ e :: es), r)

/-- `utils::keep_parenthesis_comments` (source_parser.rs, since /repo commit bf0f58a): a parenthesised
expression is unwrapped; the comments after `(` go in front of the inner expression's own comments,
those before `)` after them. -/
def keepParen (st : Store) (r : Nat) (start stop : List Comment) : Option (Store × Nat) :=
  if start.isEmpty && stop.isEmpty then (st[r]?).map (fun _ => (st, r)) else
  match st[r]? with
  | none => none
  | some [] => some (createRef st (start ++ stop))
  | some (e :: es) => some (st.set r (start ++ (e :: es) ++ stop), r)

end SamVerif.CommentQueue
