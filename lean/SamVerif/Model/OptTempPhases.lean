/-!
# C02 — temporary names across compiler phases (round driver of `optimize_sources`)

`crates/samlang-optimization/src/lib.rs:92-124`: every round creates a `TempPStrCounter` that starts
at the heap's next temporary id (`heap.create_temp_counter()`), the passes of the round draw `n`
names `_t{start}, …, _t{start+n-1}` from it (whatever the thread schedule: `fetch_add`), and
`heap.sync_temp_counter(&counter)` moves the heap past them. The phase after the optimizer
(`compile_mir_to_lir`) draws its temporaries from the heap again. Self-contained (core Lean only).
-/
namespace SamVerif.OptTemp

/-- the ids a counter that starts at `start` hands out for `n` requests -/
def issued (start n : Nat) : List Nat := List.range' start n

/-- the round driver with a sync after every round: (heap's next id afterwards, all ids issued) -/
def runRounds (heapNext : Nat) : List Nat → Nat × List Nat
  | [] => (heapNext, [])
  | n :: rest =>
    let r := runRounds (heapNext + n) rest
    (r.1, issued heapNext n ++ r.2)

/-- the driver when the sync after the LAST round is missing: the heap stays where the last
counter started -/
def runRoundsStale (heapNext : Nat) : List Nat → Nat × List Nat
  | [] => (heapNext, [])
  | [n] => (heapNext, issued heapNext n)
  | n :: rest =>
    let r := runRoundsStale (heapNext + n) rest
    (r.1, issued heapNext n ++ r.2)

end SamVerif.OptTemp
