import SamVerif.Props.C09
/-! Axiom audit of every C09 property theorem (parsed by vlib/common.py). -/
open SamVerif.Doc SamVerif.CommentQueue SamVerif.Imports SamVerif.Attach SamVerif.ExprDoc
#print axioms layout_is_linearisation
#print axioms layout_preserves_text
#print axioms render_only_whitespace
#print axioms pretty_print_preserves_text
#print axioms pretty_print_width_irrelevant
#print axioms group_content_equal
#print axioms bracketFlexible_content_equal
#print axioms lineComment_content_equal
#print axioms multilineComment_content_equal
#print axioms lineComment_textKey_counterexample
#print axioms layout_keeps_line_comment
#print axioms layout_keeps_block_comment
#print axioms built_agree
#print axioms built_layout_preserves
#print axioms queue_conserves
#print axioms queue_complete
#print axioms consume_takes_all_pending
#print axioms createRef_get
#print axioms prepend_conserves
#print axioms imports_group_exact
#print axioms imports_conserve_comments
#print axioms imports_comments_move_with_line
#print axioms keepParen_conserves
#print axioms printCE_normalize
#print axioms normalize_of_nf
#print axioms attach_same_text
#print axioms attachLeft_stable
#print axioms attachOuter_unstable_counterexample
#print axioms printCE_wrapLeft
#print axioms nf_wrapLeft
#print axioms docOf_ok
#print axioms expression_layout_text
#print axioms expression_layout_width_irrelevant
#print axioms pushBack_conserves
#print axioms list_production_conserves
