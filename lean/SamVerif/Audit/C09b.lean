import SamVerif.Props.C09b
/-! Axiom audit of the C09 theorems that build on builder-C08's fragment model (audited separately so
that a break of `Props/C08.lean` is reported by `./check C08`, not as a broken C09 layout proof). -/
open SamVerif.Fmt SamVerif.CommentQueue
#print axioms format_idempotent_fragment_partial
#print axioms format_twice_fragment_partial
#print axioms queue_delivers_with_next_token
#print axioms decorate_undecorate
#print axioms roundtrip_with_comments_partial
#print axioms format_idempotent_with_comments_partial
