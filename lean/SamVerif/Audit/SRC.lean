import SamVerif.Props.SRC
/-! Axiom audit of the theorems about the reference semantics (SRC); parsed by vlib/common.py. -/
open SamVerif.Source
#print axioms eval_fuel_mono
#print axioms eval_outcome_unique
#print axioms run_fuel_mono
#print axioms match_first_arm
#print axioms match_no_arm
#print axioms matchPat_binds
#print axioms or_first_alternative
#print axioms andor_short_circuit
#print axioms andor_evaluates_right
#print axioms binary_left_first
#print axioms evalList_cons
#print axioms alpha_invariant_eval
#print axioms alpha_invariant
#print axioms alpha_invariant_rename
