import SamVerif.Props.C13Hint
/-! Axiom audit of the C13 theorems about the hint-ordering kernel (audited separately: they depend
on the translator-generated `Generated/C13Phase0.lean`, so a change of Phase 0 in the source breaks
exactly these). -/
open SamVerif.Hint
#print axioms classification_exact
#print axioms needs_hint_gets_hint
#print axioms phase0_code_never_starves
#print axioms annotation_never_starves
#print axioms annotate_monotone
#print axioms any_annotated_rule_counterexample
#print axioms placeholder_in_type_test_counterexample
#print axioms wrap_keeps_hints
#print axioms wrap_keeps_hints_code
#print axioms annotate_keeps_later_hints
#print axioms enclosing_hint_rule_counterexample
#print axioms synth_flag_exact
#print axioms synth_flag_order_independent
#print axioms synth_flag_exact_code
#print axioms reset_no_restore_counterexample
#print axioms validators_agree
#print axioms validators_agree_code
#print axioms prefix_map_counterexample
#print axioms annotation_is_local
