import SamVerif.Props.C12
import SamVerif.Props.C12b
import SamVerif.Props.C12d
import SamVerif.Props.C12e
import SamVerif.Props.C12f
import SamVerif.Props.C12g
import SamVerif.Props.C12h
/-! Axiom audit of every C12 property theorem (parsed by vlib/common.py). -/
open SamVerif.ErrorSet SamVerif.Layout SamVerif.MirFull SamVerif.TempCounter
#print axioms errorset_merge_ac
#print axioms errorset_merge_assoc
#print axioms errorset_extensional
#print axioms mergeAll_order_agree
#print axioms sorted_first_perm_invariant
#print axioms min_perm_invariant
#print axioms unsorted_first_counterexample
#print axioms sorted_enumeration_perm_invariant
#print axioms sorted_numbering_perm_invariant
#print axioms diagnostics_hash_seed_independent
#print axioms diagnostics_schedule_independent
#print axioms diagnostics_report_order_independent
#print axioms diagnostics_depend_on_ids_counterexample
#print axioms diagnostics_depend_on_heap_ids_counterexample
#print axioms diagnostics_ids_partial
#print axioms diagnostics_by_name_independent_of_module_ids
#print axioms ctx_layout_perm_invariant
#print axioms numbering_is_renaming
#print axioms layout_order_independent_counterexample
#print axioms layout_sorted_roots_perm_invariant
#print axioms layout_loop_partial
#print axioms demand_inv
#print axioms layout_acyclic_order_independent
#print axioms layout_loop_counterexample
#print axioms exec_ren
#print axioms mir_rename_invariant_full
#print axioms temp_names_distinct
#print axioms temp_names_in_block
#print axioms temp_names_onto_block
#print axioms temp_names_defined_perm
#print axioms temp_counter_renaming
#print axioms temp_counter_renaming_injective
#print axioms parse_order_by_name_invariant
#print axioms parse_order_by_name_perm_invariant
#print axioms parse_order_by_parts_counterexample
#print axioms parse_order_by_parts_partial
#print axioms phases_disjoint
#print axioms pipeline_disjoint
#print axioms dropped_sync_counterexample
#print axioms dropped_sync_partial
#print axioms lowering_order_total
#print axioms stable_sort_perm_invariant
#print axioms lowering_order_perm_invariant
#print axioms zip_order_tie_counterexample
#print axioms zip_order_partial
#print axioms atomic_counter_distinct
#print axioms split_counter_lost_update
#print axioms split_counter_partial
#print axioms stable_sort_is_concat_by_key
#print axioms report_is_concat_of_module_reports
