import SamVerif.Props.C07
/-! Axiom audit of every C07 property theorem (parsed by vlib/common.py). -/
open SamVerif.Useful
#print axioms useful_iff
#print axioms additional_useful_iff
#print axioms iflet_useless_iff
#print axioms accepted_exhaustive
#print axioms match_accepted_exhaustive
#print axioms useful_iff_counterexample
