import SamVerif.Props.C07
/-! Axiom audit of every C07 property theorem (parsed by vlib/common.py). -/
open SamVerif.Useful
#print axioms useful_iff
#print axioms additional_useful_iff
#print axioms iflet_useless_iff
#print axioms accepted_exhaustive
#print axioms cex_some_sound
#print axioms exhaustive_iff
#print axioms counterexample_denotes_unmatched
#print axioms match_accepted_exhaustive
#print axioms match_exhaustive_iff
#print axioms useful_terminates
#print axioms cex_terminates
#print axioms useful_exact
#print axioms iflet_exact
#print axioms match_exact
#print axioms checker_match_exact
#print axioms checker_iflet_exact
#print axioms checker_match_exact_src
#print axioms checker_iflet_exact_src
#print axioms useful_fuel_bound
#print axioms cex_fuel_bound
#print axioms checker_match_decided
#print axioms checker_iflet_decided
#print axioms replayed_match_exact
#print axioms replayed_iflet_exact
#print axioms std_tuples_fields
#print axioms static_function_scope
#print axioms method_scope
#print axioms variant_pattern_compositional
#print axioms tuple_pattern_compositional
#print axioms object_pattern_columns
#print axioms inhabited_certificate
#print axioms useful_iff_counterexample
