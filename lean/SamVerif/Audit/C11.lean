import SamVerif.Props.C11
import SamVerif.Props.C11b
/-! Axiom audit of every C11 property theorem. -/
open SamVerif.Gc
#print axioms gcStep_safe
#print axioms gate_sound
#print axioms results_read
#print axioms gc_safe
#print axioms gc_safe_from_init
#print axioms unannounced_module_counterexample
