import SamVerif.Props.C04
import SamVerif.Props.C04b
import SamVerif.Props.C04c
import SamVerif.Props.C04d
import SamVerif.Props.C04e
/-! Axiom audit of every C04 property theorem (parsed by vlib/common.py). -/
open SamVerif.Backends
#print axioms bin_agree_counterexample
#print axioms div_agree_iff
#print axioms shr_disagree_witness
#print axioms bin_agree_partial
#print axioms cmp_agree
#print axioms i31_roundtrip_counterexample
#print axioms i31_roundtrip_iff
#print axioms i31_roundtrip_partial
#print axioms lexAccepts_wellEscQ
#print axioms content_wellEsc
#print axioms cook_escape
#print axioms utf8_roundtrip
#print axioms strconst_agree_content
#print axioms strconst_agree
#print axioms vec_step_sim
#print axioms vec_refines
#print axioms vec_agree_counterexample
#print axioms vec_agree_partial
#print axioms vec_fail_coincide
#print axioms vec_agree_ref
#print axioms vec_eq_agree_ref
#print axioms capacity_ge_length
#print axioms reserve_capacity
#print axioms tsVecEq_spec
#print axioms vec_eq_refines
#print axioms vec_eq_agree_counterexample
#print axioms vec_eq_agree_partial
#print axioms concat_agree
#print axioms str_eq_agree
#print axioms strEqLoopWith_same
#print axioms strEqLoopWith_mixed_counterexample
#print axioms strEq_iff
#print axioms fromInt_agree
#print axioms wasm_toInt_fromInt
#print axioms ts_toInt_fromInt
#print axioms toInt_fromInt
#print axioms ref_eq_agree
#print axioms loose_eq_counterexample
#print axioms loose_eq_iff
#print axioms layout_wf
#print axioms variant_test_agree
#print axioms match_agree
#print axioms variant_test_loose_counterexample
#print axioms wf_needed
#print axioms reserved_covered
#print axioms mangle_injective
#print axioms tsCook_isSome
#print axioms template_literal_valid
#print axioms template_literal_cooks
#print axioms octal_lookahead_counterexample
