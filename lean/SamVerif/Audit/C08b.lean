import SamVerif.Props.C08b
/-! Axiom audit of the C08 × C09 composed statements (parsed by vlib/common.py). -/
#print axioms SamVerif.C08b.tokens_at_one_width_suffice
#print axioms SamVerif.C08b.imports_same_up_to_merge_sort
#print axioms SamVerif.C08b.doc_unions_agree
#print axioms SamVerif.C08b.doc_reads_printed_tokens
#print axioms SamVerif.C08b.layout_tokens_every_width
#print axioms SamVerif.C08b.formatted_text_every_width
#print axioms SamVerif.C08b.roundtrip_every_width
#print axioms SamVerif.C08b.chain_layout_losing_a_member_counterexample
#print axioms SamVerif.C08b.plainLeaves_ok
