import SamVerif.Props.C08b
/-! Axiom audit of the C08 × C09 composed statements (parsed by vlib/common.py). -/
#print axioms SamVerif.C08b.tokens_at_one_width_suffice
#print axioms SamVerif.C08b.imports_same_up_to_merge_sort
