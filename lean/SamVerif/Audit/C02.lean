import SamVerif.Props.C02
/-! Axiom audit of every C02 property theorem (parsed by vlib/common.py). -/
open SamVerif.Opt
open SamVerif.OptTemp
#print axioms fold_exact
#print axioms fold_val_exact
#print axioms fold_nofold_traps
#print axioms fold_never_panics
#print axioms ccp_rule_exact_counterexample
#print axioms ccp_rule_exact_partial
#print axioms binaryUnwrapped_sound
#print axioms flexibleOrder_sound
#print axioms flexUnwrapped_sound
#print axioms merge_sound_counterexample
#print axioms merge_sound_partial
#print axioms ivelim_counterexample
#print axioms ivelim_negative_multiplier_fixed
#print axioms ivelim_guard_partial
#print axioms strength_sound
#print axioms loopopt_strength_path_sound
#print axioms ivelim_sound_partial
#print axioms ivelim_sound_noovf
#print axioms strength_multi_sound
#print axioms strength_multi_trace
#print axioms strength_wrong_base_counterexample
#print axioms tripcount_exact
#print axioms tripcount_final_value
#print axioms tripcount_declines_wrapping_loops
#print axioms dce_preserves
#print axioms dce_div_must_stay
#print axioms licm_no_new_trap
#print axioms licm_div_hoist_counterexample
#print axioms lvnSimple_preserves
#print axioms lvn_preserves
#print axioms lvn_break_must_be_renamed
#print axioms lvnL_preserves
#print axioms cse_hoist_order
#print axioms cse_div_hoist_counterexample
#print axioms inlineBody_preserves
#print axioms inline_preserves
#print axioms iterLoop_preserves
#print axioms lvnLoop_preserves
#print axioms phases_disjoint
#print axioms stale_counter_collides
#print axioms rounds_invariant
#print axioms lowering_disjoint
#print axioms missing_last_sync_collides
