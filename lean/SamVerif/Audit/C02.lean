import SamVerif.Props.C02
/-! Axiom audit of every C02 property theorem (parsed by vlib/common.py). -/
open SamVerif.Opt
#print axioms fold_exact_counterexample
#print axioms fold_mod_counterexample
#print axioms fold_exact_partial
#print axioms fold_nofold_traps
#print axioms fold_total_partial
#print axioms ccp_rule_exact_counterexample
#print axioms ccp_rule_exact_partial
#print axioms binaryUnwrapped_sound
#print axioms flexibleOrder_sound
#print axioms flexUnwrapped_sound
#print axioms merge_sound_counterexample
#print axioms merge_sound_partial
#print axioms ivelim_counterexample
#print axioms ivelim_negative_multiplier_counterexample
#print axioms ivelim_guard_partial
#print axioms strength_sound
#print axioms tripcount_exact_partial
#print axioms tripcount_exact_counterexample
#print axioms tripcount_panics_counterexample
#print axioms tripcount_final_value_partial
