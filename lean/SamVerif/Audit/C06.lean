import SamVerif.Props.C06
import SamVerif.Props.C06b
import SamVerif.Props.C06c
import SamVerif.Props.C06d
import SamVerif.Props.C06e
import SamVerif.Props.C06x
/-! Axiom audit of every C06 property theorem (parsed by vlib/common.py). -/
open SamVerif.IntRange SamVerif.Assign SamVerif.Gates SamVerif.Scope SamVerif.C06x
#print axioms literal_error_iff
#print axioms errors_aligned
#print axioms above_range_always_rejected
#print axioms int_range_exact
#print axioms producer_conserves_tokens
#print axioms accepted_literals_faithful
#print axioms assignable_iff_equal
#print axioms fault_slips_only_through_any
#print axioms any_accepts_everything
#print axioms assignable_iff_consistent
#print axioms meet_accepts_iff_assignable
#print axioms meet_anyFree_eq
#print axioms sameType_iff_equal
#print axioms solve_sound
#print axioms ifChain_join_exact
#print axioms ifChain_one_wrong_branch_rejected
#print axioms match_join_exact
#print axioms arity_gate
#print axioms call_arity_gate
#print axioms assignable_reflexive
#print axioms member_resolved_iff
#print axioms private_member_never_resolved
#print axioms private_field_never_visible_outside_class
#print axioms private_class_never_resolved
#print axioms import_gate
#print axioms tyarg_arity_gate
#print axioms explicit_tyarg_gate
#print axioms member_conforms_iff
#print axioms conformance_exact
#print axioms bound_gate
#print axioms scope_exit_restores
#print axioms use_after_pop_unresolved
#print axioms use_after_pop_resolves_outer
#print axioms visit_wellNested
#print axioms iflet_binding_not_in_else
#print axioms binding_not_visible_after
#print axioms abstract_targ_gate
#print axioms instantiate_wf
#print axioms conformance_inst_exact
#print axioms unresolved_class_reported
#print axioms unresolved_module_reported
#print axioms unresolved_member_reported
#print axioms cyclic_flag_monotone
#print axioms cycle_detected
#print axioms static_error_never_compiled
#print axioms nonexhaustive_match_never_compiled
#print axioms exhaustive_match_no_error
#print axioms non_function_call_rejected
#print axioms member_object_gate
#print axioms field_tyargs_gate
#print axioms class_as_supertype_rejected
#print axioms function_in_interface_rejected
#print axioms rebind_reported
#print axioms cyclic_flag_monotone_memo
#print axioms memo_extends
#print axioms memo_exhausted_monotone
#print axioms memo_invariant
#print axioms memo_result_ordered
#print axioms ordered_closed
#print axioms cycle_detected_memo
#print axioms assign_nominal_identity
#print axioms assign_nominal_name_only_counterexample
#print axioms memo_pushed_keys
#print axioms memo_nodup_invariant
#print axioms memo_result_nodup
