import SamVerif.Props.C13
import SamVerif.Props.C13b
/-! Axiom audit of every C13 property theorem (parsed by vlib/common.py). -/
open SamVerif.Scope SamVerif.Sig SamVerif.Fmt
#print axioms scope_alpha_events
#print axioms scope_alpha_invariant
#print axioms alpha_same_graph
#print axioms alpha_same_verdict
#print axioms alpha_noninjective_counterexample
#print axioms signature_perm_invariant
#print axioms signature_last_wins
#print axioms signature_dup_order_counterexample
#print axioms methods_perm_invariant
#print axioms parens_insensitive
