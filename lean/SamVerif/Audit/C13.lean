import SamVerif.Props.C13
/-! Axiom audit of every C13 property theorem (parsed by vlib/common.py). -/
open SamVerif.Scope SamVerif.Sig
#print axioms scope_alpha_events
#print axioms scope_alpha_invariant
#print axioms alpha_same_graph
#print axioms alpha_same_verdict
#print axioms alpha_noninjective_counterexample
#print axioms signature_perm_invariant
#print axioms signature_last_wins
#print axioms signature_dup_order_counterexample
#print axioms methods_perm_invariant
#print axioms machine_observes_lookups
#print axioms toplevel_order_invariant
#print axioms toplevel_block_context
#print axioms visit_scope_neutral
#print axioms block_wrap_no_leak
#print axioms block_wrap_resolution
#print axioms block_wrap_expr
#print axioms iflet_scope_exits_before_else
#print axioms visit_ifGuard_shape
#print axioms delayed_pop_counterexample
