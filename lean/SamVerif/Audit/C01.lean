import SamVerif.Props.C01
/-! Axiom audit of every C01 property theorem (parsed by vlib/common.py). -/
open SamVerif.C01
#print axioms nat_layout
