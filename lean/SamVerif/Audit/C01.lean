import SamVerif.Props.C01
/-! Axiom audit of every C01 property theorem (parsed by vlib/common.py). -/
open SamVerif.C01
#print axioms encode_injective_partial
#print axioms testVariant_exact_partial
#print axioms typePermit_sound_finished
#print axioms typePermit_unsound_in_progress_counterexample
#print axioms layout_injective_counterexample
#print axioms decode_counterexample
#print axioms seqAssign_eq_par_partial
#print axioms seqAssign_eq_par_counterexample
#print axioms tailrec_equiv_par
#print axioms tailrec_equiv_seq_partial
#print axioms tailrec_equiv_seq_counterexample
#print axioms meet_comm
#print axioms meet_assoc
#print axioms meet_idem
#print axioms paramState_c32_sound
#print axioms paramState_unused_sound
#print axioms mem_selfCallReads
