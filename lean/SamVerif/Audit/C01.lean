import SamVerif.Props.C01
/-! Axiom audit of every C01 property theorem (parsed by vlib/common.py). -/
open SamVerif.C01
#print axioms layout_injective
#print axioms lowered_tests_exact
#print axioms encode_injective_of_inv
#print axioms testVariant_exact_of_inv
#print axioms ptr_of_hasTy
#print axioms seqAssign_eq_par_partial
#print axioms seqAssign_eq_par_counterexample
#print axioms lowered_update_parallel
#print axioms tailrec_equiv_par
#print axioms tailrec_equiv_seq
#print axioms tailrec_stmt_equiv
#print axioms swap_regression
#print axioms meet_comm
#print axioms meet_assoc
#print axioms meet_idem
#print axioms paramState_c32_sound
#print axioms paramState_unused_sound
#print axioms mem_selfCallReads
#print axioms cpe_unused_preserves
#print axioms cpe_const_preserves
#print axioms cpe_prog_unused_preserves
#print axioms cpe_prog_const_preserves
#print axioms wf_push
#print axioms push_contents
#print axioms get_spec
#print axioms set_spec
#print axioms pop_spec
#print axioms assemble_printBytes
#print axioms cpe_anyslot_counterexample
#print axioms cpe_prog_unused_many_preserves
#print axioms launcher_independent
#print axioms typePermit_finished_enum_iff
#print axioms unboxed_over_int31_payload_counterexample
#print axioms unboxed_over_unboxed_payload_counterexample
#print axioms cpe_prog_mixed_sweep_preserves
