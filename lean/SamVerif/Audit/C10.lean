import SamVerif.Props.C10
/-! Axiom audit of every C10 property theorem (parsed by vlib/common.py). -/
open SamVerif.Incremental
#print axioms transitive_is_reachability
#print axioms affected_exact
#print axioms affected_covers
#print axioms affected_forward_closed
#print axioms sources_follow_files
#print axioms incremental_refines_fresh
#print axioms no_diagnostics_for_non_files
#print axioms checked_tracks_sources
#print axioms lsp_glue_file_view
#print axioms lsp_events_refine_fresh
#print axioms incremental_refines_fresh_epochs
#print axioms graph_fresh
#print axioms rename_single
#print axioms rename_self_identity
#print axioms rename_missing_noop
#print axioms rename_chain
