import SamVerif.Props.C15b
/-! Axiom audit of the C15 theorem that builds on builder-C08's printer/parser model (separate, so
that a transient edit of C08's files cannot fail the C15 proof gate). -/
open SamVerif.FmtFull
#print axioms renamed_roundtrip
#print axioms regroup_relabel_commute
#print axioms rename_back_restores_formatted
