import SamVerif.Props.C08c
/-! Axiom audit of the precedence-table agreement over the extracted tables (parsed by vlib/common.py). -/
#print axioms SamVerif.C08c.printer_table_is_source
#print axioms SamVerif.C08c.parser_levels_are_source
#print axioms SamVerif.C08c.tables_same_partition
#print axioms SamVerif.C08c.tables_same_order
#print axioms SamVerif.C08c.tables_mirror
#print axioms SamVerif.C08c.parser_left_associative
#print axioms SamVerif.C08c.printer_assumes_left_associativity
#print axioms SamVerif.C08c.own_level_for_equality_counterexample
