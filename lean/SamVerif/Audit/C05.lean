import SamVerif.Props.C05
/-! Axiom audit of every C05 property theorem (parsed by vlib/common.py). -/
open SamVerif.Lexer SamVerif.ParserLoops SamVerif.EntryPoint
#print axioms scan_step_progress
#print axioms rawLoop_fuel_irrelevant
#print axioms scan_progress
#print axioms scan_total
#print axioms syntax_error_reported
#print axioms parser_loops_progress
#print axioms entry_root_closed
#print axioms entry_needs_no_tparams
#print axioms entry_needs_static
