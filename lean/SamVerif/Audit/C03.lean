import SamVerif.Props.C03
/-! Axiom audit of every C03 property theorem (parsed by vlib/common.py). -/
open SamVerif.C03
#print axioms compile_gate
#print axioms compile_gate_errors_block
#print axioms fold_total
#print axioms trip_total
#print axioms ts_literal_closed
#print axioms ts_literal_closed_isSome
#print axioms lower_correct
#print axioms lowering_total
#print axioms abstract_typed
#print axioms exhaustive_no_fallback
#print axioms exec_refines_eval
#print axioms bindings_correct
#print axioms bindings_frame
#print axioms bindings_complete
#print axioms iflet_correct
#print axioms let_destructure_total
#print axioms destructure_never_traps
#print axioms variant_fits_erased_type
#print axioms erasure_old_counterexample
#print axioms permit_payload_pointer
#print axioms binding_temps_fresh
#print axioms bindings_correct_on_temps
#print axioms bounds_checked_everywhere
#print axioms bounds_gate
#print axioms erased_uses_validate
#print axioms no_cast_without_erasure
#print axioms erased_uses_old_counterexample
#print axioms context_signature_survives_tailrec
#print axioms context_signature_old_counterexample
#print axioms sole_reference_kept
#print axioms effectful_reference_kept
#print axioms loop_value_reference_kept
