import SamVerif.Props.C15
/-! Axiom audit of every C15 property theorem (parsed by vlib/common.py). -/
open SamVerif.Scope
#print axioms useDef_functional
#print axioms def_use_partition
#print axioms use_resolved_or_reported
#print axioms rename_involutive
#print axioms rename_tree_commutes
#print axioms rename_member_commutes
#print axioms rename_changes_names_only
#print axioms rename_preserves_resolution
#print axioms rename_module_commutes
#print axioms rename_module_preserves_resolution
#print axioms rename_preserves_resolution_partial
#print axioms fresh_check_unsound_counterexample
