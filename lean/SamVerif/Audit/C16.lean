import SamVerif.Props.C16
/-! Axiom audit of every C16 property theorem (parsed by vlib/common.py). -/
open SamVerif.Differ
#print axioms trace_valid
#print axioms script_correct
#print axioms diff_correct
#print axioms compute_no_panic
#print axioms script_positions_sorted
#print axioms edit_ranges_ordered
#print axioms script_positions_in_bounds
#print axioms edit_ranges_inside
#print axioms diff_append_one
#print axioms longestTrace_total
#print axioms diff_total_correct
#print axioms text_lift
#print axioms import_edits_text
#print axioms auto_import_text
#print axioms completion_edits_text
#print axioms diff_self
#print axioms flatten_splitLines
#print axioms off_line
#print axioms toplevel_err_text
#print axioms toplevel_edits_eq
#print axioms code_action_offered_iff
#print axioms full_document_edit_text
#print axioms edit_offsets_in_bnd
#print axioms edits_ordered
#print axioms module_edits_ordered
#print axioms module_edits_text
#print axioms module_diff_text
#print axioms insert_range_is_element_end
