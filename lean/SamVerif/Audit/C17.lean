import SamVerif.Props.C17
import SamVerif.Props.C17b
import SamVerif.Props.C17c
/-! Axiom audit of every C17 property theorem (parsed by vlib/common.py). -/
open SamVerif.Heap SamVerif.PStr
#print axioms inv_reachable
#print axioms slot_step
#print axioms handles_eq_iff_strings_eq
#print axioms read_stable_or_reclaimed
#print axioms perm_forever
#print axioms marked_survives
#print axioms live_without_sweep
#print axioms marked_needs_two_sweeps
#print axioms modref_parts_never_reclaimed
#print axioms allocString_reads
#print axioms allocString_valid
#print axioms allocString_fresh
#print axioms sweep_in_bounds
#print axioms makePermanent_no_panic
#print axioms bytesOf_lt
#print axioms inline_tag_disjoint
#print axioms raw_eq_iff
#print axioms sweep_outside_window_unchanged
#print axioms sweep_inside_window
#print axioms cmpHandle_eq_zero_iff
#print axioms cmpHandle_antisymm
#print axioms bytesLt_trans
#print axioms cmpHandle_trans
#print axioms cmpHandle_trichotomy
#print axioms debugUnmarked_sorted
#print axioms live_without_covering_sweep
#print axioms marked_needs_two_covering_sweeps
#print axioms coverCount_le_sweepCount
#print axioms mark_sets_mark
#print axioms mark_cursor_independent
#print axioms mark_protects_until_second_cover
