import SamVerif.Props.C13b
/-! Axiom audit of the C13 theorems that build on builder-C08's parser model (audited separately so
that a transient edit of `Model/Fmt.lean` / `Lemmas/Fmt.lean` is not reported as a broken C13 proof). -/
open SamVerif.Fmt
#print axioms paren_operand
#print axioms paren_operand_level
#print axioms paren_insensitive'
#print axioms parens_insensitive
