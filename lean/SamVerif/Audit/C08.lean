import SamVerif.Props.C08
/-! Axiom audit of every C08 property theorem (parsed by vlib/common.py). -/
#print axioms SamVerif.FmtFull.roundtrip_expr_counterexample
#print axioms SamVerif.FmtFull.shortcut_regroups_same_operator
#print axioms SamVerif.FmtFull.former_witnesses_roundtrip
#print axioms SamVerif.FmtFull.member_name_before_lt
#print axioms SamVerif.FmtFull.roundtrip_expr_total
#print axioms SamVerif.FmtFull.format_preserves_meaning
#print axioms SamVerif.FmtFull.roundtrip_expr_sized
#print axioms SamVerif.FmtFull.tuple_size_limit
#print axioms SamVerif.FmtFull.eval_regroup
#print axioms SamVerif.FmtFull.regroup_noShortcut
#print axioms SamVerif.FmtFull.parseFuel_stable
#print axioms SamVerif.FmtFull.paren_insensitive
#print axioms SamVerif.FmtFull.roundtrip_expr_in_context
#print axioms SamVerif.FmtFull.roundtrip_expr_noShortcut
#print axioms SamVerif.Fmt.roundtrip_str
#print axioms SamVerif.Fmt.roundtrip_int
#print axioms SamVerif.Fmt.minus_not_merged
#print axioms SamVerif.Fmt.roundtrip_expr_partial
#print axioms SamVerif.Fmt.paren_insensitive
#print axioms SamVerif.FmtPat.roundtrip_pattern
#print axioms SamVerif.FmtPat.roundtrip_pattern_side_conditions
#print axioms SamVerif.FmtLists.trailing_comma_emitted_only_where_accepted
