import SamVerif.Props.C08
/-! Axiom audit of every C08 property theorem (parsed by vlib/common.py). -/
open SamVerif.Fmt
#print axioms roundtrip_expr_counterexample
#print axioms shortcut_regroups_same_operator
#print axioms former_witnesses_roundtrip
#print axioms member_name_before_lt
#print axioms roundtrip_expr_partial
#print axioms parseFuel_stable
#print axioms paren_insensitive
#print axioms roundtrip_expr_in_context
#print axioms rt_of_noShortcut
#print axioms roundtrip_expr_noShortcut
#print axioms roundtrip_str
#print axioms roundtrip_int
#print axioms minus_not_merged
