import SamVerif.Props.C08
/-! Axiom audit of every C08 property theorem (parsed by vlib/common.py). -/
open SamVerif.Fmt
#print axioms roundtrip_expr_counterexample
#print axioms shortcut_regroups_mul_div
#print axioms shortcut_regroups_comparison
#print axioms nested_unary_unparsable
#print axioms concat_level_mismatch
#print axioms roundtrip_expr_partial
#print axioms parseFuel_stable
#print axioms roundtrip_expr_never_wrong
#print axioms roundtrip_expr_in_context
#print axioms rt_of_clean
#print axioms roundtrip_expr_clean
#print axioms roundtrip_str_counterexample
#print axioms roundtrip_str_partial
#print axioms roundtrip_int
#print axioms minus_not_merged
