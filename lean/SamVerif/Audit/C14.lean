import SamVerif.Props.C14
/-! Axiom audit of every C14 property theorem (parsed by vlib/common.py). -/
open SamVerif.Lexer
#print axioms union_lub
#print axioms contains_trans
#print axioms contains_antisymm
#print axioms advanceAll_no_newline
#print axioms wsPos_exact
#print axioms blockEnd_pos_exact
#print axioms strEnd_no_newline
