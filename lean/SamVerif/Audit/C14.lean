import SamVerif.Props.C14
/-! Axiom audit of every C14 property theorem (parsed by vlib/common.py). -/
open SamVerif.Lexer
#print axioms union_lub
#print axioms contains_trans
#print axioms contains_antisymm
#print axioms encloses_children
#print axioms prodLoc_exact
#print axioms pos_tracking_exact
#print axioms tokens_ordered
#print axioms name_span_exact
#print axioms merge_span_exact
