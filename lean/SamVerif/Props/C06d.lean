import SamVerif.Props.C06b
/-!
# C06 (continued) — abstract type arguments, inherited-signature instantiation, name resolution,
transitive super types

Property theorems about the second half of `Model/Gates.lean`. Tie: streams `abs`, `confi`, `nam`
(verdict of the real checker on generated declarations) and `sup` (exact result of the real
`resolve_all_transitive_super_types` through `samlang_checker::verif_hooks_c06`).
-/
namespace SamVerif.Gates
open SamVerif.Assign

/-! ## Abstract types as type arguments -/

mutual
theorem concreteOk_true_iff (tab : KindTable) : ∀ (t : Ty),
    concreteOk tab true t = true ↔ ∀ n ∈ allNodes t, isInterface tab n.1 n.2 = false
  | .any _ => by simp [concreteOk, allNodes]
  | .prim _ => by simp [concreteOk, allNodes]
  | .generic _ => by simp [concreteOk, allNodes]
  | .fn as r => by
    simp only [concreteOk, allNodes, Bool.and_eq_true, concreteOkL_iff tab as, concreteOk_true_iff tab r,
      List.mem_append]
    constructor
    · rintro ⟨h1, h2⟩ n (h | h)
      · exact h1 n h
      · exact h2 n h
    · intro h
      exact ⟨fun n hn => h n (Or.inl hn), fun n hn => h n (Or.inr hn)⟩
  | .nominal _ m i ts => by
    simp only [concreteOk, allNodes, Bool.and_eq_true, concreteOkL_iff tab ts, List.mem_cons,
      Bool.true_and, Bool.not_eq_true']
    constructor
    · rintro ⟨h1, h2⟩ n (h | h)
      · subst h; exact h2
      · exact h1 n h
    · intro h
      exact ⟨fun n hn => h n (Or.inr hn), h (m, i) (Or.inl rfl)⟩
theorem concreteOkL_iff (tab : KindTable) : ∀ (ts : List Ty),
    concreteOkL tab ts = true ↔ ∀ n ∈ allNodesL ts, isInterface tab n.1 n.2 = false
  | [] => by simp [concreteOkL, allNodesL]
  | t :: ts => by
    simp only [concreteOkL, allNodesL, Bool.and_eq_true, concreteOk_true_iff tab t, concreteOkL_iff tab ts,
      List.mem_append]
    constructor
    · rintro ⟨h1, h2⟩ n (h | h)
      · exact h1 n h
      · exact h2 n h
    · intro h
      exact ⟨fun n hn => h n (Or.inl hn), fun n hn => h n (Or.inr hn)⟩
end

/-- **Abstract-type gate.** No `IncompatibleTypeKind` diagnostic iff no interface occurs at a
position that must be concrete: anywhere when validated strictly, anywhere strictly below the root
when the root may be abstract (bounds, `extends`/`implements` nodes). So an interface used as a
type argument, a function parameter type or a return type inside an annotation is always reported. -/
theorem abstract_targ_gate (tab : KindTable) (enforce : Bool) (t : Ty) :
    concreteOk tab enforce t = true ↔
      ∀ n ∈ (if enforce then allNodes t else innerNodes t), isInterface tab n.1 n.2 = false := by
  cases enforce with
  | true => simpa using concreteOk_true_iff tab t
  | false =>
    cases t with
    | any _ => simp [concreteOk, innerNodes]
    | prim _ => simp [concreteOk, innerNodes]
    | generic _ => simp [concreteOk, innerNodes]
    | fn as r =>
      simp only [concreteOk, innerNodes, Bool.and_eq_true, concreteOkL_iff tab as, concreteOk_true_iff tab r,
        List.mem_append, Bool.false_eq_true, if_false]
      constructor
      · rintro ⟨h1, h2⟩ n (h | h)
        · exact h1 n h
        · exact h2 n h
      · intro h
        exact ⟨fun n hn => h n (Or.inl hn), fun n hn => h n (Or.inr hn)⟩
    | nominal s m i ts =>
      simp [concreteOk, innerNodes, concreteOkL_iff tab ts]

example : concreteOk [((1, 7), true)] true (.nominal false 1 3 [.nominal false 1 7 []]) = false := by decide
example : concreteOk [((1, 7), true)] false (.nominal false 1 7 []) = true := by decide

/-! ## Instantiation of inherited signatures -/

def AnnotSubst (σ : Subst) : Prop := ∀ n t, σ.get n = some t → annot t

mutual
theorem subst_annot (σ : Subst) (hσ : AnnotSubst σ) : ∀ (t : Ty), annot t → annot (subst σ t)
  | .any _, h => by simp [annot, anyFree] at h
  | .prim k, _ => by simp [subst, annot, anyFree, noStatics]
  | .generic n, _ => by
    simp only [subst]
    cases hg : σ.get n with
    | some t => exact hσ n t hg
    | none => simp [annot, anyFree, noStatics]
  | .nominal s m i ts, h => by
    simp only [annot, anyFree, noStatics, Bool.and_eq_true, Bool.not_eq_true'] at h
    have := substL_annot σ hσ ts ⟨h.1, h.2.2⟩
    simp only [subst, annot, anyFree, noStatics, Bool.and_eq_true, Bool.not_eq_true']
    exact ⟨this.1, h.2.1, this.2⟩
  | .fn as r, h => by
    simp only [annot, anyFree, noStatics, Bool.and_eq_true] at h
    have h1 := substL_annot σ hσ as ⟨h.1.1, h.2.1⟩
    have h2 := subst_annot σ hσ r ⟨h.1.2, h.2.2⟩
    simp only [subst, annot, anyFree, noStatics, Bool.and_eq_true]
    exact ⟨⟨h1.1, h2.1⟩, h1.2, h2.2⟩
theorem substL_annot (σ : Subst) (hσ : AnnotSubst σ) : ∀ (ts : List Ty),
    (anyFreeL ts = true ∧ noStaticsL ts = true) → (anyFreeL (substL σ ts) = true ∧ noStaticsL (substL σ ts) = true)
  | [], _ => by simp [substL, anyFreeL, noStaticsL]
  | t :: ts, h => by
    simp only [anyFreeL, noStaticsL, Bool.and_eq_true] at h
    have h1 := subst_annot σ hσ t ⟨h.1.1, h.2.1⟩
    have h2 := substL_annot σ hσ ts ⟨h.1.2, h.2.2⟩
    simp only [substL, anyFreeL, noStaticsL, Bool.and_eq_true]
    exact ⟨⟨h1.1, h2.1⟩, h1.2, h2.2⟩
end

theorem zip_annot : ∀ (ns : List Nat) (ts : List Ty), (∀ t ∈ ts, annot t) → AnnotSubst (ns.zip ts)
  | [], _, _ => by intro n t h; simp [Subst.get] at h
  | _ :: _, [], _ => by intro n t h; simp [Subst.get] at h
  | k :: ns, u :: ts, h => by
    intro n t hg
    simp only [List.zip_cons_cons, Subst.get] at hg
    split at hg
    · simp at hg; subst hg; exact h u (by simp)
    · exact zip_annot ns ts (fun x hx => h x (by simp [hx])) n t hg

/-- Instantiating an inherited signature with annotation type arguments gives an annotation-shaped
signature again (so `conformance_exact` applies to what the checker really compares against). -/
theorem instantiate_wf (tparams : List Nat) (targs : List Ty) (m : MSig)
    (hm : m.wf) (ht : ∀ t ∈ targs, annot t) : (instantiateSig tparams targs m).wf := by
  have hσ := zip_annot tparams targs ht
  refine ⟨subst_annot _ hσ m.ty hm.1, ?_⟩
  intro p hp
  simp only [instantiateSig, List.mem_map] at hp
  obtain ⟨q, hq, rfl⟩ := hp
  have := hm.2 q hq
  cases hb : q.2 with
  | none => simp [annotBound]
  | some b =>
    rw [hb] at this
    simpa [annotBound] using subst_annot _ hσ b this

/-- **Conformance against a generic interface instance `I<targs>`**: the class passes iff every
member of `I` is declared and every declaration bearing such a name is public and has exactly the
member's type parameters, bounds and function type *with `I`'s type parameters replaced by the
type arguments*. -/
theorem conformance_inst_exact (tparams : List Nat) (targs : List Ty) (iface declared : List MSig)
    (hi : ∀ e ∈ iface, e.wf) (ht : ∀ t ∈ targs, annot t) (hd : ∀ a ∈ declared, a.wf) :
    classConformsInst tparams targs iface declared = true ↔
      (∀ e ∈ iface, ∃ a ∈ declared, a.name = e.name) ∧
      (∀ a ∈ declared, ∀ e ∈ iface, e.name = a.name →
        a.isPublic = true ∧ (instantiateSig tparams targs e).tparams = a.tparams ∧
        subst (tparams.zip targs) e.ty = a.ty) := by
  have hwf : ∀ e ∈ iface.map (instantiateSig tparams targs), e.wf := by
    intro e he
    simp only [List.mem_map] at he
    obtain ⟨e0, he0, rfl⟩ := he
    exact instantiate_wf tparams targs e0 (hi e0 he0) ht
  rw [classConformsInst, conformance_exact _ _ hwf hd]
  constructor
  · rintro ⟨h1, h2⟩
    refine ⟨fun e he => ?_, fun a ha e he hn => ?_⟩
    · simpa [instantiateSig] using h1 (instantiateSig tparams targs e) (List.mem_map_of_mem he)
    · simpa [instantiateSig] using h2 a ha (instantiateSig tparams targs e) (List.mem_map_of_mem he)
        (by simpa [instantiateSig] using hn)
  · rintro ⟨h1, h2⟩
    refine ⟨fun e he => ?_, fun a ha e he hn => ?_⟩
    · simp only [List.mem_map] at he
      obtain ⟨e0, he0, rfl⟩ := he
      simpa [instantiateSig] using h1 e0 he0
    · simp only [List.mem_map] at he
      obtain ⟨e0, he0, rfl⟩ := he
      simpa [instantiateSig] using h2 a ha e0 he0 (by simpa [instantiateSig] using hn)

example : classConformsInst [1] [.prim .int] [⟨1, true, [], .fn [.generic 1] (.generic 1)⟩]
    [⟨1, true, [], .fn [.prim .int] (.prim .int)⟩] = true := by decide
example : classConformsInst [1] [.prim .int] [⟨1, true, [], .fn [.generic 1] (.generic 1)⟩]
    [⟨1, true, [], .fn [.prim .bool] (.prim .int)⟩] = false := by decide

/-! ## Name resolution of classes, modules, members -/

theorem resolveClassModule_not_imported (imports : List (Nat × Nat)) (cur name : Nat)
    (h : ∀ p ∈ imports, p.1 ≠ name) : resolveClassModule imports cur name = cur := by
  induction imports with
  | nil => rfl
  | cons p rest ih =>
    have hp : p.1 ≠ name := h p (by simp)
    simp only [resolveClassModule, hp, if_false]
    exact ih (fun q hq => h q (by simp [hq]))

theorem classExists_none (tab : List ((Nat × Nat) × Bool)) (m i : Nat)
    (h : ∀ e ∈ tab, e.1 ≠ (m, i)) : classExists tab m i = false := by
  induction tab with
  | nil => rfl
  | cons e rest ih =>
    obtain ⟨⟨m', i'⟩, d⟩ := e
    have he : (m', i') ≠ (m, i) := h ((m', i'), d) (by simp)
    have : ¬ (m' = m ∧ i' = i) := fun hc => he (by rw [hc.1, hc.2])
    simp only [classExists, this, if_false]
    exact ih (fun q hq => h q (by simp [hq]))

/-- **Unresolved class ⇒ error.** A class name that is not imported and is not a toplevel of the
current module never resolves (`CannotResolveClass`). -/
theorem unresolved_class_reported (imports : List (Nat × Nat)) (cur : Nat)
    (tab : List ((Nat × Nat) × Bool)) (name : Nat)
    (himp : ∀ p ∈ imports, p.1 ≠ name) (hloc : ∀ e ∈ tab, e.1 ≠ (cur, name)) :
    classIdResolved imports cur tab name = false := by
  rw [classIdResolved, resolveClassModule_not_imported imports cur name himp]
  exact classExists_none tab cur name hloc

example : classIdResolved [(5, 2)] 1 [((2, 5), true)] 5 = true := by decide
example : classIdResolved [(5, 2)] 1 [((2, 5), true)] 6 = false := by decide
example : classIdResolved [] 1 [((1, 5), false)] 5 = false := by decide   -- an interface is not a class value

/-- **Unresolved module ⇒ error.** -/
theorem unresolved_module_reported (modules : List Nat) (m : Nat) :
    moduleResolved modules m = true ↔ m ∈ modules := by
  simp [moduleResolved]

theorem lookupMember_none (ms : List (Nat × Bool)) (n : Nat) (h : ∀ p ∈ ms, p.1 ≠ n) :
    lookupMember ms n = none := by
  induction ms with
  | nil => rfl
  | cons p rest ih =>
    have hp : p.1 ≠ n := h p (by simp)
    obtain ⟨k, v⟩ := p
    simp only [lookupMember]
    simp only at hp
    simp only [hp, if_false]
    exact ih (fun q hq => h q (by simp [hq]))

/-- **Unresolved member ⇒ error.** A name that is neither a declared method nor a declared field
of the class never resolves (`CannotResolveMember`), from anywhere. -/
theorem unresolved_member_reported (cx : Ctx) (c : ClassRef) (methods fields : List (Nat × Bool))
    (name : Nat) (hm : ∀ p ∈ methods, p.1 ≠ name) (hf : ∀ p ∈ fields, p.1 ≠ name) :
    memberAccessResolved cx c methods fields name = false := by
  simp [memberAccessResolved, memberResolved, fieldResolved, lookupMember_none methods name hm,
    lookupMember_none fields name hf]

/-! ## Kind gates -/

/-- A call whose callee is neither a function type nor `any` is always reported. -/
theorem non_function_call_rejected (t : Ty) : calleeOk t = true ↔ (∃ as r, t = .fn as r) ∨ ∃ p, t = .any p := by
  cases t <;> simp [calleeOk]

/-- A member access on a primitive, a function or an unbounded type parameter is always reported. -/
theorem member_object_gate (bg : List Nat) (t : Ty) : memberObjectOk bg t = true ↔
    (∃ s m i ts, t = .nominal s m i ts) ∨ (∃ n, t = .generic n ∧ n ∈ bg) ∨ ∃ p, t = .any p := by
  cases t <;> simp [memberObjectOk]

theorem field_tyargs_gate (g : Option Nat) : fieldTyArgsOk g = true ↔ g = none := by
  cases g <;> simp [fieldTyArgsOk]

/-- A declared class among the (transitive) super types is always reported. -/
theorem class_as_supertype_rejected (tab : KindTable) (known supers : List (Nat × Nat)) :
    superKindsOk tab known supers = true ↔
      ∀ k ∈ supers, k ∈ known → isInterface tab k.1 k.2 = true := by
  simp only [superKindsOk, List.all_eq_true, Bool.or_eq_true, Bool.not_eq_true', List.contains_eq_mem,
    decide_eq_false_iff_not, decide_eq_true_eq]
  constructor
  · intro h k hk hkn
    rcases h k hk with h1 | h1
    · exact absurd hkn h1
    · exact h1
  · intro h k hk
    by_cases hkn : k ∈ known
    · exact Or.inr (h k hk hkn)
    · exact Or.inl hkn

/-- A function member inside an interface is always reported. -/
theorem function_in_interface_rejected (members : List Bool) :
    interfaceMembersOk false members = true ↔ ∀ m ∈ members, m = true := by
  simp [interfaceMembersOk]

/-! ## Transitive super types: every reachable cycle is reported -/

/-- the fold step of `resolveSupersF` -/
def supStep (tab : List Decl) (fuel : Nat) (path : List (Nat × Nat)) (a : SupAcc) (s : Ty) : SupAcc :=
  ((resolveSupersF tab fuel path s a).1 ++ [s], (resolveSupersF tab fuel path s a).2.1,
    (resolveSupersF tab fuel path s a).2.2)

theorem resolveSupersF_succ (tab : List Decl) (fuel : Nat) (path : List (Nat × Nat)) (t : Ty) (acc : SupAcc) :
    resolveSupersF tab (fuel + 1) path t acc =
      match keyOf t with
      | none => acc
      | some k =>
        if path.contains k then (acc.1, true, acc.2.2)
        else match findDecl tab k with
          | none => acc
          | some d => (d.supers.map (subst (d.tparams.zip (targsOf t)))).foldl (supStep tab fuel (k :: path)) acc := by
  rw [resolveSupersF]
  rfl

theorem fold_flag_mono (f : SupAcc → Ty → SupAcc) (hm : ∀ a s, a.2.1 = true → (f a s).2.1 = true) :
    ∀ (l : List Ty) (acc : SupAcc), acc.2.1 = true → (l.foldl f acc).2.1 = true
  | [], _, h => h
  | s :: l, acc, h => fold_flag_mono f hm l (f acc s) (hm acc s h)

theorem fold_flag_hit (f : SupAcc → Ty → SupAcc) (hm : ∀ a s, a.2.1 = true → (f a s).2.1 = true)
    (u : Ty) (hu : ∀ a, (f a u).2.1 = true) :
    ∀ (l : List Ty) (acc : SupAcc), u ∈ l → (l.foldl f acc).2.1 = true
  | [], _, h => by simp at h
  | s :: l, acc, h => by
    rcases List.mem_cons.1 h with rfl | h'
    · exact fold_flag_mono f hm l (f acc u) (hu acc)
    · exact fold_flag_hit f hm u hu l (f acc s) h'

/-- once a cycle has been flagged it stays flagged -/
theorem cyclic_flag_monotone (tab : List Decl) : ∀ (fuel : Nat) (path : List (Nat × Nat)) (t : Ty)
    (acc : SupAcc), acc.2.1 = true → (resolveSupersF tab fuel path t acc).2.1 = true
  | 0, _, _, acc, h => by simpa [resolveSupersF] using h
  | fuel + 1, path, t, acc, h => by
    rw [resolveSupersF_succ]
    split
    · exact h
    · split
      · rfl
      · split
        · exact h
        · apply fold_flag_mono _ _ _ _ h
          intro a s ha
          exact cyclic_flag_monotone tab fuel _ s a ha

/-- `u` is one of the instantiated direct super types of `t`, whose key is `k`. -/
def SuperEdge (tab : List Decl) (t : Ty) (k : Nat × Nat) (u : Ty) : Prop :=
  keyOf t = some k ∧ ∃ d, findDecl tab k = some d ∧ u ∈ d.supers.map (subst (d.tparams.zip (targsOf t)))

/-- `Returns tab n t seen`: following at most `n` super-type edges from `t` one reaches a type
whose toplevel is in `seen` or was passed on the way — i.e. a cycle of the declaration graph is
reachable from `t` (with `seen = []`). -/
inductive Returns (tab : List Decl) : Nat → Ty → List (Nat × Nat) → Prop
  | hit (n : Nat) (t : Ty) (k : Nat × Nat) (seen : List (Nat × Nat)) :
      keyOf t = some k → k ∈ seen → Returns tab n t seen
  | step (n : Nat) (t u : Ty) (k : Nat × Nat) (seen : List (Nat × Nat)) :
      SuperEdge tab t k u → Returns tab n u (k :: seen) → Returns tab (n + 1) t seen

/-- **Cyclic super types are always reported.** If a cycle of the declaration graph is reachable
from `t` within `n` edges, `resolve_all_transitive_super_types` sets `is_cyclic` (given recursion
budget `> n`; the real function has no budget, the model's `resolveSupers` starts with
`declarations + 2`, enough for every simple path). -/
theorem cycle_detected (tab : List Decl) : ∀ (n : Nat) (t : Ty) (path : List (Nat × Nat)),
    Returns tab n t path → ∀ (fuel : Nat) (acc : SupAcc), n < fuel →
    (resolveSupersF tab fuel path t acc).2.1 = true := by
  intro n t path h
  induction h with
  | hit n t k seen hk hmem =>
    intro fuel acc hf
    cases fuel with
    | zero => omega
    | succ fuel =>
      rw [resolveSupersF_succ, hk]
      simp [hmem]
  | step n t u k seen hedge _ ih =>
    intro fuel acc hf
    cases fuel with
    | zero => omega
    | succ fuel =>
      obtain ⟨hk, d, hd, hu⟩ := hedge
      rw [resolveSupersF_succ, hk]
      by_cases hc : k ∈ seen
      · simp [hc]
      · have hc' : seen.contains k = false := by simpa using hc
        simp only [hc', hd]
        apply fold_flag_hit _ _ u _ _ _ hu
        · intro a s ha
          exact cyclic_flag_monotone tab fuel _ s a ha
        · intro a
          exact ih fuel a (by omega)

/-- Special cases: a toplevel that lists itself as a super type, and a two-cycle. -/
example : (resolveSupers [⟨(1, 1), [], [.nominal false 1 1 []]⟩] (.nominal false 1 1 [])).2.1 = true := by
  decide
example : (resolveSupers [⟨(1, 1), [], [.nominal false 1 2 []]⟩, ⟨(1, 2), [], [.nominal false 1 1 []]⟩]
    (.nominal false 1 1 [])).2.1 = true := by decide
example : (resolveSupers [⟨(1, 1), [], [.nominal false 1 2 []]⟩, ⟨(1, 2), [], []⟩]
    (.nominal false 1 1 [])).2 = (false, false) := by decide

/-! ### Memoised variant (repair of C05-F6) -/

/-- The flag is monotone for the memoised walk as well. -/
theorem cyclic_flag_monotone_memo (tab : List Decl) : ∀ (fuel : Nat) (path : List (Nat × Nat)) (t : Ty)
    (acc : SupAcc), acc.2.1 = true → (resolveSupersMF tab fuel path t acc).2.1 = true
  | 0, _, _, acc, h => by simpa [resolveSupersMF] using h
  | fuel + 1, path, t, acc, h => by
    rw [resolveSupersMF]
    split
    · exact h
    · split
      · rfl
      · split
        · exact h
        · apply fold_flag_mono _ _ _ _ h
          intro a s ha
          simp only
          split
          · exact ha
          · exact cyclic_flag_monotone_memo tab fuel _ s a ha

/- `cycle_detected_memo` (the memoised walk still reports every reachable cycle) is proved in
`Props/C06e.lean` through the ordering invariant `memo_invariant`. -/

example : (resolveSupersM [⟨(1, 1), [], [.nominal false 1 2 [], .nominal false 1 2 []]⟩, ⟨(1, 2), [], []⟩]
    (.nominal false 1 1 [])).1.length = 1 := by decide
example : (resolveSupers [⟨(1, 1), [], [.nominal false 1 2 [], .nominal false 1 2 []]⟩, ⟨(1, 2), [], []⟩]
    (.nominal false 1 1 [])).1.length = 2 := by decide
example : (resolveSupersM [⟨(1, 1), [], [.nominal false 1 2 []]⟩, ⟨(1, 2), [], [.nominal false 1 1 []]⟩]
    (.nominal false 1 1 [])).2.1 = true := by decide

end SamVerif.Gates
