import SamVerif.Props.C04
/-!
# C04 (continued) — the emitted template literal is lexically valid and cooks to the denoted string
-/
namespace SamVerif.Backends

/-- Lexical validity of the text between the back quotes of a substitution-free JS template literal
(ECMAScript 12.9.6), stated independently of `tsCook`: no unescaped back quote, no `${`, no lone
trailing backslash, `\x` only with two hex digits, no `\0` before a digit, no `\1`…`\9`, no `\u`. -/
def templateOk : Text → Bool
  | [] => true
  | 96 :: _ => false
  | 36 :: 123 :: _ => false
  | 92 :: [] => false
  | 92 :: 13 :: 10 :: rest => templateOk rest
  | 92 :: 120 :: h1 :: h2 :: rest =>
    (hexDigitVal h1).isSome && (hexDigitVal h2).isSome && templateOk rest
  | 92 :: c :: rest =>
    if c = 48 then !((rest.head?.map isDigit).getD false) && templateOk rest
    else if isDigit c || c = 120 || c = 117 then false
    else templateOk rest
  | 13 :: 10 :: rest => templateOk rest
  | _ :: rest => templateOk rest
termination_by s => s.length
decreasing_by all_goals simp_wf <;> omega

/-- the cooking model rejects exactly the lexically invalid texts -/
theorem tsCook_isSome (t : Text) : (tsCook t).isSome = templateOk t := by
  fun_induction tsCook t <;> rw [templateOk] <;> simp_all [Option.isSome_map]
  case case7 h1 h2 rest hx =>
    intro ha hb
    obtain ⟨a, ha⟩ := Option.isSome_iff_exists.mp ha
    obtain ⟨b, hb⟩ := Option.isSome_iff_exists.mp hb
    exact absurd hb (hx a b ha)
  all_goals (intro _; decide)


/-- **(a) The emitted template literal is always lexically valid**: for every string literal the
lexer accepts (any code points), the text `template_literal_text` writes between the back quotes
contains no unescaped back quote, no `${`, no `\0` before a digit and no invalid escape. -/
theorem template_literal_valid (raw : Text) (h : lexAccepts raw = true) :
    templateOk (tsEscape (content raw)) = true := by
  obtain ⟨hw, _⟩ := content_wellEsc raw (lexAccepts_wellEscQ raw h)
  rw [← tsCook_isSome, cook_escape _ _ (Nat.le_refl _) hw]
  rfl

/-- **(b) … and cooks to exactly the characters the literal denotes** (the characters the escape
table of the specification assigns, which are also what the WebAssembly data segment stores), as
UTF-16 code units — for every accepted literal, no restriction on the code points. -/
theorem template_literal_cooks (raw : Text) (h : lexAccepts raw = true) :
    tsDecode (content raw) = some ((wasmUnescape (content raw)).flatMap utf16) := by
  obtain ⟨hw, _⟩ := content_wellEsc raw (lexAccepts_wellEscQ raw h)
  exact cook_escape _ _ (Nat.le_refl _) hw

/-- the printer with the `\0` look-ahead narrowed to octal digits (the fault of seed C04g) -/
def tsEscapeOctalLookahead : Text → Text
  | [] => []
  | 92 :: [] => [92]
  | 92 :: n :: r =>
    if n = 48 ∧ (r.head?.map (fun d => decide (48 ≤ d ∧ d ≤ 55))).getD false = true then
      tsNulBeforeDigit ++ tsEscapeOctalLookahead r
    else 92 :: n :: tsEscapeOctalLookahead r
  | c :: r =>
    match tsRewriteOf c r.head? with
    | some rep => rep ++ tsEscapeOctalLookahead r
    | none => c :: tsEscapeOctalLookahead r

/-- `"\08"`: accepted by the lexer; with the octal-only look-ahead the emitted template literal
contains `\0` followed by the digit 8 — a SyntaxError — while the real printer writes `\x008`,
which is valid and cooks to NUL, `8`. The full decimal look-ahead is necessary. -/
theorem octal_lookahead_counterexample :
    lexAccepts [92, 48, 56] = true ∧
      templateOk (tsEscapeOctalLookahead (content [92, 48, 56])) = false ∧
      templateOk (tsEscape (content [92, 48, 56])) = true ∧
      tsDecode (content [92, 48, 56]) = some [0, 56] := by
  refine ⟨by decide, ?_, ?_, ?_⟩
  · have e : tsEscapeOctalLookahead (content [92, 48, 56]) = [92, 48, 56] := by decide
    rw [e, templateOk]
    all_goals simp [isDigit]
  · exact template_literal_valid _ (by decide)
  · rw [template_literal_cooks _ (by decide)]
    have e : wasmUnescape (content [92, 48, 56]) = [0, 56] := by decide
    rw [e]; simp [utf16]

example : lexAccepts [97, 96, 36, 123, 92, 110, 92, 48, 57, 13, 92, 34, 233] = true := by decide

end SamVerif.Backends
