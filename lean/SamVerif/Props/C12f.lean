import SamVerif.Model.TempCounter
/-! # C12 — the shared atomic temp counter: names are pairwise distinct in every interleaving and
any two interleavings differ by an injective renaming (which `mir_rename_invariant_full` shows to be
behaviour-preserving). -/
namespace SamVerif.TempCounter

theorem nthOcc_spec (w : Nat) : ∀ (l : List Nat) (c i : Nat), nthOcc w c l = some i →
    l[i]? = some w ∧ (l.take i).count w = c := by
  intro l
  induction l with
  | nil => intro c i h; simp [nthOcc] at h
  | cons x xs ih =>
    intro c i h
    simp only [nthOcc] at h
    by_cases hx : x = w
    · subst hx
      simp only [↓reduceIte] at h
      cases c with
      | zero => simp at h; subst h; simp
      | succ c =>
        cases hn : nthOcc x c xs with
        | none => simp [hn] at h
        | some j =>
          simp [hn] at h; subst h
          have := ih c j hn
          simp [this.1, this.2]
    · simp only [hx, ↓reduceIte] at h
      cases hn : nthOcc w c xs with
      | none => simp [hn] at h
      | some j =>
        simp [hn] at h; subst h
        have := ih c j hn
        simp [this.1, this.2, hx]

theorem nthOcc_lt (w : Nat) (l : List Nat) (c i : Nat) (h : nthOcc w c l = some i) : i < l.length := by
  have := (nthOcc_spec w l c i h).1
  exact (List.getElem?_eq_some_iff.mp this).1

theorem nthOcc_complete : ∀ (l : List Nat) (i : Nat) (w : Nat), l[i]? = some w →
    nthOcc w ((l.take i).count w) l = some i := by
  intro l
  induction l with
  | nil => intro i w h; simp at h
  | cons x xs ih =>
    intro i w h
    cases i with
    | zero =>
      simp at h; subst h
      simp [nthOcc]
    | succ i =>
      simp only [List.getElem?_cons_succ] at h
      have := ih i w h
      simp only [List.take_succ_cons, nthOcc]
      by_cases hx : x = w
      · subst hx
        simp [this]
      · simp [hx, this]

theorem nthOcc_isSome_iff (w : Nat) : ∀ (l : List Nat) (c : Nat),
    (nthOcc w c l).isSome = true ↔ c < l.count w := by
  intro l
  induction l with
  | nil => intro c; simp [nthOcc]
  | cons x xs ih =>
    intro c
    simp only [nthOcc]
    by_cases hx : x = w
    · subst hx
      cases c with
      | zero => simp
      | succ c => simp [ih c]
    · simp [hx, ih c]

/-- **temp_names_distinct**: in every interleaving, two different requests (different worker or
different request number) never receive the same name. -/
theorem temp_names_distinct (start : Nat) (sched : List Nat) (w c w' c' n : Nat)
    (h : tempName start sched w c = some n) (h' : tempName start sched w' c' = some n) :
    w = w' ∧ c = c' := by
  simp only [tempName, Option.map_eq_some_iff] at h h'
  obtain ⟨i, hi, rfl⟩ := h
  obtain ⟨j, hj, hij⟩ := h'
  have : j = i := by omega
  subst this
  have a := nthOcc_spec w sched c j hi
  have b := nthOcc_spec w' sched c' j hj
  have hw : w = w' := by
    have := a.1.symm.trans b.1
    exact Option.some.inj this
  subst hw
  exact ⟨rfl, a.2.symm.trans b.2⟩

example : tempName 100 [0, 1, 0, 2, 1] 0 1 = some 102 ∧ tempName 100 [0, 1, 0, 2, 1] 1 1 = some 104 := by decide

/-- The names handed out are exactly the block `[start, start + number of requests)`. -/
theorem temp_names_in_block (start : Nat) (sched : List Nat) (w c n : Nat)
    (h : tempName start sched w c = some n) : start ≤ n ∧ n < start + sched.length := by
  simp only [tempName, Option.map_eq_some_iff] at h
  obtain ⟨i, hi, rfl⟩ := h
  have := nthOcc_lt w sched c i hi
  omega

theorem temp_names_onto_block (start : Nat) (sched : List Nat) (n : Nat)
    (h1 : start ≤ n) (h2 : n < start + sched.length) :
    ∃ w c, reqAt sched (n - start) = some (w, c) ∧ tempName start sched w c = some n := by
  have hlt : n - start < sched.length := by omega
  have hget : sched[n - start]? = some sched[n - start] := List.getElem?_eq_getElem hlt
  refine ⟨sched[n - start], (sched.take (n - start)).count sched[n - start], ?_, ?_⟩
  · simp [reqAt, hget]
  · simp only [tempName, nthOcc_complete sched (n - start) _ hget, Option.map_some, Option.some.injEq]
    omega

/-- A request is served iff the worker makes that many requests — independent of the interleaving. -/
theorem temp_names_defined_perm (start : Nat) (sched sched' : List Nat) (hp : sched'.Perm sched)
    (w c : Nat) : (tempName start sched' w c).isSome = (tempName start sched w c).isSome := by
  simp only [tempName, Option.isSome_map]
  have a := nthOcc_isSome_iff w sched c
  have b := nthOcc_isSome_iff w sched' c
  rw [hp.count_eq w] at b
  cases h : (nthOcc w c sched).isSome <;> cases h' : (nthOcc w c sched').isSome <;> simp_all <;> omega

/-- **temp_counter_renaming**: the names of any interleaving `sched'` are the image of the names
of `sched` (e.g. the sequential run) under `renameTo`, request by request. -/
theorem temp_counter_renaming (start : Nat) (sched sched' : List Nat) (hp : sched'.Perm sched)
    (w c n : Nat) (h : tempName start sched w c = some n) :
    tempName start sched' w c = some (renameTo start sched sched' n) := by
  have hb := temp_names_in_block start sched w c n h
  obtain ⟨w2, c2, hreq, hname⟩ := temp_names_onto_block start sched n hb.1 hb.2
  have hwc := temp_names_distinct start sched w c w2 c2 n h hname
  obtain ⟨rfl, rfl⟩ := hwc
  have hdef := temp_names_defined_perm start sched sched' hp w c
  rw [h] at hdef
  obtain ⟨n', hn'⟩ := Option.isSome_iff_exists.mp hdef
  simp [renameTo, hb.1, hreq, hn']

/-- **temp_counter_renaming_injective**: that renaming is injective on all names (a permutation of
the handed-out block, the identity elsewhere) — so it is a renaming in the sense of
`mir_rename_invariant_full`. -/
theorem temp_counter_renaming_injective (start : Nat) (sched sched' : List Nat) (hp : sched'.Perm sched)
    (a b : Nat) (h : renameTo start sched sched' a = renameTo start sched sched' b) : a = b := by
  have hlen : sched'.length = sched.length := hp.length_eq
  -- behaviour of renameTo inside / outside the block
  have inside : ∀ x, start ≤ x → x < start + sched.length →
      ∃ w c, tempName start sched w c = some x ∧
        tempName start sched' w c = some (renameTo start sched sched' x) ∧
        start ≤ renameTo start sched sched' x ∧ renameTo start sched sched' x < start + sched.length := by
    intro x h1 h2
    obtain ⟨w, c, _, hname⟩ := temp_names_onto_block start sched x h1 h2
    have hr := temp_counter_renaming start sched sched' hp w c x hname
    have hb := temp_names_in_block start sched' w c _ hr
    exact ⟨w, c, hname, hr, hb.1, by omega⟩
  have outside : ∀ x, ¬ (start ≤ x ∧ x < start + sched.length) → renameTo start sched sched' x = x := by
    intro x hx
    simp only [renameTo]
    by_cases h1 : start ≤ x
    · have : sched[x - start]? = none := List.getElem?_eq_none (by omega)
      simp [h1, reqAt, this]
    · simp [h1]
  by_cases ha : start ≤ a ∧ a < start + sched.length <;> by_cases hb : start ≤ b ∧ b < start + sched.length
  · obtain ⟨w, c, hn, hr, _, _⟩ := inside a ha.1 ha.2
    obtain ⟨w', c', hn', hr', _, _⟩ := inside b hb.1 hb.2
    rw [h] at hr
    have := temp_names_distinct start sched' w c w' c' _ hr hr'
    obtain ⟨rfl, rfl⟩ := this
    rw [hn] at hn'
    exact Option.some.inj hn'
  · obtain ⟨_, _, _, _, h1, h2⟩ := inside a ha.1 ha.2
    rw [h, outside b hb] at h1 h2
    exact absurd ⟨h1, h2⟩ hb
  · obtain ⟨_, _, _, _, h1, h2⟩ := inside b hb.1 hb.2
    rw [← h, outside a ha] at h1 h2
    exact absurd ⟨h1, h2⟩ ha
  · rw [outside a ha, outside b hb] at h
    exact h

/-- non-vacuity: two workers, sequential run `[0,0,1,1]` vs the interleaving `[1,0,1,0]`. -/
example : tempName 7 [0, 0, 1, 1] 1 0 = some 9 ∧ tempName 7 [1, 0, 1, 0] 1 0 = some 7 ∧
    renameTo 7 [0, 0, 1, 1] [1, 0, 1, 0] 9 = 7 ∧ renameTo 7 [0, 0, 1, 1] [1, 0, 1, 0] 3 = 3 := by decide

/-! ## Atomicity made explicit -/

theorem crun_atomic_aux (sched : List Nat) (s : CState) :
    (sched.foldl (fun st w => cstep st (.rmw w)) s).issued =
        s.issued ++ List.zip sched (List.range' s.ctr sched.length) ∧
      (sched.foldl (fun st w => cstep st (.rmw w)) s).ctr = s.ctr + sched.length := by
  induction sched generalizing s with
  | nil => simp
  | cons w ws ih =>
    obtain ⟨h1, h2⟩ := ih (cstep s (.rmw w))
    have e1 : (cstep s (.rmw w)).issued = s.issued ++ [(w, s.ctr)] := rfl
    have e2 : (cstep s (.rmw w)).ctr = s.ctr + 1 := rfl
    rw [e1, e2] at h1
    rw [e2] at h2
    simp only [List.foldl_cons, List.length_cons, List.range'_succ, List.zip_cons_cons]
    constructor
    · rw [h1]; simp
    · rw [h2]; omega

/-- **atomic_counter_distinct**: with the atomic read-modify-write, for EVERY interleaving `sched`
of the workers' requests (induction over the schedule): the j-th request served receives
`start + j` — so the numbers are exactly the block, pairwise distinct, and each worker's requests are
served in its program order; this is the position-based `tempName` model. -/
theorem atomic_counter_distinct (start : Nat) (sched : List Nat) :
    let s := crun start (sched.map .rmw)
    s.issued = List.zip sched (List.range' start sched.length) ∧
      (s.issued.map (·.2)).Nodup ∧ s.ctr = start + sched.length := by
  have h := crun_atomic_aux sched { ctr := start, regs := [], issued := [] }
  have e : crun start (sched.map .rmw) =
      sched.foldl (fun st w => cstep st (.rmw w)) { ctr := start, regs := [], issued := [] } := by
    simp [crun, List.foldl_map]
  simp only [e, h.1, h.2, List.nil_append, true_and]
  constructor
  · have : (List.zip sched (List.range' start sched.length)).map (·.2) = List.range' start sched.length := by
      apply List.map_snd_zip
      simp
    rw [this]
    exact List.nodup_range'
  · trivial

example : (crun 7 [.rmw 1, .rmw 0, .rmw 1]).issued = [(1, 7), (0, 8), (1, 9)] := by decide

/-- **split_counter_lost_update** (class of seeded fault C12g): with `load` and `store` as two steps
there is an interleaving in which two workers receive the same number (and the counter ends too
low) — the full statement "numbers are pairwise distinct for every interleaving of worker steps" is
false for the split counter. -/
theorem split_counter_lost_update :
    ∃ steps : List CStep, ¬ ((crun 7 steps).issued.map (·.2)).Nodup ∧ (crun 7 steps).ctr < 7 + (crun 7 steps).issued.length :=
  ⟨[.load 0, .load 1, .store 0, .store 1], by decide, by decide⟩

/-- **split_counter_partial**: the split counter is only safe when every `load` is immediately
followed by the same worker's `store` (no interleaving inside the pair), where it behaves like `rmw`. -/
theorem split_counter_partial (s : CState) (w : Nat) (_h : regOf s.regs w = none) :
    let s' := cstep (cstep s (.load w)) (.store w)
    s'.ctr = (cstep s (.rmw w)).ctr ∧ s'.issued = (cstep s (.rmw w)).issued := by
  simp [cstep, regOf]

/-! ## Phase boundaries -/

theorem issued_flatten_of_allSynced (ps : List Phase) (H : Nat) (h : allSynced ps = true) :
    (issued H ps).flatten = List.range' H (total ps) ∧ heapAfter H ps = H + total ps := by
  induction ps generalizing H with
  | nil => simp [issued, total, heapAfter]
  | cons p rest ih =>
    cases p with
    | par k s =>
      simp only [allSynced, Bool.and_eq_true] at h
      obtain ⟨hs, hr⟩ := h
      subst hs
      have := ih (H + k) hr
      simp only [issued, ↓reduceIte, List.flatten_cons, this.1, total, heapAfter, this.2]
      constructor
      · rw [← List.range'_append_1]
      · omega
    | seq k =>
      simp only [allSynced] at h
      have := ih (H + k) h
      simp only [issued, List.flatten_cons, this.1, total, heapAfter, this.2]
      constructor
      · rw [← List.range'_append_1]
      · omega

/-- **phases_disjoint**: when every parallel round is followed by `sync_temp_counter` — every
boundary, including the last one before LIR lowering — no number is issued twice, neither inside a
phase nor by two different phases, and the heap ends above every number issued. -/
theorem phases_disjoint (ps : List Phase) (H : Nat) (h : allSynced ps = true) :
    (issued H ps).flatten.Nodup ∧ ∀ n ∈ (issued H ps).flatten, n < heapAfter H ps := by
  obtain ⟨h1, h2⟩ := issued_flatten_of_allSynced ps H h
  rw [h1, h2]
  refine ⟨List.nodup_range', ?_⟩
  intro n hn
  have := List.mem_range'_1.mp hn
  omega

/-- the pipeline of `optimize_sources` + LIR lowering with the final sync in place -/
theorem pipeline_disjoint (rounds : List (Nat × Nat)) (last lir H : Nat) :
    (issued H (pipeline rounds last lir true)).flatten.Nodup := by
  apply (phases_disjoint _ H _).1
  unfold pipeline
  induction rounds with
  | nil => simp [allSynced]
  | cons r rs ih => simpa [allSynced] using ih

example : issued 100 (pipeline [(2, 1), (0, 3)] 4 6 true) =
    [[100, 101], [102], [], [103, 104, 105], [106, 107, 108, 109], [110, 111, 112, 113, 114, 115]] := by decide

/-- **dropped_sync_counterexample** (class of seeded fault C12e): without the sync after the last
parallel round, LIR lowering starts again at the first number of that round — the same number is
issued by two phases (full statement "`issued` is duplicate-free for every sync discipline" is false). -/
theorem dropped_sync_counterexample :
    ∃ (rounds : List (Nat × Nat)) (last lir H : Nat),
      ¬ (issued H (pipeline rounds last lir false)).flatten.Nodup :=
  ⟨[], 2, 1, 7, by decide⟩

/-- **dropped_sync_partial**: the sync may only be dropped when nothing is issued afterwards (what
the "tidy-up" assumed — but LIR lowering does issue names). -/
theorem dropped_sync_partial (rounds : List (Nat × Nat)) (last H : Nat) :
    (issued H (pipeline rounds last 0 false)).flatten.Nodup := by
  have h1 : ∀ (rs : List (Nat × Nat)) (H : Nat),
      (issued H (rs.flatMap (fun r => [Phase.par r.1 true, Phase.seq r.2]) ++ [Phase.par last false, Phase.seq 0])).flatten =
      (issued H (rs.flatMap (fun r => [Phase.par r.1 true, Phase.seq r.2]) ++ [Phase.par last true, Phase.seq 0])).flatten := by
    intro rs
    induction rs with
    | nil => intro H; simp [issued]
    | cons r rs ih => intro H; simp [issued, ih]
  unfold pipeline
  rw [h1]
  exact pipeline_disjoint rounds last 0 H

end SamVerif.TempCounter
