import SamVerif.Lemmas.C13Paren
/-!
# C13 (part b) — parentheses leave no trace in the syntax tree

Reuses the expression-parser model of C08 (`Model/Fmt.lean`: `parseTop … parseBase` mirror
`parse_expression` … `parse_base_expression` of `source_parser.rs`; tied to the real parser by C08's
`fmt-expr` protocol) and its fuel-free relations (`Lemmas/Fmt.lean`).  `parse_base_expression`
returns the inner expression of `( e )` itself — `expr::E` has no parenthesis node — so wrapping
an expression in parentheses, at the top or in operand position, cannot change what the checker
sees.  This module depends on the *model and lemmas* of C08 only (not on `Props/C08.lean`); it is
audited separately (`Audit/C13b.lean`) and reported as "not checked" when that model is mid-edit.
-/
namespace SamVerif.Fmt

/-- **Operand position**: if `ts` is a complete expression with tree `e`, then `( ts )` followed by
*any* continuation `T` is read by `parse_base_expression` as the tree `e` itself, continuing at `T`
— exactly like a single atom token (`pbase_atom`).  So every enclosing parse is the parse of the
unparenthesised operand tree. -/
theorem paren_operand (ts : List Tok) (e : Expr) (f : Nat) (h : parseTop f ts = some (e, []))
    (T : List Tok) : PBase (f + 1) (paren ts ++ T) e T := by
  rw [paren_append]
  have h1 : parseTop f (ts ++ .rp :: T) = some (e, .rp :: T) := by
    simpa using (ext_allT T f).1 ts e [] h
  exact pbase_paren (ptop_of_some h1)

/-- …at every precedence level: `( ts ) T` parses at level `k ≥ 6` to whatever the postfix loop
makes of the tree `e` and `T`. -/
theorem paren_operand_level (ts : List Tok) (e e' : Expr) (f n : Nat) (k : Nat) (hk : 6 ≤ k)
    (h : parseTop f ts = some (e, [])) (T r : List Tok) (hl : PLoop n 6 e T e' r) :
    PLevel (f + 1 + n + 1) k (paren ts ++ T) e' r :=
  plevel6 hk (paren_operand ts e f h T) hl

/-- **Whole expression**: a complete token sequence wrapped in one more pair of parentheses parses
to the same tree (for every sufficiently large recursion budget). -/
theorem paren_insensitive' (ts : List Tok) (e : Expr) (f : Nat) (h : parseTop f ts = some (e, [])) :
    ∃ n, ∀ f', n ≤ f' → parseFuel f' (paren ts) = some e := by
  have hb := paren_operand ts e f h []
  rw [List.append_nil] at hb
  have h6 := plevel6 (Nat.le_refl 6) hb (ploop_stop_of (e := e) (stopsAbove_nil 0) (Nat.zero_le 6))
  have hsb : startsBase (paren ts) := by
    intro r; constructor <;> intro he <;> cases he
  have hl0 := lift (Nat.le_refl 6) h6 (fun _ => hsb) 6 0 (by omega) (stopsAbove_nil 0)
  have hnk : notKw (paren ts) := by
    intro k r; constructor <;> intro he <;> cases he
  have := ptop_level hl0 hnk
  exact ⟨f + 1 + 1 + 1 + 2 * 6 + 1, fun f' hf' => by simp [parseFuel, this f' hf']⟩

/-- `n` pairs of parentheses around a token sequence -/
def parens : Nat → List Tok → List Tok
  | 0, ts => ts
  | n + 1, ts => paren (parens n ts)

/-- **`parens_insensitive`**: any number of redundant parentheses around a complete expression. -/
theorem parens_insensitive (n : Nat) (ts : List Tok) (e : Expr) (f : Nat)
    (h : parseFuel f ts = some e) : ∃ m, ∀ f', m ≤ f' → parseFuel f' (parens n ts) = some e := by
  induction n with
  | zero => exact ⟨f, fun f' hf' => by
      have := parseTop_mono (parseFuel_some h) hf'
      simp [parens, parseFuel, this]⟩
  | succ n ih =>
    obtain ⟨m, hm⟩ := ih
    exact paren_insensitive' (parens n ts) e m (parseFuel_some (hm m (Nat.le_refl m)))

example : parseE (parens 2 [.atom 1, .op .plus, .atom 2]) = parseE [.atom 1, .op .plus, .atom 2] := by
  decide
example : parseE ([.atom 0, .op .mul] ++ paren [.atom 1, .op .plus, .atom 2])
    = some (.binary .mul (.atom 0) (.binary .plus (.atom 1) (.atom 2))) := by decide

end SamVerif.Fmt
