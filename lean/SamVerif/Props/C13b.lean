import SamVerif.Props.C08
/-!
# C13 (part b) — parentheses leave no trace in the syntax tree

Reuses the expression-parser model of C08 (`Model/Fmt.lean`: `parseE` mirrors
`parse_expression` … `parse_base_expression` of `source_parser.rs`; tied to the real parser by C08's
`fmt-expr` protocol).  `parse_base_expression` returns the inner expression of `( e )` itself —
`expr::E` has no parenthesis node — so wrapping an expression in any number of parentheses cannot
change what the checker sees.
-/
namespace SamVerif.Fmt

/-- `n` pairs of parentheses around a token sequence -/
def parens : Nat → List Tok → List Tok
  | 0, ts => ts
  | n + 1, ts => .lp :: (parens n ts ++ [.rp])

/-- **`paren_insensitive`** (C13 form): a complete expression wrapped in any number of redundant
parentheses parses to the very same tree. -/
theorem parens_insensitive (n : Nat) (ts : List Tok) (e : Expr) (h : parseE ts = some e) :
    parseE (parens n ts) = some e := by
  induction n with
  | zero => exact h
  | succ n ih => exact paren_insensitive (parens n ts) e ih

example : parseE (parens 2 [.atom 1, .op .plus, .atom 2]) = parseE [.atom 1, .op .plus, .atom 2] := by
  decide

end SamVerif.Fmt
