import SamVerif.Model.Scope
/-!
# C06 (continued) — a name used just outside the scope that binds it is reported unbound

Theorems over `Model/Scope.lean` (builder C13's model of `ssa_analysis.rs`: the scope machine
`SsaLocalStackedContext::{push_scope, pop_scope, insert, get}` + `define_id`/`use_id`, tied to the
code by the `ssa` correspondence protocol of `harness/src/bin/c13.rs` / `Driver/C13.lean`, which
`vlib/c06.py` also runs on its own scope-exit programs).
-/
namespace SamVerif.Scope
variable {α : Type} [DecidableEq α]

/-- Nesting tracker: depth after the events, `none` if a `pop` would close a scope that was not
opened inside the event list. -/
def depthAfter : Nat → List (Ev α) → Option Nat
  | d, [] => some d
  | d, .push :: es => depthAfter (d + 1) es
  | 0, .pop _ _ :: _ => none
  | d + 1, .pop _ _ :: es => depthAfter d es
  | d, .define _ _ :: es => depthAfter d es
  | d, .use _ _ _ :: es => depthAfter d es

/-- Events that open and close only their own scopes. -/
def WellNested (es : List (Ev α)) : Prop := depthAfter 0 es = some 0

theorem recordCapture_length (n : α) (l : Nat) : ∀ (k : Nat) (cs : List (Scope α)),
    (recordCapture n l k cs).length = cs.length
  | 0, cs => by simp [recordCapture]
  | _ + 1, [] => by simp [recordCapture]
  | k + 1, c :: cs => by simp [recordCapture, recordCapture_length n l k cs]

theorem insertLocal_append (n : α) (l : Nat) (f : Scope α) (front rest : List (Scope α)) :
    insertLocal n l ((f :: front) ++ rest) = (insertKV n l f :: front) ++ rest := by
  simp [insertLocal]

/-- Frame lemma: events nested `d` deep above a protected part `rest` of the scope stack never
touch `rest` (and keep the two stacks of the machine aligned). -/
theorem run_frame : ∀ (es : List (Ev α)) (d d' : Nat) (st : St α) (front rest : List (Scope α)),
    depthAfter d es = some d' → st.locals = front ++ rest → front.length = d + 1 →
    st.captured.length = st.locals.length →
    ∃ front', (run es st).locals = front' ++ rest ∧ front'.length = d' + 1 ∧
      (run es st).captured.length = (run es st).locals.length ∧
      (∀ e ∈ st.errors, e ∈ (run es st).errors)
  | [], d, d', st, front, rest, hd, hl, hf, hc => by
    simp only [depthAfter, Option.some.injEq] at hd
    subst hd
    exact ⟨front, by simpa [run] using hl, hf, by simpa [run] using hc, by simp [run]⟩
  | e :: es, d, d', st, front, rest, hd, hl, hf, hc => by
    simp only [run, List.foldl_cons]
    cases e with
    | push =>
      simp only [depthAfter] at hd
      have := run_frame es (d + 1) d' (step st .push) ([] :: front) rest hd
        (by simp [step, hl]) (by simp [hf]) (by simp [step, hc])
      obtain ⟨f', h1, h2, h3, h4⟩ := this
      exact ⟨f', h1, h2, h3, fun e he => h4 e (by simpa [step] using he)⟩
    | pop k loc =>
      cases d with
      | zero => simp [depthAfter] at hd
      | succ d =>
        simp only [depthAfter] at hd
        match front, hf with
        | f :: g :: front2, hf =>
          have hcl : st.captured ≠ [] := by
            intro h; rw [h, hl] at hc; simp at hc
          match hcap : st.captured with
          | [] => exact absurd hcap hcl
          | c :: cs =>
            have hlen : cs.length = ((g :: front2) ++ rest).length := by
              rw [hcap, hl] at hc; simpa using hc
            have hstep : (step st (.pop k loc)).locals = (g :: front2) ++ rest ∧
                (step st (.pop k loc)).captured = cs ∧ (step st (.pop k loc)).errors = st.errors := by
              simp only [step, hl, hcap, List.cons_append]
              cases k <;> simp
            have := run_frame es d d' (step st (.pop k loc)) (g :: front2) rest hd hstep.1
              (by simpa using hf) (by rw [hstep.2.1, hstep.1]; exact hlen)
            obtain ⟨f', h1, h2, h3, h4⟩ := this
            exact ⟨f', h1, h2, h3, fun e he => h4 e (by rw [hstep.2.2]; exact he)⟩
    | define n loc =>
      simp only [depthAfter] at hd
      match front, hf with
      | f :: front2, hf =>
        have hloc : (step st (.define n loc)).locals = (insertKV n loc f :: front2) ++ rest := by
          simp only [step, defineId, hl]
          split <;> (try split) <;> simp [insertLocal]
        have hcap : (step st (.define n loc)).captured = st.captured := by
          simp only [step, defineId]
          split <;> (try split) <;> rfl
        have herr : ∀ e ∈ st.errors, e ∈ (step st (.define n loc)).errors := by
          intro e he
          simp only [step, defineId]
          split <;> (try split) <;> simp [he]
        have := run_frame es d d' (step st (.define n loc)) (insertKV n loc f :: front2) rest hd hloc
          (by simpa using hf) (by rw [hcap, hloc, hc, hl]; simp)
        obtain ⟨f', h1, h2, h3, h4⟩ := this
        exact ⟨f', h1, h2, h3, fun e he => h4 e (herr e he)⟩
    | use n loc ft =>
      simp only [depthAfter] at hd
      have hloc : (step st (.use n loc ft)).locals = st.locals := by
        simp only [step, useId]; split <;> rfl
      have hcap : (step st (.use n loc ft)).captured.length = st.captured.length := by
        simp only [step, useId]
        split
        · split <;> simp [recordCapture_length]
        · rfl
      have herr : ∀ e ∈ st.errors, e ∈ (step st (.use n loc ft)).errors := by
        intro e he
        simp only [step, useId]; split <;> simp [he]
      have := run_frame es d d' (step st (.use n loc ft)) front rest hd (by rw [hloc, hl]) hf
        (by rw [hcap, hloc, hc])
      obtain ⟨f', h1, h2, h3, h4⟩ := this
      exact ⟨f', h1, h2, h3, fun e he => h4 e (herr e he)⟩

theorem run_append (a b : List (Ev α)) (st : St α) : run (a ++ b) st = run b (run a st) := by
  simp [run, List.foldl_append]

theorem step_pop_cons (S : St α) (k : PopKind) (loc : Nat) (l : Scope α) (ls : List (Scope α))
    (c : Scope α) (cs : List (Scope α)) (hl : S.locals = l :: ls) (hcap : S.captured = c :: cs) :
    (step S (.pop k loc)).locals = ls ∧ (step S (.pop k loc)).captured = cs ∧
      (step S (.pop k loc)).errors = S.errors := by
  simp only [step, hl, hcap]
  cases k <;> simp

/-- **Scope exit.** Whatever a scope defines is gone when the scope is popped: after
`push; body; pop`, with `body` opening and closing only its own scopes, the scope stack is exactly
what it was before. -/
theorem scope_exit_restores (st : St α) (body : List (Ev α)) (k : PopKind) (loc : Nat)
    (hne : st.locals ≠ []) (hc : st.captured.length = st.locals.length) (hb : WellNested body) :
    (run ([.push] ++ body ++ [.pop k loc]) st).locals = st.locals ∧
    (run ([.push] ++ body ++ [.pop k loc]) st).captured.length = st.locals.length ∧
    ∀ e ∈ st.errors, e ∈ (run ([.push] ++ body ++ [.pop k loc]) st).errors := by
  match hl : st.locals with
  | [] => exact absurd hl hne
  | top :: rest =>
    have hpush : (step st .push).locals = [[]] ++ (top :: rest) := by simp [step, hl]
    have hperr : (step st .push).errors = st.errors := by simp [step]
    obtain ⟨fb, hb1, hb2, hb3, hb4⟩ := run_frame body 0 0 (step st .push) [[]] (top :: rest) hb hpush rfl
      (by simp [step, hc])
    have hrun : run ([.push] ++ body ++ [.pop k loc]) st = step (run body (step st .push)) (.pop k loc) := by
      simp [run, List.foldl_append]
    rw [hrun]
    rw [hperr] at hb4
    generalize run body (step st .push) = S at hb1 hb3 hb4
    match fb, hb2 with
    | [f], _ =>
      have hS : S.locals = f :: (top :: rest) := by simpa using hb1
      match hcap : S.captured with
      | [] => rw [hcap, hS] at hb3; simp at hb3
      | c :: cs =>
        have hlen : cs.length = (top :: rest).length := by
          rw [hcap, hS] at hb3; simpa using hb3
        obtain ⟨p1, p2, p3⟩ := step_pop_cons S k loc f (top :: rest) c cs hS hcap
        refine ⟨p1, by rw [p2, hlen], fun e he => by rw [p3]; exact hb4 e he⟩

/-- **`use_after_pop_unresolved`.** After the scope that defined `x` has been popped, a use of `x`
is reported as "cannot resolve name" unless a scope that is still open binds `x`. -/
theorem use_after_pop_unresolved (st : St α) (body : List (Ev α)) (k : PopKind) (loc uloc : Nat)
    (x : α) (ft : Bool)
    (hne : st.locals ≠ []) (hc : st.captured.length = st.locals.length) (hb : WellNested body)
    (hout : lookupCtx x st.locals = none) :
    Err.cannotResolve uloc x ∈ (run ([.push] ++ body ++ [.pop k loc] ++ [.use x uloc ft]) st).errors := by
  rw [run_append]
  obtain ⟨h1, _, _⟩ := scope_exit_restores st body k loc hne hc hb
  simp only [run, List.foldl_cons, List.foldl_nil] at h1 ⊢
  simp only [step, useId]
  rw [h1, hout]
  simp

/-- …and conversely the use resolves exactly as it would have before the scope was entered. -/
theorem use_after_pop_resolves_outer (st : St α) (body : List (Ev α)) (k : PopKind) (loc uloc : Nat)
    (x : α) (ft : Bool) (r : Nat × Nat)
    (hne : st.locals ≠ []) (hc : st.captured.length = st.locals.length) (hb : WellNested body)
    (hout : lookupCtx x st.locals = some r) :
    (run ([.push] ++ body ++ [.pop k loc] ++ [.use x uloc ft]) st).errors =
      (run ([.push] ++ body ++ [.pop k loc]) st).errors := by
  rw [run_append]
  obtain ⟨h1, _, _⟩ := scope_exit_restores st body k loc hne hc hb
  simp only [run, List.foldl_cons, List.foldl_nil] at h1 ⊢
  simp only [step, useId]
  rw [h1, hout]

theorem depth_append : ∀ (a b : List (Ev α)) (d d' : Nat), depthAfter d a = some d' →
    depthAfter d (a ++ b) = depthAfter d' b := by
  intro a
  induction a with
  | nil => intro b d d' h; simp only [depthAfter, Option.some.injEq] at h; subst h; rfl
  | cons e es ih =>
    intro b d d' h
    cases e with
    | push => simpa [depthAfter] using ih b (d + 1) d' (by simpa [depthAfter] using h)
    | pop k l =>
      cases d with
      | zero => simp [depthAfter] at h
      | succ d => simpa [depthAfter] using ih b d d' (by simpa [depthAfter] using h)
    | define n l => simpa [depthAfter] using ih b d d' (by simpa [depthAfter] using h)
    | use n l ft => simpa [depthAfter] using ih b d d' (by simpa [depthAfter] using h)

mutual
theorem uses_depth : ∀ (n : Node α) (d : Nat), depthAfter d (uses n) = some d
  | .mk tag name loc kids, d => by
    unfold uses
    split
    · simp [depthAfter]
    · exact usesList_depth kids d
theorem usesList_depth : ∀ (ks : List (Node α)) (d : Nat), depthAfter d (usesList ks) = some d
  | [], d => by simp [usesList, depthAfter]
  | k :: ks, d => by
    simp only [usesList]
    rw [depth_append _ _ d d (uses_depth k d)]
    exact usesList_depth ks d
end

mutual
theorem visit_depth : ∀ (n : Node α) (d : Nat), depthAfter d (visit n) = some d
  | .mk tag name loc kids, d => by
    unfold visit
    split
    · simp [depthAfter]
    · rename_i p g e1 e2
      simp only [List.append_assoc]
      rw [depth_append _ _ d d (visit_depth g d)]
      simp only [List.cons_append, List.nil_append, depthAfter]
      rw [depth_append _ _ (d+1) (d+1) (visit_depth p (d+1))]
      rw [depth_append _ _ (d+1) (d+1) (visit_depth e1 (d+1))]
      simp only [List.cons_append, List.nil_append, depthAfter]
      exact visit_depth e2 d
    · rename_i p a e
      simp only [List.append_assoc]
      rw [depth_append _ _ d d (visit_depth e d)]
      rw [depth_append _ _ d d (visit_depth a d)]
      exact visit_depth p d
    · rename_i p body
      simp only [List.append_assoc, List.cons_append, List.nil_append, depthAfter]
      rw [depth_append _ _ (d+1) (d+1) (visit_depth p (d+1))]
      rw [depth_append _ _ (d+1) (d+1) (visit_depth body (d+1))]
      simp [depthAfter]
    · simp only [List.append_assoc, List.cons_append, List.nil_append, depthAfter]
      rw [depth_append _ _ (d+1) (d+1) (visitList_depth _ (d+1))]
      simp [depthAfter]
    · simp only [depthAfter]
      exact visitList_depth _ d
    · simp only [List.append_assoc, List.cons_append, List.nil_append, depthAfter]
      rw [depth_append _ _ (d+1) (d+1) (visitList_depth _ (d+1))]
      simp [depthAfter]
    · simp [depthAfter]
    · rename_i first rest
      rw [depth_append _ _ d d (visit_depth first d)]
      exact usesList_depth rest d
    · simp only [depthAfter]
      exact visitList_depth _ d
    · exact visitList_depth _ d
theorem visitList_depth : ∀ (ks : List (Node α)) (d : Nat), depthAfter d (visitList ks) = some d
  | [], d => by simp [visitList, depthAfter]
  | k :: ks, d => by
    simp only [visitList]
    rw [depth_append _ _ d d (visit_depth k d)]
    exact visitList_depth ks d
end


/-- Every expression / pattern / annotation traversal opens and closes only its own scopes. -/
theorem visit_wellNested (n : Node α) : WellNested (visit n) := visit_depth n 0

theorem run_keeps_stack (es : List (Ev α)) (st : St α) (hd : depthAfter 0 es = some 0)
    (hne : st.locals ≠ []) (hc : st.captured.length = st.locals.length) :
    (run es st).locals ≠ [] ∧ (run es st).captured.length = (run es st).locals.length := by
  match hl : st.locals with
  | [] => exact absurd hl hne
  | top :: rest =>
    obtain ⟨f', h1, h2, h3, _⟩ := run_frame es 0 0 st [top] rest hd (by simp [hl]) rfl hc
    refine ⟨?_, h3⟩
    rw [h1]
    intro h
    have hlen := congrArg List.length h
    simp only [List.length_append, List.length_nil] at hlen
    omega

/-- **if-let** (`visit_if_else`, ssa_analysis.rs:329-336): a name bound by the pattern of
`if let p = g { e1 } else { … }` and by no scope open around the `if` is reported unbound when it
is used in the else part. -/
theorem iflet_binding_not_in_else (st : St α) (p g e1 : Node α) (name : Option α) (loc uloc : Nat) (x : α)
    (hne : st.locals ≠ []) (hc : st.captured.length = st.locals.length)
    (hout : lookupCtx x (run (visit g) st).locals = none) :
    Err.cannotResolve uloc x ∈
      (run (visit (.mk .ifGuard name loc [p, g, e1, .mk .var (some x) uloc []])) st).errors := by
  have hv : visit (.mk .ifGuard name loc [p, g, e1, .mk .var (some x) uloc []]) =
      visit g ++ ([.push] ++ (visit p ++ visit e1) ++ [.pop .discard 0] ++ [.use x uloc false]) := by
    simp [visit]
  rw [hv, run_append]
  obtain ⟨h1, h2⟩ := run_keeps_stack (visit g) st (visit_depth g 0) hne hc
  have hb : WellNested (visit p ++ visit e1) := by
    unfold WellNested
    rw [depth_append _ _ 0 0 (visit_depth p 0)]
    exact visit_depth e1 0
  exact use_after_pop_unresolved (run (visit g) st) (visit p ++ visit e1) .discard 0 uloc x false h1 h2 hb hout

/-- **match arm / block / lambda**: a name bound inside a match case (its pattern), a block (its
`let`s) or a lambda (its parameters) and by no scope open around it is reported unbound when used
right after that construct. -/
theorem binding_not_visible_after (st : St α) (tag : Tag) (name : Option α) (loc uloc : Nat)
    (kids : List (Node α)) (x : α) (ft : Bool)
    (htag : (tag = .block) ∨ (tag = .lambda) ∨ (tag = .case ∧ ∃ p b, kids = [p, b]))
    (hne : st.locals ≠ []) (hc : st.captured.length = st.locals.length)
    (hout : lookupCtx x st.locals = none) :
    Err.cannotResolve uloc x ∈ (run (visit (.mk tag name loc kids) ++ [.use x uloc ft]) st).errors := by
  rcases htag with rfl | rfl | ⟨rfl, p, b, rfl⟩
  · have hv : visit (.mk .block name loc kids) = [.push] ++ visitList kids ++ [.pop .scoped loc] := by
      simp [visit]
    rw [hv]
    exact use_after_pop_unresolved st (visitList kids) .scoped loc uloc x ft hne hc (visitList_depth kids 0) hout
  · have hv : visit (.mk .lambda name loc kids) = [.push] ++ visitList kids ++ [.pop .lambda loc] := by
      simp [visit]
    rw [hv]
    exact use_after_pop_unresolved st (visitList kids) .lambda loc uloc x ft hne hc (visitList_depth kids 0) hout
  · have hv : visit (.mk .case name loc [p, b]) = [.push] ++ (visit p ++ visit b) ++ [.pop .scoped loc] := by
      simp [visit]
    rw [hv]
    have hb : WellNested (visit p ++ visit b) := by
      unfold WellNested
      rw [depth_append _ _ 0 0 (visit_depth p 0)]
      exact visit_depth b 0
    exact use_after_pop_unresolved st (visit p ++ visit b) .scoped loc uloc x ft hne hc hb hout

/-- **Rebinding is reported.** Defining a name that some open scope already binds adds a
"name already bound" error (unless this very definition site was already reported). -/
theorem rebind_reported (st : St α) (x : α) (loc prev : Nat)
    (hprev : previousDef x st.locals = some prev) (hnew : st.invalid.contains loc = false) :
    Err.alreadyBound loc x prev ∈ (step st (.define x loc)).errors := by
  simp only [step, defineId, hprev]
  split
  · rename_i h; rw [hnew] at h; cases h
  · simp

example : (run ([.define "v" 1, .push, .define "v" 2] : List (Ev String)) init).errors
    = [Err.alreadyBound 2 "v" 1] := by decide

-- the if-let shape of `visit_if_else` (ssa_analysis.rs:329-336): the pattern's bindings are not
-- visible in the else part
example : (run ([.push, .define "v" 1, .use "v" 2 false, .pop .discard 0, .use "v" 3 false] : List (Ev String)) init).errors
    = [Err.cannotResolve 3 "v"] := by decide

end SamVerif.Scope
