import SamVerif.Lemmas.Doc
import SamVerif.Lemmas.CommentQueue
import SamVerif.Lemmas.Imports
import SamVerif.Model.Attach
import SamVerif.Lemmas.ExprDoc
import SamVerif.Lemmas.CommentText
/-!
# C09 — Formatting is idempotent and keeps every comment

Property theorems only (helper lemmas: `Lemmas/Doc.lean`, `Lemmas/CommentQueue.lean`).

Models: `Model/Doc.lean` (the layout engine `crates/samlang-printer/src/prettier.rs`, all of it) and
`Model/CommentQueue.lean` (the parser's pending-comment queue and the comment-store helpers).
Tie, checked on every run by `vlib/c09.py`:
* protocol `layout`/`expand`/`flatten`: the real `prettier::pretty_print` and the real builders
  (hook H4) against `prettyPrint` etc. on random documents, exact string equality;
* protocol `fmtdoc`: the *real* `Document` the source printer builds for every generated module
  (hook H4b) is laid out by the model (exact equality with the real output) and the hypothesis
  `Agree commentKey d` of `layout_preserves_text` is evaluated on it (`agreeB`);
* protocol `queue`/`prepend`: the real `SourceParser::{peek, consume}` and
  `mod_associated_comments_with_additional_preceding_comments` against the model.

What is *not* modelled (reached only by the implementation-side oracle): the ~60 productions'
comment attachment code of the parser and the per-construct document construction of the printer.
-/
namespace SamVerif.Doc
open Doc

/-! ## Layout engine -/

/-- **The layout is a linearisation.** For every width and every document, the tokens the engine
collects are exactly what the document prints to along *one* choice of branch per `Union`:
no text leaf is invented, dropped, duplicated or reordered by the work-list loop, the budget
check or the back-tracking `truncate`, and every line break carries the indentation of its
enclosing `Nest`s. -/
theorem layout_is_linearisation (w : Nat) (d : Doc) : Lin 0 d (tokens w d) := by
  obtain ⟨ts, h1, h2⟩ := genBest_lin w [] 0 false [(0, d)] (genBest_true w [] 0 false _ rfl)
  unfold tokens
  rw [h1]
  cases h2 with
  | cons hd hn => cases hn; simpa using hd

example : tokens 3 (group (.concat (.text ['a', 'b']) (.concat .line (.text ['c', 'd'])))) =
    [.text ['a', 'b'], .line 0 false, .text ['c', 'd']] := by
  simp [tokens, group, flatten, genBest, utf8Len, Char.utf8Size]

/-- **Layout preserves text** (`layout_preserves_text` of DESIGN §8 C09), for every width: under
any reading `k` of the leaves on which the two branches of every `Union` agree, the content of the
collected tokens is the content of the document. -/
theorem layout_preserves_text {α : Type} (k : Key α) (w : Nat) (d : Doc) (h : Agree k d) :
    tval k (tokens w d) = val k d := by
  have := genBest_val k w [] 0 false [(0, d)] ⟨h, trivial⟩ (genBest_true w [] 0 false _ rfl)
  simpa [tokens, lval, tval] using this

/-- **Rendering touches only whitespace**: the hard-line undo (`truncate(trim_end)`), the per-line
`trim_end`, the final `trim_end` and the trailing newline never remove or add a non-whitespace
character. -/
theorem render_only_whitespace (toks : List Tok) :
    nonWs (post (render toks)) = tval textKey toks := by
  rw [post_nonWs, render_nonWs]

example : post (render [.text ['a'], .line 2 true, .line 0 false, .text ['b', ' ']]) =
    ['a', '\n', 'b', '\n'] := by decide

/-- **String-level statement**: for every width, the non-whitespace characters of
`pretty_print(width, d)` are those of `d`'s text leaves, in order. -/
theorem pretty_print_preserves_text (w : Nat) (d : Doc) (h : Agree textKey d) :
    nonWs (prettyPrint w d) = val textKey d := by
  unfold prettyPrint
  rw [render_only_whitespace, layout_preserves_text textKey w d h]

/-- `width_irrelevant` (used by C08): the width changes whitespace only. -/
theorem pretty_print_width_irrelevant (w₁ w₂ : Nat) (d : Doc) (h : Agree textKey d) :
    nonWs (prettyPrint w₁ d) = nonWs (prettyPrint w₂ d) := by
  rw [pretty_print_preserves_text w₁ d h, pretty_print_preserves_text w₂ d h]

/-! ## The `Union` builders (`builders_content_equal`) -/

theorem textKey_space : textKey.text [' '] = [] := by decide
theorem commentKey_space : commentKey.text [' '] = [] := by decide
theorem commentKey_leaderLine : commentKey.text leaderLine = [] := by decide
theorem commentKey_leaderStar : commentKey.text leaderStar = [] := by decide

/-- `group`: the flattened alternative has the same non-whitespace text as the original. -/
theorem group_content_equal (d : Doc) (h : Agree textKey d) :
    Agree textKey (group d) ∧ val textKey (group d) = val textKey d :=
  ⟨group_agree textKey textKey_space d h, group_val textKey textKey_space d⟩

/-- `bracket_flexible` (hence `no_space_bracket`, `spaced_bracket`). -/
theorem bracketFlexible_content_equal (l r : Str) (sep doc : Doc)
    (hs : Agree textKey sep) (hd : Agree textKey doc) :
    Agree textKey (bracketFlexible l sep doc r) ∧
      val textKey (bracketFlexible l sep doc r) =
        nonWs l ++ (val textKey sep ++ val textKey doc) ++ val textKey sep ++ nonWs r :=
  ⟨bracketFlexible_agree textKey textKey_space l r sep doc hs hd,
   bracketFlexible_val textKey textKey_space l r sep doc⟩

/-- `line_comment`: whichever way it is wrapped, the comment's own characters come out complete
and in order; only the continuation leader `"// "` is repeated. -/
theorem lineComment_content_equal (t : Str) :
    Agree commentKey (lineComment t) ∧ val commentKey (lineComment t) = nonWs t :=
  ⟨lineComment_agree commentKey t commentKey_space commentKey_leaderLine (splitSp_nonWs t).symm,
   lineComment_val commentKey t commentKey_leaderLine⟩

/-- `multiline_comment` (block and doc comments). -/
theorem multilineComment_content_equal (starter t : Str) :
    Agree commentKey (multilineComment starter t) ∧
      val commentKey (multilineComment starter t) =
        commentKey.text starter ++ nonWs t ++ ['*', '/'] := by
  refine ⟨multilineComment_agree commentKey starter t commentKey_space commentKey_leaderStar
    (splitSp_nonWs t).symm, ?_⟩
  rw [multilineComment_val commentKey starter t commentKey_space]
  rfl

/-- The full-strength reading (*every* non-whitespace character, leaders included) is **false**
for the comment builders, by design: re-wrapping repeats the leader. -/
theorem lineComment_textKey_counterexample : ¬ Agree textKey (lineComment ['a']) := by
  intro h
  have := h.2.2.2.1
  revert this
  decide

/-- **Every comment survives layout, at every width.** -/
theorem layout_keeps_line_comment (w : Nat) (t : Str) :
    tval commentKey (tokens w (lineComment t)) = nonWs t := by
  rw [layout_preserves_text commentKey w _ (lineComment_content_equal t).1,
    (lineComment_content_equal t).2]

theorem layout_keeps_block_comment (w : Nat) (starter t : Str) :
    tval commentKey (tokens w (multilineComment starter t)) =
      commentKey.text starter ++ nonWs t ++ ['*', '/'] := by
  rw [layout_preserves_text commentKey w _ (multilineComment_content_equal starter t).1,
    (multilineComment_content_equal starter t).2]

example : tval commentKey (tokens 4 (lineComment ['h', 'i', ' ', 'y', 'o'])) = ['h', 'i', 'y', 'o'] :=
  layout_keeps_line_comment 4 _

/-- Documents assembled from primitive leaves and the four builders (this is the vocabulary
`source_printer.rs` uses everywhere except its two hand-made `Union`s for if-else chains and dotted
chains; for those the hypothesis `Agree commentKey` is checked on the real documents at run time). -/
inductive Built : Doc → Prop
  | nil : Built .nil
  | text (s) : Built (.text s)
  | nstext (s) : Built (.nstext s)
  | line : Built .line
  | lineNil : Built .lineNil
  | lineHard : Built .lineHard
  | concat {a b} : Built a → Built b → Built (.concat a b)
  | nest (n) {d} : Built d → Built (.nest n d)
  | group {d} : Built d → Built (group d)
  | bracket (l r) {sep d} : Built sep → Built d → Built (bracketFlexible l sep d r)
  | lineComment (t) : Built (lineComment t)
  | multilineComment (s t) : Built (multilineComment s t)

theorem built_agree {d : Doc} (h : Built d) : Agree commentKey d := by
  induction h with
  | nil | text | nstext | line | lineNil | lineHard => trivial
  | concat _ _ iha ihb => exact ⟨iha, ihb⟩
  | nest _ _ ih => exact ih
  | group _ ih => exact group_agree commentKey commentKey_space _ ih
  | bracket l r _ _ ihs ihd => exact bracketFlexible_agree commentKey commentKey_space l r _ _ ihs ihd
  | lineComment t => exact (lineComment_content_equal t).1
  | multilineComment s t => exact (multilineComment_content_equal s t).1

/-- **Builder-made documents keep all their text and every comment character at every width**
(modulo repeated comment leaders). -/
theorem built_layout_preserves {d : Doc} (h : Built d) (w : Nat) :
    tval commentKey (tokens w d) = val commentKey d :=
  layout_preserves_text commentKey w d (built_agree h)

example : Built (bracketFlexible ['('] .lineNil (.concat (lineComment ['x']) (.text ['y'])) [')']) :=
  .bracket _ _ .lineNil (.concat (.lineComment _) (.text _))

/-
`layout_terminates`: `genBest` is accepted by Lean as a total function by well-founded recursion
on `lsize` (sum of the sizes of the documents in the work list, `Model/Doc.lean`); there is no fuel
and no separate statement to prove.
-/

end SamVerif.Doc

namespace SamVerif.CommentQueue

/-! ## Pending-comment queue -/

/-- **The queue conserves comments**: whatever sequence of `peek`/`consume` the productions
perform on whatever token stream, the comments handed out by the `consume`s, followed by the
pending ones and those still in the stream, are exactly the stream's comments in source order —
none lost, none duplicated, none reordered. -/
theorem queue_conserves (ops : List Op) (stream : List RawTok) :
    (run ops (init stream)).2.flatten ++ remaining (run ops (init stream)).1 = commentsOf stream := by
  have := run_conserves ops (init stream)
  simpa [remaining, init] using this

/-- Once the stream is exhausted and nothing is pending (the state after the production that
consumed `EOF`), every comment of the file has been handed to some production. -/
theorem queue_complete (ops : List Op) (stream : List RawTok)
    (h1 : (run ops (init stream)).1.rest = []) (h2 : (run ops (init stream)).1.pending = []) :
    (run ops (init stream)).2.flatten = commentsOf stream := by
  have := queue_conserves ops stream
  simpa [remaining, h1, h2, commentsOf] using this

/-- `consume` never leaves anything pending, and hands out exactly what `peek` had gathered. -/
theorem consume_takes_all_pending (st : State) :
    (consume st).1.pending = [] ∧ (consume st).2 = (peek st).1.pending := ⟨rfl, rfl⟩

example :
    let c1 : Comment := ⟨.block, ['x']⟩
    let c2 : Comment := ⟨.line, ['y']⟩
    let r := run [.peek, .consume, .consume, .consume] (init [.tok ['a'], .comment c1, .comment c2, .tok ['b']])
    r.2 = [[], [c1, c2], []] ∧ r.1.rest = [] ∧ r.1.pending = [] := by decide

/-! ## Comma separated lists on the queue (`parse_comma_separated_list_with_end_token_with_start`)

History: until the /repo fix "comments before a trailing comma ... were dropped" (finding C09-F7) the
comments consumed with a trailing comma were discarded; the fixed code puts them back in front of the
pending ones (`pushBack`), which is what the model mirrors. -/

theorem pushBack_conserves (cs : List Comment) (st : State) :
    remaining (pushBack cs st) = cs ++ remaining st := pushBack_remaining cs st

/-- **A comma separated list conserves comments**, for every element count, with or without a
trailing comma and at end of input: the comments handed to the elements, then those handed to the
closing token, then what is still ahead, are exactly the comments that were ahead, in order. -/
theorem list_production_conserves (endTok : Str) (fuel : Nat) (st : State) :
    elemComments (parseList endTok fuel st [] []).2.1 ++ (parseList endTok fuel st [] []).2.2 ++
        remaining (parseList endTok fuel st [] []).1 = remaining st := by
  simpa [elemComments] using parseList_conserves endTok fuel st [] []

example :
    let c : Comment := ⟨.block, ['c']⟩
    (parseList ['>'] 5 (init [.tok ['A'], .tok [','], .tok ['B'], .comment c, .tok [','], .tok ['>']]) [] []).2 =
      ([(['A'], []), (['B'], [])], [c]) := by decide

/-! ## Prepending comments to an already built node
(`mod_associated_comments_with_additional_preceding_comments`, source_parser.rs:2181-2196)

History: on the original code the statement below was false — `prepend_conserves_counterexample`
(empty store, reference 0, one extra comment: the comment became unreachable) and
`prepend_conserves_partial` (side condition `old ≠ []`) stood here; finding C09-F1, fixed by /repo
commit 5884ffb. The model follows the fixed code and the full-strength statement is proved. -/

/-- Store invariant: entry 0 is `NoComment` (`CommentStore::default`, never overwritten). -/
def WF (st : Store) : Prop := st[0]? = some []

theorem wf_empty : WF emptyStore := rfl

theorem createRef_wf (st : Store) (cs : List Comment) (h : WF st) : WF (createRef st cs).1 := by
  unfold createRef WF at *
  split
  · exact h
  · have hlt : 0 < st.length := (List.getElem?_eq_some_iff.mp h).1
    simp only
    rw [List.getElem?_append_left hlt]
    exact h

/-- `create_comment_reference` returns a reference that reads back exactly the given comments. -/
theorem createRef_get (st : Store) (cs : List Comment) (h : WF st) :
    get (createRef st cs).1 (createRef st cs).2 = some cs := by
  unfold createRef get
  split
  · rename_i he
    have : cs = [] := by simpa using he
    subst this
    exact h
  · simp

/-- **Prepending conserves comments** (full strength): the returned reference reads back the
additional comments followed by the node's own, every other live reference is unchanged, and the
store invariant is kept. -/
theorem prepend_conserves (st : Store) (hwf : WF st) (r : Nat) (extra old : List Comment)
    (h : get st r = some old) :
    ∃ st' r', prepend st r extra = some (st', r') ∧ get st' r' = some (extra ++ old) ∧ WF st' ∧
      ∀ j, j < st.length → (old ≠ [] → j ≠ r) → get st' j = get st j := by
  unfold get at h
  cases old with
  | nil =>
    refine ⟨(createRef st extra).1, (createRef st extra).2, by simp [prepend, h], ?_,
      createRef_wf st extra hwf, ?_⟩
    · simpa using createRef_get st extra hwf
    · intro j hj _
      unfold createRef get
      split
      · rfl
      · simp only; rw [List.getElem?_append_left hj]
  | cons e es =>
    have hlt : r < st.length := (List.getElem?_eq_some_iff.mp h).1
    refine ⟨st.set r (extra ++ e :: es), r, by simp [prepend, h], by simp [get, hlt], ?_, ?_⟩
    · unfold WF at *
      by_cases hr : r = 0
      · subst hr; rw [h] at hwf; cases hwf
      · rw [List.getElem?_set_ne hr]; exact hwf
    · intro j _ hj
      simp only [get]
      rw [List.getElem?_set_ne (Ne.symm (hj (by simp)))]

example : ∃ st' r', prepend emptyStore 0 [⟨.block, ['c']⟩] = some (st', r') ∧
    get st' r' = some [⟨.block, ['c']⟩] := ⟨_, _, rfl, rfl⟩

/-- **Unwrapping parentheses conserves comments**: the inner expression ends up with the comments
written after `(`, its own, and those written before `)`, in this order; other references and the
store invariant are untouched. -/
theorem keepParen_conserves (st : Store) (hwf : WF st) (r : Nat) (start stop old : List Comment)
    (h : get st r = some old) :
    ∃ st' r', keepParen st r start stop = some (st', r') ∧
      get st' r' = some (start ++ old ++ stop) ∧ WF st' ∧
      ∀ j, j < st.length → (old ≠ [] → j ≠ r) → get st' j = get st j := by
  unfold get at h
  by_cases hemp : (start.isEmpty && stop.isEmpty) = true
  · have h1 : start = [] := by cases start <;> simp_all
    have h2 : stop = [] := by cases stop <;> simp_all
    subst h1 h2
    exact ⟨st, r, by simp [keepParen, h], by simpa [get] using h, hwf, fun _ _ _ => rfl⟩
  · cases old with
    | nil =>
      refine ⟨(createRef st (start ++ stop)).1, (createRef st (start ++ stop)).2,
        by simp [keepParen, hemp, h], ?_, createRef_wf st _ hwf, ?_⟩
      · simpa using createRef_get st (start ++ stop) hwf
      · intro j hj _
        unfold createRef get
        split
        · rfl
        · simp only; rw [List.getElem?_append_left hj]
    | cons e es =>
      have hlt : r < st.length := (List.getElem?_eq_some_iff.mp h).1
      refine ⟨st.set r (start ++ (e :: es) ++ stop), r, by simp [keepParen, hemp, h],
        by simp [get, hlt], ?_, ?_⟩
      · unfold WF at *
        by_cases hr : r = 0
        · subst hr; rw [h] at hwf; cases hwf
        · rw [List.getElem?_set_ne hr]; exact hwf
      · intro j _ hj
        simp only [get]
        rw [List.getElem?_set_ne (Ne.symm (hj (by simp)))]

example : ∃ st' r', keepParen emptyStore 0 [⟨.block, ['a']⟩] [⟨.line, ['b']⟩] = some (st', r') ∧
    get st' r' = some [⟨.block, ['a']⟩, ⟨.line, ['b']⟩] := ⟨_, _, rfl, rfl⟩

/-
Stretch (stated, not proved; listed under `pending` in the evidence):

    theorem roundtrip_with_comments / format_idempotent_fragment :
        print (parse (print t)) = print t
    on the C08 expression fragment extended with comment references at the modelled attachment
    points. Needs the C08 `printE`/`parseE` model with comments; today this is covered only by the
    implementation-side oracle of vlib/c09.py (idempotence + comment sequence on every token gap).
-/

end SamVerif.CommentQueue

namespace SamVerif.Imports
open SamVerif.Doc
open SamVerif.CommentQueue (Comment Kind)

/-! ## Import reorganisation (`source_module_to_document`, source_printer.rs:1260-1302)

The one place where the printer reorders and merges declarations. Tied to the code by protocol
`imports` (the model's document for the import section equals the real `Document`, hook H4b). -/

/-- **Grouping is exact.** Every printed import line carries the comments of *all* source lines
importing that module, in source order, and all their members; there is one line per imported
module. -/
theorem imports_group_exact (imps : List Import) :
    ((organize imps).map (·.path)).Nodup ∧
    (∀ p, p ∈ (organize imps).map (·.path) ↔ p ∈ imps.map (·.path)) ∧
    ∀ g ∈ organize imps,
      g.comments = (imps.filter (fun i => i.path = g.path)).map (·.comments) ∧
      g.members = (imps.filter (fun i => i.path = g.path)).flatMap (·.members) := by
  have hnd : ((organize imps).map (·.path)).Nodup := nodup_foldl imps [] (by simp)
  refine ⟨hnd, ?_, ?_⟩
  · intro p
    have := mem_paths_foldl p imps []
    simpa [organize] using this
  · intro g hg
    have hf := find_of_mem_nodup _ hnd g hg
    have h1 := foldl_commentsAt g.path imps []
    have h2 := foldl_membersAt g.path imps []
    simp only [commentsAt, membersAt, List.find?_nil, List.nil_append] at h1 h2
    unfold organize at hf
    rw [hf] at h1 h2
    exact ⟨h1, h2⟩

/-- Sorting the groups and the members keeps the groups (as a permutation) and their comments. -/
theorem sortedGroups_comments (imps : List Import) :
    (flatComments (sortedGroups imps)).Perm (flatComments (organize imps)) := by
  unfold sortedGroups flatComments
  rw [List.flatMap_map]
  exact (flatMap_perm_pointwise _ _ _ groupComments_sortMembers).trans
    ((sortBy_perm _ (organize imps)).flatMap_right _)

/-- **No comment of an import line or of an imported member is lost or duplicated by merging and
sorting**: the comments printed in the import section are a permutation of the comments attached
to the source import lines and their members. -/
theorem imports_conserve_comments (imps : List Import) :
    (flatComments (sortedGroups imps)).Perm (imps.flatMap importComments) := by
  refine (sortedGroups_comments imps).trans ?_
  have := flatComments_foldl imps []
  simpa [organize, flatComments] using this

/-- The comments move *with their line*: inside one printed line they appear in source order of the
merged lines. -/
theorem imports_comments_move_with_line (imps : List Import) (g : Group) (hg : g ∈ sortedGroups imps) :
    g.comments.flatten = (imps.filter (fun i => i.path = g.path)).flatMap (·.comments) := by
  unfold sortedGroups at hg
  obtain ⟨g0, hg0, rfl⟩ := List.mem_map.mp hg
  have hm : g0 ∈ organize imps := (sortBy_perm _ _).mem_iff.mp hg0
  have := ((imports_group_exact imps).2.2 g0 hm).1
  rw [this, List.flatMap_def]

example :
    let c1 : Comment := ⟨.line, ['1']⟩
    let c3 : Comment := ⟨.line, ['3']⟩
    (sortedGroups [⟨['B'], [c1], [⟨[], ['y']⟩]⟩, ⟨['A'], [], [⟨[], ['z']⟩]⟩, ⟨['B'], [c3], [⟨[c1], ['x']⟩]⟩]) =
      [⟨['A'], [[]], [⟨[], ['z']⟩]⟩, ⟨['B'], [[c1], [c3]], [⟨[c1], ['x']⟩, ⟨[], ['y']⟩]⟩] := by decide

end SamVerif.Imports

namespace SamVerif.Attach
open SamVerif.CommentQueue (Comment)

/-! ## Attachment of the comments in front of an expression (`Model/Attach.lean`) -/

theorem printCE_attachLeft (extra : List Comment) (e : CE) (h : NF e) :
    printCE (attachLeft extra e) = extra.map .comment ++ printCE e := by
  induction e with
  | leaf cs a => simp [attachLeft, printCE]
  | post cs e p ih => obtain ⟨rfl, he⟩ := h; simp [attachLeft, printCE, ih he]
  | bin cs l ocs o r ihl _ => obtain ⟨rfl, hl, _⟩ := h; simp [attachLeft, printCE, ihl hl]

theorem nf_attachLeft (extra : List Comment) (e : CE) (h : NF e) : NF (attachLeft extra e) := by
  induction e with
  | leaf cs a => trivial
  | post cs e p ih => exact ⟨h.1, ih h.2⟩
  | bin cs l ocs o r ihl _ => exact ⟨h.1, ihl h.2.1, h.2.2⟩

theorem nf_normalize (e : CE) : NF (normalize e) := by
  induction e with
  | leaf cs a => trivial
  | post cs e p ih => exact ⟨rfl, nf_attachLeft _ _ ih⟩
  | bin cs l ocs o r ihl ihr => exact ⟨rfl, nf_attachLeft _ _ ihl, ihr⟩

/-- **Re-reading never changes the text**: the normal form prints exactly like the original tree
(comments and tokens, in order) — wherever comments were attached, none is lost or moved. -/
theorem printCE_normalize (e : CE) : printCE (normalize e) = printCE e := by
  induction e with
  | leaf cs a => rfl
  | post cs e p ih => simp [normalize, printCE, printCE_attachLeft _ _ (nf_normalize e), ih]
  | bin cs l ocs o r ihl ihr =>
    simp [normalize, printCE, printCE_attachLeft _ _ (nf_normalize l), ihl, ihr]

theorem attachLeft_nil (e : CE) : attachLeft [] e = e := by
  induction e with
  | leaf cs a => rfl
  | post cs e p ih => simp [attachLeft, ih]
  | bin cs l ocs o r ihl _ => simp [attachLeft, ihl]

/-- Normal-form trees are fixpoints of print-then-read. -/
theorem normalize_of_nf (e : CE) (h : NF e) : normalize e = e := by
  induction e with
  | leaf cs a => rfl
  | post cs e p ih =>
    obtain ⟨rfl, he⟩ := h
    simp only [normalize, ih he, attachLeft_nil]
  | bin cs l ocs o r ihl ihr =>
    obtain ⟨rfl, hl, hr⟩ := h
    simp only [normalize, ihl hl, ihr hr, attachLeft_nil]

/-- Both attachment policies print the additional comments in front of the expression, so the fix
changes the tree, never the first-pass text. -/
theorem attach_same_text (extra : List Comment) (e : CE) (h : NF e) :
    printCE (attachOuter extra e) = printCE (attachLeft extra e) := by
  rw [printCE_attachLeft extra e h]
  cases e <;> simp [attachOuter, printCE]

theorem printCE_lead_rest (e : CE) (h : NF e) : printCE e = (lead e).map .comment ++ rest e := by
  induction e with
  | leaf cs a => rfl
  | post cs e p ih => obtain ⟨rfl, he⟩ := h; simp [printCE, lead, rest, ih he]
  | bin cs l ocs o r ihl _ => obtain ⟨rfl, hl, _⟩ := h; simp [printCE, lead, rest, ihl hl]

/-- **Unwrapping parentheses keeps the source order**: the text of the inner expression becomes
`(`-comments, its own leading comments, `)`-comments, then the rest unchanged. -/
theorem printCE_wrapLeft (start stop : List Comment) (e : CE) (h : NF e) :
    printCE (wrapLeft start stop e) =
      start.map .comment ++ (lead e).map .comment ++ stop.map .comment ++ rest e := by
  induction e with
  | leaf cs a => simp [wrapLeft, printCE, lead, rest]
  | post cs e p ih => obtain ⟨rfl, he⟩ := h; simp [wrapLeft, printCE, lead, rest, ih he]
  | bin cs l ocs o r ihl _ => obtain ⟨rfl, hl, _⟩ := h; simp [wrapLeft, printCE, lead, rest, ihl hl]

theorem nf_wrapLeft (start stop : List Comment) (e : CE) (h : NF e) : NF (wrapLeft start stop e) := by
  induction e with
  | leaf cs a => trivial
  | post cs e p ih => exact ⟨h.1, ih h.2⟩
  | bin cs l ocs o r ihl _ => exact ⟨h.1, ihl h.2.1, h.2.2⟩

/-- **The fixed policy is stable under re-reading, the old one was not**: with `attachLeft` the
parser's result already is the tree that reading the printed text gives back … -/
theorem attachLeft_stable (extra : List Comment) (e : CE) (h : NF e) :
    normalize (attachLeft extra e) = attachLeft extra e :=
  normalize_of_nf _ (nf_attachLeft extra e h)

/-- … whereas `attachOuter` produced a tree that the next pass replaced by a different one
(finding C09-F5; the differing trees are laid out differently by the printer). -/
theorem attachOuter_unstable_counterexample :
    ¬ ∀ (extra : List Comment) (e : CE), NF e → normalize (attachOuter extra e) = attachOuter extra e := by
  intro h
  have := h [⟨.block, ['c']⟩] (.post [] (.leaf [] 0) 1) ⟨rfl, trivial⟩
  revert this
  decide

end SamVerif.Attach

namespace SamVerif.ExprDoc
open SamVerif.Doc
open SamVerif.CommentQueue (Comment)

/-! ## Document construction of the arithmetic expression fragment (`Model/ExprDoc.lean`)

Tied by protocol `exprdoc`: `docOf` of the parsed expression equals the real `Document`
(`create_doc`, hook `expression_doc`) structurally, for generated expressions with comments. -/

theorem wrapP_chars (c : Prop) [Decidable c] (xs : List Item) :
    (wrapP (decide c) xs).flatMap itemChars =
      (if c then ['('] else []) ++ xs.flatMap itemChars ++ (if c then [')'] else []) := by
  by_cases h : c
  · have h1 : itemChars (.tok ['(']) = ['('] := by decide
    have h2 : itemChars (.tok [')']) = [')'] := by decide
    simp [wrapP, h, h1, h2]
  · simp [wrapP, h]

theorem comments_chars (cs : List Comment) :
    (cs.map Item.comment).flatMap itemChars = cs.flatMap commentChars := by
  induction cs with
  | nil => rfl
  | cons c cs ih => simp [itemChars, ih]

theorem subDoc_ok (c : Prop) [Decidable c] (d : Doc) (hd : Agree commentKey d) :
    Agree commentKey (if c then parenDoc d else d) ∧
      val commentKey (if c then parenDoc d else d) =
        (if c then ['('] else []) ++ val commentKey d ++ (if c then [')'] else []) := by
  by_cases h : c
  · simpa [h] using parenDoc_ok d hd
  · simpa [h] using hd

theorem operatorDoc_ok (o : BinOp) :
    Agree commentKey (operatorDoc o) ∧ val commentKey (operatorDoc o) = nonWs (opStr o) := by
  refine ⟨⟨trivial, trivial, trivial⟩, ?_⟩
  cases o <;> decide

/-- Non-whitespace characters of a printed item sequence. -/
def items (xs : List Item) : Str := xs.flatMap itemChars

theorem items_append (a b : List Item) : items (a ++ b) = items a ++ items b := by simp [items]

theorem items_wrapP (c : Prop) [Decidable c] (xs : List Item) :
    items (wrapP (decide c) xs) = (if c then ['('] else []) ++ items xs ++ (if c then [')'] else []) :=
  wrapP_chars c xs

theorem unaryDoc_ok (cs : List Comment) (u : UOp) (p : Nat) (d : Doc) (xs : List Item)
    (hd : Agree commentKey d) (hv : val commentKey d = items xs) :
    Agree commentKey (unaryDoc cs u p d) ∧ val commentKey (unaryDoc cs u p d) = items (unaryItems cs u p xs) := by
  have hs := subDoc_ok (p ≥ 2) d hd
  have hu : commentKey.text (uopStr u) = nonWs (uopStr u) := by cases u <;> decide
  have hm : Agree commentKey (.concat (.text (uopStr u)) (if p ≥ 2 then parenDoc d else d)) := ⟨trivial, hs.1⟩
  have h := optPreceding_ok cs _ hm
  refine ⟨h.1, ?_⟩
  simp only [unaryDoc, h.2, val, hs.2, hu, hv, unaryItems, items, List.flatMap_append, comments_chars,
    wrapP_chars, List.flatMap_cons, List.flatMap_nil, itemChars, List.append_nil, List.append_assoc]

theorem binaryDoc_ok (cs : List Comment) (o : BinOp) (ocs : List Comment) (l r : AExpr) (dl dr : Doc)
    (xl xr : List Item) (hl : Agree commentKey dl) (hvl : val commentKey dl = items xl)
    (hr : Agree commentKey dr) (hvr : val commentKey dr = items xr) :
    Agree commentKey (binaryDoc cs o ocs l r dl dr) ∧
      val commentKey (binaryDoc cs o ocs l r dl dr) = items (binaryItems cs o ocs l r xl xr) := by
  have hsl := subDoc_ok (l.prec ≥ 4 + o.pprec) dl hl
  have hsr := subDoc_ok (r.prec ≥ 4 + o.pprec) dr hr
  have hpl := parenDoc_ok dl hl
  have hoc := opCommentsDoc_ok ocs
  have hop := operatorDoc_ok o
  have hwt : ∀ xs : List Item, (wrapP true xs).flatMap itemChars = ['('] ++ xs.flatMap itemChars ++ [')'] := by
    intro xs; simpa using wrapP_chars True xs
  by_cases h1 : o = .lt ∧ endsMember l = true
  · simp only [binaryDoc, binaryItems, if_pos h1]
    have hm : Agree commentKey (concatV ([parenDoc dl] ++ [opCommentsDoc ocs, operatorDoc o] ++
        [if r.prec ≥ 4 + o.pprec then parenDoc dr else dr])) := ⟨hpl.1, hoc.1, hop.1, hsr.1⟩
    have h := optPreceding_ok cs _ hm
    refine ⟨h.1, ?_⟩
    rw [h.2]
    simp only [List.singleton_append, List.cons_append, List.nil_append, concatV, val, hpl.2, hoc.2, hop.2,
      hsl.2, hsr.2, hvl, hvr, items, wrapP_chars, hwt, List.flatMap_append, comments_chars,
      List.flatMap_cons, List.flatMap_nil, itemChars, List.append_nil, List.append_assoc]
  · by_cases h2 : l.prec = 4 + o.pprec
    · simp only [binaryDoc, binaryItems, if_neg h1, if_pos h2]
      have hm : Agree commentKey (concatV ([dl] ++ [opCommentsDoc ocs, operatorDoc o] ++
          [if r.prec ≥ 4 + o.pprec then parenDoc dr else dr])) := ⟨hl, hoc.1, hop.1, hsr.1⟩
      have h := optPreceding_ok cs _ hm
      refine ⟨h.1, ?_⟩
      rw [h.2]
      simp only [List.singleton_append, List.cons_append, List.nil_append, concatV, val, hpl.2, hoc.2, hop.2,
      hsl.2, hsr.2, hvl, hvr, items, wrapP_chars, hwt, List.flatMap_append, comments_chars,
      List.flatMap_cons, List.flatMap_nil, itemChars, List.append_nil, List.append_assoc]
    · by_cases h3 : r.prec = 4 + o.pprec ∧ shortcutOkA o r = true
      · simp only [binaryDoc, binaryItems, if_neg h1, if_neg h2, if_pos h3]
        have hm : Agree commentKey (concatV ([if l.prec ≥ 4 + o.pprec then parenDoc dl else dl] ++
            [opCommentsDoc ocs, operatorDoc o] ++ [dr])) := ⟨hsl.1, hoc.1, hop.1, hr⟩
        have h := optPreceding_ok cs _ hm
        refine ⟨h.1, ?_⟩
        rw [h.2]
        simp only [List.singleton_append, List.cons_append, List.nil_append, concatV, val, hpl.2, hoc.2, hop.2,
      hsl.2, hsr.2, hvl, hvr, items, wrapP_chars, hwt, List.flatMap_append, comments_chars,
      List.flatMap_cons, List.flatMap_nil, itemChars, List.append_nil, List.append_assoc]
      · simp only [binaryDoc, binaryItems, if_neg h1, if_neg h2, if_neg h3]
        have hm : Agree commentKey (concatV ([if l.prec ≥ 4 + o.pprec then parenDoc dl else dl] ++
            [opCommentsDoc ocs, operatorDoc o] ++
            [if r.prec ≥ 4 + o.pprec then parenDoc dr else dr])) := ⟨hsl.1, hoc.1, hop.1, hsr.1⟩
        have h := optPreceding_ok cs _ hm
        refine ⟨h.1, ?_⟩
        rw [h.2]
        simp only [List.singleton_append, List.cons_append, List.nil_append, concatV, val, hpl.2, hoc.2, hop.2,
      hsl.2, hsr.2, hvl, hvr, items, wrapP_chars, hwt, List.flatMap_append, comments_chars,
      List.flatMap_cons, List.flatMap_nil, itemChars, List.append_nil, List.append_assoc]

theorem items_join (xs : List (List Item)) : items (argsItems.join xs) = joinC (xs.map items) := by
  induction xs with
  | nil => rfl
  | cons x rest ih =>
    cases rest with
    | nil => simp [argsItems.join, joinC]
    | cons y ys =>
      have h1 : itemChars (.tok [',']) = [','] := by decide
      simp only [argsItems.join, items_append, ih, List.map_cons, joinC]
      simp [items, h1]

theorem items_argsItems (scs : List Comment) (xs : List (List Item)) (ecs : List Comment) :
    items (argsItems scs xs ecs) =
      scs.flatMap commentChars ++ (['('] ++ (joinC (xs.map items) ++
        (if ecs.isEmpty then [] else (if xs.isEmpty then [] else [',']) ++ ecs.flatMap commentChars)) ++ [')']) := by
  have h1 : itemChars (.tok [',']) = [','] := by decide
  have h2 : itemChars (.tok ['(']) = ['('] := by decide
  have h3 : itemChars (.tok [')']) = [')'] := by decide
  simp only [argsItems, items_append, items_join]
  by_cases he : ecs.isEmpty = true <;> by_cases hx : xs.isEmpty = true <;>
    simp [items, he, hx, h1, h2, h3, comments_chars, List.append_assoc]

theorem IRok_base (d : Doc) (h : Agree commentKey d) : IRok (d, []) := ⟨h, by simp⟩

/-- The three mutually recursive functions of the model (`docOf` / `chainIR` / `argDocs`) against
their item counterparts. -/
theorem docOf_chain_args_ok (e : AExpr) :
    (Agree commentKey (docOf e) ∧ val commentKey (docOf e) = items (printA e)) ∧
    (IRok (chainIR e) ∧ chainVal (chainIR e) = items (chainItems e)) ∧
    ((∀ d ∈ argDocs e, Agree commentKey d) ∧ (argDocs e).map (val commentKey) = (argItems e).map items) := by
  have hwt : ∀ xs, items (wrapP true xs) = ['('] ++ items xs ++ [')'] := by
    intro xs; simpa using items_wrapP True xs
  induction e with
  | atom cs name =>
    have h := optPreceding_ok cs (.nstext name) trivial
    have hv : val commentKey (SamVerif.Imports.optPreceding cs (.nstext name)) =
        items (cs.map .comment ++ [.tok name]) := by
      rw [h.2]; simp [items, comments_chars, itemChars, val, commentKey]
    exact ⟨⟨h.1, by simpa [docOf, printA] using hv⟩,
      ⟨by simpa [chainIR] using IRok_base _ h.1, by simpa [chainIR, chainItems, chainVal] using hv⟩,
      ⟨by simp [argDocs], rfl⟩⟩
  | unary cs u e ih =>
    have h := unaryDoc_ok cs u e.prec (docOf e) (printA e) ih.1.1 ih.1.2
    have hp := parenDoc_ok _ h.1
    refine ⟨by simpa [docOf, printA] using h, ⟨by simpa [chainIR] using IRok_base _ hp.1, ?_⟩,
      ⟨by simp [argDocs], rfl⟩⟩
    simp [chainIR, chainItems, chainVal, hp.2, h.2, hwt]
  | binary cs o ocs l r ihl ihr =>
    have h := binaryDoc_ok cs o ocs l r (docOf l) (docOf r) (printA l) (printA r)
      ihl.1.1 ihl.1.2 ihr.1.1 ihr.1.2
    have hp := parenDoc_ok _ h.1
    refine ⟨by simpa [docOf, printA] using h, ⟨by simpa [chainIR] using IRok_base _ hp.1, ?_⟩,
      ⟨by simp [argDocs], rfl⟩⟩
    simp [chainIR, chainItems, chainVal, hp.2, h.2, hwt]
  | field cs obj ncs name ih =>
    have hx := extendField_ok (chainIR obj) ncs name ih.2.1.1
    have hd := dottedChain_ok _ hx.1
    have ho := optPreceding_ok cs _ hd.1
    have h1 : nonWs ['.'] = ['.'] := by decide
    have hcv : chainVal (extendField (chainIR obj) ncs name) =
        items (chainItems obj ++ ncs.map .comment ++ [.tok ['.'], .tok name]) := by
      rw [hx.2, ih.2.1.2]
      simp [items, comments_chars, itemChars, h1, List.append_assoc]
    refine ⟨⟨by simpa [docOf] using ho.1, ?_⟩, ⟨by simpa [chainIR] using hx.1, by simpa [chainIR, chainItems] using hcv⟩,
      ⟨by simp [argDocs], rfl⟩⟩
    simp only [docOf, printA, ho.2, hd.2, hcv]
    simp [items, comments_chars, List.append_assoc]
  | call cs callee scs args ecs ihc iha =>
    have had := argsDoc_ok scs (argDocs args) ecs iha.2.2.1
    have hx := extendCall_ok (chainIR callee) _ ihc.2.1.1 had.1
    have hd := dottedChain_ok _ hx.1
    have ho := optPreceding_ok cs _ hd.1
    have hlen : (argDocs args).isEmpty = (argItems args).isEmpty := by
      have := congrArg List.length iha.2.2.2
      simp only [List.length_map] at this
      cases h1 : argDocs args <;> cases h2 : argItems args <;> simp_all
    have hcv : chainVal (extendCall (chainIR callee) (argsDoc scs (argDocs args) ecs)) =
        items (chainItems callee ++ argsItems scs (argItems args) ecs) := by
      rw [hx.2, ihc.2.1.2, had.2, items_append, items_argsItems, iha.2.2.2, hlen]
    refine ⟨⟨by simpa [docOf] using ho.1, ?_⟩, ⟨by simpa [chainIR] using hx.1, by simpa [chainIR, chainItems] using hcv⟩,
      ⟨by simp [argDocs], rfl⟩⟩
    simp only [docOf, printA, ho.2, hd.2, hcv]
    simp [items, comments_chars, List.append_assoc]
  | argsNil =>
    exact ⟨⟨trivial, rfl⟩, ⟨⟨trivial, by simp [chainIR]⟩, rfl⟩, ⟨by simp [argDocs], rfl⟩⟩
  | argsCons e rest ihe ihr =>
    refine ⟨⟨trivial, rfl⟩, ⟨⟨trivial, by simp [chainIR]⟩, rfl⟩, ⟨?_, ?_⟩⟩
    · intro d hd
      simp only [argDocs, List.mem_cons] at hd
      rcases hd with rfl | hd
      · exact ihe.1.1
      · exact ihr.2.2.1 d hd
    · simp only [argDocs, argItems, List.map_cons, ihe.1.2, ihr.2.2.2]

/-- **The document of an expression has agreeing `Union`s and its content is exactly the printed
comment/token sequence** — identifiers, literals, unary and binary expressions, member access, calls
and whole dotted chains (all three layouts of `create_doc_for_dotted_chain`), argument lists with
their start / ending comments, parentheses where the printer keeps them. -/
theorem docOf_ok (e : AExpr) :
    Agree commentKey (docOf e) ∧ val commentKey (docOf e) = (printA e).flatMap itemChars :=
  (docOf_chain_args_ok e).1

/-- A latent gap of `create_chainable_ir_docs`, mirrored by the model: the comments stored on an
*inner* node of a dotted chain are never printed. The parser cannot produce such a tree (since fix
a0babc7 it attaches comments to the node owning the first token; protocol `exprdoc` checks on every
run that inner chain nodes of real parses carry no comments), so no input loses a comment here. -/
theorem inner_chain_comment_not_printed (c : Comment) (a f g : Str) :
    printA (.field [] (.field [c] (.atom [] a) [] f) [] g) =
      printA (.field [] (.field [] (.atom [] a) [] f) [] g) := rfl

/-- **For every width, the laid-out expression consists of exactly its comments and tokens**, in
print order (whitespace and repeated comment leaders aside): the layout engine and the document
construction together neither lose nor reorder anything on this fragment. -/
theorem expression_layout_text (w : Nat) (e : AExpr) :
    tval commentKey (tokens w (docOf e)) = (printA e).flatMap itemChars := by
  rw [layout_preserves_text commentKey w _ (docOf_ok e).1, (docOf_ok e).2]

/-- Hence the non-whitespace text of a formatted expression does not depend on the width. -/
theorem expression_layout_width_irrelevant (w₁ w₂ : Nat) (e : AExpr) :
    tval commentKey (tokens w₁ (docOf e)) = tval commentKey (tokens w₂ (docOf e)) := by
  rw [expression_layout_text, expression_layout_text]

end SamVerif.ExprDoc

namespace SamVerif.CommentText
open SamVerif.Doc (isWs)

/-! ## Comment text normalisation (`post_process_block_comment`) against the printer's re-flow

Tied by protocol `ctext` (the real lexer's comment text vs `postProcess` on generated bodies). -/

/-- **Reading back a re-flowed line gives its words**: a continuation line written by the printer —
indentation, ` * `, words separated by one blank — is read by the lexer as exactly those words, whatever
the words are (they may start or end with `*`, `/`, …): one star is decoration, everything after it is
text. (The seeded variant that strips every leading star falsifies this for `*kwargs`.) -/
theorem stripLine_reflowLine (indent : Nat) (ws : List Str) (hne : ws ≠ []) (hw : ∀ w ∈ ws, Word w) :
    stripLine (reflowLine indent ws) = joinSp ws := by
  have hsp : isWs ' ' = true := by decide
  have hstar : isWs '*' = false := by decide
  have h1 : trimStart (reflowLine indent ws) = '*' :: ' ' :: joinSp ws := by
    unfold trimStart reflowLine
    rw [List.append_assoc, dropWhile_replicate_sp]
    simp [List.dropWhile, hsp, hstar]
  unfold stripLine
  rw [h1]
  exact trim_sp_joinSp ws hne hw

example : stripLine (reflowLine 3 [['*', 'k'], ['*', '*', 'u', '*', '*'], ['*']]) =
    ['*', 'k', ' ', '*', '*', 'u', '*', '*', ' ', '*'] := by decide

/-- **The opener's own line keeps its text** (full strength since the /repo fix of finding C09-F9 —
before it, `stripLine_opener_counterexample` / `_partial` stood here: a text beginning with `*` lost that
star): what follows `/*` on its line is read back as exactly the words written, star-led or not. -/
theorem stripOpener_ok (ws : List Str) (hne : ws ≠ []) (hw : ∀ w ∈ ws, Word w) :
    stripOpener (' ' :: joinSp ws ++ [' ']) = joinSp ws := by
  have hsp : isWs ' ' = true := by decide
  cases ws with
  | nil => exact absurd rfl hne
  | cons w rest =>
    obtain ⟨c, r, hj, hc⟩ := joinSp_head w rest (hw w (by simp))
    obtain ⟨r', c', hj', hc'⟩ := joinSp_last (w :: rest) (by simp) hw
    have h1 : trimStart (' ' :: joinSp (w :: rest) ++ [' ']) = joinSp (w :: rest) ++ [' '] := by
      rw [hj]; simp [trimStart, List.dropWhile, hsp, hc]
    unfold stripOpener
    rw [h1, hj']
    simp [trimEnd, List.dropWhile, hsp, hc']

example : stripOpener (' ' :: joinSp [['*', 'k'], ['b']] ++ [' ']) = joinSp [['*', 'k'], ['b']] := by decide

end SamVerif.CommentText
