import SamVerif.Lemmas.Backends
/-!
# C04 (continued) — the two `Vec` runtimes, `Str.fromInt`, `Str.toInt`
-/
namespace SamVerif.Backends

/-! ## 4. `Vec<int>`: both runtimes refine one abstract sequence -/

/-- The WebAssembly vector `w` represents the TypeScript array `t`: same length, within capacity,
and slot `i` holds the i31 box of element `i`. -/
def Rel (t : List Int) (w : WVec) : Prop :=
  w.len = t.length ∧ w.len ≤ w.data.length ∧
    ∀ (i : Nat) (v : Int), t[i]? = some v → w.data[i]? = some (some (i31wrap v))

/-- what the WebAssembly program observes when the TypeScript program observes `r` -/
def expectW : VOp → VRes → VRes
  | _, .fail _ => .fail TRAP
  | .pop, .val n => .val (i31wrap n)
  | .get _, .val n => .val (i31wrap n)
  | _, r => r

theorem rel_empty : Rel [] WVec.empty := by
  refine ⟨rfl, by simp [WVec.empty], ?_⟩
  intro i v h; simp at h

theorem wReserve_spec (w : WVec) (min : Nat) (h : w.len ≤ w.data.length) :
    (wReserve w min).len = w.len ∧ min ≤ (wReserve w min).data.length ∧
      w.len ≤ (wReserve w min).data.length ∧
      ∀ i, i < w.len → (wReserve w min).data[i]? = w.data[i]? := by
  unfold wReserve
  by_cases hm : min ≤ w.data.length
  · rw [if_pos hm]; exact ⟨rfl, hm, h, fun _ _ => rfl⟩
  · rw [if_neg hm]
    refine ⟨rfl, ?_, ?_, ?_⟩
    · simp only [List.length_append, List.length_take, List.length_replicate]
      split <;> split <;> omega
    · simp only [List.length_append, List.length_take, List.length_replicate]
      split <;> split <;> omega
    · intro i hi
      rw [List.getElem?_append_left (by simp; omega)]
      simp [hi]

/-- **One call**: related states stay related, the WebAssembly result is the i31 image of the
TypeScript result, and a call fails on one side iff it fails on the other. -/
theorem vec_step_sim (t : List Int) (w : WVec) (h : Rel t w) (op : VOp) :
    (wasmVecStep w op).2 = expectW op (tsVecStep t op).2 ∧
      ((∀ m, (tsVecStep t op).2 ≠ .fail m) → Rel (tsVecStep t op).1 (wasmVecStep w op).1) := by
  obtain ⟨hlen, hcap, hel⟩ := h
  cases op with
  | len => simp [wasmVecStep, tsVecStep, expectW, hlen]; exact ⟨hlen, hcap, hel⟩
  | push v =>
    obtain ⟨r1, r2, r3, r4⟩ := wReserve_spec w (w.len + 1) hcap
    refine ⟨by simp [wasmVecStep, tsVecStep, expectW], fun _ => ?_⟩
    simp only [wasmVecStep, tsVecStep]
    refine ⟨by simp [hlen], by simp; omega, ?_⟩
    intro i x hx
    simp only [List.getElem?_set]
    by_cases hi : w.len = i
    · subst hi
      rw [if_pos rfl]
      have : (t ++ [v])[w.len]? = some v := by rw [hlen]; simp
      rw [this] at hx; cases hx
      simp; omega
    · rw [if_neg hi]
      have hlt : i < t.length := by
        have := (List.getElem?_eq_some_iff.mp hx).1
        simp at this; omega
      rw [List.getElem?_append_left hlt] at hx
      rw [r4 i (by omega)]; exact hel i x hx
  | pop =>
    by_cases h0 : t.length = 0
    · simp [wasmVecStep, tsVecStep, expectW, h0, hlen]
    · have hw0 : ¬ w.len = 0 := by omega
      have hlast : t[t.length - 1]? = some (t.getD (t.length - 1) 0) := by
        rw [List.getD_eq_getElem?_getD]
        have : t.length - 1 < t.length := by omega
        simp [List.getElem?_eq_getElem this]
      have hslot := hel _ _ hlast
      have hget : w.data.getD (w.len - 1) none = some (i31wrap (t.getD (t.length - 1) 0)) := by
        rw [List.getD_eq_getElem?_getD, hlen, hslot]; rfl
      simp only [wasmVecStep, tsVecStep, h0, hw0, if_false, hget, expectW, true_and]
      intro _
      refine ⟨by simp [hlen], by simp; omega, ?_⟩
      intro i x hx
      have hi : i < t.length - 1 := by
        have := (List.getElem?_eq_some_iff.mp hx).1
        simp at this; omega
      rw [List.getElem?_take] at hx
      simp only [hi, if_true] at hx
      simp only [List.getElem?_set]
      rw [if_neg (by omega)]
      exact hel i x hx
  | get i =>
    by_cases hb : i < 0 ∨ i ≥ (t.length : Int)
    · have hb' : i < 0 ∨ i ≥ (w.len : Int) := by rw [hlen]; exact hb
      simp [wasmVecStep, tsVecStep, expectW, hb, hb']
    · have hb' : ¬ (i < 0 ∨ i ≥ (w.len : Int)) := by rw [hlen]; exact hb
      have hi : i.toNat < t.length := by omega
      have hx : t[i.toNat]? = some (t.getD i.toNat 0) := by
        rw [List.getD_eq_getElem?_getD]; simp [List.getElem?_eq_getElem hi]
      have hget : w.data.getD i.toNat none = some (i31wrap (t.getD i.toNat 0)) := by
        rw [List.getD_eq_getElem?_getD, hel _ _ hx]; rfl
      simp only [wasmVecStep, tsVecStep, hb, hb', if_false, hget, expectW, true_and]
      intro _; exact ⟨hlen, hcap, hel⟩
  | set i v =>
    by_cases hb : i < 0 ∨ i ≥ (t.length : Int)
    · have hb' : i < 0 ∨ i ≥ (w.len : Int) := by rw [hlen]; exact hb
      simp [wasmVecStep, tsVecStep, expectW, hb, hb']
    · have hb' : ¬ (i < 0 ∨ i ≥ (w.len : Int)) := by rw [hlen]; exact hb
      simp only [wasmVecStep, tsVecStep, hb, hb', if_false, expectW, true_and]
      intro _
      refine ⟨by simp [hlen], by simp; omega, ?_⟩
      intro j x hx
      simp only [List.getElem?_set] at hx ⊢
      by_cases hj : i.toNat = j
      · subst hj
        have hi : i.toNat < t.length := by omega
        simp only [hi, if_true] at hx
        cases hx
        have : i.toNat < w.data.length := by omega
        simp [this]
      · simp only [hj, if_false] at hx ⊢
        exact hel j x hx

/-- **Every call sequence**: the WebAssembly run is the i31 image of the TypeScript run — same
number of results, failure at the same call. -/
theorem vec_refines (ops : List VOp) (t : List Int) (w : WVec) (h : Rel t w) :
    wasmVecRun w ops = List.zipWith expectW ops (tsVecRun t ops) := by
  induction ops generalizing t w with
  | nil => simp [wasmVecRun, tsVecRun]
  | cons op ops ih =>
    obtain ⟨hres, hrel⟩ := vec_step_sim t w h op
    simp only [wasmVecRun, tsVecRun]
    rcases hts : tsVecStep t op with ⟨t', rt⟩
    rcases hws : wasmVecStep w op with ⟨w', rw⟩
    rw [hts, hws] at hres
    rw [hts, hws] at hrel
    simp only at hres hrel
    cases rt with
    | fail m => simp [expectW] at hres; subst hres; simp [expectW]
    | unit =>
      have hr := hrel (by intro m; simp)
      cases op <;> simp [expectW] at hres <;> subst hres <;> simp [expectW, ih t' w' hr]
    | val n =>
      have hr := hrel (by intro m; simp)
      cases op <;> simp [expectW] at hres <;> subst hres <;> simp [expectW, ih t' w' hr]

/-- the run from the empty vector -/
theorem vec_refines_empty (ops : List VOp) :
    wasmVecRun WVec.empty ops = List.zipWith expectW ops (tsVecRun [] ops) :=
  vec_refines ops [] WVec.empty rel_empty

example : wasmVecRun WVec.empty [.push 5, .push 7, .get 1, .pop, .len] =
    [.unit, .unit, .val 7, .val 7, .val 1] := by decide

/- Full-strength statement (FALSE):
   theorem vec_agree (ops) : wasmVecRun WVec.empty ops = tsVecRun [] ops                          -/

/-- two witnesses: a stored int outside 31 bits (C04-F5); a failing call (C04-F6: panic with a
message in TypeScript, engine trap `unreachable` in WebAssembly). -/
theorem vec_agree_counterexample :
    wasmVecRun WVec.empty [.push 2000000000, .get 0] ≠ tsVecRun [] [.push 2000000000, .get 0] ∧
      wasmVecRun WVec.empty [.pop] ≠ tsVecRun [] [.pop] := by
  constructor <;> decide

/-- all stored ints fit in 31 bits -/
def SmallValues (ops : List VOp) : Prop :=
  ∀ op ∈ ops, match op with
    | .push v => InI31 v
    | .set _ v => InI31 v
    | _ => True

/-- no call fails on the TypeScript side -/
def NoFail (rs : List VRes) : Prop := ∀ r ∈ rs, ∀ m, r ≠ .fail m

theorem tsVecStep_small (t : List Int) (ht : ∀ x ∈ t, InI31 x) (op : VOp)
    (hop : match op with | .push v => InI31 v | .set _ v => InI31 v | _ => True) :
    (∀ x ∈ (tsVecStep t op).1, InI31 x) ∧
      ((∀ m, (tsVecStep t op).2 ≠ .fail m) → expectW op (tsVecStep t op).2 = (tsVecStep t op).2) := by
  have hgetD : ∀ i, i < t.length → InI31 (t.getD i 0) := by
    intro i hi
    rw [List.getD_eq_getElem?_getD, List.getElem?_eq_getElem hi]
    exact ht _ (List.getElem_mem hi)
  cases op with
  | len => simp [tsVecStep, expectW]; exact ht
  | push v =>
    simp only [tsVecStep, expectW]
    refine ⟨?_, fun _ => trivial⟩
    intro x hx
    rcases List.mem_append.mp hx with h | h
    · exact ht x h
    · simp at h; subst h; exact hop
  | pop =>
    by_cases h0 : t.length = 0
    · simp [tsVecStep, h0]; exact ht
    · simp only [tsVecStep, h0, if_false, expectW]
      refine ⟨fun x hx => ht x (List.mem_of_mem_take hx), fun _ => ?_⟩
      rw [i31wrap_id (hgetD _ (by omega))]
  | get i =>
    by_cases hb : i < 0 ∨ i ≥ (t.length : Int)
    · simp [tsVecStep, hb]; exact ht
    · simp only [tsVecStep, hb, if_false, expectW]
      refine ⟨ht, fun _ => ?_⟩
      rw [i31wrap_id (hgetD _ (by omega))]
  | set i v =>
    by_cases hb : i < 0 ∨ i ≥ (t.length : Int)
    · simp [tsVecStep, hb]; exact ht
    · simp only [tsVecStep, hb, if_false, expectW]
      refine ⟨?_, fun _ => trivial⟩
      intro x hx
      rcases List.mem_or_eq_of_mem_set hx with h | h
      · exact ht x h
      · subst h; exact hop

theorem vec_agree_aux (ops : List VOp) (t : List Int) (ht : ∀ x ∈ t, InI31 x)
    (hs : SmallValues ops) (hn : NoFail (tsVecRun t ops)) :
    List.zipWith expectW ops (tsVecRun t ops) = tsVecRun t ops := by
  induction ops generalizing t with
  | nil => simp [tsVecRun]
  | cons op ops ih =>
    obtain ⟨hsm, hex⟩ := tsVecStep_small t ht op (hs op List.mem_cons_self)
    have hs' : SmallValues ops := fun o ho => hs o (List.mem_cons_of_mem _ ho)
    simp only [tsVecRun] at hn ⊢
    rcases hts : tsVecStep t op with ⟨t', rt⟩
    rw [hts] at hn hsm hex
    simp only at hn hsm hex
    cases rt with
    | fail m => exact absurd rfl (hn (.fail m) (by simp) m)
    | unit =>
      simp only [List.zipWith_cons_cons]
      rw [hex (by intro m; simp), ih t' hsm hs' (fun r hr => hn r (List.mem_cons_of_mem _ hr))]
    | val n =>
      simp only [List.zipWith_cons_cons]
      rw [hex (by intro m; simp), ih t' hsm hs' (fun r hr => hn r (List.mem_cons_of_mem _ hr))]

/-- **Partial form of `vec_agree`**: if every stored int fits in 31 bits and no call fails, a
program observes exactly the same results from both `Vec` runtimes, for every call sequence. -/
theorem vec_agree_partial (ops : List VOp) (hs : SmallValues ops) (hn : NoFail (tsVecRun [] ops)) :
    wasmVecRun WVec.empty ops = tsVecRun [] ops := by
  rw [vec_refines_empty, vec_agree_aux ops [] (by simp) hs hn]

example : SmallValues [.push 5, .set 0 (-1073741824), .get 0] ∧
    NoFail (tsVecRun [] [.push 5, .set 0 (-1073741824), .get 0]) := by
  constructor
  · intro op hop; simp at hop; rcases hop with rfl | rfl | rfl <;> simp <;> decide
  · intro r hr m; simp [tsVecRun, tsVecStep] at hr; rcases hr with rfl | rfl | rfl <;> simp

theorem tsVecRun_length_le (ops : List VOp) (t : List Int) :
    (tsVecRun t ops).length ≤ ops.length := by
  induction ops generalizing t with
  | nil => simp [tsVecRun]
  | cons op ops ih =>
    simp only [tsVecRun]
    rcases hts : tsVecStep t op with ⟨t', rt⟩
    cases rt with
    | fail m => simp
    | unit => simp; exact ih t'
    | val n => simp; exact ih t'

theorem expectW_fail_iff (op : VOp) (r : VRes) : expectW op r = .fail TRAP ↔ ∃ m, r = .fail m := by
  cases op <;> cases r <;> simp [expectW]

/-- **Failures coincide**: both runs produce the same number of results, and the WebAssembly run
fails (traps) at call `k` iff the TypeScript run fails (panics) at call `k`; only the *kind* of
termination differs (finding C04-F6). -/
theorem vec_fail_coincide (ops : List VOp) :
    (wasmVecRun WVec.empty ops).length = (tsVecRun [] ops).length ∧
      ∀ k : Nat, (∃ m, (tsVecRun [] ops)[k]? = some (VRes.fail m)) ↔
        (wasmVecRun WVec.empty ops)[k]? = some (VRes.fail TRAP) := by
  rw [vec_refines_empty]
  have hle := tsVecRun_length_le ops []
  refine ⟨by simp [List.length_zipWith]; omega, fun k => ?_⟩
  rw [List.getElem?_zipWith]
  by_cases hk : k < (tsVecRun [] ops).length
  · have hk' : k < ops.length := by omega
    rw [List.getElem?_eq_getElem hk, List.getElem?_eq_getElem hk']
    simp only [Option.some.injEq]
    rw [expectW_fail_iff]
  · have : (tsVecRun [] ops)[k]? = none := List.getElem?_eq_none (by omega)
    rw [this]
    cases ops[k]? <;> simp

/-! ## 5. `Str.fromInt` -/

theorem or48 (d : Nat) (h : d < 10) : 48 ||| d = 48 + d := by
  have : ∀ d : Fin 10, 48 ||| d.val = 48 + d.val := by decide
  exact this ⟨d, h⟩

/-- the backwards digit loop of the WebAssembly runtime, reversed, is the canonical decimal -/
theorem digitsRev_reverse (f : Nat) : ∀ (g p : Nat), p < 10 ^ f → p < 10 ^ g → 1 ≤ p →
    (digitsRev f p).reverse = natDigits g p := by
  induction f with
  | zero => intro g p hf _ h1; simp at hf; omega
  | succ f ih =>
    intro g p hf hg h1
    cases g with
    | zero => simp at hg; omega
    | succ g =>
      have hd : p - p / 10 * 10 = p % 10 := by omega
      simp only [digitsRev, natDigits, show ¬ p < 1 by omega, if_false, hd, or48 (p % 10) (by omega)]
      by_cases h10 : p < 10
      · have h0 : p / 10 = 0 := by omega
        have hr : digitsRev f 0 = [] := by cases f <;> simp [digitsRev]
        simp [h10, h0, hr]
      · simp only [h10, if_false, List.reverse_cons]
        rw [ih g (p / 10) (by rw [Nat.pow_succ] at hf; omega) (by rw [Nat.pow_succ] at hg; omega) (by omega)]

/-- **`Str.fromInt` agrees**: for every `int`, the string built by the WebAssembly runtime
(`libsam.wat:35-152`) is the canonical decimal representation that `String(v)` yields. -/
theorem fromInt_agree (n : Int) (h : InRange n) : wasmFromInt n = tsFromInt n := by
  unfold wasmFromInt
  by_cases hmin : n = -2147483648
  · subst hmin; decide
  · rw [if_neg hmin]
    by_cases h0 : n = 0
    · subst h0; decide
    · rw [if_neg h0]
      unfold tsFromInt
      unfold InRange at h
      simp only []
      rw [digitsRev_reverse 11 22 n.natAbs (by omega) (by omega) (by omega)]

example : wasmFromInt (-120) = [45, 49, 50, 48] := by decide

end SamVerif.Backends

/- Pending (stated, not proved yet — listed under `pending` in the evidence):
   theorem toInt_fromInt (n : Int) (h : InRange n) :
       SamVerif.Backends.wasmToInt (SamVerif.Backends.wasmFromInt n) = some n ∧
       SamVerif.Backends.tsToInt (SamVerif.Backends.tsFromInt n) = some n
   (`Str.toInt` is tied by the `s2i` correspondence lines only.) -/
