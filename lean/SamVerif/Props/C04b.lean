import SamVerif.Lemmas.Backends
/-!
# C04 (continued) — the two `Vec` runtimes, `Str.fromInt`, `Str.toInt`
-/
namespace SamVerif.Backends

section Generic
variable {box : Int → Int}

/-! ## 4. `Vec<int>`: both runtimes refine one abstract sequence -/

/-- The WebAssembly vector `w` represents the TypeScript array `t`: same length, within capacity,
and slot `i` holds the i31 box of element `i`. -/
def Rel (box : Int → Int) (t : List Int) (w : WVec) : Prop :=
  w.len = t.length ∧ w.len ≤ w.data.length ∧
    ∀ (i : Nat) (v : Int), t[i]? = some v → w.data[i]? = some (some (box v))

/-- what the WebAssembly program observes when the TypeScript program observes `r` -/
def expectW (box : Int → Int) : VOp → VRes → VRes
  | .pop, .val n => .val (box n)
  | .get _, .val n => .val (box n)
  | _, r => r

theorem rel_empty : Rel box [] WVec.empty := by
  refine ⟨rfl, by simp [WVec.empty], ?_⟩
  intro i v h; simp at h

theorem wReserve_spec (w : WVec) (min : Nat) (h : w.len ≤ w.data.length) :
    (wReserve w min).len = w.len ∧ min ≤ (wReserve w min).data.length ∧
      w.len ≤ (wReserve w min).data.length ∧
      ∀ i, i < w.len → (wReserve w min).data[i]? = w.data[i]? := by
  unfold wReserve
  by_cases hm : min ≤ w.data.length
  · rw [if_pos hm]; exact ⟨rfl, hm, h, fun _ _ => rfl⟩
  · rw [if_neg hm]
    refine ⟨rfl, ?_, ?_, ?_⟩
    · simp only [List.length_append, List.length_take, List.length_replicate]
      split <;> split <;> omega
    · simp only [List.length_append, List.length_take, List.length_replicate]
      split <;> split <;> omega
    · intro i hi
      rw [List.getElem?_append_left (by simp; omega)]
      simp [hi]

/-- **One call**: related states stay related, the WebAssembly result is the i31 image of the
TypeScript result, and a call fails on one side iff it fails on the other. -/
theorem vec_step_sim (t : List Int) (w : WVec) (h : Rel box t w) (op : VOp) :
    (wasmVecStep box w op).2 = expectW box op (tsVecStep t op).2 ∧
      ((∀ m, (tsVecStep t op).2 ≠ .fail m) → Rel box (tsVecStep t op).1 (wasmVecStep box w op).1) := by
  obtain ⟨hlen, hcap, hel⟩ := h
  cases op with
  | len => simp [wasmVecStep, tsVecStep, expectW, hlen]; exact ⟨hlen, hcap, hel⟩
  | reserve n =>
    obtain ⟨r1, _, r3, r4⟩ := wReserve_spec w n.toNat hcap
    refine ⟨by simp [wasmVecStep, tsVecStep, expectW], fun _ => ?_⟩
    simp only [wasmVecStep, tsVecStep]
    refine ⟨by rw [r1]; exact hlen, by rw [r1]; exact r3, ?_⟩
    intro i x hx
    have hlt : i < t.length := (List.getElem?_eq_some_iff.mp hx).1
    rw [r4 i (by omega)]; exact hel i x hx
  | push v =>
    obtain ⟨r1, r2, r3, r4⟩ := wReserve_spec w (w.len + 1) hcap
    refine ⟨by simp [wasmVecStep, tsVecStep, expectW], fun _ => ?_⟩
    simp only [wasmVecStep, tsVecStep]
    refine ⟨by simp [hlen], by simp; omega, ?_⟩
    intro i x hx
    simp only [List.getElem?_set]
    by_cases hi : w.len = i
    · subst hi
      rw [if_pos rfl]
      have : (t ++ [v])[w.len]? = some v := by rw [hlen]; simp
      rw [this] at hx; cases hx
      simp; omega
    · rw [if_neg hi]
      have hlt : i < t.length := by
        have := (List.getElem?_eq_some_iff.mp hx).1
        simp at this; omega
      rw [List.getElem?_append_left hlt] at hx
      rw [r4 i (by omega)]; exact hel i x hx
  | pop =>
    by_cases h0 : t.length = 0
    · simp [wasmVecStep, tsVecStep, expectW, h0, hlen]
    · have hw0 : ¬ w.len = 0 := by omega
      have hlast : t[t.length - 1]? = some (t.getD (t.length - 1) 0) := by
        rw [List.getD_eq_getElem?_getD]
        have : t.length - 1 < t.length := by omega
        simp [List.getElem?_eq_getElem this]
      have hslot := hel _ _ hlast
      have hget : w.data.getD (w.len - 1) none = some (box (t.getD (t.length - 1) 0)) := by
        rw [List.getD_eq_getElem?_getD, hlen, hslot]; rfl
      simp only [wasmVecStep, tsVecStep, h0, hw0, if_false, hget, expectW, true_and]
      intro _
      refine ⟨by simp [hlen], by simp; omega, ?_⟩
      intro i x hx
      have hi : i < t.length - 1 := by
        have := (List.getElem?_eq_some_iff.mp hx).1
        simp at this; omega
      rw [List.getElem?_take] at hx
      simp only [hi, if_true] at hx
      simp only [List.getElem?_set]
      rw [if_neg (by omega)]
      exact hel i x hx
  | get i =>
    by_cases hb : i < 0 ∨ i ≥ (t.length : Int)
    · have hb' : i < 0 ∨ i ≥ (w.len : Int) := by rw [hlen]; exact hb
      simp [wasmVecStep, tsVecStep, expectW, hb, hb']
    · have hb' : ¬ (i < 0 ∨ i ≥ (w.len : Int)) := by rw [hlen]; exact hb
      have hi : i.toNat < t.length := by omega
      have hx : t[i.toNat]? = some (t.getD i.toNat 0) := by
        rw [List.getD_eq_getElem?_getD]; simp [List.getElem?_eq_getElem hi]
      have hget : w.data.getD i.toNat none = some (box (t.getD i.toNat 0)) := by
        rw [List.getD_eq_getElem?_getD, hel _ _ hx]; rfl
      simp only [wasmVecStep, tsVecStep, hb, hb', if_false, hget, expectW, true_and]
      intro _; exact ⟨hlen, hcap, hel⟩
  | set i v =>
    by_cases hb : i < 0 ∨ i ≥ (t.length : Int)
    · have hb' : i < 0 ∨ i ≥ (w.len : Int) := by rw [hlen]; exact hb
      simp [wasmVecStep, tsVecStep, expectW, hb, hb']
    · have hb' : ¬ (i < 0 ∨ i ≥ (w.len : Int)) := by rw [hlen]; exact hb
      simp only [wasmVecStep, tsVecStep, hb, hb', if_false, expectW, true_and]
      intro _
      refine ⟨by simp [hlen], by simp; omega, ?_⟩
      intro j x hx
      simp only [List.getElem?_set] at hx ⊢
      by_cases hj : i.toNat = j
      · subst hj
        have hi : i.toNat < t.length := by omega
        simp only [hi, if_true] at hx
        cases hx
        have : i.toNat < w.data.length := by omega
        simp [this]
      · simp only [hj, if_false] at hx ⊢
        exact hel j x hx

/-- **Every call sequence**: the WebAssembly run is the i31 image of the TypeScript run — same
number of results, failure at the same call. -/
theorem vec_refines (ops : List VOp) (t : List Int) (w : WVec) (h : Rel box t w) :
    wasmVecRun box w ops = List.zipWith (expectW box) ops (tsVecRun t ops) := by
  induction ops generalizing t w with
  | nil => simp [wasmVecRun, tsVecRun]
  | cons op ops ih =>
    obtain ⟨hres, hrel⟩ := vec_step_sim t w h op
    simp only [wasmVecRun, tsVecRun]
    rcases hts : tsVecStep t op with ⟨t', rt⟩
    rcases hws : wasmVecStep box w op with ⟨w', rw⟩
    rw [hts, hws] at hres
    rw [hts, hws] at hrel
    simp only at hres hrel
    cases rt with
    | fail m => simp [expectW] at hres; subst hres; simp [expectW]
    | unit =>
      have hr := hrel (by intro m; simp)
      cases op <;> simp [expectW] at hres <;> subst hres <;> simp [expectW, ih t' w' hr]
    | val n =>
      have hr := hrel (by intro m; simp)
      cases op <;> simp [expectW] at hres <;> subst hres <;> simp [expectW, ih t' w' hr]

/-- the run from the empty vector -/
theorem vec_refines_empty (ops : List VOp) :
    wasmVecRun box WVec.empty ops = List.zipWith (expectW box) ops (tsVecRun [] ops) :=
  vec_refines ops [] WVec.empty rel_empty

example : wasmVecRun i31wrap WVec.empty [.push 5, .push 7, .get 1, .pop, .len] =
    [.unit, .unit, .val 7, .val 7, .val 1] := by decide

/- Full-strength statement (FALSE):
   theorem vec_agree (ops) : wasmVecRun box WVec.empty ops = tsVecRun [] ops                          -/

end Generic

/-- a stored int outside 31 bits (C04-F5, open). Historical note: before fix 361669d a failing
call was a second witness (`unreachable` trap vs panic with a message, C04-F6); the two runtimes
now fail with the same message, see `vec_fail_coincide`. -/
theorem vec_agree_counterexample :
    wasmVecRun i31wrap WVec.empty [.push 2000000000, .get 0] ≠ tsVecRun [] [.push 2000000000, .get 0] := by
  decide

example : wasmVecRun i31wrap WVec.empty [.pop] = tsVecRun [] [.pop] := by decide

/-- all stored ints fit in 31 bits -/
def SmallValues (ops : List VOp) : Prop :=
  ∀ op ∈ ops, match op with
    | .push v => InI31 v
    | .set _ v => InI31 v
    | _ => True

theorem tsVecStep_small (t : List Int) (ht : ∀ x ∈ t, InI31 x) (op : VOp)
    (hop : match op with | .push v => InI31 v | .set _ v => InI31 v | _ => True) :
    (∀ x ∈ (tsVecStep t op).1, InI31 x) ∧
      expectW i31wrap op (tsVecStep t op).2 = (tsVecStep t op).2 := by
  have hgetD : ∀ i, i < t.length → InI31 (t.getD i 0) := by
    intro i hi
    rw [List.getD_eq_getElem?_getD, List.getElem?_eq_getElem hi]
    exact ht _ (List.getElem_mem hi)
  cases op with
  | len => simp [tsVecStep, expectW]; exact ht
  | reserve n => simp [tsVecStep, expectW]; exact ht
  | push v =>
    simp only [tsVecStep, expectW]
    refine ⟨?_, trivial⟩
    intro x hx
    rcases List.mem_append.mp hx with h | h
    · exact ht x h
    · simp at h; subst h; exact hop
  | pop =>
    by_cases h0 : t.length = 0
    · simp [tsVecStep, h0, expectW]; exact ht
    · simp only [tsVecStep, h0, if_false, expectW]
      refine ⟨fun x hx => ht x (List.mem_of_mem_take hx), ?_⟩
      rw [i31wrap_id (hgetD _ (by omega))]
  | get i =>
    by_cases hb : i < 0 ∨ i ≥ (t.length : Int)
    · simp [tsVecStep, hb, expectW]; exact ht
    · simp only [tsVecStep, hb, if_false, expectW]
      refine ⟨ht, ?_⟩
      rw [i31wrap_id (hgetD _ (by omega))]
  | set i v =>
    by_cases hb : i < 0 ∨ i ≥ (t.length : Int)
    · simp [tsVecStep, hb, expectW]; exact ht
    · simp only [tsVecStep, hb, if_false, expectW]
      refine ⟨?_, trivial⟩
      intro x hx
      rcases List.mem_or_eq_of_mem_set hx with h | h
      · exact ht x h
      · subst h; exact hop

theorem vec_agree_aux (ops : List VOp) (t : List Int) (ht : ∀ x ∈ t, InI31 x)
    (hs : SmallValues ops) :
    List.zipWith (expectW i31wrap) ops (tsVecRun t ops) = tsVecRun t ops := by
  induction ops generalizing t with
  | nil => simp [tsVecRun]
  | cons op ops ih =>
    obtain ⟨hsm, hex⟩ := tsVecStep_small t ht op (hs op List.mem_cons_self)
    have hs' : SmallValues ops := fun o ho => hs o (List.mem_cons_of_mem _ ho)
    simp only [tsVecRun]
    rcases hts : tsVecStep t op with ⟨t', rt⟩
    rw [hts] at hsm hex
    simp only at hsm hex
    cases rt with
    | fail m => simp only [List.zipWith_cons_cons, List.zipWith_nil_right, hex]
    | unit => simp only [List.zipWith_cons_cons]; rw [hex, ih t' hsm hs']
    | val n => simp only [List.zipWith_cons_cons]; rw [hex, ih t' hsm hs']

/-- **`vec_agree` for 31-bit elements** (was additionally restricted to runs without a failing call
before fix 361669d): if every stored int fits in 31 bits, a program observes exactly the same
results — including which call fails and with which message — from both `Vec` runtimes, for every
call sequence. -/
theorem vec_agree_partial (ops : List VOp) (hs : SmallValues ops) :
    wasmVecRun i31wrap WVec.empty ops = tsVecRun [] ops := by
  rw [vec_refines_empty, vec_agree_aux ops [] (by simp) hs]

example : SmallValues [.push 5, .set 0 (-1073741824), .get 7] := by
  intro op hop; simp at hop; rcases hop with rfl | rfl | rfl <;> simp <;> decide

section Generic2
variable {box : Int → Int}

theorem tsVecRun_length_le (ops : List VOp) (t : List Int) :
    (tsVecRun t ops).length ≤ ops.length := by
  induction ops generalizing t with
  | nil => simp [tsVecRun]
  | cons op ops ih =>
    simp only [tsVecRun]
    rcases hts : tsVecStep t op with ⟨t', rt⟩
    cases rt with
    | fail m => simp
    | unit => simp; exact ih t'
    | val n => simp; exact ih t'

theorem expectW_fail_iff (op : VOp) (r : VRes) (m : String) : expectW box op r = .fail m ↔ r = .fail m := by
  cases op <;> cases r <;> simp [expectW]

/-- **Failures coincide** (all element values): both runs produce the same number of results, and
the WebAssembly run fails at call `k` with message `m` iff the TypeScript run does. -/
theorem vec_fail_coincide (ops : List VOp) :
    (wasmVecRun box WVec.empty ops).length = (tsVecRun [] ops).length ∧
      ∀ (k : Nat) (m : String), (tsVecRun [] ops)[k]? = some (VRes.fail m) ↔
        (wasmVecRun box WVec.empty ops)[k]? = some (VRes.fail m) := by
  rw [vec_refines_empty]
  have hle := tsVecRun_length_le ops []
  refine ⟨by simp [List.length_zipWith]; omega, fun k m => ?_⟩
  rw [List.getElem?_zipWith]
  by_cases hk : k < (tsVecRun [] ops).length
  · have hk' : k < ops.length := by omega
    rw [List.getElem?_eq_getElem hk, List.getElem?_eq_getElem hk']
    simp only [Option.some.injEq]
    rw [expectW_fail_iff]
  · have : (tsVecRun [] ops)[k]? = none := List.getElem?_eq_none (by omega)
    rw [this]
    cases ops[k]? <;> simp

/-! ## 4b. The remaining `Vec` builtins: `of`, `withCapacity`, `capacity`, `reserve`, `eq` -/

theorem rel_of (v : Int) : Rel box (tsVecOf v) (wasmVecOf box v) := by
  refine ⟨rfl, by simp [wasmVecOf], ?_⟩
  intro i x hx
  cases i with
  | zero => simp [tsVecOf] at hx; subst hx; simp [wasmVecOf]
  | succ i => simp [tsVecOf] at hx

theorem rel_withCapacity (n : Int) (w : WVec) (h : wasmVecWithCapacity n = some w) : Rel box [] w := by
  unfold wasmVecWithCapacity at h
  split at h
  · cases h
  · cases h; exact ⟨rfl, by simp, by intro i v hv; simp at hv⟩

/-- `capacity` is only a hint, but on both sides it is never below the length. -/
theorem capacity_ge_length (t : List Int) (w : WVec) (h : Rel box t w) :
    t.length ≤ tsCapacity t ∧ t.length ≤ wasmCapacity w := by
  refine ⟨Nat.le_refl _, ?_⟩
  unfold wasmCapacity; rw [← h.1]; exact h.2.1

/-- `reserve n` makes room for `n` elements on the WebAssembly side and changes nothing visible. -/
theorem reserve_capacity (w : WVec) (n : Int) (h : w.len ≤ w.data.length) :
    n ≤ wasmCapacity (wasmVecStep box w (.reserve n)).1 := by
  obtain ⟨_, r2, _, _⟩ := wReserve_spec w n.toNat h
  simp only [wasmVecStep, wasmCapacity]; omega

theorem rel_take (t : List Int) (w : WVec) (h : Rel box t w) :
    w.data.take w.len = t.map (fun v => some (box v)) := by
  obtain ⟨hlen, hcap, hel⟩ := h
  apply List.ext_getElem?
  intro i
  rw [List.getElem?_take, List.getElem?_map]
  by_cases hi : i < w.len
  · rw [if_pos hi]
    have hi' : i < t.length := by omega
    rw [hel i t[i] (List.getElem?_eq_getElem hi'), List.getElem?_eq_getElem hi']; rfl
  · rw [if_neg hi, List.getElem?_eq_none (by omega)]; rfl

theorem map_some_eq_iff (a b : List Int) : (a.map some = b.map some) ↔ a = b := by
  induction a generalizing b with
  | nil => cases b <;> simp
  | cons x xs ih => cases b with
    | nil => simp
    | cons y ys => simp [ih ys]

theorem wasmVecEqLoop_take (n : Nat) : ∀ (a b : List (Option Int)), n ≤ a.length → n ≤ b.length →
    wasmVecEqLoop n a b = decide (a.take n = b.take n) := by
  induction n with
  | zero => intro a b _ _; simp [wasmVecEqLoop]
  | succ n ih =>
    intro a b ha hb
    cases a with
    | nil => simp at ha
    | cons x xs =>
      cases b with
      | nil => simp at hb
      | cons y ys =>
        simp only [wasmVecEqLoop, List.take_succ_cons, List.cons.injEq]
        by_cases hxy : x = y
        · subst hxy; simp [ih xs ys (by simpa using ha) (by simpa using hb)]
        · simp [hxy]

theorem tsVecEqLoop_eq (a b : List Int) (h : a.length = b.length) :
    tsVecEqLoop a b = decide (a = b) := by
  induction a generalizing b with
  | nil => cases b <;> simp_all [tsVecEqLoop]
  | cons x xs ih =>
    cases b with
    | nil => simp at h
    | cons y ys =>
      simp only [tsVecEqLoop, List.cons.injEq]
      by_cases hxy : x = y
      · subst hxy; simp [ih ys (by simpa using h)]
      · simp [hxy]

/-- TypeScript `Vec.eq` decides list equality (or identity) — for ALL argument values. -/
theorem tsVecEq_spec (same : Bool) (a b : List Int) (hs : same = true → a = b) :
    tsVecEq same a b = b2i (decide (a = b)) := by
  unfold tsVecEq
  by_cases h1 : same = true
  · simp [h1, hs h1, b2i]
  · by_cases hl : a.length = b.length
    · simp [h1, hl, tsVecEqLoop_eq a b hl]
    · have : a ≠ b := fun h => hl (by rw [h])
      simp [h1, hl, this, b2i]

/-- **`Vec.eq`, all arguments**: the WebAssembly answer on the representations equals the
TypeScript answer on the i31 images of the two arrays. -/
theorem vec_eq_refines (same : Bool) (ta tb : List Int) (wa wb : WVec) (ha : Rel box ta wa)
    (hb : Rel box tb wb) :
    wasmVecEq same wa wb = tsVecEq same (ta.map box) (tb.map box) := by
  unfold wasmVecEq tsVecEq
  by_cases h1 : same = true
  · simp [h1]
  · simp only [h1, if_false, List.length_map, Bool.false_eq_true]
    rw [ha.1, hb.1]
    by_cases hl : ta.length = tb.length
    · simp only [hl, ne_eq, not_true_eq_false, if_false]
      rw [tsVecEqLoop_eq _ _ (by simp [hl])]
      have h2 := wasmVecEqLoop_take tb.length wa.data wb.data (by rw [← hl, ← ha.1]; exact ha.2.1)
        (by rw [← hb.1]; exact hb.2.1)
      have e1 := rel_take ta wa ha
      have e2 := rel_take tb wb hb
      rw [ha.1, hl] at e1; rw [hb.1] at e2
      rw [h2, e1, e2]
      congr 1
      have := map_some_eq_iff (ta.map box) (tb.map box)
      simp only [List.map_map] at this
      have e : (fun v => some (box v)) = (some ∘ box : Int → Option Int) := rfl
      rw [e]
      simp [this]
    · simp [hl]

end Generic2

theorem map_i31wrap_id (t : List Int) (h : ∀ x ∈ t, InI31 x) : t.map i31wrap = t := by
  induction t with
  | nil => rfl
  | cons x xs ih =>
    simp only [List.map_cons]
    rw [i31wrap_id (h x List.mem_cons_self), ih (fun y hy => h y (List.mem_cons_of_mem _ hy))]

/- Full-strength statement (FALSE, C04-F5): wasmVecEq same wa wb = tsVecEq same ta tb -/

/-- `[1073741824].eq([-1073741824])`: equal after i31 truncation, different in TypeScript. -/
theorem vec_eq_agree_counterexample :
    Rel i31wrap [1073741824] (wasmVecOf i31wrap 1073741824) ∧ Rel i31wrap [-1073741824] (wasmVecOf i31wrap (-1073741824)) ∧
      wasmVecEq false (wasmVecOf i31wrap 1073741824) (wasmVecOf i31wrap (-1073741824)) ≠
        tsVecEq false [1073741824] [-1073741824] := by
  refine ⟨rel_of _, rel_of _, by decide⟩

/-- **`vec_eq_agree` (partial: 31-bit elements)**: for all pairs of vectors — equal, prefix,
longer, shorter, empty — both runtimes give the same answer. -/
theorem vec_eq_agree_partial (same : Bool) (ta tb : List Int) (wa wb : WVec) (ha : Rel i31wrap ta wa)
    (hb : Rel i31wrap tb wb) (sa : ∀ x ∈ ta, InI31 x) (sb : ∀ x ∈ tb, InI31 x) :
    wasmVecEq same wa wb = tsVecEq same ta tb := by
  rw [vec_eq_refines same ta tb wa wb ha hb, map_i31wrap_id ta sa, map_i31wrap_id tb sb]

example : tsVecEq false [] [5] = 0 ∧ tsVecEq false [5] [5, 6] = 0 ∧ tsVecEq false [5, 6] [5, 6] = 1 := by
  decide

/-! ## 4d. `Vec` of reference elements (`Vec<Str>`, `Vec<Vec<int>>`, `Vec<SomeClass>`)

Elements are object identities (numbered by `Int`); nothing is boxed: `box = id`. The generic
refinement theorems above (`vec_step_sim`, `vec_refines`, `vec_fail_coincide`, `vec_eq_refines` are
stated for every `box`) then give agreement at full strength. -/

theorem expectW_id (op : VOp) (r : VRes) : expectW id op r = r := by
  cases op <;> cases r <;> rfl

theorem zipWith_expectW_id (ops : List VOp) (rs : List VRes) (h : rs.length ≤ ops.length) :
    List.zipWith (expectW id) ops rs = rs := by
  induction ops generalizing rs with
  | nil => cases rs with
    | nil => rfl
    | cons r rs => simp at h
  | cons op ops ih => cases rs with
    | nil => rfl
    | cons r rs =>
      simp only [List.zipWith_cons_cons, expectW_id]
      rw [ih rs (by simpa using h)]

/-- **`vec_agree` for reference elements, full strength**: every call sequence on a `Vec` whose
elements are references is observed identically (results, failing call, message) on both back ends. -/
theorem vec_agree_ref (ops : List VOp) : wasmVecRun id WVec.empty ops = tsVecRun [] ops := by
  rw [vec_refines_empty (box := id), zipWith_expectW_id ops _ (tsVecRun_length_le ops [])]

/-- **`Vec.eq` for reference elements, full strength**: element-wise identity on both sides. -/
theorem vec_eq_agree_ref (same : Bool) (ta tb : List Int) (wa wb : WVec) (ha : Rel id ta wa)
    (hb : Rel id tb wb) : wasmVecEq same wa wb = tsVecEq same ta tb := by
  rw [vec_eq_refines same ta tb wa wb ha hb]; simp

example : wasmVecRun id WVec.empty [.push 2000000000, .get 0, .pop, .pop] =
    tsVecRun [] [.push 2000000000, .get 0, .pop, .pop] := vec_agree_ref _

/-! ## 4c. `Str.concat` and string `==` -/

theorem copyLoop_spec (cs : List Nat) : ∀ (pre : List Nat) (k : Nat),
    copyLoop (pre ++ List.replicate (cs.length + k) 0) pre.length cs =
      pre ++ cs ++ List.replicate k 0 := by
  induction cs with
  | nil => intro pre k; simp [copyLoop]
  | cons c cs ih =>
    intro pre k
    simp only [copyLoop, List.length_cons]
    have hset : (pre ++ List.replicate (cs.length + 1 + k) 0).set pre.length c =
        (pre ++ [c]) ++ List.replicate (cs.length + k) 0 := by
      rw [show cs.length + 1 + k = (cs.length + k) + 1 by omega, List.replicate_succ]
      simp [List.set_append]
    rw [hset]
    have := ih (pre ++ [c]) k
    simp only [List.length_append, List.length_singleton] at this
    rw [this]; simp

/-- **`Str.concat` agrees**: the two copy loops of the WebAssembly runtime build `a ++ b`. -/
theorem concat_agree (a b : List Nat) : wasmStrConcat a b = tsStrConcat a b := by
  unfold wasmStrConcat tsStrConcat
  have h1 := copyLoop_spec a [] b.length
  simp only [List.nil_append, List.length_nil] at h1
  rw [h1]
  have h2 := copyLoop_spec b a 0
  simp only [Nat.add_zero, List.replicate_zero, List.append_nil] at h2
  exact h2

/-- bytes read with the SAME extension are equal iff the bytes are equal -/
theorem readByte_inj (s : Bool) (x y : Nat) (hx : x < 256) (hy : y < 256) :
    readByte s x = readByte s y ↔ x = y := by
  unfold readByte
  cases s <;> simp <;> (try split) <;> (try split) <;> omega

/-- the comparison loop decides equality of the byte strings for either extension, as long as both
operands are read with the same one -/
theorem strEqLoopWith_same (s : Bool) (a b : List Nat) (h : a.length = b.length)
    (ha : ∀ x ∈ a, x < 256) (hb : ∀ x ∈ b, x < 256) :
    strEqLoopWith s s a b = decide (a = b) := by
  induction a generalizing b with
  | nil => cases b <;> simp_all [strEqLoopWith]
  | cons x xs ih =>
    cases b with
    | nil => simp at h
    | cons y ys =>
      have hxy := readByte_inj s x y (ha x List.mem_cons_self) (hb y List.mem_cons_self)
      simp only [strEqLoopWith, List.cons.injEq, ne_eq]
      by_cases e : x = y
      · subst e
        simp [ih ys (by simpa using h) (fun z hz => ha z (List.mem_cons_of_mem _ hz))
          (fun z hz => hb z (List.mem_cons_of_mem _ hz))]
      · have : ¬ readByte s x = readByte s y := fun hh => e (hxy.mp hh)
        simp [this, e]

/-- mixed extension (one operand `array.get_u`, the other `array.get_s`): a string with a byte
≥ 0x80 is unequal to itself — the fault class of seed C04f -/
theorem strEqLoopWith_mixed_counterexample :
    strEqLoopWith false true [195, 169] [195, 169] = false ∧
      strEqLoopWith true false [195, 169] [195, 169] = false := by decide

theorem wasmStrEqLoop_eq (a b : List Nat) (h : a.length = b.length)
    (ha : ∀ x ∈ a, x < 256) (hb : ∀ x ∈ b, x < 256) :
    wasmStrEqLoop a b = decide (a = b) := by
  have e : strEqSignedB = strEqSignedA := rfl     -- the code reads both operands the same way
  unfold wasmStrEqLoop
  rw [e]
  exact strEqLoopWith_same _ a b h ha hb

/-- **String `==` agrees** for all pairs of byte strings (`$__Str$eq`, with the reads as the code
performs them, vs JS string equality; UTF-8 is injective, so equality of the byte strings is
equality of the strings). -/
theorem str_eq_agree (same : Bool) (a b : List Nat) (hs : same = true → a = b)
    (ha : ∀ x ∈ a, x < 256) (hb : ∀ x ∈ b, x < 256) :
    wasmStrEq same a b = tsStrEq a b := by
  unfold wasmStrEq tsStrEq
  by_cases h1 : same = true
  · simp [h1, hs h1, b2i]
  · by_cases hl : a.length = b.length
    · simp [h1, hl, wasmStrEqLoop_eq a b hl ha hb]
    · have : a ≠ b := fun h => hl (by rw [h])
      simp [h1, hl, this, b2i]

/-- `==` on strings is an equivalence test: 1 iff the contents are equal -/
theorem strEq_iff (same : Bool) (a b : List Nat) (hs : same = true → a = b)
    (ha : ∀ x ∈ a, x < 256) (hb : ∀ x ∈ b, x < 256) : wasmStrEq same a b = 1 ↔ a = b := by
  rw [str_eq_agree same a b hs ha hb]
  unfold tsStrEq b2i
  by_cases e : a = b <;> simp [e]

example : wasmStrConcat [97, 98] [99] = [97, 98, 99] := by decide

/-! ## 5. `Str.fromInt` -/

theorem or48 (d : Nat) (h : d < 10) : 48 ||| d = 48 + d := by
  have : ∀ d : Fin 10, 48 ||| d.val = 48 + d.val := by decide
  exact this ⟨d, h⟩

/-- the backwards digit loop of the WebAssembly runtime, reversed, is the canonical decimal -/
theorem digitsRev_reverse (f : Nat) : ∀ (g p : Nat), p < 10 ^ f → p < 10 ^ g → 1 ≤ p →
    (digitsRev f p).reverse = natDigits g p := by
  induction f with
  | zero => intro g p hf _ h1; simp at hf; omega
  | succ f ih =>
    intro g p hf hg h1
    cases g with
    | zero => simp at hg; omega
    | succ g =>
      have hd : p - p / 10 * 10 = p % 10 := by omega
      simp only [digitsRev, natDigits, show ¬ p < 1 by omega, if_false, hd, or48 (p % 10) (by omega)]
      by_cases h10 : p < 10
      · have h0 : p / 10 = 0 := by omega
        have hr : digitsRev f 0 = [] := by cases f <;> simp [digitsRev]
        simp [h10, h0, hr]
      · simp only [h10, if_false, List.reverse_cons]
        rw [ih g (p / 10) (by rw [Nat.pow_succ] at hf; omega) (by rw [Nat.pow_succ] at hg; omega) (by omega)]

/-- **`Str.fromInt` agrees**: for every `int`, the string built by the WebAssembly runtime
(`libsam.wat:35-152`) is the canonical decimal representation that `String(v)` yields. -/
theorem fromInt_agree (n : Int) (h : InRange n) : wasmFromInt n = tsFromInt n := by
  unfold wasmFromInt
  by_cases hmin : n = -2147483648
  · subst hmin; decide
  · rw [if_neg hmin]
    by_cases h0 : n = 0
    · subst h0; decide
    · rw [if_neg h0]
      unfold tsFromInt
      unfold InRange at h
      simp only []
      rw [digitsRev_reverse 11 22 n.natAbs (by omega) (by omega) (by omega)]

example : wasmFromInt (-120) = [45, 49, 50, 48] := by decide

/-! ## 6. `Str.toInt` inverts `Str.fromInt` on both back ends -/

theorem natDigits_digits (f p : Nat) : ∀ c ∈ natDigits f p, 48 ≤ c ∧ c ≤ 57 := by
  induction f generalizing p with
  | zero => intro c hc; simp [natDigits] at hc
  | succ f ih =>
    intro c hc
    simp only [natDigits] at hc
    split at hc
    · simp at hc; omega
    · rcases List.mem_append.mp hc with h | h
      · exact ih _ c h
      · simp at h; omega

theorem natDigits_ne_nil (f p : Nat) : natDigits (f + 1) p ≠ [] := by
  simp only [natDigits]; split <;> simp

/-- exact (unwrapped) value accumulated by the digit loop -/
def accVal : List Nat → Int → Int
  | [], acc => acc
  | c :: r, acc => accVal r (acc * 10 + (c - 48))

theorem accVal_append (l : List Nat) (c : Nat) (acc : Int) :
    accVal (l ++ [c]) acc = accVal l acc * 10 + (c - 48) := by
  induction l generalizing acc with
  | nil => simp [accVal]
  | cons d r ih => simp [accVal, ih]

theorem accVal_natDigits (f p : Nat) (h : p < 10 ^ f) : accVal (natDigits f p) 0 = p := by
  induction f generalizing p with
  | zero => simp at h; subst h; simp [natDigits, accVal]
  | succ f ih =>
    simp only [natDigits]
    split
    · simp [accVal]; omega
    · rename_i h10
      rw [accVal_append, ih (p / 10) (by rw [Nat.pow_succ] at h; omega)]
      omega

/-- the wrapping loop of `$__Str$toInt` computes the exact value modulo 2^32 -/
theorem wasmToIntLoop_spec (ds : List Nat) (hd : ∀ c ∈ ds, 48 ≤ c ∧ c ≤ 57) (acc acc' : Int)
    (ha : acc = wrap32 acc') : wasmToIntLoop ds acc = some (wrap32 (accVal ds acc')) := by
  induction ds generalizing acc acc' with
  | nil => simp [wasmToIntLoop, accVal, ha]
  | cons c r ih =>
    have hc := hd c List.mem_cons_self
    simp only [wasmToIntLoop, accVal]
    rw [if_neg (by omega)]
    apply ih (fun d hd' => hd d (List.mem_cons_of_mem _ hd'))
    subst ha
    unfold wrap32; omega

theorem takeWhile_all (p : Nat → Bool) (l : List Nat) (h : ∀ c ∈ l, p c = true) :
    l.takeWhile p = l := by
  induction l with
  | nil => rfl
  | cons c r ih =>
    simp [List.takeWhile_cons, h c List.mem_cons_self, ih (fun d hd => h d (List.mem_cons_of_mem _ hd))]

theorem decVal_eq (ds : List Nat) (hd : ∀ c ∈ ds, 48 ≤ c ∧ c ≤ 57) (acc : Nat) :
    (decVal ds acc : Int) = accVal ds acc := by
  induction ds generalizing acc with
  | nil => simp [decVal, accVal]
  | cons c r ih =>
    have hc := hd c List.mem_cons_self
    simp only [decVal, accVal]
    rw [ih (fun d hd' => hd d (List.mem_cons_of_mem _ hd'))]
    congr 1
    omega

/-- **`toInt (fromInt n) = n`** in the WebAssembly runtime (including `MIN`, whose digits overflow
the accumulator and wrap back) … -/
theorem wasm_toInt_fromInt (n : Int) (h : InRange n) : wasmToInt (wasmFromInt n) = some n := by
  rw [fromInt_agree n h]
  unfold InRange at h
  unfold tsFromInt
  have hdig := natDigits_digits 22 n.natAbs
  have hval := accVal_natDigits 22 n.natAbs (by omega)
  by_cases hn : n < 0
  · simp only [hn, if_true, List.singleton_append, wasmToInt]
    rw [wasmToIntLoop_spec _ hdig 0 0 (by decide), hval]
    simp only [Option.some.injEq]
    unfold wrap32; omega
  · simp only [hn, if_false, List.nil_append]
    rcases hnd : natDigits 22 n.natAbs with _ | ⟨c, r⟩
    · exact absurd hnd (natDigits_ne_nil 21 _)
    · have hc : 48 ≤ c ∧ c ≤ 57 := hdig c (by rw [hnd]; exact List.mem_cons_self)
      have hne : ¬ c = 45 := by omega
      simp only [wasmToInt, hne, if_false]
      rw [← hnd, wasmToIntLoop_spec _ hdig 0 0 (by decide), hval]
      simp only [Option.some.injEq]
      unfold wrap32; omega

/-- … and with `parseInt(String(n), 10)` in the TypeScript runtime. -/
theorem ts_toInt_fromInt (n : Int) (_h : InRange n) : tsToInt (tsFromInt n) = some n := by
  have hdig := natDigits_digits 22 n.natAbs
  have hall : (natDigits 22 n.natAbs).takeWhile isDigit = natDigits 22 n.natAbs := by
    apply takeWhile_all
    intro c hc
    have := hdig c hc
    simp [isDigit]; omega
  have hval : (decVal (natDigits 22 n.natAbs) 0 : Int) = n.natAbs := by
    rw [decVal_eq _ hdig 0]; exact accVal_natDigits 22 n.natAbs (by unfold InRange at _h; omega)
  have hnn : natDigits 22 n.natAbs ≠ [] := natDigits_ne_nil 21 _
  unfold tsFromInt tsToInt
  by_cases hn : n < 0
  · simp only [hn, if_true, List.singleton_append]
    simp only [List.dropWhile_cons]
    simp [hall, hnn, hval]; omega
  · simp only [hn, if_false, List.nil_append]
    rcases hnd : natDigits 22 n.natAbs with _ | ⟨c, r⟩
    · exact absurd hnd hnn
    · have hc : 48 ≤ c ∧ c ≤ 57 := hdig c (by rw [hnd]; exact List.mem_cons_self)
      have e1 : ¬ (c = 32 ∨ (9 ≤ c ∧ c ≤ 13)) := by omega
      rw [hnd] at hall hval
      simp only [List.dropWhile_cons]
      simp [e1, show c ≠ 45 by omega, show c ≠ 43 by omega, hall, hval]; omega

/-- **`toInt_fromInt`**: both back ends read back every `int` from its own decimal string. -/
theorem toInt_fromInt (n : Int) (h : InRange n) :
    wasmToInt (wasmFromInt n) = some n ∧ tsToInt (tsFromInt n) = some n :=
  ⟨wasm_toInt_fromInt n h, ts_toInt_fromInt n h⟩

example : wasmToInt (wasmFromInt (-120)) = some (-120) := by decide

/-! ## 7. Identity comparisons of references (variant tests) -/

/-- **`ref_eq_agree`** (full strength after fix d380f36; the statement is about the extracted flag
`tsRefCmpStrict`, so reverting the emission to `==` breaks this proof): for all operand values —
numbers/tags, structs, unboxed payloads, vectors, strings — the emitted TypeScript comparison and
WebAssembly's `ref.eq` give the same answer. -/
theorem ref_eq_agree (a b : JsV) (ha : IsRefVal a) (hb : IsRefVal b) :
    tsRefEq a b = wasmRefEq (repOf a) (repOf b) := by
  have hs : tsRefCmpStrict = true := rfl
  unfold tsRefEq
  rw [hs]
  cases a <;> cases b <;> simp_all [IsRefVal, strictEq, wasmRefEq, repOf] <;>
    (rw [Bool.eq_iff_iff]; simp)

/-- Historical counterexample (C04-F8 / C18-F10, fixed): with loose equality an unboxed payload
whose only field is the number 1 equals the tag printed as `1`: `[1] == 1`. -/
theorem loose_eq_counterexample :
    looseEq (.arr 7 [.num 1]) (.num 1) = true ∧ wasmRefEq (repOf (.arr 7 [.num 1])) (repOf (.num 1)) = false := by
  decide

/-- **Exactly where loose equality went wrong**: on operand values, `==` and `===` differ iff one
side is a number and the other an array that coerces to that number. -/
theorem loose_eq_iff (a b : JsV) (ha : IsRefVal a) (hb : IsRefVal b) :
    looseEq a b ≠ strictEq a b ↔
      (∃ n i es, ((a = .num n ∧ b = .arr i es) ∨ (a = .arr i es ∧ b = .num n)) ∧
        primNum (.arr i es) = some n) := by
  cases a with
  | raw s => exact absurd ha (by simp [IsRefVal])
  | num x =>
    cases b with
    | raw s => exact absurd hb (by simp [IsRefVal])
    | num y => simp [looseEq, strictEq]
    | arr j fs =>
      simp only [looseEq, strictEq]
      constructor
      · intro h; exact ⟨x, j, fs, Or.inl ⟨rfl, rfl⟩, by simpa using h⟩
      · rintro ⟨n, i, es, (⟨h1, h2⟩ | ⟨h1, _⟩), hp⟩
        · cases h1; cases h2; simp [hp]
        · cases h1
  | arr i es =>
    cases b with
    | raw s => exact absurd hb (by simp [IsRefVal])
    | arr j fs => simp [looseEq, strictEq]
    | num y =>
      simp only [looseEq, strictEq]
      constructor
      · intro h; exact ⟨y, i, es, Or.inr ⟨rfl, rfl⟩, by simpa using h⟩
      · rintro ⟨n, i', es', (⟨h1, _⟩ | ⟨h1, h2⟩), hp⟩
        · cases h1
        · cases h1; cases h2; simp [hp]

/-- a two-element array (every `_Str`, every struct with ≥ 2 fields) never coerces to a tag -/
theorem loose_eq_safe_two (i : Nat) (e1 e2 : JsV) (es : List JsV) (n : Int) :
    looseEq (.arr i (e1 :: e2 :: es)) (.num n) = false := by
  simp [looseEq, primNum]

end SamVerif.Backends
