import SamVerif.Model.Source
import SamVerif.Lemmas.Source
import SamVerif.Lemmas.SourceRename
/-! Theorems about the reference semantics `SamVerif.Source.eval` (SRC) — the source-level
statements the lowering theorems of C01/C03 and the behaviour clause of C13 refer to.
All statements hold for every program, environment, state and fuel. -/
namespace SamVerif.Source

/-! ## (i) "the outcome" is well defined: fuel monotonicity -/

/-- More fuel never changes a result that is not "out of fuel". -/
theorem eval_fuel_mono (P : Program) {n m : Nat} (h : n ≤ m) (env : Env) (s : St) (e : Expr)
    (r : Res Val) (hr : eval P n env s e = r) (hn : r ≠ .oof) : eval P m env s e = r := by
  subst hr
  exact Res.eq_of_le (eval_le P h env s e) hn

/-- Two fuel values that both suffice give the same result. -/
theorem eval_outcome_unique (P : Program) (n m : Nat) (env : Env) (s : St) (e : Expr)
    (hn : eval P n env s e ≠ .oof) (hm : eval P m env s e ≠ .oof) :
    eval P n env s e = eval P m env s e := by
  cases Nat.le_total n m with
  | inl h => exact (eval_fuel_mono P h env s e _ rfl hn).symm
  | inr h => exact eval_fuel_mono P h env s e _ rfl hm

/-- The same for whole programs: once `Main.main` terminates within the fuel, the outcome
(printed lines, the way it ends, flags) is the same for every larger fuel. -/
theorem run_fuel_mono (P : Program) (entry : String) {n m : Nat} (h : n ≤ m)
    (hn : (run P entry n).end ≠ .oof) : run P entry m = run P entry n := by
  unfold run at *
  have hle := invoke_mono P (eval_le P h) (entry ++ ".Main") "main" .unit [] {}
  cases hle with
  | inl h0 => rw [h0] at hn; exact absurd rfl hn
  | inr h1 => rw [h1]

/-! ## (ii) `match`: first matching arm, exactly the pattern's variables -/

/-- arms before the first matching one are skipped -/
theorem evalCases_skip (ev : Ev) (env : Env) (s : St) (v : Val) :
    ∀ (pre : List (Pat × Expr)) (rest : List (Pat × Expr)),
      (∀ q ∈ pre, matchPat q.1 v = none) →
      evalCases ev env s v (pre ++ rest) = evalCases ev env s v rest := by
  intro pre
  induction pre with
  | nil => intro rest _; rfl
  | cons c pre ih =>
    intro rest h
    obtain ⟨q, qb⟩ := c
    have hq : matchPat q v = none := h (q, qb) (List.mem_cons_self)
    simp only [List.cons_append, evalCases, hq]
    exact ih rest (fun q' hq' => h q' (List.mem_cons_of_mem _ hq'))

/-- **match_first_arm.**  If the scrutinee evaluates to `v`, no pattern of the arms in `pre`
matches `v` and `p` matches with bindings `b`, then the `match` evaluates the body of that arm —
and nothing else — in the environment extended by exactly `b`, starting from the state the
scrutinee left. Arms after it are irrelevant (`post` is arbitrary). -/
theorem match_first_arm (P : Program) (n : Nat) (env : Env) (s s1 : St) (e body : Expr)
    (pre post : List (Pat × Expr)) (p : Pat) (v : Val) (b : Env)
    (he : eval P n env s e = .ok v s1)
    (hpre : ∀ q ∈ pre, matchPat q.1 v = none)
    (hp : matchPat p v = some b) :
    eval P (n + 1) env s (.match e (pre ++ (p, body) :: post)) = eval P n (b ++ env) s1 body := by
  simp only [eval, step, he, Res.bind]
  rw [evalCases_skip _ _ _ _ pre _ hpre]
  simp only [evalCases, hp]

/-- a `match` none of whose patterns matches is stuck (the checker's exhaustiveness, C07, excludes it) -/
theorem match_no_arm (P : Program) (n : Nat) (env : Env) (s s1 : St) (e : Expr)
    (cases : List (Pat × Expr)) (v : Val)
    (he : eval P n env s e = .ok v s1)
    (hall : ∀ q ∈ cases, matchPat q.1 v = none) :
    eval P (n + 1) env s (.match e cases) = stuck "match" s1 := by
  simp only [eval, step, he, Res.bind]
  have := evalCases_skip (eval P n) env s1 v cases [] hall
  simpa [evalCases] using this

/-- all alternatives of an or-pattern bind the variable set `xs` -/
def sameBinds (xs : List String) (ps : List Pat) : Prop :=
  ∀ q ∈ ps, ∀ x, x ∈ Pat.binds q ↔ x ∈ xs

mutual
/-- well-formed pattern: object patterns list one index per sub-pattern; the alternatives of an
or-pattern bind the same variables (§8.9, enforced by the checker) -/
def Pat.wf : Pat → Prop
  | .wild => True
  | .var _ => True
  | .tuple ps => Pat.wfList ps
  | .obj idxs ps => Pat.wfList ps ∧ idxs.length = ps.length
  | .variant _ ps => Pat.wfList ps
  | .or ps => Pat.wfList ps ∧ sameBinds (Pat.bindsHead ps) ps
def Pat.wfList : List Pat → Prop
  | [] => True
  | p :: ps => Pat.wf p ∧ Pat.wfList ps
end

mutual
/-- **A successful match binds exactly the pattern's variables.** -/
theorem matchPat_binds : ∀ (p : Pat) (v : Val) (b : Env), Pat.wf p → matchPat p v = some b →
    ∀ x, x ∈ b.map Prod.fst ↔ x ∈ Pat.binds p
  | .wild, v, b, _, h => by
    simp only [matchPat, Option.some.injEq] at h; subst h; intro x; simp [Pat.binds]
  | .var y, v, b, _, h => by
    simp only [matchPat, Option.some.injEq] at h; subst h; intro x; simp [Pat.binds]
  | .tuple ps, v, b, hw, h => by
    cases v with
    | obj c t fs =>
      simp only [matchPat] at h
      simp only [Pat.wf] at hw
      simpa [Pat.binds] using matchPats_binds ps fs b hw h
    | _ => simp [matchPat] at h
  | .obj idxs ps, v, b, hw, h => by
    cases v with
    | obj c t fs =>
      simp only [matchPat] at h
      simp only [Pat.wf] at hw
      simpa [Pat.binds] using matchFields_binds idxs ps fs b hw.1 hw.2 h
    | _ => simp [matchPat] at h
  | .variant tag ps, v, b, hw, h => by
    cases v with
    | obj c t fs =>
      simp only [matchPat] at h
      simp only [Pat.wf] at hw
      split at h
      · simpa [Pat.binds] using matchPats_binds ps fs b hw h
      · cases h
    | _ => simp [matchPat] at h
  | .or ps, v, b, hw, h => by
    simp only [matchPat] at h
    simp only [Pat.wf] at hw
    simpa [Pat.binds] using matchAlts_binds ps v b (Pat.bindsHead ps) hw.1 hw.2 h
theorem matchPats_binds : ∀ (ps : List Pat) (vs : List Val) (b : Env), Pat.wfList ps →
    matchPats ps vs = some b → ∀ x, x ∈ b.map Prod.fst ↔ x ∈ Pat.bindsList ps
  | [], vs, b, _, h => by
    simp only [matchPats, Option.some.injEq] at h; subst h; intro x; simp [Pat.bindsList]
  | p :: ps, [], b, _, h => by simp [matchPats] at h
  | p :: ps, v :: vs, b, hw, h => by
    simp only [Pat.wfList] at hw
    simp only [matchPats] at h
    split at h
    · cases h
    · rename_i b1 h1
      split at h
      · cases h
      · rename_i b2 h2
        simp only [Option.some.injEq] at h
        subst h
        intro x
        have i1 := matchPat_binds p v b1 hw.1 h1 x
        have i2 := matchPats_binds ps vs b2 hw.2 h2 x
        simp only [Pat.bindsList, List.map_append, List.mem_append]
        rw [i1, i2]
        exact Or.comm
theorem matchFields_binds : ∀ (idxs : List Nat) (ps : List Pat) (fs : List Val) (b : Env),
    Pat.wfList ps → idxs.length = ps.length → matchFields idxs ps fs = some b →
    ∀ x, x ∈ b.map Prod.fst ↔ x ∈ Pat.bindsList ps
  | [], [], fs, b, _, _, h => by
    simp only [matchFields, Option.some.injEq] at h; subst h; intro x; simp [Pat.bindsList]
  | [], _ :: _, fs, b, _, hl, _ => by simp at hl
  | _ :: _, [], fs, b, _, hl, _ => by simp at hl
  | i :: idxs, p :: ps, fs, b, hw, hl, h => by
    simp only [Pat.wfList] at hw
    simp only [List.length_cons, Nat.add_right_cancel_iff] at hl
    simp only [matchFields] at h
    split at h
    · cases h
    · rename_i v hv
      split at h
      · cases h
      · rename_i b1 h1
        split at h
        · cases h
        · rename_i b2 h2
          simp only [Option.some.injEq] at h
          subst h
          intro x
          have i1 := matchPat_binds p v b1 hw.1 h1 x
          have i2 := matchFields_binds idxs ps fs b2 hw.2 hl h2 x
          simp only [Pat.bindsList, List.map_append, List.mem_append]
          rw [i1, i2]
          exact Or.comm
theorem matchAlts_binds : ∀ (ps : List Pat) (v : Val) (b : Env) (xs : List String),
    Pat.wfList ps → sameBinds xs ps → matchAlts ps v = some b →
    ∀ x, x ∈ b.map Prod.fst ↔ x ∈ xs
  | [], v, b, xs, _, _, h => by simp [matchAlts] at h
  | p :: ps, v, b, xs, hw, hs, h => by
    simp only [Pat.wfList] at hw
    simp only [matchAlts] at h
    split at h
    · rename_i b1 h1
      simp only [Option.some.injEq] at h
      subst h
      intro x
      rw [matchPat_binds p v b1 hw.1 h1 x]
      exact hs p List.mem_cons_self x
    · exact matchAlts_binds ps v b xs hw.2 (fun q hq => hs q (List.mem_cons_of_mem _ hq)) h
end

/-- an or-pattern takes the bindings of its first matching alternative (§8.9) -/
theorem or_first_alternative (pre post : List Pat) (p : Pat) (v : Val) (b : Env)
    (hpre : ∀ q ∈ pre, matchPat q v = none) (hp : matchPat p v = some b) :
    matchPat (.or (pre ++ p :: post)) v = some b := by
  simp only [matchPat]
  induction pre with
  | nil => simp [matchAlts, hp]
  | cons q pre ih =>
    have hq : matchPat q v = none := hpre q List.mem_cons_self
    simp only [List.cons_append, matchAlts, hq]
    exact ih (fun q' hq' => hpre q' (List.mem_cons_of_mem _ hq'))

/-! ## (iii) `&&` / `||` short-circuit -/

/-- `false && e2`: the result — value *and* state — is fixed by `e1` alone, for every evaluator
used for sub-expressions: `e2` is not evaluated (it may print, panic or diverge). -/
theorem and_short_circuit_step (P : Program) (ev : Ev) (env : Env) (s s1 : St) (e1 e2 : Expr)
    (h : ev env s e1 = .ok (.bool false) s1) :
    step P ev env s (.binary .and e1 e2) = .ok (.bool false) s1 := by
  simp only [step, h, Res.bind]

theorem or_short_circuit_step (P : Program) (ev : Ev) (env : Env) (s s1 : St) (e1 e2 : Expr)
    (h : ev env s e1 = .ok (.bool true) s1) :
    step P ev env s (.binary .or e1 e2) = .ok (.bool true) s1 := by
  simp only [step, h, Res.bind]

/-- **andor_short_circuit.** -/
theorem andor_short_circuit (P : Program) (n : Nat) (env : Env) (s s1 : St) (e1 : Expr) :
    (eval P n env s e1 = .ok (.bool false) s1 →
      ∀ e2, eval P (n + 1) env s (.binary .and e1 e2) = .ok (.bool false) s1) ∧
    (eval P n env s e1 = .ok (.bool true) s1 →
      ∀ e2, eval P (n + 1) env s (.binary .or e1 e2) = .ok (.bool true) s1) :=
  ⟨fun h e2 => and_short_circuit_step P (eval P n) env s s1 e1 e2 h,
   fun h e2 => or_short_circuit_step P (eval P n) env s s1 e1 e2 h⟩

/-- the other half: `true && e2` / `false || e2` is `e2`, evaluated in the state `e1` left -/
theorem andor_evaluates_right (P : Program) (n : Nat) (env : Env) (s s1 s2 : St) (e1 e2 : Expr)
    (b : Bool) :
    (eval P n env s e1 = .ok (.bool true) s1 → eval P n env s1 e2 = .ok (.bool b) s2 →
      eval P (n + 1) env s (.binary .and e1 e2) = .ok (.bool b) s2) ∧
    (eval P n env s e1 = .ok (.bool false) s1 → eval P n env s1 e2 = .ok (.bool b) s2 →
      eval P (n + 1) env s (.binary .or e1 e2) = .ok (.bool b) s2) := by
  constructor <;> intro h1 h2 <;> simp only [eval, step, h1, h2, Res.bind]

/-! ## evaluation order (§6.15) -/

/-- a binary operator evaluates its left operand first: if it panics, the right one is not run -/
theorem binary_left_first (P : Program) (n : Nat) (env : Env) (s s1 : St) (op : BinOp)
    (e1 e2 : Expr) (msg : String) (h : eval P n env s e1 = .panic msg s1) :
    eval P (n + 1) env s (.binary op e1 e2) = .panic msg s1 := by
  cases op <;> simp only [eval, step, h, Res.bind]

/-- arguments are evaluated left to right, each in the state its predecessor left -/
theorem evalList_cons (ev : Ev) (env : Env) (s s1 s2 : St) (e : Expr) (es : List Expr) (v : Val)
    (vs : List Val) (h1 : ev env s e = .ok v s1) (h2 : evalList ev env s1 es = .ok vs s2) :
    evalList ev env s (e :: es) = .ok (v :: vs) s2 := by
  simp only [evalList, h1, h2, Res.bind]

/-! ## (iv) alpha-invariance (the behaviour clause of C13 at the level of the reference semantics) -/

/-- Evaluation commutes with consistent renaming: for an injective `ρ` that fixes `this`,
evaluating the renamed expression in the renamed environment / state / program gives the renamed
result (closures inside values carry renamed code; everything observable is untouched). -/
theorem alpha_invariant_eval {ρ : String → String} (hinj : ∀ a b, ρ a = ρ b → a = b)
    (hthis : ρ "this" = "this") (P : Program) (n : Nat) (env : Env) (s : St) (e : Expr) :
    eval (P.ren ρ) n (Val.renEnv ρ env) (s.ren ρ) (Expr.ren ρ e) =
      (eval P n env s e).ren (Val.ren ρ) ρ :=
  eval_ren hinj hthis P n env s e

/-- **alpha_invariant.**  Renaming the parameters and local variables of a program consistently
by any injective map on names that fixes `this` does not change its outcome: same printed lines,
same way of ending (incl. the panic message), same flags, for every fuel. -/
theorem alpha_invariant {ρ : String → String} (hinj : ∀ a b, ρ a = ρ b → a = b)
    (hthis : ρ "this" = "this") (P : Program) (entry : String) (fuel : Nat) :
    run (P.ren ρ) entry fuel = run P entry fuel := by
  unfold run
  have h := invoke_ren hthis P (eval_ren hinj hthis P fuel) (entry ++ ".Main") "main" .unit [] {}
  have hs : St.ren ρ {} = {} := by simp [St.ren]
  simp only [Val.ren, Val.renList, hs] at h
  rw [h, outcomeOf_ren]

/-- exchange of two names -/
def swapName (x y : String) : String → String :=
  fun z => if z = x then y else if z = y then x else z

theorem swapName_injective (x y : String) : ∀ a b, swapName x y a = swapName x y b → a = b := by
  intro a b h
  simp only [swapName] at h
  split at h <;> split at h <;> (try split at h) <;> (try split at h) <;> simp_all

/-- Renaming one variable name `x` to a name `y` (where `y` does not occur, `swapName x y` replaces
`x` by `y` and changes nothing else) preserves the outcome. -/
theorem alpha_invariant_rename (x y : String) (hx : x ≠ "this") (hy : y ≠ "this")
    (P : Program) (entry : String) (fuel : Nat) :
    run (P.ren (swapName x y)) entry fuel = run P entry fuel := by
  apply alpha_invariant (swapName_injective x y)
  simp only [swapName]
  split
  · rename_i h; exact absurd h.symm hx
  · split
    · rename_i h; exact absurd h.symm hy
    · rfl

/-! ## Non-vacuity: the model computes -/

section Examples

/-- `class Opt(No, So(int)) {}`, `class Main { function f(o) = match o { No -> 0, So(x) | .. } }` -/
def exProgram : Program where
  classOf := fun c =>
    if c == "M.Opt" then some ⟨"M.Opt", .enum [("No", 0), ("So", 1)], []⟩
    else if c == "M.Main" then some ⟨"M.Main", .none,
      [⟨"get", false, ["o", "d"],
          .match (.var "o") [(.variant 0 [], .var "d"), (.variant 1 [.var "x"], .var "x")]⟩,
       ⟨"main", false, [],
          .block [(.var "r", .call (.method (.cls "M.Main") "get" (.classId "M.Main"))
                      [.call (.method (.cls "M.Opt") "So" (.classId "M.Opt")) [.int 41], .int 7])]
            (some (.call (.method (.cls "Process") "println" (.classId "Process"))
              [.call (.method (.cls "Str") "fromInt" (.classId "Str"))
                 [.binary .add (.var "r") (.int 1)]]))⟩]⟩
    else none

example : run exProgram "M" 20 = ⟨["42"], .ok, {}⟩ := by decide
example : (run exProgram "M" 3).end = .oof := by decide
-- hypotheses of `run_fuel_mono` are satisfiable
example : (run exProgram "M" 20).end ≠ .oof := by decide

-- `match_first_arm` instantiated: second arm selected, binds exactly `x`
example : matchPat (.variant 0 []) (.obj "M.Opt" 1 [.int 41]) = none := by decide
example : (matchPat (.variant 1 [.var "x"]) (.obj "M.Opt" 1 [.int 41])).map (·.map Prod.fst) =
    some ["x"] := by decide
example : Pat.wf (.or [.variant 0 [.var "a", .wild], .variant 1 [.var "a"]]) := by
  simp [Pat.wf, Pat.wfList, sameBinds, Pat.bindsHead, Pat.binds, Pat.bindsList]

-- short circuit: the right operand would panic
example : eval exProgram 5 [] {} (.binary .and (.bool false)
    (.call (.method (.cls "Process") "panic" (.classId "Process")) [.str "boom"])) =
    .ok (.bool false) {} := by rfl
example : (outcomeOf (eval exProgram 9 [] {} (.binary .and (.bool true)
    (.call (.method (.cls "Process") "panic" (.classId "Process")) [.str "boom"])))).end =
    .panic "boom" := by decide

-- 32-bit arithmetic: overflow wraps and is flagged; division by zero traps
example : (outcomeOf (eval exProgram 3 [] {} (.binary .add (.int 2147483647) (.int 1)))).flags.ovf =
    true := by decide
example : (outcomeOf (eval exProgram 3 [] {} (.binary .div (.int 1) (.int 0)))).end = .trap "div0" := by
  decide
example : unescape "a\\n\\\\b" = "a\n\\b" := by decide

-- alpha_invariant instantiated: `x` of `Main.get` renamed to `z`; the renamed program is a different text
example : run (exProgram.ren (swapName "x" "z")) "M" 20 = ⟨["42"], .ok, {}⟩ := by decide
example : Expr.ren (swapName "x" "z") (.lam ["x"] (.binary .add (.var "x") (.var "d"))) =
    .lam ["z"] (.binary .add (.var "z") (.var "d")) := by
  simp [Expr.ren, swapName]

end Examples

end SamVerif.Source
