import SamVerif.Model.BackendsNames
/-!
# C04 (continued) — variable names that are special in JavaScript
-/
namespace SamVerif.Backends

/-- **Every JavaScript-special word that samlang accepts as an identifier is mangled** by the
TypeScript printer (proved by evaluation over the table regenerated from `lir.rs`; a word missing
from `TS_RESERVED_WORDS` makes this proof fail with that word as the witness). The statement is
about membership in the table: the lookup `push_variable_name` performs (`contains`) is pinned by
the translator and exercised by the `resv` correspondence family, not by this theorem. -/
theorem reserved_covered : ∀ w ∈ esWords, isSamIdent w = true → mangle w = 36 :: w := by decide

/-- the words this is about (non-vacuity): 31 of the 48 special words are legal samlang identifiers -/
example : (esWords.filter isSamIdent).length = 31 := by decide

/-- a mangled name is never another samlang identifier (`$` is not an identifier character), and
mangling is injective, so two different variables never get the same TypeScript name -/
theorem mangle_injective (w v : List UInt8) (hw : isSamIdent w = true) (hv : isSamIdent v = true)
    (h : mangle w = mangle v) : w = v := by
  unfold mangle at h
  have first : ∀ u : List UInt8, isSamIdent u = true → u.head? ≠ some 36 := by
    intro u hu
    cases u with
    | nil => simp
    | cons c r =>
      simp only [isSamIdent, Bool.and_eq_true] at hu
      have := hu.1.1
      simp only [isLower, Bool.and_eq_true, decide_eq_true_eq] at this
      intro e; simp at e; subst e
      exact absurd this.1 (by decide)
  by_cases h1 : tsReservedWords.contains w = true <;> by_cases h2 : tsReservedWords.contains v = true <;>
    simp only [h1, h2, if_true, if_false, Bool.false_eq_true] at h
  · exact (List.cons.inj h).2
  · exact absurd (by rw [← h]; rfl) (first v hv)
  · exact absurd (by rw [h]; rfl) (first w hw)
  · exact h

end SamVerif.Backends
