import SamVerif.Lemmas.StdMapOps
import SamVerif.Lemmas.StdSet
import SamVerif.Model.StdList
import SamVerif.Model.StdAux
/-!
# C18 — Standard-library collections behave like finite maps, sets and sequences

Property theorems only.  Models: `Model/StdMap.lean`, `Model/StdSet.lean`, `Model/StdList.lean`
(transcriptions of `std/map.sam`, `std/set.sam`, `std/list.sam`); helper lemmas (balance arithmetic,
`balanced_spec`, `insert_spec`) in `Lemmas/StdMap.lean`.  The models are tied to the std sources by
the `stdops` correspondence (generated samlang driver programs compiled by the real compiler and run
as wasm/TS vs `Driver/C18.lean`), which compares complete tree shapes after every operation.

The std code as first read falsified the statements for `max`, `exists`, `remove` (Map and Set),
`Set.diff`, `Map.merge`, `Map.customizedUnion/union` (findings C18-F1 … F7); they were repaired by
`fix:` commits in /repo, the models follow the fixed code, and the former `…_counterexample` /
`…_partial` pairs are replaced by the full-strength theorems below.
-/

/-! ## Sequences: every `List` method equals the corresponding operation on a mathematical sequence -/
namespace SamVerif.StdList
variable {T R A : Type}

theorem fold_refines (f : A → T → A) (l : SList T) (a : A) : fold f l a = (toList l).foldl f a := by
  induction l generalizing a with
  | nil => rfl
  | cons v rest ih => simp [fold, toList, ih]

theorem foldRight_refines (f : T → A → A) (l : SList T) (i : A) :
    foldRight f l i = (toList l).foldr f i := by
  induction l with
  | nil => rfl
  | cons v rest ih => simp [foldRight, toList, ih]

theorem length_refines (l : SList T) : length l = ((toList l).length : Int) := by
  have h : ∀ (l : SList T) (a : Int), fold (fun acc _ => acc + 1) l a = a + (toList l).length := by
    intro l
    induction l with
    | nil => intro a; simp [fold, toList]
    | cons v rest ih => intro a; simp [fold, toList, ih]; oo
  simp [length, h]

theorem filter_refines (f : T → Bool) (l : SList T) : toList (filter f l) = (toList l).filter f := by
  induction l with
  | nil => rfl
  | cons v rest ih => simp only [filter, toList, List.filter_cons]; split <;> simp [toList, ih]

theorem map_refines (f : T → R) (l : SList T) : toList (map f l) = (toList l).map f := by
  induction l with
  | nil => rfl
  | cons v rest ih => simp [map, toList, ih]

theorem filterMap_refines (f : T → Option R) (l : SList T) :
    toList (filterMap f l) = (toList l).filterMap f := by
  induction l with
  | nil => rfl
  | cons v rest ih =>
    simp only [filterMap, toList, List.filterMap_cons]
    split <;> simp_all [toList]

theorem append_refines (a b : SList T) : toList (append a b) = toList a ++ toList b := by
  unfold append
  induction a with
  | nil => rfl
  | cons v rest ih => simp [foldRight, toList, ih]

theorem reverseAndAppend_refines (a b : SList T) :
    toList (reverseAndAppend a b) = (toList a).reverse ++ toList b := by
  unfold reverseAndAppend
  induction a generalizing b with
  | nil => rfl
  | cons v rest ih => simp [fold, toList, ih]

theorem reverse_refines (l : SList T) : toList (reverse l) = (toList l).reverse := by
  have h : ∀ (l acc : SList T), toList (reverseWithAccumulator l acc) = (toList l).reverse ++ toList acc := by
    intro l
    induction l with
    | nil => intro acc; rfl
    | cons v rest ih => intro acc; simp [reverseWithAccumulator, toList, ih]
  simp [reverse, h, toList]

theorem contains_refines (x : T) (eq : T → T → Bool) (l : SList T) :
    contains x eq l = (toList l).any (fun v => eq x v) := by
  induction l with
  | nil => rfl
  | cons v rest ih => simp [contains, toList, ih]

theorem forAll_refines (f : T → Bool) (l : SList T) : forAll f l = (toList l).all f := by
  induction l with
  | nil => rfl
  | cons v rest ih => simp [forAll, toList, ih]

theorem exists_refines (f : T → Bool) (l : SList T) : «exists» f l = (toList l).any f := by
  induction l with
  | nil => rfl
  | cons v rest ih => simp [«exists», toList, ih]

theorem find_refines (f : T → Bool) (l : SList T) : find f l = (toList l).find? f := by
  induction l with
  | nil => rfl
  | cons v rest ih => simp only [find, toList, List.find?_cons]; split <;> simp_all

theorem findMap_refines (f : T → Option R) (l : SList T) : findMap f l = (toList l).findSome? f := by
  induction l with
  | nil => rfl
  | cons v rest ih => simp only [findMap, toList, List.findSome?_cons]; split <;> simp_all

theorem bind_refines (f : T → SList R) (l : SList T) :
    toList (bind f l) = (toList l).flatMap (fun x => toList (f x)) := by
  unfold bind
  induction l with
  | nil => rfl
  | cons v rest ih => simp [foldRight, toList, append_refines, ih]

theorem flatten_refines (l : SList (SList T)) :
    toList (flatten l) = ((toList l).map toList).flatten := by
  unfold flatten
  induction l with
  | nil => rfl
  | cons v rest ih => simp [foldRight, toList, append_refines, ih]

theorem first_refines (l : SList T) : first l = (toList l).head? := by cases l <;> rfl

theorem rest_refines (l : SList T) : (rest l).map toList = (toList l).tail? := by cases l <;> rfl

theorem isEmpty_refines (l : SList T) : isEmpty l = (toList l).isEmpty := by cases l <;> rfl
end SamVerif.StdList

/-! ## Finite maps -/
namespace SamVerif.StdMap
set_option linter.unusedSectionVars false
variable {K V : Type} [DecidableEq K] [DecidableEq V] [LE K] [LT K] [Std.IsLinearOrder K] [Std.LawfulOrderLT K] [DecidableLT K]

/-- a tree satisfies the representation invariant -/
def Inv (t : Tree K V) : Prop := Bal t ∧ Ordered t

/-- `size` is the number of bindings. -/
theorem map_size_refines (t : Tree K V) : size t = ((abs t).length : Int) := size_refines t
/-- `entries` / `keys` enumerate the bindings in order (conversion to lists). -/
theorem map_entries_refines (t : Tree K V) : entries t = abs t := entries_refines t
theorem map_keys_refines (t : Tree K V) : keys t = (abs t).map Prod.fst := keys_refines t
/-- the enumeration is strictly ascending in the key order -/
theorem map_entries_sorted (t : Tree K V) (h : Inv t) :
    (entries t).Pairwise (fun a b => a.1 < b.1) := by
  rw [entries_refines]; exact h.2
/-- `fold` is a left fold over the ascending enumeration. -/
theorem map_fold_refines {A : Type} (f : A → K → V → A) (t : Tree K V) (a : A) :
    fold f t a = (abs t).foldl (fun acc kv => f acc kv.1 kv.2) a := fold_refines f t a
theorem map_forAll_refines (f : K → V → Bool) (t : Tree K V) :
    forAll f t = (abs t).all (fun kv => f kv.1 kv.2) := forAll_refines f t
/-- `min` is the first binding of the enumeration. -/
theorem map_min_refines (t : Tree K V) : min t = (abs t).head? := min_refines t
theorem map_mapValues_refines (f : K → V → V) (t : Tree K V) :
    abs (mapValues f t) = (abs t).map (fun kv => (kv.1, f kv.1 kv.2)) := mapValues_refines f t

/-- **`balanced` never reaches `Process.panic("Bad tree")`** on invariant-satisfying arguments whose
heights differ by at most 3, keeps the enumeration, and restores balance. -/
theorem balanced_preserves (l r : Tree K V) (k : K) (v : V) (hl : Bal l) (hr : Bal r)
    (h1 : height l ≤ height r + 3) (h2 : height r ≤ height l + 3) :
    ∃ t, balanced l k v r = some t ∧ Bal t ∧ abs t = abs l ++ (k, v) :: abs r := by
  obtain ⟨t, e, b, a, _⟩ := balanced_spec l r k v hl hr h1 h2
  exact ⟨t, e, b, a⟩

/-- within the tolerated imbalance (≤ 2) `balanced` does not rotate at all -/
theorem map_balanced_no_rotation (l r : Tree K V) (k : K) (v : V) (h1 : height l ≤ height r + 2)
    (h2 : height r ≤ height l + 2) : balanced l k v r = some (create l k v r) := by
  have c1 : ¬ height l > height r + 2 := by omega
  have c2 : ¬ height r > height l + 2 := by omega
  simp [balanced, c1, c2]

/-- **`insert` refines finite-map update**: on every invariant-satisfying tree, for every total
order `cmp`, `insert` does not panic, re-establishes the invariant, and the resulting finite map
is `m[k ↦ v]`. -/
theorem insert_refines {cmp : K → K → Int} (hc : Lawful cmp) (t : Tree K V)
    (k : K) (v : V) (hi : Inv t) :
    ∃ t', insert cmp t k v = some t' ∧ Inv t' ∧
      ∀ p, p ∈ abs t' ↔ (p = (k, v) ∨ (p ∈ abs t ∧ p.1 ≠ k)) := by
  obtain ⟨t', e, b, o, m, _⟩ := insert_spec hc t k v hi.1 hi.2
  exact ⟨t', e, ⟨b, o⟩, m⟩

/-- **`get` refines finite-map lookup.** -/
theorem get_refines {cmp : K → K → Int} (hc : Lawful cmp) (t : Tree K V)
    (ho : Ordered t) (q : K) (w : V) : get cmp t q = some w ↔ (q, w) ∈ abs t := get_mem hc t ho q w

/-- lookup after insert (finite-map law) -/
theorem get_insert {cmp : K → K → Int} (hc : Lawful cmp) (t t' : Tree K V)
    (k : K) (v : V) (hi : Inv t) (e : insert cmp t k v = some t') (q : K) :
    get cmp t' q = if q = k then some v else get cmp t q := by
  obtain ⟨t'', e', hi', m⟩ := insert_refines hc t k v hi
  rw [e] at e'; cases e'
  apply Option.ext
  intro w
  rw [get_refines hc t' hi'.2 q w, m]
  by_cases c : q = k
  · subst c; simp; exact eq_comm
  · simp only [c, if_false, get_refines hc t hi.2 q w]; simp [c]

/-- a history of inserts -/
def runIns (cmp : K → K → Int) : Tree K V → List (K × V) → Option (Tree K V)
  | t, [] => some t
  | t, (k, v) :: ops =>
    match insert cmp t k v with
    | none => none
    | some t' => runIns cmp t' ops

/-- the same history on a mathematical finite map `K → Option V` -/
def specIns (m : K → Option V) : List (K × V) → K → Option V
  | [], q => m q
  | (k, v) :: ops, q => specIns (fun x => if x = k then some v else m x) ops q

/-- **Histories**: every finite sequence of inserts, of any length, from any invariant-satisfying
tree (in particular `empty`) never panics, keeps the invariant, and every lookup afterwards equals
the lookup in the finite map obtained by the same sequence of updates. -/
theorem insert_history_refines {cmp : K → K → Int} (hc : Lawful cmp)
    (ops : List (K × V)) (t : Tree K V) (hi : Inv t) :
    ∃ t', runIns cmp t ops = some t' ∧ Inv t' ∧ ∀ q, get cmp t' q = specIns (get cmp t) ops q := by
  induction ops generalizing t with
  | nil => exact ⟨t, rfl, hi, fun _ => rfl⟩
  | cons op ops ih =>
    obtain ⟨k, v⟩ := op
    obtain ⟨t1, e, hi1, _⟩ := insert_refines hc t k v hi
    obtain ⟨t2, e2, hi2, g⟩ := ih t1 hi1
    refine ⟨t2, by simp [runIns, e, e2], hi2, ?_⟩
    intro q
    rw [g q]
    simp only [specIns]
    congr 1
    funext x
    exact get_insert hc t t1 k v hi e x

theorem inv_empty : Inv (Tree.empty : Tree K V) := by
  simp [Inv, Bal, Ordered, abs]

/-- **`update`**: never panics, keeps the invariant, and is the finite-map update
`m[k ↦ g (m k)]` (binding removed when `g` answers `None`). -/
theorem update_refines {cmp : K → K → Int} (hc : Lawful cmp)
    (g : Option V → Option V) (t : Tree K V) (k : K) (hi : Inv t) :
    ∃ t', update cmp g t k = some t' ∧ Inv t' ∧
      ∀ q, get cmp t' q = if q = k then g (get cmp t k) else get cmp t q := by
  obtain ⟨t', e, b, o, gg⟩ := get_update hc g t k hi.1 hi.2
  exact ⟨t', e, ⟨b, o⟩, gg⟩

/-- **`customizedUnion`, total and fuel-free in effect**: any fuel above the sum of the sizes
suffices (the fuelled model never runs out), no panic, invariant kept, and lookups are the
pointwise `unionWith f`. -/
theorem customizedUnion_refines {cmp : K → K → Int} (hc : Lawful cmp)
    (f : K → V → V → Option V) (fuel : Nat) (a b : Tree K V) (ha : Inv a) (hb : Inv b)
    (hf : (abs a).length + (abs b).length < fuel) :
    ∃ t, customizedUnion cmp f fuel a b = some (some t) ∧ Inv t ∧
      ∀ q, get cmp t q = unionWith f q (get cmp a q) (get cmp b q) := by
  obtain ⟨t, e, b', o, g⟩ := customizedUnion_spec hc f fuel a b ha.1 ha.2 hb.1 hb.2 hf
  exact ⟨t, e, ⟨b', o⟩, g⟩

/-- **`union`** keeps the receiver's value on common keys. -/
theorem union_refines {cmp : K → K → Int} (hc : Lawful cmp) (fuel : Nat)
    (a b : Tree K V) (ha : Inv a) (hb : Inv b) (hf : (abs a).length + (abs b).length < fuel) :
    ∃ t, union cmp fuel a b = some (some t) ∧ Inv t ∧
      ∀ q, get cmp t q = match get cmp a q with
        | some x => some x
        | none => get cmp b q := by
  obtain ⟨t, e, i, g⟩ := customizedUnion_refines hc (fun _ v1 _ => some v1) fuel a b ha hb hf
  refine ⟨t, e, i, fun q => ?_⟩
  rw [g q]
  cases get cmp a q <;> cases get cmp b q <;> rfl

/-- **`merge`, total**: `f` decides every key bound on at least one side. -/
theorem merge_refines {cmp : K → K → Int} (hc : Lawful cmp)
    (f : K → Option V → Option V → Option V) (fuel : Nat) (a b : Tree K V) (ha : Inv a)
    (hb : Inv b) (hf : (abs a).length + (abs b).length < fuel) :
    ∃ t, merge cmp f fuel a b = some (some t) ∧ Inv t ∧
      ∀ q, get cmp t q = mergeWith f q (get cmp a q) (get cmp b q) := by
  obtain ⟨t, e, b', o, g⟩ := merge_spec hc f fuel a b ha.1 ha.2 hb.1 hb.2 hf
  exact ⟨t, e, ⟨b', o⟩, g⟩

/-! ### Fuel-free statements

`customizedUnionF` / `mergeF` compute their own fuel from the operands, so they are ordinary total
functions of the two maps; and the fuelled `customizedUnion` does not depend on its fuel once it is
above the operand sizes (more fuel never changes an answer: `customizedUnion_mono`). -/

/-- **`customizedUnion`, fuel-free**: no fuel hypothesis at all. -/
theorem customizedUnionF_refines {cmp : K → K → Int} (hc : Lawful cmp) (f : K → V → V → Option V)
    (a b : Tree K V) (ha : Inv a) (hb : Inv b) :
    ∃ t, customizedUnionF cmp f a b = some t ∧ Inv t ∧
      ∀ q, get cmp t q = unionWith f q (get cmp a q) (get cmp b q) := by
  obtain ⟨t, e, i, g⟩ := customizedUnion_refines hc f _ a b ha hb (Nat.lt_succ_self _)
  exact ⟨t, by simp [customizedUnionF, e], i, g⟩

/-- the fuelled function agrees with the fuel-free one for EVERY sufficient fuel (so the fuel is
not an observable parameter of the model) -/
theorem customizedUnion_fuel_irrelevant {cmp : K → K → Int} (hc : Lawful cmp)
    (f : K → V → V → Option V) (fuel : Nat) (a b : Tree K V) (ha : Inv a) (hb : Inv b)
    (hf : (abs a).length + (abs b).length < fuel) :
    customizedUnion cmp f fuel a b = some (customizedUnionF cmp f a b) := by
  obtain ⟨t, e, _, _⟩ := customizedUnion_refines hc f _ a b ha hb (Nat.lt_succ_self _)
  have := customizedUnion_mono_le cmp f _ fuel (by omega) a b _ e
  rw [this]; simp [customizedUnionF, e]

/-- **`merge`, fuel-free** -/
theorem mergeF_refines {cmp : K → K → Int} (hc : Lawful cmp) (f : K → Option V → Option V → Option V)
    (a b : Tree K V) (ha : Inv a) (hb : Inv b) :
    ∃ t, mergeF cmp f a b = some t ∧ Inv t ∧
      ∀ q, get cmp t q = mergeWith f q (get cmp a q) (get cmp b q) := by
  obtain ⟨t, e, i, g⟩ := merge_refines hc f _ a b ha hb (Nat.lt_succ_self _)
  exact ⟨t, by simp [mergeF, e], i, g⟩

/-! ### Boundaries of the comparisons inside `join` / `create`

`join` hands `create` only subtrees whose heights differ by at most 2 and `balanced` only subtrees
whose heights differ by at most 3 (that is how `join_spec` discharges the preconditions of
`create_spec` / `balanced_spec`).  Both bounds are tight: -/

/-- two `Node`s within the tolerated imbalance are joined without any rotation -/
theorem join_no_rotation (lh : Int) (lk : K) (lv : V) (ll lr : Tree K V) (k : K) (v : V)
    (rh : Int) (rk : K) (rv : V) (rl rr : Tree K V) (h1 : lh ≤ rh + 2) (h2 : rh ≤ lh + 2) :
    join (.node lh lk lv ll lr) k v (.node rh rk rv rl rr) =
      some (create (.node lh lk lv ll lr) k v (.node rh rk rv rl rr)) := by
  have c1 : ¬ lh > rh + 2 := by omega
  have c2 : ¬ rh > lh + 2 := by omega
  rw [join]; simp [c1, c2]

/-- `create` must not be given an imbalance of 3: the result would violate the height invariant
(so a `join` whose test were `lh > rh + 3` would be wrong) -/
theorem create_boundary_counterexample :
    ∃ l r : Tree Int Int, Bal l ∧ Bal r ∧ height l = height r + 3 ∧ ¬ Bal (create l 9 0 r) :=
  ⟨.node 3 2 0 (.node 2 1 0 (.leaf 0 0) .empty) (.leaf 3 0), .empty, by simp [Bal], by simp [Bal], rfl,
    by simp [create, Bal]⟩

/-- the same boundary for `balanced`: rotating already at imbalance 2 (`lh ≥ rh + 2`) panics on a
balanced right-leaning two-element left subtree -/
def balancedGe (l : Tree K V) (k : K) (v : V) (r : Tree K V) : Option (Tree K V) :=
  if height l ≥ height r + 2 then
    match l with
    | .node _ lk lv ll lr =>
      if height ll ≥ height lr then some (mkNode ll lk lv (create lr k v r))
      else
        match lr with
        | .node _ lrk lrv lrl lrr => some (mkNode (create ll lk lv lrl) lrk lrv (create lrr k v r))
        | _ => none
    | _ => none
  else balanced l k v r

theorem map_balanced_boundary_counterexample :
    ∃ l : Tree Int Int, Bal l ∧ height l = 2 ∧ balancedGe l 9 0 .empty = none ∧
      balanced l 9 0 .empty = some (.node 3 9 0 l .empty) :=
  ⟨.node 2 2 0 .empty (.leaf 3 0), by simp [Bal], rfl, by decide, by decide⟩

/-- **ordered traversal**: `iter` calls the callback on the bindings in ascending key order;
`compare` is the lexicographic comparison and `equal` the pointwise equality of the two ascending
enumerations (the traversal through `NodeEnumerationHelper` delivers exactly `abs`). -/
theorem map_iter_refines {σ : Type} (f : K → V → σ → σ) (t : Tree K V) (s : σ) :
    iter f t s = (abs t).foldl (fun s kv => f kv.1 kv.2 s) s := iter_refines f t s

theorem map_compare_refines (cmp : K → K → Int) (f : V → V → Int) (a b : Tree K V) :
    compare cmp f a b = lexCmp cmp f (abs a) (abs b) := compare_refines cmp f a b

theorem map_equal_refines (cmp : K → K → Int) (f : V → V → Bool) (a b : Tree K V) :
    equal cmp f a b = eqList cmp f (abs a) (abs b) := equal_refines cmp f a b

/-- with a lawful compare and a faithful value test, `equal` decides equality of the finite maps -/
theorem map_equal_iff {cmp : K → K → Int} (hc : Lawful cmp) (f : V → V → Bool)
    (hf : ∀ x y, f x y = true ↔ x = y) (a b : Tree K V) : equal cmp f a b = true ↔ abs a = abs b := by
  rw [equal_refines]; exact eqList_iff hc f hf _ _

theorem map_minKey_refines (t : Tree K V) : minKey t = ((abs t).head?).map (·.1) := minKey_refines t
theorem map_maxKey_refines (t : Tree K V) : maxKey t = ((abs t).getLast?).map (·.1) := maxKey_refines t

/-- **`ops_refine` (maps)**: every finite history, of any length, mixing `insert`, `remove`, `update`,
`filter`, `partition` (either component), `split` (either side), `map`, `customizedUnion`, `union`
and `merge` (the last three with internally computed fuel, i.e. fuel-free), over any number of map
registers that start in states representing finite maps `ms i` (e.g. all `empty`), never panics,
keeps the representation invariant in every register, and ends in states representing exactly the
finite maps obtained by running the same history on mathematical finite maps `K → Option V`. -/
theorem ops_refine {cmp : K → K → Int} (hc : Lawful cmp)
    (ops : List (MOp K V)) (regs : Nat → Tree K V) (ms : Nat → K → Option V)
    (h : ∀ i, Rel (regs i) (ms i)) :
    ∃ regs', runOps cmp regs ops = some regs' ∧ ∀ i, Rel (regs' i) (specOps ms ops i) :=
  ops_refine_lemma hc ops regs ms h

/-- lookups after any such history from all-empty registers equal the specification's lookups -/
theorem ops_refine_get {cmp : K → K → Int} (hc : Lawful cmp)
    (ops : List (MOp K V)) :
    ∃ regs', runOps cmp (fun _ => (Tree.empty : Tree K V)) ops = some regs' ∧
      ∀ i q, get cmp (regs' i) q = specOps (fun _ _ => none) ops i q := by
  obtain ⟨regs', e, h⟩ := ops_refine hc ops (fun _ => Tree.empty) (fun _ _ => none) (fun _ => rel_empty)
  refine ⟨regs', e, fun i q => ?_⟩
  obtain ⟨_, o, g⟩ := h i
  apply Option.ext
  intro w
  rw [get_refines hc (regs' i) o q w, g q w]

/-! ### The boxed `Int` compare: a total order exactly on windows of diameter < 2³¹ -/

/-- keys inside a window of diameter < 2³¹ -/
def Window (lo : Int) := { x : Int // lo ≤ x ∧ x < lo + 2147483648 }

instance (lo : Int) : DecidableEq (Window lo) := fun a b =>
  if h : a.1 = b.1 then isTrue (Subtype.ext h) else isFalse (fun e => h (by rw [e]))

instance (lo : Int) : LE (Window lo) := ⟨fun a b => a.1 ≤ b.1⟩
instance (lo : Int) : LT (Window lo) := ⟨fun a b => a.1 < b.1⟩
instance (lo : Int) : DecidableLT (Window lo) := fun a b => inferInstanceAs (Decidable (a.1 < b.1))
instance (lo : Int) : Std.IsLinearOrder (Window lo) where
  le_refl a := Int.le_refl a.1
  le_trans a b c h1 h2 := Int.le_trans h1 h2
  le_antisymm a b h1 h2 := Subtype.ext (Int.le_antisymm h1 h2)
  le_total a b := Int.le_total a.1 b.1
instance (lo : Int) : Std.LawfulOrderLT (Window lo) where
  lt_iff a b := by show a.1 < b.1 ↔ a.1 ≤ b.1 ∧ ¬ b.1 ≤ a.1; omega

/-- **`boxed_compare_range`**: `this.value - other.value` in 32 bits is a lawful total order on
every key set of diameter < 2³¹. -/
theorem boxedCompare_lawful (lo : Int) :
    Lawful (fun (a b : Window lo) => boxedCompare a.1 b.1) := by
  refine ⟨?_, ?_, ?_⟩ <;> intro a b <;> obtain ⟨a, ha⟩ := a <;> obtain ⟨b, hb⟩ := b
  · show wrap32 (a - b) < 0 ↔ a < b
    simp only [wrap32]; omega
  · simp only [boxedCompare, wrap32]
    constructor
    · intro h; apply Subtype.ext; simp only; omega
    · intro h; have : a = b := congrArg Subtype.val h; omega
  · show wrap32 (a - b) > 0 ↔ b < a
    simp only [wrap32]; omega

/-! ### Every lawful `compare` method qualifies

The theorems are stated for a key type with a linear order `<` that `cmp` realises (`Lawful`).
That is no restriction: a compare that is zero exactly on equal keys, antisymmetric and transitive
*defines* such an order (no embedding into the integers is needed). -/

/-- the laws of a `compare : K → K → Int` method, stated on `cmp` alone -/
structure CmpLaws {K : Type} (cmp : K → K → Int) : Prop where
  eq : ∀ a b, cmp a b = 0 ↔ a = b
  antisymm : ∀ a b, cmp a b > 0 ↔ cmp b a < 0
  trans : ∀ a b c, cmp a b < 0 → cmp b c < 0 → cmp a c < 0

/-- the order a compare defines -/
def leOfCmp {K : Type} (cmp : K → K → Int) : LE K := ⟨fun a b => cmp a b ≤ 0⟩
def ltOfCmp {K : Type} (cmp : K → K → Int) : LT K := ⟨fun a b => cmp a b < 0⟩

theorem CmpLaws.linear {K : Type} {cmp : K → K → Int} (h : CmpLaws cmp) :
    @Std.IsLinearOrder K (leOfCmp cmp) := by
  letI := leOfCmp cmp
  have refl : ∀ a : K, cmp a a = 0 := fun a => (h.eq a a).2 rfl
  refine @Std.IsLinearOrder.mk K _ (@Std.IsPartialOrder.mk K _ (@Std.IsPreorder.mk K _ ?_ ?_) ?_) ?_
  · intro a; show cmp a a ≤ 0; rw [refl a]; exact Int.le_refl 0
  · intro a b c h1 h2
    show cmp a c ≤ 0
    have h1' : cmp a b ≤ 0 := h1
    have h2' : cmp b c ≤ 0 := h2
    by_cases e1 : cmp a b = 0
    · have := (h.eq a b).1 e1; subst this; exact h2'
    · by_cases e2 : cmp b c = 0
      · have := (h.eq b c).1 e2; subst this; exact h1'
      · have := h.trans a b c (by omega) (by omega); omega
  · intro a b h1 h2
    have h1' : cmp a b ≤ 0 := h1
    have h2' : cmp b a ≤ 0 := h2
    apply (h.eq a b).1
    have := h.antisymm b a
    omega
  · intro a b
    show cmp a b ≤ 0 ∨ cmp b a ≤ 0
    have := h.antisymm a b
    omega

theorem CmpLaws.lawfulLT {K : Type} {cmp : K → K → Int} (h : CmpLaws cmp) :
    @Std.LawfulOrderLT K (ltOfCmp cmp) (leOfCmp cmp) := by
  letI := leOfCmp cmp; letI := ltOfCmp cmp
  refine ⟨fun a b => ?_⟩
  show cmp a b < 0 ↔ cmp a b ≤ 0 ∧ ¬ cmp b a ≤ 0
  have h1 := h.antisymm b a
  have h2 := h.antisymm a b
  have h3 := h.eq a b
  have h4 := h.eq b a
  constructor
  · intro hlt; refine ⟨by omega, ?_⟩; omega
  · rintro ⟨_, h6⟩; omega

/-- **Any lawful compare is `Lawful` for the order it defines**, so every theorem of this file
applies to every key type whose `compare` satisfies `CmpLaws` (instantiate the order instances with
`leOfCmp cmp`, `ltOfCmp cmp`, `CmpLaws.linear`, `CmpLaws.lawfulLT`). -/
theorem Lawful.ofCmp {K : Type} {cmp : K → K → Int} (h : CmpLaws cmp) :
    @Lawful K (ltOfCmp cmp) cmp := by
  letI := ltOfCmp cmp
  refine ⟨fun a b => Iff.rfl, h.eq, fun a b => ?_⟩
  show cmp a b > 0 ↔ cmp b a < 0
  exact h.antisymm a b

/-- example of the instantiation: `insert` for an arbitrary lawful compare, with the ordering of
the enumeration expressed through `cmp` itself. -/
theorem insert_refines_cmp {K V : Type} [DecidableEq K] [DecidableEq V] {cmp : K → K → Int}
    (h : CmpLaws cmp) (t : Tree K V) (k : K) (v : V) (hb : Bal t)
    (ho : (abs t).Pairwise (fun a b => cmp a.1 b.1 < 0)) :
    ∃ t', insert cmp t k v = some t' ∧ Bal t' ∧ (abs t').Pairwise (fun a b => cmp a.1 b.1 < 0) ∧
      ∀ p, p ∈ abs t' ↔ (p = (k, v) ∨ (p ∈ abs t ∧ p.1 ≠ k)) := by
  letI := leOfCmp cmp; letI := ltOfCmp cmp
  letI := h.linear; letI := h.lawfulLT
  letI : DecidableLT K := fun a b => show Decidable (cmp a b < 0) from inferInstance
  obtain ⟨t', e, i, m⟩ := insert_refines (Lawful.ofCmp h) t k v ⟨hb, ho⟩
  exact ⟨t', e, i.1, i.2, m⟩

/-- the whole-history theorem for an arbitrary lawful compare: from all-empty registers, every
history of map operations never panics and every lookup afterwards equals the lookup in the
specification run, where the specification's `split` uses the order `cmp · · < 0`. -/
theorem ops_refine_cmp {K V : Type} [DecidableEq K] [DecidableEq V] {cmp : K → K → Int}
    (h : CmpLaws cmp) (ops : List (MOp K V)) :
    letI := ltOfCmp cmp
    letI : DecidableLT K := fun a b => show Decidable (cmp a b < 0) from inferInstance
    ∃ regs', runOps cmp (fun _ => (Tree.empty : Tree K V)) ops = some regs' ∧
      ∀ i q, get cmp (regs' i) q = specOps (fun _ _ => none) ops i q := by
  letI := leOfCmp cmp; letI := ltOfCmp cmp
  letI := h.linear; letI := h.lawfulLT
  letI : DecidableLT K := fun a b => show Decidable (cmp a b < 0) from inferInstance
  exact ops_refine_get (Lawful.ofCmp h) ops

/-- … and not beyond: with diameter 2³¹ the compare reports the larger key as smaller. -/
theorem boxedCompare_overflow_counterexample :
    ∃ a b : Int, b < a ∧ a - b = 2147483648 ∧ boxedCompare a b < 0 :=
  ⟨2147483647, -1, by decide, by decide, by decide⟩

/-! ### `max`, `exists`, `remove`, `split`, `join`, `concat`, `filter`, `partition`

History: before the `fix:` commits cf60c34 (max), a34e262 (exists), 296ead9
(minBindingFromNodeUnsafe) these statements were false on the std code and this file carried
`max_refines_counterexample` ({1,2,3,4}.max() = 3), `exists_refines_counterexample` (empty map),
`remove_refines_counterexample` (inserts 10,2,5,11,4,7 then remove 5 = "Bad tree" panic) with
`_partial` companions; the witnesses now live in corpus/C18 as regression inputs. -/

/-- `max` is the last binding of the ascending enumeration. -/
theorem map_max_refines (t : Tree K V) : max t = (abs t).getLast? := max_refines t

/-- `exists` is `any` over the enumeration. -/
theorem map_exists_refines (f : K → V → Bool) (t : Tree K V) :
    «exists» f t = (abs t).any (fun kv => f kv.1 kv.2) := exists_refines f t

/-- **`remove` refines finite-map deletion**: never panics on an invariant-satisfying tree,
re-establishes the invariant, and the result is `m \ {k}`. -/
theorem remove_refines {cmp : K → K → Int} (hc : Lawful cmp) (t : Tree K V)
    (k : K) (hi : Inv t) :
    ∃ t', remove cmp t k = some t' ∧ Inv t' ∧ ∀ p, p ∈ abs t' ↔ (p ∈ abs t ∧ p.1 ≠ k) := by
  obtain ⟨t', e, b, o, m, _⟩ := remove_spec hc t k hi.1 hi.2
  exact ⟨t', e, ⟨b, o⟩, m⟩

/-- **`join`**: for *any* two balanced trees (no assumption on relative heights) `join` never
panics, returns a balanced tree, and enumerates `l`, then `(k, v)`, then `r`. -/
theorem join_refines (l r : Tree K V) (k : K) (v : V) (hl : Bal l) (hr : Bal r) :
    ∃ t, join l k v r = some t ∧ Bal t ∧ abs t = abs l ++ (k, v) :: abs r := by
  obtain ⟨t, e, b, a, _⟩ := join_spec l r k v hl hr
  exact ⟨t, e, b, a⟩

/-- **`concat`** (and `internalMerge`) enumerate `t1` then `t2`. -/
theorem concat_refines (t1 t2 : Tree K V) (h1 : Bal t1) (h2 : Bal t2) :
    ∃ t, concat t1 t2 = some t ∧ Bal t ∧ abs t = abs t1 ++ abs t2 := concat_spec t1 t2 h1 h2

/-- **`split`**: the enumeration is cut at `key` into the strictly smaller bindings, the binding of
`key` (if present) and the strictly larger bindings; both parts are balanced. -/
theorem split_refines {cmp : K → K → Int} (hc : Lawful cmp) (t : Tree K V)
    (key : K) (hi : Inv t) :
    ∃ l pres r, split cmp t key = some (l, pres, r) ∧ Inv l ∧ Inv r ∧
      abs t = abs l ++ midList key pres ++ abs r ∧
      (∀ p ∈ abs l, p.1 < key) ∧ (∀ p ∈ abs r, key < p.1) := by
  obtain ⟨l, pres, r, e, b1, b2, a, g1, g2⟩ := split_spec hc t key hi.1 hi.2
  have ho := hi.2
  simp only [Ordered, a] at ho
  have o1 : Ordered l := by
    simp only [Ordered]; exact (List.pairwise_append.1 (List.pairwise_append.1 ho).1).1
  have o2 : Ordered r := by
    simp only [Ordered]; exact (List.pairwise_append.1 ho).2.1
  exact ⟨l, pres, r, e, ⟨b1, o1⟩, ⟨b2, o2⟩, a, g1, g2⟩

/-- **`filter`** is `List.filter` on the enumeration (and keeps the invariant). -/
theorem filter_refines (f : K → V → Bool) (t : Tree K V) (hi : Inv t) :
    ∃ t', filter f t = some t' ∧ Inv t' ∧ abs t' = (abs t).filter (fun p => f p.1 p.2) := by
  obtain ⟨t', e, b, a⟩ := filter_spec f t hi.1
  refine ⟨t', e, ⟨b, ?_⟩, a⟩
  simp only [Ordered, a]
  exact hi.2.sublist List.filter_sublist

/-- **`partition`** is the pair of `List.filter`s. -/
theorem partition_refines (f : K → V → Bool) (t : Tree K V) (hi : Inv t) :
    ∃ a b, partition f t = some (a, b) ∧ Inv a ∧ Inv b ∧
      abs a = (abs t).filter (fun p => f p.1 p.2) ∧ abs b = (abs t).filter (fun p => !f p.1 p.2) := by
  obtain ⟨a, b, e, b1, b2, a1, a2⟩ := partition_spec f t hi.1
  refine ⟨a, b, e, ⟨b1, ?_⟩, ⟨b2, ?_⟩, a1, a2⟩
  · simp only [Ordered, a1]; exact hi.2.sublist List.filter_sublist
  · simp only [Ordered, a2]; exact hi.2.sublist List.filter_sublist

end SamVerif.StdMap

/-! ## Finite sets

History: before the `fix:` commits cf60c34 / a34e262 / 4ba22e3 / 198f94b this section carried
`set_max/exists/remove/diff_refines_counterexample` ({1,2}.remove(2) = {}, {1} \\ {} = {}); the
witnesses are regression inputs in corpus/C18 now. -/
namespace SamVerif.StdSet
open SamVerif.StdMap (boxedCompare)

variable {E : Type} [DecidableEq E] [LE E] [LT E] [Std.IsLinearOrder E] [Std.LawfulOrderLT E] [DecidableLT E]

theorem set_size_refines (t : STree E) : size t = ((abs t).length : Int) := size_refines t
theorem set_elements_refines (t : STree E) : elements t = abs t := elements_refines t
theorem set_min_refines (t : STree E) : min t = (abs t).head? := min_refines t
theorem set_max_refines (t : STree E) : max t = (abs t).getLast? := max_refines t
theorem set_fold_refines {A : Type} (f : A → E → A) (t : STree E) (a : A) :
    fold f t a = (abs t).foldl f a := fold_refines f t a
theorem set_forAll_refines (f : E → Bool) (t : STree E) : forAll f t = (abs t).all f :=
  forAll_refines f t
theorem set_exists_refines (f : E → Bool) (t : STree E) : «exists» f t = (abs t).any f :=
  exists_refines f t

/-- `contains` is membership. -/
theorem set_contains_refines {cmp : E → E → Int} (hc : Lawful cmp) (t : STree E)
    (hi : Inv t) (x : E) : contains cmp t x = true ↔ x ∈ abs t := contains_spec hc t hi.2 x

/-- `insert` / `remove` never panic, keep the invariant, and are `s ∪ {x}` / `s \ {x}`. -/
theorem set_insert_refines {cmp : E → E → Int} (hc : Lawful cmp) (t : STree E)
    (x : E) (hi : Inv t) :
    ∃ t', insert cmp t x = some t' ∧ Inv t' ∧ ∀ p, p ∈ abs t' ↔ (p = x ∨ p ∈ abs t) :=
  inv_insert hc t x hi

theorem set_remove_refines {cmp : E → E → Int} (hc : Lawful cmp) (t : STree E)
    (x : E) (hi : Inv t) :
    ∃ t', remove cmp t x = some t' ∧ Inv t' ∧ ∀ p, p ∈ abs t' ↔ (p ∈ abs t ∧ p ≠ x) := by
  obtain ⟨t', e, b, o, m, _⟩ := remove_spec hc t x hi.1 hi.2
  exact ⟨t', e, ⟨b, o⟩, m⟩

/-- `join` of any two balanced sets: no panic, balanced, enumeration `l ++ v :: r`. -/
theorem set_join_refines (l r : STree E) (v : E) (hl : Bal l) (hr : Bal r) :
    ∃ t, join l v r = some t ∧ Bal t ∧ abs t = abs l ++ v :: abs r := by
  obtain ⟨t, e, b, a, _⟩ := join_spec l r v hl hr
  exact ⟨t, e, b, a⟩

theorem set_concat_refines (t1 t2 : STree E) (h1 : Bal t1) (h2 : Bal t2) :
    ∃ t, concat t1 t2 = some t ∧ Bal t ∧ abs t = abs t1 ++ abs t2 := concat_spec t1 t2 h1 h2

theorem set_split_refines {cmp : E → E → Int} (hc : Lawful cmp) (t : STree E)
    (key : E) (hi : Inv t) :
    ∃ l pres r, split cmp t key = some (l, pres, r) ∧ Inv l ∧ Inv r ∧
      (∀ p, p ∈ abs t ↔ (p ∈ abs l ∨ (pres = true ∧ p = key) ∨ p ∈ abs r)) ∧
      (∀ p ∈ abs l, p < key) ∧ (∀ p ∈ abs r, key < p) := split_inv hc t key hi

theorem set_filter_refines (f : E → Bool) (t : STree E) (hb : Bal t) :
    ∃ t', filter f t = some t' ∧ Bal t' ∧ abs t' = (abs t).filter f := filter_spec f t hb

theorem set_partition_refines (f : E → Bool) (t : STree E) (hb : Bal t) :
    ∃ a b, partition f t = some (a, b) ∧ Bal a ∧ Bal b ∧
      abs a = (abs t).filter f ∧ abs b = (abs t).filter (fun p => !f p) := partition_spec f t hb

/-- **`union`** (total: fuel above the sum of the sizes always suffices), **`intersection`**,
**`diff`**: no panic, invariant kept, and the result is the set union / intersection / difference. -/
theorem set_union_refines {cmp : E → E → Int} (hc : Lawful cmp) (fuel : Nat)
    (a b : STree E) (ha : Inv a) (hb : Inv b) (hf : (abs a).length + (abs b).length < fuel) :
    ∃ t, union cmp fuel a b = some (some t) ∧ Inv t ∧ ∀ p, p ∈ abs t ↔ (p ∈ abs a ∨ p ∈ abs b) :=
  union_spec hc fuel a b ha hb hf

theorem set_intersection_refines {cmp : E → E → Int} (hc : Lawful cmp)
    (a b : STree E) (ha : Inv a) (hb : Inv b) :
    ∃ t, intersection cmp a b = some t ∧ Inv t ∧ ∀ p, p ∈ abs t ↔ (p ∈ abs a ∧ p ∈ abs b) :=
  intersection_spec hc a b ha hb

theorem set_diff_refines {cmp : E → E → Int} (hc : Lawful cmp)
    (a b : STree E) (ha : Inv a) (hb : Inv b) :
    ∃ t, diff cmp a b = some t ∧ Inv t ∧ ∀ p, p ∈ abs t ↔ (p ∈ abs a ∧ p ∉ abs b) :=
  diff_spec hc a b ha hb

/-- conversion from lists -/
theorem set_fromList_refines {cmp : E → E → Int} (hc : Lawful cmp) (xs : List E) :
    ∃ t, fromList cmp xs .empty = some t ∧ Inv t ∧ ∀ p, p ∈ abs t ↔ p ∈ xs := by
  obtain ⟨t, e, i, m⟩ := fromList_spec hc xs .empty ⟨by simp [Bal], by simp [Ordered, abs]⟩
  exact ⟨t, e, i, fun p => by rw [m]; simp [abs]⟩

/-- **`subset`, total**: inclusion of the element sets (needs only the shape facts and the order,
because `subset` builds unbalanced trees with `unsafeNode` internally). -/
theorem set_subset_refines {cmp : E → E → Int} (hc : Lawful cmp) (fuel : Nat)
    (a b : STree E) (ha : Inv a) (hb : Inv b) (hf : (abs a).length + (abs b).length < fuel) :
    ∃ r, subset cmp fuel a b = some r ∧ (r = true ↔ ∀ x ∈ abs a, x ∈ abs b) :=
  subset_spec hc fuel a b (shape_of_bal a ha.1) ha.2 (shape_of_bal b hb.1) hb.2 hf

/-- **`Set.map`, total**: the image set (through `tryJoin`, i.e. `join` when the mapped pivot still
separates the mapped subtrees, `union ∘ insert` otherwise). -/
theorem set_map_refines {cmp : E → E → Int} (hc : Lawful cmp)
    (refEq : E → E → Bool) (hre : ∀ a b, refEq a b = true → a = b) (f : E → E) (fuel : Nat)
    (t : STree E) (hi : Inv t) (hf : (abs t).length < fuel) :
    ∃ t', map cmp refEq f fuel t = some (some t') ∧ Inv t' ∧ ∀ y, y ∈ abs t' ↔ ∃ x ∈ abs t, f x = y := by
  obtain ⟨t', e, i, m, _⟩ := map_spec hc refEq hre f fuel t hi hf
  exact ⟨t', e, i, m⟩

theorem set_disjoint_refines {cmp : E → E → Int} (hc : Lawful cmp) (a b : STree E)
    (ha : Inv a) (hb : Inv b) :
    ∃ r, disjoint cmp a b = some r ∧ (r = true ↔ ∀ x, ¬ (x ∈ abs a ∧ x ∈ abs b)) :=
  disjoint_refines hc a b ha hb

/-- ordered traversal of sets: `iter`, `compare`, `equal` -/
theorem set_iter_refines {σ : Type} (f : E → σ → σ) (t : STree E) (s : σ) :
    iter f t s = (abs t).foldl (fun s v => f v s) s := iter_refines f t s

theorem set_compare_refines (cmp : E → E → Int) (f : E → E → Int) (a b : STree E) :
    compare cmp f a b = lexCmp cmp f (abs a) (abs b) := compare_refines cmp f a b

theorem set_equal_refines (cmp : E → E → Int) (f : E → E → Bool) (a b : STree E) :
    equal cmp f a b = eqList cmp f (abs a) (abs b) := equal_refines cmp f a b

theorem set_equal_iff {cmp : E → E → Int} (hc : Lawful cmp) (f : E → E → Bool)
    (hf : ∀ x, f x x = true) (a b : STree E) : equal cmp f a b = true ↔ abs a = abs b := by
  rw [equal_refines]; exact eqList_iff hc f hf _ _

/-- **conversions to and from lists**: `fromList (elements s)` enumerates exactly `s` again, and
`elements (fromList xs)` is the strictly ascending duplicate-free list with the members of `xs`. -/
theorem set_fromList_elements {cmp : E → E → Int} (hc : Lawful cmp) (t : STree E)
    (hi : Inv t) :
    ∃ t', fromList cmp (elements t) .empty = some t' ∧ Inv t' ∧ elements t' = elements t := by
  obtain ⟨t', e, i, m⟩ := set_fromList_refines hc (elements t)
  refine ⟨t', e, i, ?_⟩
  rw [elements_refines, elements_refines]
  apply sorted_ext _ _ i.2 hi.2
  intro x; rw [m, elements_refines]

theorem set_elements_fromList {cmp : E → E → Int} (hc : Lawful cmp) (xs : List E) :
    ∃ t, fromList cmp xs .empty = some t ∧ (elements t).Pairwise (fun a b => a < b) ∧
      ∀ p, p ∈ elements t ↔ p ∈ xs := by
  obtain ⟨t, e, i, m⟩ := set_fromList_refines hc xs
  exact ⟨t, e, by rw [elements_refines]; exact i.2, fun p => by rw [elements_refines]; exact m p⟩

/-! ### The balance predicate's boundary (`lh > rh + 2`) -/

/-- within the tolerated imbalance (≤ 2) `balanced` does not rotate at all -/
theorem set_balanced_no_rotation (l r : STree E) (v : E) (h1 : height l ≤ height r + 2)
    (h2 : height r ≤ height l + 2) : balanced l v r = some (unsafeNode l v r) := by
  have c1 : ¬ height l > height r + 2 := by omega
  have c2 : ¬ height r > height l + 2 := by omega
  simp [balanced, c1, c2]

/-- … and it is only ever asked to repair an imbalance of exactly 3 (every caller passes subtrees of
an invariant-satisfying tree one of which changed its height by at most one), where it cannot
panic: this is `balanced_spec`.  Rotating already at imbalance 2 is wrong: -/
def balancedGe (l : STree E) (v : E) (r : STree E) : Option (STree E) :=
  let lh := height l
  let rh := height r
  if lh ≥ rh + 2 then
    match l with
    | .node _ lv ll lr =>
      if height ll ≥ height lr then some (create ll lv (unsafeNode lr v r))
      else
        match lr with
        | .node _ lrv lrl lrr => some (create (unsafeNode ll lv lrl) lrv (unsafeNode lrr v r))
        | _ => none
    | _ => none
  else balanced l v r

/-- the variant with `lh ≥ rh + 2` reaches `Process.panic("Bad tree")` on a balanced two-element
left subtree that leans right (witness of seeded fault C18f; such a subtree arises after a removal) -/
theorem set_balanced_boundary_counterexample :
    ∃ l : STree Int, Bal l ∧ height l = 2 ∧ balancedGe l 9 .empty = none ∧
      balanced l 9 .empty = some (.node 3 9 l .empty) :=
  ⟨.node 2 2 .empty (.leaf 3), by simp [Bal]; omega, rfl, by decide, by decide⟩

/-- **`union` / `map`, fuel-free** (`unionF`, `mapF` compute their own fuel) -/
theorem set_unionF_refines {cmp : E → E → Int} (hc : Lawful cmp) (a b : STree E) (ha : Inv a) (hb : Inv b) :
    ∃ t, unionF cmp a b = some t ∧ Inv t ∧ ∀ p, p ∈ abs t ↔ (p ∈ abs a ∨ p ∈ abs b) := by
  obtain ⟨t, e, i, m⟩ := union_spec hc _ a b ha hb (Nat.lt_succ_self _)
  exact ⟨t, by simp [unionF, e], i, m⟩

/-- the fuelled `union` agrees with the fuel-free one for every sufficient fuel -/
theorem set_union_fuel_irrelevant {cmp : E → E → Int} (hc : Lawful cmp) (fuel : Nat) (a b : STree E)
    (ha : Inv a) (hb : Inv b) (hf : (abs a).length + (abs b).length < fuel) :
    union cmp fuel a b = some (unionF cmp a b) := by
  obtain ⟨t, e, _, _⟩ := union_spec hc _ a b ha hb (Nat.lt_succ_self _)
  have := union_mono_le cmp _ fuel (by omega) a b _ e
  rw [this]; simp [unionF, e]

theorem set_mapF_refines {cmp : E → E → Int} (hc : Lawful cmp) (f : E → E) (t : STree E) (hi : Inv t) :
    ∃ t', mapF cmp f t = some t' ∧ Inv t' ∧ ∀ y, y ∈ abs t' ↔ ∃ x ∈ abs t, f x = y := by
  obtain ⟨t', e, i, m, _⟩ := map_spec hc (fun _ _ => false) (by simp) f _ t hi (Nat.lt_succ_self _)
  exact ⟨t', by simp [mapF, e], i, m⟩

/-- **`subset`, fuel-free**: with the fuel computed from the operands the answer is inclusion -/
theorem set_subsetF_refines {cmp : E → E → Int} (hc : Lawful cmp) (a b : STree E) (ha : Inv a) (hb : Inv b) :
    ∃ r, subset cmp ((abs a).length + (abs b).length + 1) a b = some r ∧ (r = true ↔ ∀ x ∈ abs a, x ∈ abs b) :=
  set_subset_refines hc _ a b ha hb (Nat.lt_succ_self _)

/-- **`ops_refine` (sets)**: every finite history mixing `insert`, `remove`, `union`,
`intersection`, `diff`, `filter`, `partition`, `split`, `fromList`, `map` over any number of set registers
never panics (and `union` never runs out of its internally computed fuel), keeps the invariant and
ends in states representing exactly the sets obtained by the same history on mathematical sets. -/
theorem set_ops_refine {cmp : E → E → Int} (hc : Lawful cmp)
    (ops : List (SOp E)) (regs : Nat → STree E) (ss : Nat → E → Prop)
    (h : ∀ i, SRel (regs i) (ss i)) :
    ∃ regs', runOps cmp regs ops = some regs' ∧ ∀ i, SRel (regs' i) (specOps ss ops i) :=
  ops_refine_lemma hc ops regs ss h

/-- the boxed compare is a lawful order for sets on every window of diameter < 2³¹ -/
theorem set_boxedCompare_lawful (lo : Int) :
    Lawful (fun (a b : SamVerif.StdMap.Window lo) => boxedCompare a.1 b.1) := by
  have h := SamVerif.StdMap.boxedCompare_lawful lo
  exact ⟨h.lt, h.eq, h.gt⟩

example : SRel (STree.empty : STree Int) (fun _ => False) := srel_empty
example : fromList boxedCompare [3, 1, 2, 5, 4] (.empty : STree Int) =
    some (.node 3 3 (.node 2 2 (.leaf 1) .empty) (.node 2 5 (.leaf 4) .empty)) := by decide

end SamVerif.StdSet


/-! ## `Option`, `Result`, tuples, boxed `Bool` (std/option.sam, result.sam, tuples.sam, boxed.sam) -/
namespace SamVerif.StdAux
variable {T R A B E : Type}

namespace SOption
theorem map_refines (f : T → R) (o : SOption T) : (map f o).toOption = o.toOption.map f := by
  cases o <;> rfl
theorem filter_refines (f : T → Bool) (o : SOption T) : (filter f o).toOption = o.toOption.filter f := by
  cases o with
  | none => rfl
  | some v => by_cases c : f v = true <;> simp [filter, toOption, Option.filter, c]
theorem bind_refines (f : T → SOption R) (o : SOption T) :
    (bind f o).toOption = o.toOption.bind (fun x => (f x).toOption) := by cases o <;> rfl
theorem valueMap_refines (d : R) (f : T → R) (o : SOption T) :
    valueMap d f o = (o.toOption.map f).getD d := by cases o <;> rfl
theorem isSome_refines (o : SOption T) : isSome o = o.toOption.isSome := by cases o <;> rfl
theorem isNone_refines (o : SOption T) : isNone o = o.toOption.isNone := by cases o <;> rfl
theorem both_refines (a : SOption A) (b : SOption B) :
    (both a b).toOption = a.toOption.bind (fun x => b.toOption.map (fun y => ⟨x, y⟩)) := by
  cases a <;> cases b <;> rfl
theorem iter_refines {σ : Type} (f : T → σ → σ) (o : SOption T) (s : σ) :
    iter f o s = (o.toOption.map (fun v => f v s)).getD s := by cases o <;> rfl
/-- `unwrap` / `expect` panic exactly on `None` -/
theorem unwrap_refines (o : SOption T) : unwrap o = o.toOption := by cases o <;> rfl
theorem tryUnwrap_refines (o : SOption T) : (tryUnwrap o).toOption = o.toOption := rfl
end SOption

namespace SResult
theorem map_refines (f : T → R) (r : SResult T E) : (map f r).toExcept = r.toExcept.map f := by
  cases r <;> rfl
theorem mapError_refines (f : E → R) (r : SResult T E) :
    (mapError f r).toExcept = r.toExcept.mapError f := by cases r <;> rfl
theorem isOk_refines (r : SResult T E) : isOk r = r.toExcept.isOk := by cases r <;> rfl
theorem isError_refines (r : SResult T E) : isError r = !r.toExcept.isOk := by cases r <;> rfl
theorem ok_refines (r : SResult T E) : (ok? r).toOption = r.toExcept.toOption := by cases r <;> rfl
theorem tryUnwrap_refines (r : SResult T E) : (tryUnwrap r).toOption = r.toExcept.toOption := by
  cases r <;> rfl
theorem ignore_refines (r : SResult T E) : (ignore r).toExcept = r.toExcept.map (fun _ => ()) := by
  cases r <;> rfl
theorem fromOption_refines (o : SOption T) (e : E) :
    (fromOption o e).toExcept = (match o.toOption with
      | Option.some v => Except.ok v
      | Option.none => Except.error e) := by cases o <;> rfl
theorem unwrap_refines (r : SResult T E) : unwrap r = r.toExcept.toOption := by cases r <;> rfl
theorem iter_refines {σ : Type} (f : T → σ → σ) (r : SResult T E) (s : σ) :
    iter f r s = (r.toExcept.toOption.map (fun v => f v s)).getD s := by cases r <;> rfl
theorem iterError_refines {σ : Type} (f : E → σ → σ) (r : SResult T E) (s : σ) :
    iterError f r s = (match r.toExcept with
      | .ok _ => s
      | .error e => f e s) := by cases r <;> rfl
end SResult

/-- tuples: `first` / `second` are the projections -/
theorem pair_first_second (p : SPair A B) : (p.first, p.second) = (p.e0, p.e1) := rfl
theorem triple_first_second {C : Type} (p : STriple A B C) : (p.first, p.second) = (p.e0, p.e1) := rfl

/-- the boxed `Bool` compare is a lawful total order (`false < true`), with no range restriction -/
theorem boolCompare_laws : SamVerif.StdMap.CmpLaws boolCompare := by
  refine ⟨?_, ?_, ?_⟩
  · intro a b; cases a <;> cases b <;> simp [boolCompare, boolIntValue]
  · intro a b; cases a <;> cases b <;> simp [boolCompare, boolIntValue]
  · intro a b c; cases a <;> cases b <;> cases c <;> simp [boolCompare, boolIntValue]

end SamVerif.StdAux

namespace SamVerif.StdList
/-- `List.iter` calls the callback front to back -/
theorem iter_refines {T σ : Type} (f : T → σ → σ) (l : SList T) (s : σ) :
    iter f l s = (toList l).foldl (fun s v => f v s) s := by
  induction l generalizing s with
  | nil => rfl
  | cons v rest ih => simp [iter, toList, ih]
end SamVerif.StdList

/-! ## Non-vacuity: the hypotheses of the theorems above are satisfiable and the side conditions
of the `_partial` theorems hold on real trees. -/
namespace SamVerif.StdMap
/-- a lawful compare exists (window `[-2³⁰, 2³⁰)`), the empty tree satisfies `Inv`, and a concrete
history from `empty` yields a non-trivial tree with a rotation (height 3, 4 keys). -/
example : Lawful (fun (a b : Window (-1073741824)) => boxedCompare a.1 b.1) :=
  boxedCompare_lawful _
example : Inv (Tree.empty : Tree Int Int) := inv_empty
example : runIns boxedCompare (.empty : Tree Int Int) [(1, 10), (2, 20), (3, 30), (4, 40)] =
    some (.node 3 2 20 (.leaf 1 10) (.node 2 4 40 (.leaf 3 30) .empty)) := by decide
example : Bal (.node 3 2 20 (.leaf 1 10) (.node 2 4 40 (.leaf 3 30) .empty) : Tree Int Int) := by
  simp [Bal]
example : balanced (.node 3 2 0 (.leaf 1 0) (.node 2 3 0 .empty (.leaf 4 0))) 5 0 (.empty : Tree Int Int)
    = some (.node 3 3 0 (.node 2 2 0 (.leaf 1 0) .empty) (.node 2 5 0 (.leaf 4 0) .empty)) := by decide
end SamVerif.StdMap
