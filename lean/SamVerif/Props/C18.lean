import SamVerif.Lemmas.StdMapOps
import SamVerif.Lemmas.StdSet
import SamVerif.Model.StdList
/-!
# C18 — Standard-library collections behave like finite maps, sets and sequences

Property theorems only.  Models: `Model/StdMap.lean`, `Model/StdSet.lean`, `Model/StdList.lean`
(transcriptions of `std/map.sam`, `std/set.sam`, `std/list.sam`); helper lemmas (balance arithmetic,
`balanced_spec`, `insert_spec`) in `Lemmas/StdMap.lean`.  The models are tied to the std sources by
the `stdops` correspondence (generated samlang driver programs compiled by the real compiler and run
as wasm/TS vs `Driver/C18.lean`), which compares complete tree shapes after every operation.

The std code as first read falsified the statements for `max`, `exists`, `remove` (Map and Set),
`Set.diff`, `Map.merge`, `Map.customizedUnion/union` (findings C18-F1 … F7); they were repaired by
`fix:` commits in /repo, the models follow the fixed code, and the former `…_counterexample` /
`…_partial` pairs are replaced by the full-strength theorems below.
-/

/-! ## Sequences: every `List` method equals the corresponding operation on a mathematical sequence -/
namespace SamVerif.StdList
variable {T R A : Type}

theorem fold_refines (f : A → T → A) (l : SList T) (a : A) : fold f l a = (toList l).foldl f a := by
  induction l generalizing a with
  | nil => rfl
  | cons v rest ih => simp [fold, toList, ih]

theorem foldRight_refines (f : T → A → A) (l : SList T) (i : A) :
    foldRight f l i = (toList l).foldr f i := by
  induction l with
  | nil => rfl
  | cons v rest ih => simp [foldRight, toList, ih]

theorem length_refines (l : SList T) : length l = ((toList l).length : Int) := by
  have h : ∀ (l : SList T) (a : Int), fold (fun acc _ => acc + 1) l a = a + (toList l).length := by
    intro l
    induction l with
    | nil => intro a; simp [fold, toList]
    | cons v rest ih => intro a; simp [fold, toList, ih]; omega
  simp [length, h]

theorem filter_refines (f : T → Bool) (l : SList T) : toList (filter f l) = (toList l).filter f := by
  induction l with
  | nil => rfl
  | cons v rest ih => simp only [filter, toList, List.filter_cons]; split <;> simp [toList, ih]

theorem map_refines (f : T → R) (l : SList T) : toList (map f l) = (toList l).map f := by
  induction l with
  | nil => rfl
  | cons v rest ih => simp [map, toList, ih]

theorem filterMap_refines (f : T → Option R) (l : SList T) :
    toList (filterMap f l) = (toList l).filterMap f := by
  induction l with
  | nil => rfl
  | cons v rest ih =>
    simp only [filterMap, toList, List.filterMap_cons]
    split <;> simp_all [toList]

theorem append_refines (a b : SList T) : toList (append a b) = toList a ++ toList b := by
  unfold append
  induction a with
  | nil => rfl
  | cons v rest ih => simp [foldRight, toList, ih]

theorem reverseAndAppend_refines (a b : SList T) :
    toList (reverseAndAppend a b) = (toList a).reverse ++ toList b := by
  unfold reverseAndAppend
  induction a generalizing b with
  | nil => rfl
  | cons v rest ih => simp [fold, toList, ih]

theorem reverse_refines (l : SList T) : toList (reverse l) = (toList l).reverse := by
  have h : ∀ (l acc : SList T), toList (reverseWithAccumulator l acc) = (toList l).reverse ++ toList acc := by
    intro l
    induction l with
    | nil => intro acc; rfl
    | cons v rest ih => intro acc; simp [reverseWithAccumulator, toList, ih]
  simp [reverse, h, toList]

theorem contains_refines (x : T) (eq : T → T → Bool) (l : SList T) :
    contains x eq l = (toList l).any (fun v => eq x v) := by
  induction l with
  | nil => rfl
  | cons v rest ih => simp [contains, toList, ih]

theorem forAll_refines (f : T → Bool) (l : SList T) : forAll f l = (toList l).all f := by
  induction l with
  | nil => rfl
  | cons v rest ih => simp [forAll, toList, ih]

theorem exists_refines (f : T → Bool) (l : SList T) : «exists» f l = (toList l).any f := by
  induction l with
  | nil => rfl
  | cons v rest ih => simp [«exists», toList, ih]

theorem find_refines (f : T → Bool) (l : SList T) : find f l = (toList l).find? f := by
  induction l with
  | nil => rfl
  | cons v rest ih => simp only [find, toList, List.find?_cons]; split <;> simp_all

theorem findMap_refines (f : T → Option R) (l : SList T) : findMap f l = (toList l).findSome? f := by
  induction l with
  | nil => rfl
  | cons v rest ih => simp only [findMap, toList, List.findSome?_cons]; split <;> simp_all

theorem bind_refines (f : T → SList R) (l : SList T) :
    toList (bind f l) = (toList l).flatMap (fun x => toList (f x)) := by
  unfold bind
  induction l with
  | nil => rfl
  | cons v rest ih => simp [foldRight, toList, append_refines, ih]

theorem flatten_refines (l : SList (SList T)) :
    toList (flatten l) = ((toList l).map toList).flatten := by
  unfold flatten
  induction l with
  | nil => rfl
  | cons v rest ih => simp [foldRight, toList, append_refines, ih]

theorem first_refines (l : SList T) : first l = (toList l).head? := by cases l <;> rfl

theorem rest_refines (l : SList T) : (rest l).map toList = (toList l).tail? := by cases l <;> rfl

theorem isEmpty_refines (l : SList T) : isEmpty l = (toList l).isEmpty := by cases l <;> rfl
end SamVerif.StdList

/-! ## Finite maps -/
namespace SamVerif.StdMap
set_option linter.unusedSectionVars false
variable {K V : Type} [DecidableEq K] [DecidableEq V]

/-- a tree satisfies the representation invariant -/
def Inv (rank : K → Int) (t : Tree K V) : Prop := Bal t ∧ Ordered rank t

/-- `size` is the number of bindings. -/
theorem map_size_refines (t : Tree K V) : size t = ((abs t).length : Int) := size_refines t
/-- `entries` / `keys` enumerate the bindings in order (conversion to lists). -/
theorem map_entries_refines (t : Tree K V) : entries t = abs t := entries_refines t
theorem map_keys_refines (t : Tree K V) : keys t = (abs t).map Prod.fst := keys_refines t
/-- the enumeration is strictly ascending in the key order -/
theorem map_entries_sorted (rank : K → Int) (t : Tree K V) (h : Inv rank t) :
    (entries t).Pairwise (fun a b => rank a.1 < rank b.1) := by
  rw [entries_refines]; exact h.2
/-- `fold` is a left fold over the ascending enumeration. -/
theorem map_fold_refines {A : Type} (f : A → K → V → A) (t : Tree K V) (a : A) :
    fold f t a = (abs t).foldl (fun acc kv => f acc kv.1 kv.2) a := fold_refines f t a
theorem map_forAll_refines (f : K → V → Bool) (t : Tree K V) :
    forAll f t = (abs t).all (fun kv => f kv.1 kv.2) := forAll_refines f t
/-- `min` is the first binding of the enumeration. -/
theorem map_min_refines (t : Tree K V) : min t = (abs t).head? := min_refines t
theorem map_mapValues_refines (f : K → V → V) (t : Tree K V) :
    abs (mapValues f t) = (abs t).map (fun kv => (kv.1, f kv.1 kv.2)) := mapValues_refines f t

/-- **`balanced` never reaches `Process.panic("Bad tree")`** on invariant-satisfying arguments whose
heights differ by at most 3, keeps the enumeration, and restores balance. -/
theorem balanced_preserves (l r : Tree K V) (k : K) (v : V) (hl : Bal l) (hr : Bal r)
    (h1 : height l ≤ height r + 3) (h2 : height r ≤ height l + 3) :
    ∃ t, balanced l k v r = some t ∧ Bal t ∧ abs t = abs l ++ (k, v) :: abs r := by
  obtain ⟨t, e, b, a, _⟩ := balanced_spec l r k v hl hr h1 h2
  exact ⟨t, e, b, a⟩

/-- **`insert` refines finite-map update**: on every invariant-satisfying tree, for every total
order `cmp`, `insert` does not panic, re-establishes the invariant, and the resulting finite map
is `m[k ↦ v]`. -/
theorem insert_refines {cmp : K → K → Int} {rank : K → Int} (hc : Lawful cmp rank) (t : Tree K V)
    (k : K) (v : V) (hi : Inv rank t) :
    ∃ t', insert cmp t k v = some t' ∧ Inv rank t' ∧
      ∀ p, p ∈ abs t' ↔ (p = (k, v) ∨ (p ∈ abs t ∧ p.1 ≠ k)) := by
  obtain ⟨t', e, b, o, m, _⟩ := insert_spec hc t k v hi.1 hi.2
  exact ⟨t', e, ⟨b, o⟩, m⟩

/-- **`get` refines finite-map lookup.** -/
theorem get_refines {cmp : K → K → Int} {rank : K → Int} (hc : Lawful cmp rank) (t : Tree K V)
    (ho : Ordered rank t) (q : K) (w : V) : get cmp t q = some w ↔ (q, w) ∈ abs t := get_mem hc t ho q w

/-- lookup after insert (finite-map law) -/
theorem get_insert {cmp : K → K → Int} {rank : K → Int} (hc : Lawful cmp rank) (t t' : Tree K V)
    (k : K) (v : V) (hi : Inv rank t) (e : insert cmp t k v = some t') (q : K) :
    get cmp t' q = if q = k then some v else get cmp t q := by
  obtain ⟨t'', e', hi', m⟩ := insert_refines hc t k v hi
  rw [e] at e'; cases e'
  apply Option.ext
  intro w
  rw [get_refines hc t' hi'.2 q w, m]
  by_cases c : q = k
  · subst c; simp; exact eq_comm
  · simp only [c, if_false, get_refines hc t hi.2 q w]; simp [c]

/-- a history of inserts -/
def runIns (cmp : K → K → Int) : Tree K V → List (K × V) → Option (Tree K V)
  | t, [] => some t
  | t, (k, v) :: ops =>
    match insert cmp t k v with
    | none => none
    | some t' => runIns cmp t' ops

/-- the same history on a mathematical finite map `K → Option V` -/
def specIns (m : K → Option V) : List (K × V) → K → Option V
  | [], q => m q
  | (k, v) :: ops, q => specIns (fun x => if x = k then some v else m x) ops q

/-- **Histories**: every finite sequence of inserts, of any length, from any invariant-satisfying
tree (in particular `empty`) never panics, keeps the invariant, and every lookup afterwards equals
the lookup in the finite map obtained by the same sequence of updates. -/
theorem insert_history_refines {cmp : K → K → Int} {rank : K → Int} (hc : Lawful cmp rank)
    (ops : List (K × V)) (t : Tree K V) (hi : Inv rank t) :
    ∃ t', runIns cmp t ops = some t' ∧ Inv rank t' ∧ ∀ q, get cmp t' q = specIns (get cmp t) ops q := by
  induction ops generalizing t with
  | nil => exact ⟨t, rfl, hi, fun _ => rfl⟩
  | cons op ops ih =>
    obtain ⟨k, v⟩ := op
    obtain ⟨t1, e, hi1, _⟩ := insert_refines hc t k v hi
    obtain ⟨t2, e2, hi2, g⟩ := ih t1 hi1
    refine ⟨t2, by simp [runIns, e, e2], hi2, ?_⟩
    intro q
    rw [g q]
    simp only [specIns]
    congr 1
    funext x
    exact get_insert hc t t1 k v hi e x

theorem inv_empty (rank : K → Int) : Inv rank (Tree.empty : Tree K V) := by
  simp [Inv, Bal, Ordered, abs]

/-- **`update`**: never panics, keeps the invariant, and is the finite-map update
`m[k ↦ g (m k)]` (binding removed when `g` answers `None`). -/
theorem update_refines {cmp : K → K → Int} {rank : K → Int} (hc : Lawful cmp rank)
    (g : Option V → Option V) (t : Tree K V) (k : K) (hi : Inv rank t) :
    ∃ t', update cmp g t k = some t' ∧ Inv rank t' ∧
      ∀ q, get cmp t' q = if q = k then g (get cmp t k) else get cmp t q := by
  obtain ⟨t', e, b, o, gg⟩ := get_update hc g t k hi.1 hi.2
  exact ⟨t', e, ⟨b, o⟩, gg⟩

/-- **`customizedUnion`, total and fuel-free in effect**: any fuel above the sum of the sizes
suffices (the fuelled model never runs out), no panic, invariant kept, and lookups are the
pointwise `unionWith f`. -/
theorem customizedUnion_refines {cmp : K → K → Int} {rank : K → Int} (hc : Lawful cmp rank)
    (f : K → V → V → Option V) (fuel : Nat) (a b : Tree K V) (ha : Inv rank a) (hb : Inv rank b)
    (hf : (abs a).length + (abs b).length < fuel) :
    ∃ t, customizedUnion cmp f fuel a b = some (some t) ∧ Inv rank t ∧
      ∀ q, get cmp t q = unionWith f q (get cmp a q) (get cmp b q) := by
  obtain ⟨t, e, b', o, g⟩ := customizedUnion_spec hc f fuel a b ha.1 ha.2 hb.1 hb.2 hf
  exact ⟨t, e, ⟨b', o⟩, g⟩

/-- **`union`** keeps the receiver's value on common keys. -/
theorem union_refines {cmp : K → K → Int} {rank : K → Int} (hc : Lawful cmp rank) (fuel : Nat)
    (a b : Tree K V) (ha : Inv rank a) (hb : Inv rank b) (hf : (abs a).length + (abs b).length < fuel) :
    ∃ t, union cmp fuel a b = some (some t) ∧ Inv rank t ∧
      ∀ q, get cmp t q = match get cmp a q with
        | some x => some x
        | none => get cmp b q := by
  obtain ⟨t, e, i, g⟩ := customizedUnion_refines hc (fun _ v1 _ => some v1) fuel a b ha hb hf
  refine ⟨t, e, i, fun q => ?_⟩
  rw [g q]
  cases get cmp a q <;> cases get cmp b q <;> rfl

/-- **`merge`, total**: `f` decides every key bound on at least one side. -/
theorem merge_refines {cmp : K → K → Int} {rank : K → Int} (hc : Lawful cmp rank)
    (f : K → Option V → Option V → Option V) (fuel : Nat) (a b : Tree K V) (ha : Inv rank a)
    (hb : Inv rank b) (hf : (abs a).length + (abs b).length < fuel) :
    ∃ t, merge cmp f fuel a b = some (some t) ∧ Inv rank t ∧
      ∀ q, get cmp t q = mergeWith f q (get cmp a q) (get cmp b q) := by
  obtain ⟨t, e, b', o, g⟩ := merge_spec hc f fuel a b ha.1 ha.2 hb.1 hb.2 hf
  exact ⟨t, e, ⟨b', o⟩, g⟩

/-- **ordered traversal**: `iter` calls the callback on the bindings in ascending key order;
`compare` is the lexicographic comparison and `equal` the pointwise equality of the two ascending
enumerations (the traversal through `NodeEnumerationHelper` delivers exactly `abs`). -/
theorem map_iter_refines {σ : Type} (f : K → V → σ → σ) (t : Tree K V) (s : σ) :
    iter f t s = (abs t).foldl (fun s kv => f kv.1 kv.2 s) s := iter_refines f t s

theorem map_compare_refines (cmp : K → K → Int) (f : V → V → Int) (a b : Tree K V) :
    compare cmp f a b = lexCmp cmp f (abs a) (abs b) := compare_refines cmp f a b

theorem map_equal_refines (cmp : K → K → Int) (f : V → V → Bool) (a b : Tree K V) :
    equal cmp f a b = eqList cmp f (abs a) (abs b) := equal_refines cmp f a b

/-- with a lawful compare and a faithful value test, `equal` decides equality of the finite maps -/
theorem map_equal_iff {cmp : K → K → Int} {rank : K → Int} (hc : Lawful cmp rank) (f : V → V → Bool)
    (hf : ∀ x y, f x y = true ↔ x = y) (a b : Tree K V) : equal cmp f a b = true ↔ abs a = abs b := by
  rw [equal_refines]; exact eqList_iff hc f hf _ _

theorem map_minKey_refines (t : Tree K V) : minKey t = ((abs t).head?).map (·.1) := minKey_refines t
theorem map_maxKey_refines (t : Tree K V) : maxKey t = ((abs t).getLast?).map (·.1) := maxKey_refines t

/-- **`ops_refine` (maps)**: every finite history, of any length, mixing `insert`, `remove`, `update`,
`filter`, `partition` (either component), `split` (either side), `map`, `customizedUnion`, `union`
and `merge` (the last three with internally computed fuel, i.e. fuel-free), over any number of map
registers that start in states representing finite maps `ms i` (e.g. all `empty`), never panics,
keeps the representation invariant in every register, and ends in states representing exactly the
finite maps obtained by running the same history on mathematical finite maps `K → Option V`. -/
theorem ops_refine {cmp : K → K → Int} {rank : K → Int} (hc : Lawful cmp rank)
    (ops : List (MOp K V)) (regs : Nat → Tree K V) (ms : Nat → K → Option V)
    (h : ∀ i, Rel rank (regs i) (ms i)) :
    ∃ regs', runOps cmp regs ops = some regs' ∧ ∀ i, Rel rank (regs' i) (specOps rank ms ops i) :=
  ops_refine_lemma hc ops regs ms h

/-- lookups after any such history from all-empty registers equal the specification's lookups -/
theorem ops_refine_get {cmp : K → K → Int} {rank : K → Int} (hc : Lawful cmp rank)
    (ops : List (MOp K V)) :
    ∃ regs', runOps cmp (fun _ => (Tree.empty : Tree K V)) ops = some regs' ∧
      ∀ i q, get cmp (regs' i) q = specOps rank (fun _ _ => none) ops i q := by
  obtain ⟨regs', e, h⟩ := ops_refine hc ops (fun _ => Tree.empty) (fun _ _ => none) (fun _ => rel_empty rank)
  refine ⟨regs', e, fun i q => ?_⟩
  obtain ⟨_, o, g⟩ := h i
  apply Option.ext
  intro w
  rw [get_refines hc (regs' i) o q w, g q w]

/-! ### The boxed `Int` compare: a total order exactly on windows of diameter < 2³¹ -/

/-- keys inside a window of diameter < 2³¹ -/
def Window (lo : Int) := { x : Int // lo ≤ x ∧ x < lo + 2147483648 }

instance (lo : Int) : DecidableEq (Window lo) := fun a b =>
  if h : a.1 = b.1 then isTrue (Subtype.ext h) else isFalse (fun e => h (by rw [e]))

/-- **`boxed_compare_range`**: `this.value - other.value` in 32 bits is a lawful total order on
every key set of diameter < 2³¹. -/
theorem boxedCompare_lawful (lo : Int) :
    Lawful (fun (a b : Window lo) => boxedCompare a.1 b.1) (fun a => a.1) := by
  refine ⟨?_, ?_, ?_⟩ <;> intro a b <;> obtain ⟨a, ha⟩ := a <;> obtain ⟨b, hb⟩ := b <;>
    simp only [boxedCompare, wrap32]
  · omega
  · constructor
    · intro h; apply Subtype.ext; simp only; omega
    · intro h; have : a = b := congrArg Subtype.val h; omega
  · omega

/-- … and not beyond: with diameter 2³¹ the compare reports the larger key as smaller. -/
theorem boxedCompare_overflow_counterexample :
    ∃ a b : Int, b < a ∧ a - b = 2147483648 ∧ boxedCompare a b < 0 :=
  ⟨2147483647, -1, by decide, by decide, by decide⟩

/-! ### `max`, `exists`, `remove`, `split`, `join`, `concat`, `filter`, `partition`

History: before the `fix:` commits cf60c34 (max), a34e262 (exists), 296ead9
(minBindingFromNodeUnsafe) these statements were false on the std code and this file carried
`max_refines_counterexample` ({1,2,3,4}.max() = 3), `exists_refines_counterexample` (empty map),
`remove_refines_counterexample` (inserts 10,2,5,11,4,7 then remove 5 = "Bad tree" panic) with
`_partial` companions; the witnesses now live in corpus/C18 as regression inputs. -/

/-- `max` is the last binding of the ascending enumeration. -/
theorem map_max_refines (t : Tree K V) : max t = (abs t).getLast? := max_refines t

/-- `exists` is `any` over the enumeration. -/
theorem map_exists_refines (f : K → V → Bool) (t : Tree K V) :
    «exists» f t = (abs t).any (fun kv => f kv.1 kv.2) := exists_refines f t

/-- **`remove` refines finite-map deletion**: never panics on an invariant-satisfying tree,
re-establishes the invariant, and the result is `m \ {k}`. -/
theorem remove_refines {cmp : K → K → Int} {rank : K → Int} (hc : Lawful cmp rank) (t : Tree K V)
    (k : K) (hi : Inv rank t) :
    ∃ t', remove cmp t k = some t' ∧ Inv rank t' ∧ ∀ p, p ∈ abs t' ↔ (p ∈ abs t ∧ p.1 ≠ k) := by
  obtain ⟨t', e, b, o, m, _⟩ := remove_spec hc t k hi.1 hi.2
  exact ⟨t', e, ⟨b, o⟩, m⟩

/-- **`join`**: for *any* two balanced trees (no assumption on relative heights) `join` never
panics, returns a balanced tree, and enumerates `l`, then `(k, v)`, then `r`. -/
theorem join_refines (l r : Tree K V) (k : K) (v : V) (hl : Bal l) (hr : Bal r) :
    ∃ t, join l k v r = some t ∧ Bal t ∧ abs t = abs l ++ (k, v) :: abs r := by
  obtain ⟨t, e, b, a, _⟩ := join_spec l r k v hl hr
  exact ⟨t, e, b, a⟩

/-- **`concat`** (and `internalMerge`) enumerate `t1` then `t2`. -/
theorem concat_refines (t1 t2 : Tree K V) (h1 : Bal t1) (h2 : Bal t2) :
    ∃ t, concat t1 t2 = some t ∧ Bal t ∧ abs t = abs t1 ++ abs t2 := concat_spec t1 t2 h1 h2

/-- **`split`**: the enumeration is cut at `key` into the strictly smaller bindings, the binding of
`key` (if present) and the strictly larger bindings; both parts are balanced. -/
theorem split_refines {cmp : K → K → Int} {rank : K → Int} (hc : Lawful cmp rank) (t : Tree K V)
    (key : K) (hi : Inv rank t) :
    ∃ l pres r, split cmp t key = some (l, pres, r) ∧ Inv rank l ∧ Inv rank r ∧
      abs t = abs l ++ midList key pres ++ abs r ∧
      (∀ p ∈ abs l, rank p.1 < rank key) ∧ (∀ p ∈ abs r, rank key < rank p.1) := by
  obtain ⟨l, pres, r, e, b1, b2, a, g1, g2⟩ := split_spec hc t key hi.1 hi.2
  have ho := hi.2
  simp only [Ordered, a] at ho
  have o1 : Ordered rank l := by
    simp only [Ordered]; exact (List.pairwise_append.1 (List.pairwise_append.1 ho).1).1
  have o2 : Ordered rank r := by
    simp only [Ordered]; exact (List.pairwise_append.1 ho).2.1
  exact ⟨l, pres, r, e, ⟨b1, o1⟩, ⟨b2, o2⟩, a, g1, g2⟩

/-- **`filter`** is `List.filter` on the enumeration (and keeps the invariant). -/
theorem filter_refines (rank : K → Int) (f : K → V → Bool) (t : Tree K V) (hi : Inv rank t) :
    ∃ t', filter f t = some t' ∧ Inv rank t' ∧ abs t' = (abs t).filter (fun p => f p.1 p.2) := by
  obtain ⟨t', e, b, a⟩ := filter_spec f t hi.1
  refine ⟨t', e, ⟨b, ?_⟩, a⟩
  simp only [Ordered, a]
  exact hi.2.sublist List.filter_sublist

/-- **`partition`** is the pair of `List.filter`s. -/
theorem partition_refines (rank : K → Int) (f : K → V → Bool) (t : Tree K V) (hi : Inv rank t) :
    ∃ a b, partition f t = some (a, b) ∧ Inv rank a ∧ Inv rank b ∧
      abs a = (abs t).filter (fun p => f p.1 p.2) ∧ abs b = (abs t).filter (fun p => !f p.1 p.2) := by
  obtain ⟨a, b, e, b1, b2, a1, a2⟩ := partition_spec f t hi.1
  refine ⟨a, b, e, ⟨b1, ?_⟩, ⟨b2, ?_⟩, a1, a2⟩
  · simp only [Ordered, a1]; exact hi.2.sublist List.filter_sublist
  · simp only [Ordered, a2]; exact hi.2.sublist List.filter_sublist

end SamVerif.StdMap

/-! ## Finite sets

History: before the `fix:` commits cf60c34 / a34e262 / 4ba22e3 / 198f94b this section carried
`set_max/exists/remove/diff_refines_counterexample` ({1,2}.remove(2) = {}, {1} \\ {} = {}); the
witnesses are regression inputs in corpus/C18 now. -/
namespace SamVerif.StdSet
open SamVerif.StdMap (boxedCompare)

variable {E : Type} [DecidableEq E]

theorem set_size_refines (t : STree E) : size t = ((abs t).length : Int) := size_refines t
theorem set_elements_refines (t : STree E) : elements t = abs t := elements_refines t
theorem set_min_refines (t : STree E) : min t = (abs t).head? := min_refines t
theorem set_max_refines (t : STree E) : max t = (abs t).getLast? := max_refines t
theorem set_fold_refines {A : Type} (f : A → E → A) (t : STree E) (a : A) :
    fold f t a = (abs t).foldl f a := fold_refines f t a
theorem set_forAll_refines (f : E → Bool) (t : STree E) : forAll f t = (abs t).all f :=
  forAll_refines f t
theorem set_exists_refines (f : E → Bool) (t : STree E) : «exists» f t = (abs t).any f :=
  exists_refines f t

/-- `contains` is membership. -/
theorem set_contains_refines {cmp : E → E → Int} {rank : E → Int} (hc : Lawful cmp rank) (t : STree E)
    (hi : Inv rank t) (x : E) : contains cmp t x = true ↔ x ∈ abs t := contains_spec hc t hi.2 x

/-- `insert` / `remove` never panic, keep the invariant, and are `s ∪ {x}` / `s \ {x}`. -/
theorem set_insert_refines {cmp : E → E → Int} {rank : E → Int} (hc : Lawful cmp rank) (t : STree E)
    (x : E) (hi : Inv rank t) :
    ∃ t', insert cmp t x = some t' ∧ Inv rank t' ∧ ∀ p, p ∈ abs t' ↔ (p = x ∨ p ∈ abs t) :=
  inv_insert hc t x hi

theorem set_remove_refines {cmp : E → E → Int} {rank : E → Int} (hc : Lawful cmp rank) (t : STree E)
    (x : E) (hi : Inv rank t) :
    ∃ t', remove cmp t x = some t' ∧ Inv rank t' ∧ ∀ p, p ∈ abs t' ↔ (p ∈ abs t ∧ p ≠ x) := by
  obtain ⟨t', e, b, o, m, _⟩ := remove_spec hc t x hi.1 hi.2
  exact ⟨t', e, ⟨b, o⟩, m⟩

/-- `join` of any two balanced sets: no panic, balanced, enumeration `l ++ v :: r`. -/
theorem set_join_refines (l r : STree E) (v : E) (hl : Bal l) (hr : Bal r) :
    ∃ t, join l v r = some t ∧ Bal t ∧ abs t = abs l ++ v :: abs r := by
  obtain ⟨t, e, b, a, _⟩ := join_spec l r v hl hr
  exact ⟨t, e, b, a⟩

theorem set_concat_refines (t1 t2 : STree E) (h1 : Bal t1) (h2 : Bal t2) :
    ∃ t, concat t1 t2 = some t ∧ Bal t ∧ abs t = abs t1 ++ abs t2 := concat_spec t1 t2 h1 h2

theorem set_split_refines {cmp : E → E → Int} {rank : E → Int} (hc : Lawful cmp rank) (t : STree E)
    (key : E) (hi : Inv rank t) :
    ∃ l pres r, split cmp t key = some (l, pres, r) ∧ Inv rank l ∧ Inv rank r ∧
      (∀ p, p ∈ abs t ↔ (p ∈ abs l ∨ (pres = true ∧ p = key) ∨ p ∈ abs r)) ∧
      (∀ p ∈ abs l, rank p < rank key) ∧ (∀ p ∈ abs r, rank key < rank p) := split_inv hc t key hi

theorem set_filter_refines (f : E → Bool) (t : STree E) (hb : Bal t) :
    ∃ t', filter f t = some t' ∧ Bal t' ∧ abs t' = (abs t).filter f := filter_spec f t hb

theorem set_partition_refines (f : E → Bool) (t : STree E) (hb : Bal t) :
    ∃ a b, partition f t = some (a, b) ∧ Bal a ∧ Bal b ∧
      abs a = (abs t).filter f ∧ abs b = (abs t).filter (fun p => !f p) := partition_spec f t hb

/-- **`union`** (total: fuel above the sum of the sizes always suffices), **`intersection`**,
**`diff`**: no panic, invariant kept, and the result is the set union / intersection / difference. -/
theorem set_union_refines {cmp : E → E → Int} {rank : E → Int} (hc : Lawful cmp rank) (fuel : Nat)
    (a b : STree E) (ha : Inv rank a) (hb : Inv rank b) (hf : (abs a).length + (abs b).length < fuel) :
    ∃ t, union cmp fuel a b = some (some t) ∧ Inv rank t ∧ ∀ p, p ∈ abs t ↔ (p ∈ abs a ∨ p ∈ abs b) :=
  union_spec hc fuel a b ha hb hf

theorem set_intersection_refines {cmp : E → E → Int} {rank : E → Int} (hc : Lawful cmp rank)
    (a b : STree E) (ha : Inv rank a) (hb : Inv rank b) :
    ∃ t, intersection cmp a b = some t ∧ Inv rank t ∧ ∀ p, p ∈ abs t ↔ (p ∈ abs a ∧ p ∈ abs b) :=
  intersection_spec hc a b ha hb

theorem set_diff_refines {cmp : E → E → Int} {rank : E → Int} (hc : Lawful cmp rank)
    (a b : STree E) (ha : Inv rank a) (hb : Inv rank b) :
    ∃ t, diff cmp a b = some t ∧ Inv rank t ∧ ∀ p, p ∈ abs t ↔ (p ∈ abs a ∧ p ∉ abs b) :=
  diff_spec hc a b ha hb

/-- conversion from lists -/
theorem set_fromList_refines {cmp : E → E → Int} {rank : E → Int} (hc : Lawful cmp rank) (xs : List E) :
    ∃ t, fromList cmp xs .empty = some t ∧ Inv rank t ∧ ∀ p, p ∈ abs t ↔ p ∈ xs := by
  obtain ⟨t, e, i, m⟩ := fromList_spec hc xs .empty ⟨by simp [Bal], by simp [Ordered, abs]⟩
  exact ⟨t, e, i, fun p => by rw [m]; simp [abs]⟩

/-- **`subset`, total**: inclusion of the element sets (needs only the shape facts and the order,
because `subset` builds unbalanced trees with `unsafeNode` internally). -/
theorem set_subset_refines {cmp : E → E → Int} {rank : E → Int} (hc : Lawful cmp rank) (fuel : Nat)
    (a b : STree E) (ha : Inv rank a) (hb : Inv rank b) (hf : (abs a).length + (abs b).length < fuel) :
    ∃ r, subset cmp fuel a b = some r ∧ (r = true ↔ ∀ x ∈ abs a, x ∈ abs b) :=
  subset_spec hc fuel a b (shape_of_bal a ha.1) ha.2 (shape_of_bal b hb.1) hb.2 hf

/-- **`Set.map`, total**: the image set (through `tryJoin`, i.e. `join` when the mapped pivot still
separates the mapped subtrees, `union ∘ insert` otherwise). -/
theorem set_map_refines {cmp : E → E → Int} {rank : E → Int} (hc : Lawful cmp rank)
    (refEq : E → E → Bool) (hre : ∀ a b, refEq a b = true → a = b) (f : E → E) (fuel : Nat)
    (t : STree E) (hi : Inv rank t) (hf : (abs t).length < fuel) :
    ∃ t', map cmp refEq f fuel t = some (some t') ∧ Inv rank t' ∧ ∀ y, y ∈ abs t' ↔ ∃ x ∈ abs t, f x = y := by
  obtain ⟨t', e, i, m, _⟩ := map_spec hc refEq hre f fuel t hi hf
  exact ⟨t', e, i, m⟩

theorem set_disjoint_refines {cmp : E → E → Int} {rank : E → Int} (hc : Lawful cmp rank) (a b : STree E)
    (ha : Inv rank a) (hb : Inv rank b) :
    ∃ r, disjoint cmp a b = some r ∧ (r = true ↔ ∀ x, ¬ (x ∈ abs a ∧ x ∈ abs b)) :=
  disjoint_refines hc a b ha hb

/-- ordered traversal of sets: `iter`, `compare`, `equal` -/
theorem set_iter_refines {σ : Type} (f : E → σ → σ) (t : STree E) (s : σ) :
    iter f t s = (abs t).foldl (fun s v => f v s) s := iter_refines f t s

theorem set_compare_refines (cmp : E → E → Int) (f : E → E → Int) (a b : STree E) :
    compare cmp f a b = lexCmp cmp f (abs a) (abs b) := compare_refines cmp f a b

theorem set_equal_refines (cmp : E → E → Int) (f : E → E → Bool) (a b : STree E) :
    equal cmp f a b = eqList cmp f (abs a) (abs b) := equal_refines cmp f a b

theorem set_equal_iff {cmp : E → E → Int} {rank : E → Int} (hc : Lawful cmp rank) (f : E → E → Bool)
    (hf : ∀ x, f x x = true) (a b : STree E) : equal cmp f a b = true ↔ abs a = abs b := by
  rw [equal_refines]; exact eqList_iff hc f hf _ _

/-- **conversions to and from lists**: `fromList (elements s)` enumerates exactly `s` again, and
`elements (fromList xs)` is the strictly ascending duplicate-free list with the members of `xs`. -/
theorem set_fromList_elements {cmp : E → E → Int} {rank : E → Int} (hc : Lawful cmp rank) (t : STree E)
    (hi : Inv rank t) :
    ∃ t', fromList cmp (elements t) .empty = some t' ∧ Inv rank t' ∧ elements t' = elements t := by
  obtain ⟨t', e, i, m⟩ := set_fromList_refines hc (elements t)
  refine ⟨t', e, i, ?_⟩
  rw [elements_refines, elements_refines]
  apply sorted_ext (rank := rank) (fun a b h => by
    have h1 := hc.lt a b; have h2 := hc.gt a b; have h3 := hc.eq a b; apply h3.1; omega) _ _ i.2 hi.2
  intro x; rw [m, elements_refines]

theorem set_elements_fromList {cmp : E → E → Int} {rank : E → Int} (hc : Lawful cmp rank) (xs : List E) :
    ∃ t, fromList cmp xs .empty = some t ∧ (elements t).Pairwise (fun a b => rank a < rank b) ∧
      ∀ p, p ∈ elements t ↔ p ∈ xs := by
  obtain ⟨t, e, i, m⟩ := set_fromList_refines hc xs
  exact ⟨t, e, by rw [elements_refines]; exact i.2, fun p => by rw [elements_refines]; exact m p⟩

/-- **`ops_refine` (sets)**: every finite history mixing `insert`, `remove`, `union`,
`intersection`, `diff`, `filter`, `partition`, `split`, `fromList`, `map` over any number of set registers
never panics (and `union` never runs out of its internally computed fuel), keeps the invariant and
ends in states representing exactly the sets obtained by the same history on mathematical sets. -/
theorem set_ops_refine {cmp : E → E → Int} {rank : E → Int} (hc : Lawful cmp rank)
    (ops : List (SOp E)) (regs : Nat → STree E) (ss : Nat → E → Prop)
    (h : ∀ i, SRel rank (regs i) (ss i)) :
    ∃ regs', runOps cmp regs ops = some regs' ∧ ∀ i, SRel rank (regs' i) (specOps rank ss ops i) :=
  ops_refine_lemma hc ops regs ss h

/-- the boxed compare is a lawful order for sets on every window of diameter < 2³¹ -/
theorem set_boxedCompare_lawful (lo : Int) :
    Lawful (fun (a b : SamVerif.StdMap.Window lo) => boxedCompare a.1 b.1) (fun a => a.1) := by
  have h := SamVerif.StdMap.boxedCompare_lawful lo
  exact ⟨h.lt, h.eq, h.gt⟩

example : SRel (fun (a : Int) => a) (STree.empty : STree Int) (fun _ => False) := srel_empty _
example : fromList boxedCompare [3, 1, 2, 5, 4] (.empty : STree Int) =
    some (.node 3 3 (.node 2 2 (.leaf 1) .empty) (.node 2 5 (.leaf 4) .empty)) := by decide

end SamVerif.StdSet

/-! ## Non-vacuity: the hypotheses of the theorems above are satisfiable and the side conditions
of the `_partial` theorems hold on real trees. -/
namespace SamVerif.StdMap
/-- a lawful compare exists (window `[-2³⁰, 2³⁰)`), the empty tree satisfies `Inv`, and a concrete
history from `empty` yields a non-trivial tree with a rotation (height 3, 4 keys). -/
example : Lawful (fun (a b : Window (-1073741824)) => boxedCompare a.1 b.1) (fun a => a.1) :=
  boxedCompare_lawful _
example : Inv (fun (a : Int) => a) (Tree.empty : Tree Int Int) := inv_empty _
example : runIns boxedCompare (.empty : Tree Int Int) [(1, 10), (2, 20), (3, 30), (4, 40)] =
    some (.node 3 2 20 (.leaf 1 10) (.node 2 4 40 (.leaf 3 30) .empty)) := by decide
example : Bal (.node 3 2 20 (.leaf 1 10) (.node 2 4 40 (.leaf 3 30) .empty) : Tree Int Int) := by
  simp [Bal]
example : balanced (.node 3 2 0 (.leaf 1 0) (.node 2 3 0 .empty (.leaf 4 0))) 5 0 (.empty : Tree Int Int)
    = some (.node 3 3 0 (.node 2 2 0 (.leaf 1 0) .empty) (.node 2 5 0 (.leaf 4 0) .empty)) := by decide
end SamVerif.StdMap
