import SamVerif.Props.C08
/-!
# C15 (part b) — the renamed program prints to text that parses back to the renamed tree

`rewrite::rename` returns `pretty_print_source_module(apply_renaming(..))`.  On builder-C08's model
of the printer / parser for the complete expression language (`Model/FmtFull.lean`, tied to the real
printer and parser by C08's `fmt-expr` protocol) identifiers are atoms and the binder texts of
`let`, match cases and lambdas are opaque numbers; renaming relabels them.  C08's
`roundtrip_expr_total` holds for *every* tree, hence for every renamed tree: the printed form of
the renamed expression always parses, to the renamed tree up to the same-operator regrouping
`regroup` (C08-F5, meaning-preserving).  This file is the only C15 file that imports another
property's module; it is audited separately and reported as "not checked" when it does not build.
-/
namespace SamVerif.FmtFull
open SamVerif.Fmt (BinOp UOp)

mutual
/-- relabel identifier atoms by `f` and binder texts (let patterns, case patterns, lambda
parameter lists) by `g` -/
def Expr.relabel (f g : Nat → Nat) : Expr → Expr
  | .atom a => .atom (f a)
  | .tuple e es => .tuple (e.relabel f g) (es.relabel f g)
  | .block b => .block (b.relabel f g)
  | .post e p fld => .post (e.relabel f g) p fld
  | .call0 fn => .call0 (fn.relabel f g)
  | .call fn args => .call (fn.relabel f g) (args.relabel f g)
  | .unary u e => .unary u (e.relabel f g)
  | .binary o l r => .binary o (l.relabel f g) (r.relabel f g)
  | .ifElse c t e => .ifElse (c.relabel f g) (t.relabel f g) (e.relabel f g)
  | .matchE m cs => .matchE (m.relabel f g) (cs.relabel f g)
  | .lambda k body => .lambda (g k) (body.relabel f g)
def Args.relabel (f g : Nat → Nat) : Args → Args
  | .one e => .one (e.relabel f g)
  | .cons e rest => .cons (e.relabel f g) (rest.relabel f g)
def Cases.relabel (f g : Nat → Nat) : Cases → Cases
  | .one p b => .one (g p) (b.relabel f g)
  | .cons p b rest => .cons (g p) (b.relabel f g) (rest.relabel f g)
def Stmts.relabel (f g : Nat → Nat) : Stmts → Stmts
  | .nil => .nil
  | .letS k e rest => .letS (g k) (e.relabel f g) (rest.relabel f g)
  | .exprS e rest => .exprS (e.relabel f g) (rest.relabel f g)
def Blk.relabel (f g : Nat → Nat) : Blk → Blk
  | .fin ss e => .fin (ss.relabel f g) (e.relabel f g)
  | .noFin ss => .noFin (ss.relabel f g)
end

/-- **`renamed_roundtrip`**: for every expression and every relabelling of its identifiers and
binder texts, printing the renamed tree and parsing the output succeeds and reads back the renamed
tree (up to `regroup`). -/
theorem renamed_roundtrip (f g : Nat → Nat) (e : Expr) :
    parseE (printE (e.relabel f g)) = some (regroup (e.relabel f g)) :=
  roundtrip_expr_total (e.relabel f g)

/-! ### renaming commutes with the formatter's regrouping -/

theorem relabel_prec (f g : Nat → Nat) (e : Expr) : (e.relabel f g).prec = e.prec := by
  cases e <;> simp [Expr.relabel, Expr.prec]

theorem relabel_shortcutOk (f g : Nat → Nat) (o : BinOp) (r : Expr) :
    shortcutOk o (r.relabel f g) = shortcutOk o r := by
  cases r <;> simp [Expr.relabel, shortcutOk, relabel_prec]

theorem relabel_usesShortcut (f g : Nat → Nat) (o : BinOp) (l r : Expr) :
    usesShortcut o (l.relabel f g) (r.relabel f g) = usesShortcut o l r := by
  simp [usesShortcut, relabel_prec, relabel_shortcutOk]

def relabelCtx (f g : Nat → Nat) (ctx : Option (BinOp × Expr)) : Option (BinOp × Expr) :=
  ctx.map fun c => (c.1, c.2.relabel f g)

theorem wrapCtx_relabel (f g : Nat → Nat) (ctx : Option (BinOp × Expr)) (x : Expr) :
    wrapCtx (relabelCtx f g ctx) (x.relabel f g) = (wrapCtx ctx x).relabel f g := by
  cases ctx <;> simp [wrapCtx, relabelCtx, Expr.relabel]

mutual
theorem rg_relabel (f g : Nat → Nat) :
    ∀ (e : Expr) (ctx : Option (BinOp × Expr)),
      rg (relabelCtx f g ctx) (e.relabel f g) = (rg ctx e).relabel f g
  | .atom a, ctx => by simp only [Expr.relabel, rg]; exact wrapCtx_relabel f g ctx (.atom a)
  | .tuple e es, ctx => by
    have h1 := rg_relabel f g e none
    have h2 := rgArgs_relabel f g es
    simp only [relabelCtx, Option.map_none] at h1
    simp only [Expr.relabel, rg, h1, h2]
    exact wrapCtx_relabel f g ctx (.tuple (rg none e) (rgArgs es))
  | .block b, ctx => by
    have h := rgBlk_relabel f g b
    simp only [Expr.relabel, rg, h]
    exact wrapCtx_relabel f g ctx (.block (rgBlk b))
  | .post e p fld, ctx => by
    have h1 := rg_relabel f g e none
    simp only [relabelCtx, Option.map_none] at h1
    simp only [Expr.relabel, rg, h1]
    exact wrapCtx_relabel f g ctx (.post (rg none e) p fld)
  | .call0 fn, ctx => by
    have h1 := rg_relabel f g fn none
    simp only [relabelCtx, Option.map_none] at h1
    simp only [Expr.relabel, rg, h1]
    exact wrapCtx_relabel f g ctx (.call0 (rg none fn))
  | .call fn args, ctx => by
    have h1 := rg_relabel f g fn none
    have h2 := rgArgs_relabel f g args
    simp only [relabelCtx, Option.map_none] at h1
    simp only [Expr.relabel, rg, h1, h2]
    exact wrapCtx_relabel f g ctx (.call (rg none fn) (rgArgs args))
  | .unary u e, ctx => by
    have h1 := rg_relabel f g e none
    simp only [relabelCtx, Option.map_none] at h1
    simp only [Expr.relabel, rg, h1]
    exact wrapCtx_relabel f g ctx (.unary u (rg none e))
  | .ifElse c t e, ctx => by
    have h1 := rg_relabel f g c none
    have h2 := rgBlk_relabel f g t
    have h3 := rgBlk_relabel f g e
    simp only [relabelCtx, Option.map_none] at h1
    simp only [Expr.relabel, rg, h1, h2, h3]
    exact wrapCtx_relabel f g ctx (.ifElse (rg none c) (rgBlk t) (rgBlk e))
  | .matchE m cs, ctx => by
    have h1 := rg_relabel f g m none
    have h2 := rgCases_relabel f g cs
    simp only [relabelCtx, Option.map_none] at h1
    simp only [Expr.relabel, rg, h1, h2]
    exact wrapCtx_relabel f g ctx (.matchE (rg none m) (rgCases cs))
  | .lambda k b, ctx => by
    have h1 := rg_relabel f g b none
    simp only [relabelCtx, Option.map_none] at h1
    simp only [Expr.relabel, rg, h1]
    exact wrapCtx_relabel f g ctx (.lambda k (rg none b))
  | .binary o' a b, ctx => by
    have ha := rg_relabel f g a none
    have hb := rg_relabel f g b none
    simp only [relabelCtx, Option.map_none] at ha hb
    cases ctx with
    | none =>
      have hb' := rg_relabel f g b (some (o', rg none a))
      simp only [relabelCtx, Option.map_some, ha] at hb'
      simp only [Expr.relabel, rg, relabelCtx, Option.map_none, relabel_usesShortcut]
      by_cases hs : usesShortcut o' a b = true
      · simp only [hs, if_true, ha]; exact hb'
      · simp only [hs, ha, hb]; simp [Expr.relabel]
    | some c =>
      obtain ⟨o, acc⟩ := c
      have hb' := rg_relabel f g b (some (o, .binary o acc (rg none a)))
      simp only [relabelCtx, Option.map_some, Expr.relabel, ha] at hb'
      simp only [Expr.relabel, rg, relabelCtx, Option.map_some, relabel_usesShortcut]
      by_cases hs : usesShortcut o a b = true
      · simp only [hs, if_true, ha]; exact hb'
      · simp only [hs, ha, hb]; simp [Expr.relabel]
theorem rgArgs_relabel (f g : Nat → Nat) : ∀ (as : Args), rgArgs (as.relabel f g) = (rgArgs as).relabel f g
  | .one e => by
    have h := rg_relabel f g e none
    simp only [relabelCtx, Option.map_none] at h
    simp only [Args.relabel, rgArgs, h]
  | .cons e rest => by
    have h := rg_relabel f g e none
    simp only [relabelCtx, Option.map_none] at h
    simp only [Args.relabel, rgArgs, h, rgArgs_relabel f g rest]
theorem rgCases_relabel (f g : Nat → Nat) : ∀ (cs : Cases), rgCases (cs.relabel f g) = (rgCases cs).relabel f g
  | .one k b => by
    have h := rg_relabel f g b none
    simp only [relabelCtx, Option.map_none] at h
    simp only [Cases.relabel, rgCases, h]
  | .cons k b rest => by
    have h := rg_relabel f g b none
    simp only [relabelCtx, Option.map_none] at h
    simp only [Cases.relabel, rgCases, h, rgCases_relabel f g rest]
theorem rgBlk_relabel (f g : Nat → Nat) : ∀ (b : Blk), rgBlk (b.relabel f g) = (rgBlk b).relabel f g
  | .fin ss e => by
    have h := rg_relabel f g e none
    simp only [relabelCtx, Option.map_none] at h
    simp only [Blk.relabel, rgBlk, h, rgStmts_relabel f g ss]
  | .noFin ss => by simp only [Blk.relabel, rgBlk, rgStmts_relabel f g ss]
theorem rgStmts_relabel (f g : Nat → Nat) : ∀ (ss : Stmts), rgStmts (ss.relabel f g) = (rgStmts ss).relabel f g
  | .nil => by simp only [Stmts.relabel, rgStmts]
  | .letS k e rest => by
    have h := rg_relabel f g e none
    simp only [relabelCtx, Option.map_none] at h
    simp only [Stmts.relabel, rgStmts, h, rgStmts_relabel f g rest]
  | .exprS e rest => by
    have h := rg_relabel f g e none
    simp only [relabelCtx, Option.map_none] at h
    simp only [Stmts.relabel, rgStmts, h, rgStmts_relabel f g rest]
end

mutual
theorem relabel_inverse (f g f' g' : Nat → Nat) (hf : ∀ x, f' (f x) = x) (hg : ∀ x, g' (g x) = x) :
    ∀ e : Expr, (e.relabel f g).relabel f' g' = e
  | .atom a => by simp [Expr.relabel, hf]
  | .tuple e es => by simp [Expr.relabel, relabel_inverse f g f' g' hf hg e, relabelArgs_inverse f g f' g' hf hg es]
  | .block b => by simp [Expr.relabel, relabelBlk_inverse f g f' g' hf hg b]
  | .post e p fld => by simp [Expr.relabel, relabel_inverse f g f' g' hf hg e]
  | .call0 fn => by simp [Expr.relabel, relabel_inverse f g f' g' hf hg fn]
  | .call fn args => by simp [Expr.relabel, relabel_inverse f g f' g' hf hg fn, relabelArgs_inverse f g f' g' hf hg args]
  | .unary u e => by simp [Expr.relabel, relabel_inverse f g f' g' hf hg e]
  | .binary o l r => by simp [Expr.relabel, relabel_inverse f g f' g' hf hg l, relabel_inverse f g f' g' hf hg r]
  | .ifElse c t e => by simp [Expr.relabel, relabel_inverse f g f' g' hf hg c, relabelBlk_inverse f g f' g' hf hg t, relabelBlk_inverse f g f' g' hf hg e]
  | .matchE m cs => by simp [Expr.relabel, relabel_inverse f g f' g' hf hg m, relabelCases_inverse f g f' g' hf hg cs]
  | .lambda k b => by simp [Expr.relabel, hg, relabel_inverse f g f' g' hf hg b]
theorem relabelArgs_inverse (f g f' g' : Nat → Nat) (hf : ∀ x, f' (f x) = x) (hg : ∀ x, g' (g x) = x) :
    ∀ as : Args, (as.relabel f g).relabel f' g' = as
  | .one e => by simp [Args.relabel, relabel_inverse f g f' g' hf hg e]
  | .cons e rest => by simp [Args.relabel, relabel_inverse f g f' g' hf hg e, relabelArgs_inverse f g f' g' hf hg rest]
theorem relabelCases_inverse (f g f' g' : Nat → Nat) (hf : ∀ x, f' (f x) = x) (hg : ∀ x, g' (g x) = x) :
    ∀ cs : Cases, (cs.relabel f g).relabel f' g' = cs
  | .one k b => by simp [Cases.relabel, hg, relabel_inverse f g f' g' hf hg b]
  | .cons k b rest => by simp [Cases.relabel, hg, relabel_inverse f g f' g' hf hg b, relabelCases_inverse f g f' g' hf hg rest]
theorem relabelBlk_inverse (f g f' g' : Nat → Nat) (hf : ∀ x, f' (f x) = x) (hg : ∀ x, g' (g x) = x) :
    ∀ b : Blk, (b.relabel f g).relabel f' g' = b
  | .fin ss e => by simp [Blk.relabel, relabelStmts_inverse f g f' g' hf hg ss, relabel_inverse f g f' g' hf hg e]
  | .noFin ss => by simp [Blk.relabel, relabelStmts_inverse f g f' g' hf hg ss]
theorem relabelStmts_inverse (f g f' g' : Nat → Nat) (hf : ∀ x, f' (f x) = x) (hg : ∀ x, g' (g x) = x) :
    ∀ ss : Stmts, (ss.relabel f g).relabel f' g' = ss
  | .nil => by simp [Stmts.relabel]
  | .letS k e rest => by simp [Stmts.relabel, hg, relabel_inverse f g f' g' hf hg e, relabelStmts_inverse f g f' g' hf hg rest]
  | .exprS e rest => by simp [Stmts.relabel, relabel_inverse f g f' g' hf hg e, relabelStmts_inverse f g f' g' hf hg rest]
end

/-- **`regroup_relabel_commute`**: renaming commutes with the formatter's regrouping —
`regroup (rename e) = rename (regroup e)` for every expression and every relabelling. -/
theorem regroup_relabel_commute (f g : Nat → Nat) (e : Expr) :
    regroup (e.relabel f g) = (regroup e).relabel f g := by
  have := rg_relabel f g e none
  simpa [regroup, relabelCtx] using this

/-- **`rename_back_restores_formatted`**: formatting the renamed tree, reading it back, renaming back
with the inverse relabelling and formatting again yields exactly the formatted original: on the
model, "rename back restores the (formatted) original" is a theorem. -/
theorem rename_back_restores_formatted (f g f' g' : Nat → Nat) (hf : ∀ x, f' (f x) = x) (hg : ∀ x, g' (g x) = x)
    (e : Expr) :
    parseE (printE (e.relabel f g)) = some ((regroup e).relabel f g) ∧
    ((regroup e).relabel f g).relabel f' g' = regroup e := by
  refine ⟨by rw [renamed_roundtrip, regroup_relabel_commute], ?_⟩
  exact relabel_inverse f g f' g' hf hg (regroup e)

/-- non-vacuity: a tree the formatter really regroups (`a + (b + c)`), renamed -/
example : regroup ((Expr.binary .plus (.atom 0) (.binary .plus (.atom 1) (.atom 2))).relabel (· + 10) id)
    = .binary .plus (.binary .plus (.atom 10) (.atom 11)) (.atom 12) := by decide
example : (regroup (Expr.binary .plus (.atom 0) (.binary .plus (.atom 1) (.atom 2)))).relabel (· + 10) id
    = .binary .plus (.binary .plus (.atom 10) (.atom 11)) (.atom 12) := by decide

example : parseE (printE ((Expr.binary .plus (.atom 0) (.lambda 3 (.atom 0))).relabel (· + 10) (· + 20)))
    = some (.binary .plus (.atom 10) (.lambda 23 (.atom 10))) := by decide

end SamVerif.FmtFull
