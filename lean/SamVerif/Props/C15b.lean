import SamVerif.Props.C08
/-!
# C15 (part b) — the renamed program prints to text that parses back to the renamed tree

`rewrite::rename` returns `pretty_print_source_module(apply_renaming(..))`.  On builder-C08's model
of the printer / parser for the complete expression language (`Model/FmtFull.lean`, tied to the real
printer and parser by C08's `fmt-expr` protocol) identifiers are atoms and the binder texts of
`let`, match cases and lambdas are opaque numbers; renaming relabels them.  C08's
`roundtrip_expr_total` holds for *every* tree, hence for every renamed tree: the printed form of
the renamed expression always parses, to the renamed tree up to the same-operator regrouping
`regroup` (C08-F5, meaning-preserving).  This file is the only C15 file that imports another
property's module; it is audited separately and reported as "not checked" when it does not build.
-/
namespace SamVerif.FmtFull

mutual
/-- relabel identifier atoms by `f` and binder texts (let patterns, case patterns, lambda
parameter lists) by `g` -/
def Expr.relabel (f g : Nat → Nat) : Expr → Expr
  | .atom a => .atom (f a)
  | .tuple e es => .tuple (e.relabel f g) (es.relabel f g)
  | .block b => .block (b.relabel f g)
  | .post e p fld => .post (e.relabel f g) p fld
  | .call0 fn => .call0 (fn.relabel f g)
  | .call fn args => .call (fn.relabel f g) (args.relabel f g)
  | .unary u e => .unary u (e.relabel f g)
  | .binary o l r => .binary o (l.relabel f g) (r.relabel f g)
  | .ifElse c t e => .ifElse (c.relabel f g) (t.relabel f g) (e.relabel f g)
  | .matchE m cs => .matchE (m.relabel f g) (cs.relabel f g)
  | .lambda k body => .lambda (g k) (body.relabel f g)
def Args.relabel (f g : Nat → Nat) : Args → Args
  | .one e => .one (e.relabel f g)
  | .cons e rest => .cons (e.relabel f g) (rest.relabel f g)
def Cases.relabel (f g : Nat → Nat) : Cases → Cases
  | .one p b => .one (g p) (b.relabel f g)
  | .cons p b rest => .cons (g p) (b.relabel f g) (rest.relabel f g)
def Stmts.relabel (f g : Nat → Nat) : Stmts → Stmts
  | .nil => .nil
  | .letS k e rest => .letS (g k) (e.relabel f g) (rest.relabel f g)
  | .exprS e rest => .exprS (e.relabel f g) (rest.relabel f g)
def Blk.relabel (f g : Nat → Nat) : Blk → Blk
  | .fin ss e => .fin (ss.relabel f g) (e.relabel f g)
  | .noFin ss => .noFin (ss.relabel f g)
end

/-- **`renamed_roundtrip`**: for every expression and every relabelling of its identifiers and
binder texts, printing the renamed tree and parsing the output succeeds and reads back the renamed
tree (up to `regroup`). -/
theorem renamed_roundtrip (f g : Nat → Nat) (e : Expr) :
    parseE (printE (e.relabel f g)) = some (regroup (e.relabel f g)) :=
  roundtrip_expr_total (e.relabel f g)

example : parseE (printE ((Expr.binary .plus (.atom 0) (.lambda 3 (.atom 0))).relabel (· + 10) (· + 20)))
    = some (.binary .plus (.atom 10) (.lambda 23 (.atom 10))) := by decide

end SamVerif.FmtFull
