import SamVerif.Lemmas.Heap
/-!
# C17 — The string-interning heap is injective, stable, and never reclaims a live string

Property theorems only (helper lemmas live in `Lemmas/Heap.lean`).  The model is
`Model/Heap.lean`; it is tied to `crates/samlang-heap/src/lib.rs` by the `heapops` correspondence
protocol (`harness/src/bin/heapops.rs` vs `Driver/Main.lean`).
-/
namespace SamVerif.Heap

/-- Every operation of a history only mentions handles that exist when it is issued. -/
def OpsOk : Heap → List Op → Prop
  | _, [] => True
  | h, op :: ops => OpOk h op ∧ OpsOk (step h op) ops

/-- **Invariant for every reachable state** (unbounded histories). -/
theorem inv_run (ops : List Op) (h : Heap) (hi : Inv h) (hok : OpsOk h ops) : Inv (run ops h) := by
  induction ops generalizing h with
  | nil => exact hi
  | cons op ops ih =>
    simp only [run, List.foldl_cons]
    exact ih (step h op) (inv_step hi op hok.1) hok.2

theorem inv_reachable (ops : List Op) (hok : OpsOk init ops) : Inv (run ops) :=
  inv_run ops init inv_init hok

/-- How a single slot may change in one step. -/
inductive SlotStep : Slot → Slot → Prop
  | same (sl) : SlotStep sl sl
  | promote (s m) : SlotStep (.temp s m) (.perm s)
  | mark (s m) : SlotStep (.temp s m) (.temp s true)
  | unmark (s) : SlotStep (.temp s true) (.temp s false)
  | reclaim (s) : SlotStep (.temp s false) .dead

theorem makePermanent_slot (h : Heap) (p : Handle) (id : Nat) (sl : Slot)
    (hsl : h.slots[id]? = some sl) :
    (makePermanent h p).slots[id]? = some sl ∨
      ∃ s m, sl = .temp s m ∧ (makePermanent h p).slots[id]? = some (.perm s) := by
  rcases makePermanent_cases h p with he | ⟨id', s', m', _, hsl', he⟩ <;> rw [he]
  · left; exact hsl
  · simp only [getElem?_set']
    split
    · rename_i hc
      obtain ⟨rfl, _⟩ := hc
      rw [hsl'] at hsl; cases hsl
      right; exact ⟨s', m', rfl, rfl⟩
    · left; exact hsl

theorem foldl_makePermanent_slot (ps : List Handle) (h : Heap) (id : Nat) (sl : Slot)
    (hsl : h.slots[id]? = some sl) :
    (ps.foldl makePermanent h).slots[id]? = some sl ∨
      ∃ s m, sl = .temp s m ∧ (ps.foldl makePermanent h).slots[id]? = some (.perm s) := by
  induction ps generalizing h sl with
  | nil => left; exact hsl
  | cons p ps ih =>
    simp only [List.foldl_cons]
    rcases makePermanent_slot h p id sl hsl with h1 | ⟨s, m, rfl, h1⟩
    · exact ih (makePermanent h p) sl h1
    · rcases ih (makePermanent h p) (.perm s) h1 with h2 | ⟨s', m', hc, _⟩
      · right; exact ⟨s, m, rfl, h2⟩
      · cases hc

/-- **Slot evolution**: in one API step an existing slot keeps its index and changes only along
`SlotStep`; `unmark`/`reclaim` happen only inside an open-gate `sweep` whose window covers it. -/
theorem slot_step (h : Heap) (hi : Inv h) (op : Op) (id : Nat) (sl : Slot)
    (hsl : h.slots[id]? = some sl) :
    ∃ sl', (step h op).slots[id]? = some sl' ∧ SlotStep sl sl' ∧
      ((sl' = .dead ∧ sl ≠ .dead ∨ (∃ s, sl = .temp s true ∧ sl' = .temp s false)) →
        ∃ w, op = .sweep w ∧ h.unmarked = [] ∧
          (sweepWindow h w).1 ≤ id ∧ id < (sweepWindow h w).2.1) := by
  have hlt : id < h.slots.length := (List.getElem?_eq_some_iff.mp hsl).1
  cases op with
  | allocString s =>
    simp only [step, allocString]
    split
    · exact ⟨sl, hsl, .same _, by grind⟩
    · split
      · exact ⟨sl, hsl, .same _, by grind⟩
      · split
        · exact ⟨sl, hsl, .same _, by grind⟩
        · exact ⟨sl, by simp only [getElem?_push]; grind, .same _, by grind⟩
  | allocStatic s =>
    simp only [step, allocStatic]
    split
    · exact ⟨sl, hsl, .same _, by grind⟩
    · split
      · exact ⟨sl, hsl, .same _, by grind⟩
      · split
        · rename_i _ _ id' ht
          by_cases hid : id' = id
          · subst hid
            rcases hi.tempSound s id' ht with hm | hm <;> rw [hm] at hsl <;> cases hsl
            · exact ⟨.perm s, by simp only [getElem?_set']; grind, .promote _ _, by grind⟩
            · exact ⟨.perm s, by simp only [getElem?_set']; grind, .promote _ _, by grind⟩
          · exact ⟨sl, by simp only [getElem?_set']; grind, .same _, by grind⟩
        · exact ⟨sl, by simp only [getElem?_push]; grind, .same _, by grind⟩
  | allocTemp n =>
    simp only [step, allocTemp]
    exact ⟨sl, by simp only [getElem?_push]; grind, .same _, by grind⟩
  | allocModuleRef ps =>
    simp only [step, allocModuleRef]
    split
    · exact ⟨sl, hsl, .same _, by grind⟩
    · simp only
      rcases foldl_makePermanent_slot ps h id sl hsl with h1 | ⟨s, m, rfl, h1⟩
      · exact ⟨sl, h1, .same _, by grind⟩
      · exact ⟨.perm s, h1, .promote _ _, by grind⟩
  | addUnmarked m =>
    simp only [step, addUnmarked]
    split <;> exact ⟨sl, hsl, .same _, by grind⟩
  | popUnmarked c =>
    simp only [step, popUnmarked]
    cases c with
    | none => simp only; split <;> exact ⟨sl, hsl, .same _, by grind⟩
    | some m => simp only; split <;> exact ⟨sl, hsl, .same _, by grind⟩
  | mark p =>
    simp only [step]
    rcases mark_cases h p with he | ⟨id', s, m, _, hs, he⟩ <;> rw [he]
    · exact ⟨sl, hsl, .same _, by grind⟩
    · by_cases hid : id' = id
      · subst hid
        rw [hs] at hsl; cases hsl
        exact ⟨.temp s true, by simp only [getElem?_set']; grind, .mark _ _, by grind⟩
      · exact ⟨sl, by simp only [getElem?_set']; grind, .same _, by grind⟩
  | syncTemp t =>
    simp only [step, syncTempCounter]
    exact ⟨sl, by simp only [getElem?_append_replicate]; grind, .same _, by grind⟩
  | sweep w =>
    simp only [step, sweep]
    split
    · exact ⟨sl, hsl, .same _, by grind⟩
    · rename_i hg
      have hum : h.unmarked = [] := by
        cases hu : h.unmarked with
        | nil => rfl
        | cons a b => simp [hu] at hg
      simp only [sweepSlots_getElem?, hsl, Option.map_some, Nat.zero_add]
      rcases sweepSlot_cases (decide ((sweepWindow h w).1 ≤ id ∧ id < (sweepWindow h w).2.1)) sl
        with hc | ⟨t, rfl, hw, hc⟩ | ⟨t, rfl, hw, hc⟩
      · exact ⟨_, by rw [hc], .same _, by grind⟩
      · refine ⟨_, by rw [hc], .unmark _, fun _ => ⟨w, rfl, hum, ?_⟩⟩
        simpa using hw
      · refine ⟨_, by rw [hc], .reclaim _, fun _ => ⟨w, rfl, hum, ?_⟩⟩
        simpa using hw


/-! ## The property, clause by clause -/

/-- A slot is live with string `s`. -/
def SlotLive (sl : Slot) (s : Bytes) : Prop := sl = .perm s ∨ ∃ m, sl = .temp s m

theorem read_ref_iff (h : Heap) (id : Nat) (s : Bytes) :
    read h (.ref id) = some s ↔ ∃ sl, h.slots[id]? = some sl ∧ SlotLive sl s := by
  simp only [read, SlotLive]
  cases h.slots[id]? with
  | none => simp
  | some sl => cases sl <;> simp <;> (rename_i t m; cases m <;> simp)

/-- **C17 (a) handles are equal exactly when their strings are equal** — for any two readable
handles issued by the API (`Valid`), in any state satisfying the invariant, i.e. any reachable one. -/
theorem handles_eq_iff_strings_eq (h : Heap) (hi : Inv h) (p q : Handle) (s t : Bytes)
    (hp : Valid h p) (hq : Valid h q) (hs : read h p = some s) (ht : read h q = some t) :
    p = q ↔ s = t := by
  obtain ⟨h1, h2, h3, h4, h5, hd, h6, h7⟩ := hi
  cases p with
  | inl a =>
    cases q with
    | inl b => simp only [read, Option.some.injEq] at hs ht; subst hs ht; simp
    | ref j =>
      simp only [read] at hs; cases hs
      obtain ⟨sl, hsl, hl⟩ := (read_ref_iff h j t).mp ht
      simp only [Valid] at hp hq
      have : inlineMax < t.length := by
        rcases hl with rfl | ⟨m, rfl⟩
        · exact hq.2 t hsl
        · exact h5 j t m hsl
      constructor
      · intro hc; cases hc
      · intro hc; subst hc; omega
  | ref i =>
    obtain ⟨sl, hsl, hl⟩ := (read_ref_iff h i s).mp hs
    simp only [Valid] at hp
    have hlen : inlineMax < s.length := by
      rcases hl with rfl | ⟨m, rfl⟩
      · exact hp.2 s hsl
      · exact h5 i s m hsl
    cases q with
    | inl b =>
      simp only [read] at ht; cases ht
      simp only [Valid] at hq
      constructor
      · intro hc; cases hc
      · intro hc; subst hc; omega
    | ref j =>
      obtain ⟨sl', hsl', hl'⟩ := (read_ref_iff h j t).mp ht
      constructor
      · intro hc; cases hc
        rw [hsl] at hsl'; cases hsl'
        rcases hl with rfl | ⟨m, rfl⟩ <;> rcases hl' with hc | ⟨m', hc⟩ <;> cases hc <;> rfl
      · intro hc; subst hc
        have : i = j := by
          rcases hl with rfl | ⟨m, rfl⟩ <;> rcases hl' with rfl | ⟨m', rfl⟩
          · have a := h4 i s hsl hlen; have b := h4 j s hsl' hlen
            rw [a] at b; cases b; rfl
          · have a := h4 i s hsl hlen; have b := h3 j s m' hsl'
            rw [hd s i a] at b; cases b
          · have a := h3 i s m hsl; have b := h4 j s hsl' hlen
            rw [hd s j b] at a; cases a
          · have a := h3 i s m hsl; have b := h3 j s m' hsl'
            rw [a] at b; cases b; rfl
        rw [this]

/-- **C17 (b)+(c), one step**: a readable handle keeps reading the same string, or it has just been
reclaimed — and that happens only in a `sweep` with the gate open, whose window covers the slot,
on a *temporary, unmarked* slot.  (So never a permanent string, never a marked one.) -/
theorem read_stable_or_reclaimed (h : Heap) (hi : Inv h) (op : Op) (p : Handle) (s : Bytes)
    (hr : read h p = some s) :
    read (step h op) p = some s ∨
      (read (step h op) p = none ∧ ∃ w id, op = .sweep w ∧ p = .ref id ∧
        h.slots[id]? = some (.temp s false) ∧ h.unmarked = [] ∧
        (sweepWindow h w).1 ≤ id ∧ id < (sweepWindow h w).2.1) := by
  cases p with
  | inl a => left; simpa [read] using hr
  | ref id =>
    obtain ⟨sl, hsl, hl⟩ := (read_ref_iff h id s).mp hr
    obtain ⟨sl', hsl', hst, hwin⟩ := slot_step h hi op id sl hsl
    cases hst with
    | same => left; exact (read_ref_iff _ id s).mpr ⟨sl, hsl', hl⟩
    | promote t m =>
      left; rcases hl with hc | ⟨m', hc⟩ <;> cases hc
      exact (read_ref_iff _ id s).mpr ⟨_, hsl', Or.inl rfl⟩
    | mark t m =>
      left; rcases hl with hc | ⟨m', hc⟩ <;> cases hc
      exact (read_ref_iff _ id s).mpr ⟨_, hsl', Or.inr ⟨true, rfl⟩⟩
    | unmark t =>
      left; rcases hl with hc | ⟨m', hc⟩ <;> cases hc
      exact (read_ref_iff _ id s).mpr ⟨_, hsl', Or.inr ⟨false, rfl⟩⟩
    | reclaim t =>
      right
      rcases hl with hc | ⟨m', hc⟩ <;> cases hc
      obtain ⟨w, hop, hum, ha, hb⟩ := hwin (Or.inl ⟨rfl, by simp⟩)
      refine ⟨?_, w, id, hop, rfl, hsl, hum, ha, hb⟩
      simp [read, hsl']

/-- **C17 (c1)** a permanent slot stays permanent over every history. -/
theorem perm_forever (ops : List Op) (h : Heap) (hi : Inv h) (hok : OpsOk h ops) (id : Nat)
    (s : Bytes) (hp : h.slots[id]? = some (.perm s)) : (run ops h).slots[id]? = some (.perm s) := by
  induction ops generalizing h with
  | nil => exact hp
  | cons op ops ih =>
    simp only [run, List.foldl_cons]
    obtain ⟨sl', hsl', hst, _⟩ := slot_step h hi op id _ hp
    cases hst
    exact ih (step h op) (inv_step hi op hok.1) hok.2 hsl'

/-- **C17 (c2)** a string marked since the sweeper last passed over it survives the next step,
whatever it is (a covering sweep merely clears the mark). -/
theorem marked_survives (h : Heap) (hi : Inv h) (op : Op) (id : Nat) (s : Bytes)
    (hm : h.slots[id]? = some (.temp s true)) : read (step h op) (.ref id) = some s := by
  rcases read_stable_or_reclaimed h hi op (.ref id) s (by simp [read, hm]) with h1 | ⟨_, w, id', _, hp, hsl, _⟩
  · exact h1
  · cases hp; rw [hm] at hsl; cases hsl

/-- … and over every history that contains no sweep covering it, however long. -/
theorem live_without_sweep (ops : List Op) (h : Heap) (hi : Inv h) (hok : OpsOk h ops)
    (p : Handle) (s : Bytes) (hr : read h p = some s)
    (hns : ∀ op ∈ ops, ∀ w, op ≠ .sweep w) : read (run ops h) p = some s := by
  induction ops generalizing h with
  | nil => exact hr
  | cons op ops ih =>
    simp only [run, List.foldl_cons]
    rcases read_stable_or_reclaimed h hi op p s hr with h1 | ⟨_, w, _, hop, _⟩
    · exact ih (step h op) (inv_step hi op hok.1) hok.2 h1 (fun o ho => hns o (List.mem_cons_of_mem _ ho))
    · exact absurd hop (hns op (List.mem_cons_self) w)

def isSweep : Op → Bool
  | .sweep _ => true
  | _ => false

def sweepCount (ops : List Op) : Nat := (ops.filter isSweep).length

/-- A slot that is marked (or permanent) stays marked-or-permanent under any non-sweep step. -/
theorem marked_or_perm_step (h : Heap) (hi : Inv h) (op : Op) (hns : isSweep op = false) (id : Nat)
    (s : Bytes) (hm : h.slots[id]? = some (.temp s true) ∨ h.slots[id]? = some (.perm s)) :
    (step h op).slots[id]? = some (.temp s true) ∨ (step h op).slots[id]? = some (.perm s) := by
  rcases hm with hm | hm
  · obtain ⟨sl', hsl', hst, hwin⟩ := slot_step h hi op id _ hm
    cases hst with
    | same => left; exact hsl'
    | promote t m => right; exact hsl'
    | mark t m => left; exact hsl'
    | unmark t =>
      obtain ⟨w, hop, _⟩ := hwin (Or.inr ⟨s, rfl, rfl⟩)
      subst hop; simp [isSweep] at hns
  · obtain ⟨sl', hsl', hst, _⟩ := slot_step h hi op id _ hm
    cases hst
    right; exact hsl'

/-- **Two passes are needed**: a string marked since the sweeper last passed over it is still
readable after ANY history that contains at most one sweep (of any window) — reclaiming it takes
one pass to clear the mark and a second one to free it, with no mark in between. -/
theorem marked_needs_two_sweeps (ops : List Op) (h : Heap) (hi : Inv h) (hok : OpsOk h ops)
    (id : Nat) (s : Bytes) (hm : h.slots[id]? = some (.temp s true) ∨ h.slots[id]? = some (.perm s))
    (hcount : sweepCount ops ≤ 1) : read (run ops h) (.ref id) = some s := by
  induction ops generalizing h with
  | nil => rcases hm with hm | hm <;> simp [run, read, hm]
  | cons op ops ih =>
    simp only [run, List.foldl_cons]
    have hi' := inv_step hi op hok.1
    by_cases hs : isSweep op = true
    · -- this is the one sweep: afterwards the slot is still live and no sweep follows
      have hrest : ∀ o ∈ ops, ∀ w, o ≠ .sweep w := by
        intro o ho w hc
        subst hc
        have : sweepCount (op :: ops) ≥ 2 := by
          simp only [sweepCount, List.filter_cons, hs, ↓reduceIte, List.length_cons]
          have : (List.filter isSweep ops).length ≥ 1 := by
            apply List.length_pos_of_mem (a := Op.sweep w)
            simp [List.mem_filter, ho, isSweep]
          omega
        omega
      have hr : read (step h op) (.ref id) = some s := by
        rcases hm with hm | hm
        · exact marked_survives h hi op id s hm
        · obtain ⟨sl', hsl', hst, _⟩ := slot_step h hi op id _ hm
          cases hst; simp [read, hsl']
      exact live_without_sweep ops _ hi' hok.2 (.ref id) s hr hrest
    · have hs' : isSweep op = false := by simpa using hs
      apply ih (step h op) hi' hok.2 (marked_or_perm_step h hi op hs' id s hm)
      simpa [sweepCount, List.filter_cons, hs'] using hcount


/-- **C17 (c3)** every part of a module reference that was readable when the reference was created
is permanent afterwards and stays readable over every later history. -/
theorem modref_parts_never_reclaimed (h : Heap) (hi : Inv h) (ps : List Handle)
    (hps : ∀ p ∈ ps, HandleOk h p) (p : Handle) (hp : p ∈ ps) (s : Bytes)
    (hr : read h p = some s) (ops : List Op) (hok : OpsOk (allocModuleRef h ps).1 ops) :
    read (run ops (allocModuleRef h ps).1) p = some s := by
  have hi' : Inv (allocModuleRef h ps).1 := inv_allocModuleRef hi ps hps
  cases p with
  | inl a =>
    have : ∀ g : Heap, read g (.inl a) = some a := fun _ => rfl
    rw [this] at hr ⊢; exact hr
  | ref id =>
    obtain ⟨sl, hsl, hl⟩ := (read_ref_iff h id s).mp hr
    obtain ⟨sl', hsl', hst, _⟩ := slot_step h hi (.allocModuleRef ps) id sl hsl
    simp only [step] at hsl'
    -- the part belongs to a registered module reference, hence is not temporary
    have hmem : ∃ parts ∈ (allocModuleRef h ps).1.modRefs, Handle.ref id ∈ parts := by
      unfold allocModuleRef
      cases hf : findIdx h.modRefs ps with
      | some i =>
        simp only
        refine ⟨ps, ?_, hp⟩
        clear hi' hok hsl' 
        have : ∀ (l : List (List Handle)) (k : Nat), findIdx l ps k = some i → ps ∈ l := by
          intro l
          induction l with
          | nil => intro k hk; simp [findIdx] at hk
          | cons x xs ih =>
            intro k hk
            simp only [findIdx] at hk
            split at hk
            · subst_vars; simp
            · exact List.mem_cons_of_mem _ (ih (k + 1) hk)
        exact this _ 0 hf
      | none => exact ⟨ps, by simp, hp⟩
    obtain ⟨parts, hparts, hin⟩ := hmem
    have hnt := (hi'.modPerm parts hparts id hin).2
    have hperm : (allocModuleRef h ps).1.slots[id]? = some (.perm s) := by
      cases hst with
      | same =>
        rcases hl with rfl | ⟨m, rfl⟩
        · exact hsl'
        · exact absurd hsl' (hnt s m)
      | promote t m => rcases hl with hc | ⟨m', hc⟩ <;> cases hc; exact hsl'
      | mark t m => exact absurd hsl' (hnt t true)
      | unmark t => exact absurd hsl' (hnt t false)
      | reclaim t =>
        rcases hl with hc | ⟨m', hc⟩ <;> cases hc
        rename_i hwin
        obtain ⟨w, hop, _⟩ := hwin (Or.inl ⟨rfl, by simp⟩)
        cases hop
    have := perm_forever ops _ hi' hok id s hperm
    simp [read, this]

/-- **C17 (d)** `alloc_string` always returns a readable handle for exactly the given string … -/
theorem allocString_reads (h : Heap) (hi : Inv h) (s : Bytes) :
    read (allocString h s).1 (allocString h s).2 = some s := by
  unfold allocString
  split
  · rfl
  · split
    · rename_i id hs
      simp [read, hi.staticSound s id hs]
    · split
      · rename_i id ht
        rcases hi.tempSound s id ht with hm | hm <;> simp [read, hm]
      · simp [read]

/-- … that is `Valid`, … -/
theorem allocString_valid (h : Heap) (hi : Inv h) (s : Bytes) :
    Valid (allocString h s).1 (allocString h s).2 := by
  unfold allocString
  split
  · assumption
  · rename_i hlen
    split
    · rename_i id hs
      have := hi.staticSound s id hs
      refine ⟨(List.getElem?_eq_some_iff.mp this).1, ?_⟩
      intro t ht; rw [this] at ht; cases ht; omega
    · split
      · rename_i id ht
        rcases hi.tempSound s id ht with hm | hm <;>
          exact ⟨(List.getElem?_eq_some_iff.mp hm).1, by intro t ht; rw [hm] at ht; cases ht⟩
      · simp only [Valid, List.length_append, List.length_cons, List.length_nil, getElem?_push]
        refine ⟨by omega, ?_⟩
        intro t ht; simp at ht

/-- … and **fresh**: it is never a handle whose slot has been reclaimed (re-allocating a reclaimed
string yields a new handle, different from every stale one). -/
theorem allocString_fresh (h : Heap) (hi : Inv h) (s : Bytes) (stale : Nat)
    (hd : h.slots[stale]? = some .dead) : (allocString h s).2 ≠ .ref stale := by
  intro hc
  have hr := allocString_reads h hi s
  rw [hc] at hr
  obtain ⟨sl, hsl, hl⟩ := (read_ref_iff _ stale s).mp hr
  obtain ⟨sl', hsl', hst, _⟩ := slot_step h hi (.allocString s) stale _ hd
  simp only [step] at hsl'
  rw [hsl] at hsl'; cases hsl'
  cases hst
  rcases hl with hc | ⟨m, hc⟩ <;> cases hc

/-- **C17 (e)** the Rust slice `table[sweep_start..sweep_end]` is always in bounds, for work units
smaller or larger than the table (incl. 0 and the empty table), and `make_string_permanent`'s
`expect` never fires on a handle that exists. -/
theorem sweep_in_bounds (h : Heap) (hi : Inv h) (w : Nat) : sweepOk h w = true := by
  unfold sweepOk
  have := sweepWindow_bounds h w hi.sweepIdx
  generalize sweepWindow h w = win at this ⊢
  obtain ⟨a, b, c⟩ := win
  simp only at this ⊢
  simp [this.1, this.2.1]

theorem makePermanent_no_panic (h : Heap) (hi : Inv h) (p : Handle) (hp : HandleOk h p) :
    makePermanentOk h p = true := by
  cases p with
  | inl a => rfl
  | ref id =>
    simp only [HandleOk] at hp
    simp only [makePermanentOk]
    cases hsl : h.slots[id]? with
    | none => have := List.getElem?_eq_none_iff.mp hsl; omega
    | some sl =>
      cases sl with
      | perm s => rfl
      | dead => rfl
      | temp s m => simp [hi.tempComplete id s m hsl]

/-! ## An incremental sweep slice touches only its own window (the slice `[sweepIndex, sweepIndex + work)`):
a slot outside the window keeps its state — in particular its mark — whatever the work unit, so an
incremental cycle visits every slot once, not "every slot the remaining budget reaches". -/

theorem sweep_outside_window_unchanged (h : Heap) (work id : Nat)
    (hout : id < h.sweepIndex ∨ h.sweepIndex + work ≤ id) :
    (sweep h work).slots[id]? = h.slots[id]? := by
  unfold sweep
  by_cases hq : (!h.unmarked.isEmpty) = true
  · simp [hq]
  · simp only [hq, Bool.false_eq_true, if_false]
    unfold sweepWindow
    cases hsl : h.slots[id]? with
    | none =>
      by_cases hge : h.sweepIndex + work ≥ h.slots.length <;>
        simp only [hge, if_true, if_false] <;> rw [sweepSlots_getElem?, hsl] <;> rfl
    | some sl =>
      have hlt : id < h.slots.length := (List.getElem?_eq_some_iff.mp hsl).1
      by_cases hge : h.sweepIndex + work ≥ h.slots.length
      · simp only [hge, if_true]
        rw [sweepSlots_getElem?, hsl]
        have hd : ¬ (h.sweepIndex ≤ id ∧ id < h.slots.length) := by
          rcases hout with h1 | h1 <;> omega
        simp only [Nat.zero_add, Option.map_some]
        simp [sweepSlot, hd]
      · simp only [hge, if_false]
        rw [sweepSlots_getElem?, hsl]
        have hd : ¬ (h.sweepIndex ≤ id ∧ id < h.sweepIndex + work) := by
          rcases hout with h1 | h1 <;> omega
        simp only [Nat.zero_add, Option.map_some]
        simp [sweepSlot, hd]

/-- Inside its window a slice treats a slot exactly once: marked → unmarked, unmarked → reclaimed,
everything else unchanged. -/
theorem sweep_inside_window (h : Heap) (work id : Nat) (sl : Slot)
    (hq : h.unmarked.isEmpty = true)
    (hin : h.sweepIndex ≤ id ∧ id < h.sweepIndex + work) (hsl : h.slots[id]? = some sl) :
    (sweep h work).slots[id]? = some (sweepSlot true sl) := by
  have hlt : id < h.slots.length := (List.getElem?_eq_some_iff.mp hsl).1
  unfold sweep
  simp only [hq, Bool.not_true, Bool.false_eq_true, if_false]
  unfold sweepWindow
  by_cases hge : h.sweepIndex + work ≥ h.slots.length
  · simp only [hge, if_true]
    rw [sweepSlots_getElem?, hsl]
    have hd : (h.sweepIndex ≤ id ∧ id < h.slots.length) := by omega
    simp only [Nat.zero_add, Option.map_some]
    simp [hd]
  · simp only [hge, if_false]
    rw [sweepSlots_getElem?, hsl]
    have hd : (h.sweepIndex ≤ id ∧ id < h.sweepIndex + work) := by omega
    simp only [Nat.zero_add, Option.map_some]
    simp [hd]

example : (sweep { init with slots := [.temp [1] true, .temp [2] true, .temp [3] true], sweepIndex := 1 } 1).slots
    = [.temp [1] true, .temp [2] false, .temp [3] true] := by decide   -- only slot 1 is in the window

/-! ## Ordering of handles (`Ord for PStr`): ordered collections (`BTreeSet<PStr>` of string literals,
sorted diagnostics) identify exactly the handles that are equal. -/

theorem bytesLt_irrefl (s : Bytes) : bytesLt s s = false := by
  induction s with
  | nil => rfl
  | cons a as ih => simp [bytesLt, ih]

theorem bytesLt_total (s t : Bytes) (h : s ≠ t) : bytesLt s t = true ∨ bytesLt t s = true := by
  induction s generalizing t with
  | nil => cases t with
    | nil => exact absurd rfl h
    | cons b bs => left; rfl
  | cons a as ih => cases t with
    | nil => right; rfl
    | cons b bs =>
      simp only [bytesLt, Bool.or_eq_true, decide_eq_true_eq, Bool.and_eq_true, beq_iff_eq]
      rcases Nat.lt_trichotomy a.toNat b.toNat with hlt | heq | hgt
      · left; left; exact UInt8.lt_iff_toNat_lt.mpr hlt
      · have hab : a = b := UInt8.toNat_inj.mp heq
        subst hab
        have hne : as ≠ bs := fun e => h (by rw [e])
        rcases ih bs hne with h1 | h1
        · left; right; exact ⟨rfl, h1⟩
        · right; right; exact ⟨rfl, h1⟩
      · right; left; exact UInt8.lt_iff_toNat_lt.mpr hgt

theorem bytesLt_asymm (s t : Bytes) (h : bytesLt s t = true) : bytesLt t s = false := by
  induction s generalizing t with
  | nil => cases t <;> simp_all [bytesLt]
  | cons a as ih => cases t with
    | nil => simp [bytesLt] at h
    | cons b bs =>
      simp only [bytesLt, Bool.or_eq_true, decide_eq_true_eq, Bool.and_eq_true, beq_iff_eq] at h
      simp only [bytesLt, Bool.or_eq_false_iff, decide_eq_false_iff_not, Bool.and_eq_false_iff, beq_eq_false_iff_ne]
      rcases h with hlt | ⟨hab, hrest⟩
      · have h1 : a.toNat < b.toNat := UInt8.lt_iff_toNat_lt.mp hlt
        refine ⟨fun hc => ?_, Or.inl (fun e => ?_)⟩
        · have := UInt8.lt_iff_toNat_lt.mp hc; omega
        · subst e; omega
      · subst hab
        exact ⟨fun hc => by have := UInt8.lt_iff_toNat_lt.mp hc; omega, Or.inr (ih bs hrest)⟩

/-- `cmp` answers `Equal` exactly for equal handles: an ordered set keyed by handles never
conflates two different strings and never splits one (this is what `Ord` must add to `Eq`). -/
theorem cmpHandle_eq_zero_iff (a b : Handle) : cmpHandle a b = 0 ↔ a = b := by
  cases a <;> cases b <;> simp only [cmpHandle]
  · rename_i s1 s2
    by_cases h : s1 = s2
    · simp [h]
    · simp only [h, if_false]; constructor
      · intro hc; split at hc <;> omega
      · intro hc; cases hc; exact absurd rfl h
  · constructor <;> intro h <;> first | omega | cases h
  · constructor <;> intro h <;> first | omega | cases h
  · rename_i i j
    by_cases h : i = j
    · simp [h]
    · simp only [h, if_false]; constructor
      · intro hc; split at hc <;> omega
      · intro hc; cases hc; exact absurd rfl h

/-- antisymmetry: swapping the operands negates the answer (a total order, not merely a
comparison function): sorting by handles is deterministic. -/
theorem cmpHandle_antisymm (a b : Handle) : cmpHandle b a = - cmpHandle a b := by
  cases a with
  | inl s1 =>
    cases b with
    | inl s2 =>
      simp only [cmpHandle]
      by_cases h : s1 = s2
      · subst h; simp
      · have h' : s2 ≠ s1 := fun e => h e.symm
        simp only [h, h', if_false]
        rcases bytesLt_total s1 s2 h with h1 | h1
        · simp [h1, bytesLt_asymm s1 s2 h1]
        · simp [h1, bytesLt_asymm s2 s1 h1]
    | ref j => simp [cmpHandle]
  | ref i =>
    cases b with
    | inl s2 => simp [cmpHandle]
    | ref j =>
      simp only [cmpHandle]
      by_cases h : i = j
      · subst h; simp
      · have h' : j ≠ i := fun e => h e.symm
        simp only [h, h', if_false]
        rcases Nat.lt_or_gt_of_ne h with h1 | h1
        · have : ¬ j < i := by omega
          simp [h1, this]
        · have : ¬ i < j := by omega
          simp [h1, this]

example : cmpHandle (.inl [97, 98]) (.inl [97, 98, 0]) = -1 := by decide   -- "ab" vs "ab\0": not Equal

/-! ## Non-vacuity: a concrete history meets every hypothesis and exercises promote / mark /
two-pass reclamation / re-allocation. -/

def longA : Bytes := List.replicate 16 97
def longB : Bytes := List.replicate 17 98

def demoOps : List Op :=
  [.allocString longA, .allocString longB, .mark (.ref 0), .allocModuleRef [.ref 1],
   .sweep 10, .sweep 10, .allocString longA]

theorem demoOps_ok : OpsOk init demoOps := by
  simp [OpsOk, demoOps, OpOk, HandleOk, step, run, init, allocString, lookup, longA, longB, inlineMax, mark, allocModuleRef, findIdx, makePermanent, sweep, sweepWindow, sweepSlots, sweepSlot, reclaimedStrings]
example : read (run (demoOps.take 5)) (.ref 0) = some longA := by decide   -- marked: survived
example : read (run (demoOps.take 6)) (.ref 0) = none := by decide         -- second pass: reclaimed
example : read (run (demoOps.take 6)) (.ref 1) = some longB := by decide   -- module part: permanent
example : (allocString (run (demoOps.take 6)) longA).2 = .ref 2 := by decide -- fresh handle
example : Inv (run demoOps) := inv_reachable demoOps demoOps_ok
example : sweepCount (demoOps.take 5) ≤ 1 := by decide   -- marked_needs_two_sweeps applies to the 5-op prefix

end SamVerif.Heap
