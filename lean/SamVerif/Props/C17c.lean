import SamVerif.Props.C17
/-! C17, ordering of handles completed: `Ord for PStr` is a strict total order (transitivity was
the missing law after `cmpHandle_eq_zero_iff` / `cmpHandle_antisymm`), so sorting by handles and
`BTreeSet<PStr>` / `BTreeMap<PStr, _>` lookups are well defined: a comparator that is not
transitive makes a B-tree lose keys that are present. -/
namespace SamVerif.Heap

theorem bytesLt_trans (s t u : Bytes) (h1 : bytesLt s t = true) (h2 : bytesLt t u = true) :
    bytesLt s u = true := by
  induction s generalizing t u with
  | nil =>
    cases t with
    | nil => simp [bytesLt] at h1
    | cons b bs => cases u with
      | nil => simp [bytesLt] at h2
      | cons c cs => rfl
  | cons a as ih =>
    cases t with
    | nil => simp [bytesLt] at h1
    | cons b bs =>
      cases u with
      | nil => simp [bytesLt] at h2
      | cons c cs =>
        simp only [bytesLt, Bool.or_eq_true, decide_eq_true_eq, Bool.and_eq_true, beq_iff_eq] at h1 h2 ⊢
        rcases h1 with hab | ⟨hab, hr1⟩
        · rcases h2 with hbc | ⟨hbc, _⟩
          · left
            have x := UInt8.lt_iff_toNat_lt.mp hab
            have y := UInt8.lt_iff_toNat_lt.mp hbc
            exact UInt8.lt_iff_toNat_lt.mpr (by omega)
          · subst hbc; left; exact hab
        · subst hab
          rcases h2 with hbc | ⟨hbc, hr2⟩
          · left; exact hbc
          · subst hbc; right; exact ⟨rfl, ih bs cs hr1 hr2⟩

/-- `cmp a b = Less` exactly when the model's strict order holds. -/
def hLt (a b : Handle) : Prop := cmpHandle a b = -1

theorem cmpHandle_range (a b : Handle) : cmpHandle a b = -1 ∨ cmpHandle a b = 0 ∨ cmpHandle a b = 1 := by
  cases a <;> cases b <;> simp only [cmpHandle] <;> (try split) <;> (try split) <;> simp

/-- Transitivity of `Less`: with `cmpHandle_eq_zero_iff` and `cmpHandle_antisymm` this makes
`Ord for PStr` a strict total order on handles. -/
theorem cmpHandle_trans (a b c : Handle) (h1 : cmpHandle a b = -1) (h2 : cmpHandle b c = -1) :
    cmpHandle a c = -1 := by
  cases a with
  | inl s1 =>
    cases c with
    | ref k => simp [cmpHandle]
    | inl s3 =>
      cases b with
      | ref j => simp [cmpHandle] at h2
      | inl s2 =>
        simp only [cmpHandle] at h1 h2 ⊢
        have l1 : bytesLt s1 s2 = true := by
          by_cases e : s1 = s2
          · simp [e] at h1
          · simp only [e, if_false] at h1; split at h1
            · assumption
            · omega
        have l2 : bytesLt s2 s3 = true := by
          by_cases e : s2 = s3
          · simp [e] at h2
          · simp only [e, if_false] at h2; split at h2
            · assumption
            · omega
        have l3 := bytesLt_trans s1 s2 s3 l1 l2
        have ne : s1 ≠ s3 := by
          intro e; subst e; rw [bytesLt_irrefl] at l3; cases l3
        simp [ne, l3]
  | ref i =>
    cases b with
    | inl s2 => simp [cmpHandle] at h1
    | ref j =>
      cases c with
      | inl s3 => simp [cmpHandle] at h2
      | ref k =>
        simp only [cmpHandle] at h1 h2 ⊢
        have l1 : i < j := by
          by_cases e : i = j
          · simp [e] at h1
          · simp only [e, if_false] at h1; split at h1
            · assumption
            · omega
        have l2 : j < k := by
          by_cases e : j = k
          · simp [e] at h2
          · simp only [e, if_false] at h2; split at h2
            · assumption
            · omega
        have ne : i ≠ k := by omega
        have l3 : i < k := by omega
        simp [ne, l3]

/-- Trichotomy: exactly one of `a < b`, `a = b`, `b < a`. -/
theorem cmpHandle_trichotomy (a b : Handle) :
    (hLt a b ∧ a ≠ b ∧ ¬ hLt b a) ∨ (¬ hLt a b ∧ a = b ∧ ¬ hLt b a) ∨ (¬ hLt a b ∧ a ≠ b ∧ hLt b a) := by
  unfold hLt
  have anti := cmpHandle_antisymm a b
  have z := cmpHandle_eq_zero_iff a b
  rcases cmpHandle_range a b with h | h | h
  · left; refine ⟨h, fun e => ?_, ?_⟩
    · have := z.mpr e; omega
    · omega
  · right; left; refine ⟨by omega, z.mp h, by omega⟩
  · right; right; refine ⟨by omega, fun e => ?_, by omega⟩
    have := z.mpr e; omega

/-! `debug_unmarked_strings` output is sorted: insertion keeps the list sorted (the order of the
string table never leaks into the report). -/

def SortedB : List Bytes → Prop
  | [] => True
  | [_] => True
  | x :: y :: r => bytesLt y x = false ∧ SortedB (y :: r)

theorem insertSorted_sorted (x : Bytes) (l : List Bytes) (h : SortedB l) : SortedB (insertSorted x l) := by
  induction l with
  | nil => simp [insertSorted, SortedB]
  | cons y ys ih =>
    simp only [insertSorted]
    split
    · rename_i hyx
      cases ys with
      | nil => simp [insertSorted, SortedB, bytesLt_asymm y x hyx]
      | cons z zs =>
        have hs : SortedB (z :: zs) := h.2
        have ih' := ih hs
        simp only [insertSorted] at ih' ⊢
        split
        · rename_i hzx
          simp only [hzx, if_true] at ih'
          exact ⟨h.1, ih'⟩
        · rename_i hzx
          exact ⟨bytesLt_asymm y x hyx, by simpa [hzx] using ih'⟩
    · rename_i hyx
      exact ⟨by simpa using hyx, h⟩

theorem debugUnmarked_sorted (h : Heap) : SortedB (debugUnmarked h) := by
  unfold debugUnmarked
  induction (h.slots.filterMap fun | .temp s false => some s | _ => none) with
  | nil => simp [SortedB]
  | cons x xs ih => exact insertSorted_sorted x _ ih

/-! ## "Marked since the sweeper last passed over it", at the precision of the incremental sweeper.
`marked_needs_two_sweeps` counts sweep calls; the statement below counts only the slices whose
window actually COVERS the slot with the gate open — any number of other slices (closed gate, other
windows, any work unit) may run in between. -/

/-- this step is an open-gate sweep slice whose window contains slot `id` -/
def coversB (h : Heap) (op : Op) (id : Nat) : Bool :=
  match op with
  | .sweep w => h.unmarked.isEmpty && decide ((sweepWindow h w).1 ≤ id) && decide (id < (sweepWindow h w).2.1)
  | _ => false

/-- number of covering slices met by slot `id` along a history -/
def coverCount (id : Nat) : Heap → List Op → Nat
  | _, [] => 0
  | h, op :: ops => (if coversB h op id then 1 else 0) + coverCount id (step h op) ops

theorem coversB_of_window (h : Heap) (op : Op) (id : Nat)
    (hw : ∃ w, op = .sweep w ∧ h.unmarked = [] ∧ (sweepWindow h w).1 ≤ id ∧ id < (sweepWindow h w).2.1) :
    coversB h op id = true := by
  obtain ⟨w, hop, hu, h1, h2⟩ := hw
  subst hop
  simp [coversB, hu, h1, h2]

/-- a readable handle stays readable under every step that is not a covering slice -/
theorem read_step_uncovered (h : Heap) (hi : Inv h) (op : Op) (id : Nat) (s : Bytes)
    (hr : read h (.ref id) = some s) (hc : coversB h op id = false) :
    read (step h op) (.ref id) = some s := by
  rcases read_stable_or_reclaimed h hi op (.ref id) s hr with h1 | ⟨_, w, id', hop, hp, _, hu, hw1, hw2⟩
  · exact h1
  · cases hp
    rw [coversB_of_window h op id ⟨w, hop, hu, hw1, hw2⟩] at hc; cases hc

theorem live_without_covering_sweep (ops : List Op) (h : Heap) (hi : Inv h) (hok : OpsOk h ops)
    (id : Nat) (s : Bytes) (hr : read h (.ref id) = some s) (hc : coverCount id h ops = 0) :
    read (run ops h) (.ref id) = some s := by
  induction ops generalizing h with
  | nil => exact hr
  | cons op ops ih =>
    simp only [run, List.foldl_cons]
    simp only [coverCount] at hc
    have hcb : coversB h op id = false := by
      cases hb : coversB h op id with
      | false => rfl
      | true => simp [hb] at hc
    exact ih (step h op) (inv_step hi op hok.1) hok.2 (read_step_uncovered h hi op id s hr hcb) (by omega)

/-- a marked (or permanent) slot keeps its mark under every step that is not a covering slice -/
theorem marked_step_uncovered (h : Heap) (hi : Inv h) (op : Op) (id : Nat) (s : Bytes)
    (hm : h.slots[id]? = some (.temp s true) ∨ h.slots[id]? = some (.perm s))
    (hc : coversB h op id = false) :
    (step h op).slots[id]? = some (.temp s true) ∨ (step h op).slots[id]? = some (.perm s) := by
  rcases hm with hm | hm
  · obtain ⟨sl', hsl', hst, hwin⟩ := slot_step h hi op id _ hm
    cases hst with
    | same => left; exact hsl'
    | promote t m => right; exact hsl'
    | mark t m => left; exact hsl'
    | unmark t =>
      rw [coversB_of_window h op id (hwin (Or.inr ⟨s, rfl, rfl⟩))] at hc; cases hc
  · obtain ⟨sl', hsl', hst, _⟩ := slot_step h hi op id _ hm
    cases hst
    right; exact hsl'

/-- **C17 (c2), full strength for the incremental sweeper**: a string that is marked (or permanent)
is still readable after ANY history in which at most one open-gate slice covers its slot — however
many other slices, marks, allocations and closed-gate sweeps the history contains. -/
theorem marked_needs_two_covering_sweeps (ops : List Op) (h : Heap) (hi : Inv h) (hok : OpsOk h ops)
    (id : Nat) (s : Bytes) (hm : h.slots[id]? = some (.temp s true) ∨ h.slots[id]? = some (.perm s))
    (hcount : coverCount id h ops ≤ 1) : read (run ops h) (.ref id) = some s := by
  induction ops generalizing h with
  | nil => rcases hm with hm | hm <;> simp [run, read, hm]
  | cons op ops ih =>
    simp only [run, List.foldl_cons]
    have hi' := inv_step hi op hok.1
    simp only [coverCount] at hcount
    cases hb : coversB h op id with
    | true =>
      simp only [hb, if_true] at hcount
      have hr : read (step h op) (.ref id) = some s := by
        rcases hm with hm | hm
        · exact marked_survives h hi op id s hm
        · obtain ⟨sl', hsl', hst, _⟩ := slot_step h hi op id _ hm
          cases hst; simp [read, hsl']
      exact live_without_covering_sweep ops _ hi' hok.2 id s hr (by omega)
    | false =>
      simp only [hb] at hcount
      exact ih (step h op) hi' hok.2 (marked_step_uncovered h hi op id s hm hb) (by simpa using hcount)

/-- a sweep-count bound implies the covering bound: `marked_needs_two_sweeps` is a corollary shape -/
theorem coverCount_le_sweepCount (id : Nat) (ops : List Op) (h : Heap) : coverCount id h ops ≤ sweepCount ops := by
  induction ops generalizing h with
  | nil => simp [coverCount, sweepCount]
  | cons op ops ih =>
    have := ih (step h op)
    cases op <;> simp [coverCount, coversB, sweepCount, List.filter_cons, isSweep] at this ⊢ <;> (try split) <;> omega

-- non-vacuity: three sweeps, only one of which covers slot 0 (window [0,1), then [1,2), then wraps to [0,1))
example : coverCount 0 init [.allocString longA, .allocString longB, .mark (.ref 0), .sweep 1, .sweep 1] = 1 := by decide
example : read (run [.allocString longA, .allocString longB, .mark (.ref 0), .sweep 1, .sweep 1]) (.ref 0) = some longA := by decide

/-! ## A mark is a mark wherever the sweep cursor stands (seeded fault C17h dropped marks of slots
behind the cursor).  `mark` on a live temporary sets its mark bit whatever `sweepIndex` is, and the
string then survives every history with at most one covering slice. -/

theorem mark_sets_mark (h : Heap) (id : Nat) (s : Bytes) (m : Bool)
    (hsl : h.slots[id]? = some (.temp s m)) :
    (mark h (.ref id)).slots[id]? = some (.temp s true) := by
  have hlt : id < h.slots.length := (List.getElem?_eq_some_iff.mp hsl).1
  unfold mark
  simp only [hsl]
  simp [hlt]

/-- … independent of the cursor: moving `sweepIndex` does not change what `mark` does to the slots. -/
theorem mark_cursor_independent (h : Heap) (p : Handle) (c : Nat) :
    (mark { h with sweepIndex := c } p).slots = (mark h p).slots := by
  cases p with
  | inl a => rfl
  | ref id =>
    simp only [mark]
    split <;> rfl

/-- a temporary marked NOW (cursor anywhere) is readable after any later history in which at most
one open-gate slice covers its slot -/
theorem mark_protects_until_second_cover (ops : List Op) (h : Heap) (hi : Inv h)
    (id : Nat) (s : Bytes) (m : Bool) (hsl : h.slots[id]? = some (.temp s m))
    (hok : OpsOk h (.mark (.ref id) :: ops))
    (hcount : coverCount id (mark h (.ref id)) ops ≤ 1) :
    read (run (.mark (.ref id) :: ops) h) (.ref id) = some s := by
  simp only [run, List.foldl_cons]
  have hi' : Inv (step h (.mark (.ref id))) := inv_step hi _ hok.1
  exact marked_needs_two_covering_sweeps ops (step h (.mark (.ref id))) hi' hok.2 id s
    (Or.inl (mark_sets_mark h id s m hsl)) hcount

example : hLt (.inl [97]) (.inl [97, 0]) ∧ hLt (.inl [97, 0]) (.ref 0) ∧ hLt (.ref 0) (.ref 3) := by
  unfold hLt; decide
example : SortedB (insertSorted [2] [[1], [3]]) := by
  simp [insertSorted, SortedB, bytesLt]

end SamVerif.Heap
