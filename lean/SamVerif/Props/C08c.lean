import SamVerif.Generated.C08Prec
import SamVerif.Model.FmtFull
/-!
# C08: the printer's and the parser's precedence tables agree (on the *extracted* tables)

`Generated/C08Prec.lean` is written by `extract/c08_prec.py` from the source text on every run of the
check: `printerPrec` = `BinaryOperator::precedence` (samlang-ast/src/source.rs, the table the formatter
consults to drop parentheses), `parserLevel` / `parserLeftAssoc` = the precedence-climbing chain of
samlang-parser/src/source_parser.rs (which `_with_start` loop consumes the operator, whether that loop
parses its right operand one level up and folds to the left).

Two sites in two crates that each look fine alone; the round trip needs them to induce the same
partition of the 14 operators into levels, in the same order, with the associativity the printer's
left-operand rule assumes.  A change of either site that breaks the agreement (seeded/C08g: `==`/`!=`
on a printer level of their own) makes a theorem of this file false; `vlib/c08.py` then names the
operator pairs (`extract/c08_prec.py --print`).  The first two theorems tie the tables of
`Model/Fmt.lean`, over which every round-trip theorem of `Props/C08.lean` is proved, to the source.
-/
namespace SamVerif.C08c
open SamVerif.Fmt (BinOp)
open SamVerif.Generated.C08Prec

/-- The model's printer table is the source's `BinaryOperator::precedence`. -/
theorem printer_table_is_source (o : BinOp) : o.pprec = printerPrec o := by cases o <;> rfl

/-- The model's parser levels are the source's climbing chain. -/
theorem parser_levels_are_source (o : BinOp) : o.plevel = parserLevel o := by cases o <;> rfl

/-- **Same partition into levels**: two operators share a printer level iff one parser loop consumes
both. -/
theorem tables_same_partition (o₁ o₂ : BinOp) :
    printerPrec o₁ = printerPrec o₂ ↔ parserLevel o₁ = parserLevel o₂ := by
  cases o₁ <;> cases o₂ <;> decide

/-- **Same order**: the printer regards `o₁` as binding tighter than `o₂` (smaller number) iff the
parser consumes `o₁` deeper in the climbing chain. -/
theorem tables_same_order (o₁ o₂ : BinOp) :
    printerPrec o₁ < printerPrec o₂ ↔ parserLevel o₂ < parserLevel o₁ := by
  cases o₁ <;> cases o₂ <;> decide

/-- The two tables determine each other: printer level + parser level = number of levels − 1. -/
theorem tables_mirror (o : BinOp) : printerPrec o + parserLevel o + 1 = parserLevels := by
  cases o <;> decide

/-- **Associativity**: every level of the parser is left-associative (right operand parsed one level
up, loop folds into the left operand) — what the printer's left-operand rule relies on … -/
theorem parser_left_associative (o : BinOp) : parserLeftAssoc o = true := by cases o <;> rfl

open SamVerif.FmtFull in
/-- … namely: a left-nested pair of operators of one level is printed without parentheses, a
right-nested pair keeps them unless it is the same associative operator (`shortcutOk`). -/
theorem printer_assumes_left_associativity (o₁ o₂ : BinOp) (h : printerPrec o₁ = printerPrec o₂) :
    printE (.binary o₂ (.binary o₁ (.atom 0) (.atom 1)) (.atom 2)) =
      [.atom 0, .op o₁, .atom 1, .op o₂, .atom 2] ∧
    (shortcutOk o₁ (.binary o₂ (.atom 1) (.atom 2)) = false →
      printE (.binary o₁ (.atom 0) (.binary o₂ (.atom 1) (.atom 2))) =
        [.atom 0, .op o₁, .lp, .atom 1, .op o₂, .atom 2, .rp]) := by
  cases o₁ <;> cases o₂ <;> first | (exact absurd h (by decide)) | decide

/-- The agreement is a real constraint: the table of seeded fault C08g (`==`, `!=` one level looser
than `<`) does not have the parser's partition. -/
theorem own_level_for_equality_counterexample :
    ¬ ∀ o₁ o₂ : BinOp,
      (fun o => if o = .eq ∨ o = .ne then 3 else if o = .and then 4 else if o = .or then 5 else printerPrec o) o₁ =
        (fun o => if o = .eq ∨ o = .ne then 3 else if o = .and then 4 else if o = .or then 5 else printerPrec o) o₂ ↔
      parserLevel o₁ = parserLevel o₂ := by
  intro h
  exact absurd ((h .lt .eq).mpr (by decide)) (by decide)

end SamVerif.C08c
