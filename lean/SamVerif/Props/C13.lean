import SamVerif.Lemmas.Scope
import SamVerif.Lemmas.ScopeSig
import SamVerif.Lemmas.ScopeOrder
import SamVerif.Lemmas.ScopeWrap
/-!
# C13 — Type inference is stable under meaning-preserving rewrites of the source

Property theorems only.  Modelled and proved here (DESIGN §8 C13):

* consistent renaming — `Model/Scope.lean` is `ssa_analysis.rs` (scope stack, hoisting of toplevel
  names, captures, "name already bound", "cannot resolve name");
* reordering of classes / interfaces / members — `Model/ScopeSig.lean` is
  `build_module_signature` (a fold of `HashMap::insert`s).

Both models are tied to the code on every run by the `ssa` and `sig` correspondence protocols
(`harness/src/bin/c13.rs` vs `Driver/C13.lean`).  The annotation / type-argument / module-splitting
/ block rewrites go through the inference engine; they are exercised by the metamorphic oracle of
`vlib/c13.py` only (claim is *partial*).

`paren_insensitive` lives in `Props/C13b.lean` (it imports C08's parser model).
-/
namespace SamVerif.Scope

variable {α β : Type} [DecidableEq α] [DecidableEq β]

/-- **Alpha invariance of the scope machine** (all event sequences, all start states): running the
renamed events from the renamed state gives the renamed state — same def/use graph, same invalid
definitions, same captures, the same diagnostics up to the renaming. -/
theorem scope_alpha_events (f : α → β) (hf : Function.Injective f) (evs : List (Ev α)) (st : St α) :
    run (evs.map (Ev.map f)) (st.map f) = (run evs st).map f :=
  run_map f hf evs st

/-- **`scope_alpha_invariant`** (full strength, every module — well-scoped or not): the analysis of
a consistently renamed module is the renamed analysis of the module. `f` renames every name
(locals, `this`, type names …); "fresh" = injective. -/
theorem scope_alpha_invariant (f : α → β) (hf : Function.Injective f) (this : α) (m : Module α) :
    analyze (f this) (m.map f) = (analyze this m).map f := by
  simp only [analyze, visitModule_map]
  rw [← init_map f, run_map f hf]

/-- consequences spelled out: the def/use graph, the invalid definitions and the *number* of
diagnostics are unchanged; the module is accepted by scope analysis iff the renamed one is. -/
theorem alpha_same_graph (f : α → β) (hf : Function.Injective f) (this : α) (m : Module α) :
    (analyze (f this) (m.map f)).useDef = (analyze this m).useDef ∧
    (analyze (f this) (m.map f)).invalid = (analyze this m).invalid ∧
    defToUse (analyze (f this) (m.map f)) = defToUse (analyze this m) ∧
    (analyze (f this) (m.map f)).errors.length = (analyze this m).errors.length ∧
    (analyze (f this) (m.map f)).unbound.length = (analyze this m).unbound.length := by
  rw [scope_alpha_invariant f hf]
  simp [St.map, defToUse]

theorem alpha_same_verdict (f : α → β) (hf : Function.Injective f) (this : α) (m : Module α) :
    (analyze (f this) (m.map f)).errors = [] ↔ (analyze this m).errors = [] := by
  rw [scope_alpha_invariant f hf]
  simp [St.map]

/-- Injectivity is necessary: merging two names turns an accepted module into a rejected one
(witness: `(a, b) -> …` renamed with `a, b ↦ a`). -/
theorem alpha_noninjective_counterexample :
    ∃ (f : Nat → Nat) (evs : List (Ev Nat)),
      (run evs init).errors = [] ∧ (run (evs.map (Ev.map f)) init).errors ≠ [] :=
  ⟨fun _ => 0, [.push, .define 1 10, .define 2 11, .pop .discard 0], by decide, by decide⟩

/-- non-vacuity: a module with a parameter, a `let`, a lambda capturing it, and an unbound name -/
def sampleBody : Node Nat :=
  .mk .block none 6 [
    .mk .decl none 0 [.mk .pId (some 2) 7 [], .mk .none none 0 [], .mk .var (some 1) 8 []],
    .mk .lambda none 10 [.mk .param (some 3) 11 [], .mk .seq none 0 [.mk .var (some 3) 12 [], .mk .var (some 2) 13 []]],
    .mk .var (some 9) 16 []]

def sampleMember : Member Nat where
  name := 101
  nameLoc := 3
  loc := 4
  isMethod := false
  tparams := []
  params := [(1, 5, .mk .seq none 0 [])]
  ret := .mk .seq none 0 []
  body := some sampleBody

def sampleTop : Toplevel Nat where
  isClass := true
  name := 100
  nameLoc := 1
  loc := 2
  tparams := []
  supers := []
  typeDef := .none
  members := [sampleMember]

def sample : Module Nat := { imports := [], toplevels := [sampleTop] }

example : (analyze 0 sample).useDef = [(13, 7), (12, 11), (8, 5)] := by decide
example : (analyze 0 sample).lambdaCaps = [(10, [(2, 7)])] := by decide
example : (analyze 0 sample).unbound = [9] := by decide
example : (analyze (0 + 50) (sample.map (· + 50))).unbound = [59] := by decide

/-! ### reordering classes / interfaces: the scope analysis itself (not only the signature map) -/

/-- **The scope machine observes its hash maps only through lookups**: two states whose scopes have
the same content (in any internal order) stay so under every event sequence, with identical
use→definition map, diagnostics, invalid set, unbound names. -/
theorem machine_observes_lookups (evs : List (Ev α)) (st1 st2 : St α) (h : StEq st1 st2) :
    StEq (run evs st1) (run evs st2) :=
  run_eq evs st1 st2 h

/-- **`toplevel_order_invariant`** (hoisting, `ssa_analysis.rs:90-100`): permuting the toplevels of
a module whose imported and toplevel names are pairwise distinct yields a hoisted context with the
same content, and therefore *every* continuation — the analysis of every class body — produces the
same lookups, use→definition entries, diagnostics and capture tables. -/
theorem toplevel_order_invariant (m m' : Module α) (hi : m'.imports = m.imports)
    (hp : m.toplevels.Perm m'.toplevels) (hnd : (names (hoistDefs m)).Nodup) (evs : List (Ev α)) :
    StEq (run evs (run (hoistEvs m) init)) (run evs (run (hoistEvs m') init)) :=
  run_eq evs _ _ (hoist_eq m m' hi hp hnd)

/-- **every toplevel block is analysed in exactly the hoisted context** whichever (and however
many) blocks were analysed before it: a block opens and closes its scopes and leaves the context
untouched (`visit_module` = hoisting ++ blocks, `visitModule_split`). Together with
`toplevel_order_invariant`: the position of a class in the file influences neither the context in
which its body is resolved nor any lookup in it; only the order in which the per-class results
are appended to the result tables differs. -/
theorem toplevel_block_context (this : α) (m : Module α) (ts : List (Toplevel α))
    (hnd : (names (hoistDefs m)).Nodup) :
    (run (hoistEvs m ++ ts.flatMap (visitToplevel this)) init).locals
      = (run (hoistEvs m) init).locals := by
  rw [run_append]
  have hh := run_hoist (hoistDefs m) [] (init : St α) rfl (by simpa [names] using hnd)
  have hl : (run (hoistEvs m) (init : St α)).locals
      = [(hoistDefs m).foldl (fun a d => insertKV d.1 d.2 a) []] := by
    rw [hoistEvs, hh]
  have hw : WF (run (hoistEvs m) (init : St α)) := by
    rw [hoistEvs, hh]; simp [WF, init]
  rw [(blocks_restore this ts _ _ [] hl hw).1, hl]

/-- **every traversal fragment is scope-neutral**: running the events of any expression / pattern /
annotation tree between two scope depths never touches the enclosing scopes. -/
theorem visit_scope_neutral (n : Node α) (a : Nat) : Bal a a (visit n) := visit_bal n a

/-- **block wrapping, "nothing leaks out"**: wrapping any tree in a block (`{ e }`: push, visit,
pop) restores the surrounding context exactly — whatever `e` binds stays inside. -/
theorem block_wrap_no_leak (e : Node α) (loc : Nat) (st : St α) (s : Scope α) (rest : List (Scope α))
    (h : st.locals = s :: rest) (hw : WF st) :
    (run (visit (.mk .block none loc [e])) st).locals = st.locals := by
  have : visit (.mk .block none loc [e]) = [.push] ++ visit e ++ [.pop .scoped loc] := by
    simp [visit, visitList]
  rw [this, h]
  exact (scope_restores (visit_bal e 0) .scoped loc st s rest h hw).1

/-- **block wrapping, "resolution of the inside is unchanged"**: let `e` be a tree that binds
nothing at its own top level and is scope-balanced (`closedAt 0`, `endDepth 0 … = 0`: decidable; true
of expressions, false of patterns / declarations).  Then analysing `{ e }` instead of `e`, from any
state, yields the same context, the same use→definition map, invalid set, definitions,
diagnostics, unbound names and lambda-capture tables; the only difference is the (empty) binding
table recorded for the new block. -/
theorem block_wrap_resolution (e : Node α) (loc : Nat) (hc : closedAt 0 (visit e) = true)
    (he : endDepth 0 (visit e) = 0) (st : St α) (hw : WF st) :
    let r := run (visit e) st
    let r' := run (visit (.mk .block none loc [e])) st
    r'.locals = r.locals ∧ r'.captured = r.captured ∧ r'.useDef = r.useDef ∧ r'.invalid = r.invalid ∧
    r'.defLocs = r.defLocs ∧ r'.errors = r.errors ∧ r'.unbound = r.unbound ∧
    r'.lambdaCaps = r.lambdaCaps ∧ r'.scopedDefs = insertKV loc [] r.scopedDefs := by
  have : visit (.mk .block none loc [e]) = [.push] ++ visit e ++ [.pop .scoped loc] := by
    simp [visit, visitList]
  simp only [this]
  exact wrap_sim (visit e) hc he loc st hw

/-- **block wrapping for expressions** (no side condition left to check): every expression-like tree
(`isExpr`: nothing bound at its own top level — blocks, lambdas, match cases and `if let` open their
own scope; patterns / declarations / parameters are excluded) satisfies the hypotheses of
`block_wrap_resolution`, by structural induction over all trees. -/
theorem block_wrap_expr (e : Node α) (loc : Nat) (he : isExpr e = true) (st : St α) (hw : WF st) :
    let r := run (visit e) st
    let r' := run (visit (.mk .block none loc [e])) st
    r'.locals = r.locals ∧ r'.captured = r.captured ∧ r'.useDef = r.useDef ∧ r'.invalid = r.invalid ∧
    r'.defLocs = r.defLocs ∧ r'.errors = r.errors ∧ r'.unbound = r.unbound ∧
    r'.lambdaCaps = r.lambdaCaps ∧ r'.scopedDefs = insertKV loc [] r.scopedDefs :=
  block_wrap_resolution e loc (closed_visit_expr e he) (endDepth_visit e 0) st hw

example : isExpr sampleBody = true := by decide

/-- non-vacuity: the body of `sampleMember` (a block with a `let`, a capturing lambda, uses) is closed -/
example : closedAt 0 (visit sampleBody) = true ∧ endDepth 0 (visit sampleBody) = 0 := by decide
/-- …whereas a bare pattern is not (it binds at its own level) -/
example : closedAt 0 (visit (.mk .pId (some 2) 7 [] : Node Nat)) = false := by decide

/-- **`iflet_scope_exits_before_else`** (`visit_if_else`, `IfElseCondition::Guard`): the names
bound by an `if let` pattern are in scope exactly in the then-branch — the else part (incl. an
`else if let` continuation) is analysed in the very context that was current after the matched
expression, whatever the pattern and the then-branch bind. -/
theorem iflet_scope_exits_before_else (p g e1 : Node α) (st : St α) (s : Scope α) (rest : List (Scope α))
    (h : (run (visit g) st).locals = s :: rest) (hw : WF (run (visit g) st)) :
    (run (visit g ++ ([.push] ++ (visit p ++ visit e1) ++ [.pop .discard 0])) st).locals = s :: rest := by
  rw [run_append]
  exact (scope_restores (bal_append (visit_bal p 0) (visit_bal e1 0)) .discard 0 _ s rest h hw).1

/-- non-vacuity: `if let p = x { p } else { p }` — the else mention is unresolved, a re-binding in
the else part does not collide -/
example : (run (visit (.mk .ifGuard none 0 [.mk .pId (some 1) 10 [], .mk .seq none 0 [],
      .mk .block none 20 [.mk .var (some 1) 11 []], .mk .block none 21 [.mk .var (some 1) 12 []]])) (init : St Nat)).unbound = [1] := by
  decide
example : (run (visit (.mk .ifGuard none 0 [.mk .pId (some 1) 10 [], .mk .seq none 0 [],
      .mk .block none 20 [.mk .var (some 1) 11 []],
      .mk .block none 21 [.mk .decl none 0 [.mk .pId (some 1) 13 [], .mk .none none 0 [], .mk .seq none 0 []]]])) (init : St Nat)).errors = [] := by
  decide

/-- the model's `if let` has exactly that shape -/
theorem visit_ifGuard_shape (p g e1 e2 : Node α) (loc : Nat) :
    visit (.mk .ifGuard none loc [p, g, e1, e2])
      = (visit g ++ ([.push] ++ (visit p ++ visit e1) ++ [.pop .discard 0])) ++ visit e2 := by
  simp [visit, List.append_assoc]

/-- fault class (seed C13g): popping the if-let scope only after the else part lets the else part see
(and collide with) the pattern's names. -/
theorem delayed_pop_counterexample :
    (run [Ev.push, .define 1 10, .pop .discard 0, .use 1 11 false] (init : St Nat)).errors ≠ [] ∧
    (run [Ev.push, .define 1 10, .use 1 11 false, .pop .discard 0] (init : St Nat)).errors = [] ∧
    (run [Ev.push, .define 1 10, .pop .discard 0, .push, .define 1 12, .pop .discard 0] (init : St Nat)).errors = [] ∧
    (run [Ev.push, .define 1 10, .push, .define 1 12, .pop .discard 0, .pop .discard 0] (init : St Nat)).errors ≠ [] := by
  decide

end SamVerif.Scope

namespace SamVerif.Sig
open SamVerif.Scope (insertKV lookupKV)
variable {α σ : Type} [DecidableEq α]

/-- **`signature_perm_invariant`**: hoisting is independent of the order of the toplevels when
their names are pairwise distinct — every name resolves to the same interface signature. -/
theorem signature_perm_invariant (init : α) (cs : Nat → Nat → σ) {tops tops' : List (Top α σ)}
    (hp : tops.Perm tops') (hnd : (tops.map (·.name)).Nodup) (k : α) :
    lookupKV k (buildModule init cs tops) = lookupKV k (buildModule init cs tops') :=
  lookup_foldl_insert_perm (fun t : Top α σ => t.name) (buildIface init cs) hp hnd [] k

/-- in any order: a name resolves to the signature of the *last* toplevel declaring it -/
theorem signature_last_wins (init : α) (cs : Nat → Nat → σ) (tops : List (Top α σ)) (k : α) :
    lookupKV k (buildModule init cs tops) =
      (tops.reverse.find? (fun t => t.name = k)).map (buildIface init cs) := by
  rw [buildModule, lookup_foldl_insert]
  cases tops.reverse.find? (fun t => t.name = k) <;> simp [lookupKV]

/-- …and therefore with duplicate names the order *does* matter (exactly the case in which the
checker reports a name collision through `ssa_analysis`). -/
theorem signature_dup_order_counterexample :
    ∃ (a b : Top Nat Nat), a.name = b.name ∧
      (lookupKV a.name (buildModule 0 (fun _ _ => 0) [a, b])).map (·.priv) ≠
      (lookupKV a.name (buildModule 0 (fun _ _ => 0) [b, a])).map (·.priv) :=
  ⟨{ name := 1, isClass := true, priv := false, ntparams := 0, nsupers := 0, members := [], tyDef := .none },
   { name := 1, isClass := true, priv := true, ntparams := 0, nsupers := 0, members := [], tyDef := .none },
   rfl, by decide⟩

/-- member loop: the method table is a fold of inserts over the methods -/
theorem methods_eq_fold (c : Bool) (ms : List (MemberD α σ)) (acc : List (α × σ) × List (α × σ)) :
    (ms.foldl (addMember c) acc).2 =
      (ms.filter (·.isMethod)).foldl (fun a m => insertKV m.name m.sig a) acc.2 := by
  induction ms generalizing acc with
  | nil => rfl
  | cons m ms ih =>
    simp only [List.foldl_cons, ih, List.filter_cons, addMember]
    by_cases h : m.isMethod = true <;> by_cases hc : c = true <;> simp [h, hc]

/-- **members may be reordered**: with pairwise distinct member names every method name resolves
to the same signature. -/
theorem methods_perm_invariant (init : α) (cs : Nat → Nat → σ) (t t' : Top α σ)
    (hp : t.members.Perm t'.members) (hnd : (t.members.map (·.name)).Nodup) (k : α) :
    lookupKV k (buildIface init cs t).methods = lookupKV k (buildIface init cs t').methods := by
  simp only [buildIface, methods_eq_fold]
  apply lookup_foldl_insert_perm (·.name) (·.sig) (hp.filter _)
  exact (List.filter_sublist.map _).nodup hnd

end SamVerif.Sig
