import SamVerif.Lemmas.Scope
import SamVerif.Lemmas.ScopeSig
/-!
# C13 — Type inference is stable under meaning-preserving rewrites of the source

Property theorems only.  Modelled and proved here (DESIGN §8 C13):

* consistent renaming — `Model/Scope.lean` is `ssa_analysis.rs` (scope stack, hoisting of toplevel
  names, captures, "name already bound", "cannot resolve name");
* reordering of classes / interfaces / members — `Model/ScopeSig.lean` is
  `build_module_signature` (a fold of `HashMap::insert`s).

Both models are tied to the code on every run by the `ssa` and `sig` correspondence protocols
(`harness/src/bin/c13.rs` vs `Driver/C13.lean`).  The annotation / type-argument / module-splitting
/ block rewrites go through the inference engine; they are exercised by the metamorphic oracle of
`vlib/c13.py` only (claim is *partial*).

`paren_insensitive` lives in `Props/C13b.lean` (it imports C08's parser model).
-/
namespace SamVerif.Scope

variable {α β : Type} [DecidableEq α] [DecidableEq β]

/-- **Alpha invariance of the scope machine** (all event sequences, all start states): running the
renamed events from the renamed state gives the renamed state — same def/use graph, same invalid
definitions, same captures, the same diagnostics up to the renaming. -/
theorem scope_alpha_events (f : α → β) (hf : Function.Injective f) (evs : List (Ev α)) (st : St α) :
    run (evs.map (Ev.map f)) (st.map f) = (run evs st).map f :=
  run_map f hf evs st

/-- **`scope_alpha_invariant`** (full strength, every module — well-scoped or not): the analysis of
a consistently renamed module is the renamed analysis of the module. `f` renames every name
(locals, `this`, type names …); "fresh" = injective. -/
theorem scope_alpha_invariant (f : α → β) (hf : Function.Injective f) (this : α) (m : Module α) :
    analyze (f this) (m.map f) = (analyze this m).map f := by
  simp only [analyze, visitModule_map]
  rw [← init_map f, run_map f hf]

/-- consequences spelled out: the def/use graph, the invalid definitions and the *number* of
diagnostics are unchanged; the module is accepted by scope analysis iff the renamed one is. -/
theorem alpha_same_graph (f : α → β) (hf : Function.Injective f) (this : α) (m : Module α) :
    (analyze (f this) (m.map f)).useDef = (analyze this m).useDef ∧
    (analyze (f this) (m.map f)).invalid = (analyze this m).invalid ∧
    defToUse (analyze (f this) (m.map f)) = defToUse (analyze this m) ∧
    (analyze (f this) (m.map f)).errors.length = (analyze this m).errors.length ∧
    (analyze (f this) (m.map f)).unbound.length = (analyze this m).unbound.length := by
  rw [scope_alpha_invariant f hf]
  simp [St.map, defToUse]

theorem alpha_same_verdict (f : α → β) (hf : Function.Injective f) (this : α) (m : Module α) :
    (analyze (f this) (m.map f)).errors = [] ↔ (analyze this m).errors = [] := by
  rw [scope_alpha_invariant f hf]
  simp [St.map]

/-- Injectivity is necessary: merging two names turns an accepted module into a rejected one
(witness: `(a, b) -> …` renamed with `a, b ↦ a`). -/
theorem alpha_noninjective_counterexample :
    ∃ (f : Nat → Nat) (evs : List (Ev Nat)),
      (run evs init).errors = [] ∧ (run (evs.map (Ev.map f)) init).errors ≠ [] :=
  ⟨fun _ => 0, [.push, .define 1 10, .define 2 11, .pop .discard 0], by decide, by decide⟩

/-- non-vacuity: a module with a parameter, a `let`, a lambda capturing it, and an unbound name -/
def sampleBody : Node Nat :=
  .mk .block none 6 [
    .mk .decl none 0 [.mk .pId (some 2) 7 [], .mk .none none 0 [], .mk .var (some 1) 8 []],
    .mk .lambda none 10 [.mk .param (some 3) 11 [], .mk .seq none 0 [.mk .var (some 3) 12 [], .mk .var (some 2) 13 []]],
    .mk .var (some 9) 16 []]

def sampleMember : Member Nat where
  name := 101
  nameLoc := 3
  loc := 4
  isMethod := false
  tparams := []
  params := [(1, 5, .mk .seq none 0 [])]
  ret := .mk .seq none 0 []
  body := some sampleBody

def sampleTop : Toplevel Nat where
  isClass := true
  name := 100
  nameLoc := 1
  loc := 2
  tparams := []
  supers := []
  typeDef := .none
  members := [sampleMember]

def sample : Module Nat := { imports := [], toplevels := [sampleTop] }

example : (analyze 0 sample).useDef = [(13, 7), (12, 11), (8, 5)] := by decide
example : (analyze 0 sample).lambdaCaps = [(10, [(2, 7)])] := by decide
example : (analyze 0 sample).unbound = [9] := by decide
example : (analyze (0 + 50) (sample.map (· + 50))).unbound = [59] := by decide

end SamVerif.Scope

namespace SamVerif.Sig
open SamVerif.Scope (insertKV lookupKV)
variable {α σ : Type} [DecidableEq α]

/-- **`signature_perm_invariant`**: hoisting is independent of the order of the toplevels when
their names are pairwise distinct — every name resolves to the same interface signature. -/
theorem signature_perm_invariant (init : α) (cs : Nat → Nat → σ) {tops tops' : List (Top α σ)}
    (hp : tops.Perm tops') (hnd : (tops.map (·.name)).Nodup) (k : α) :
    lookupKV k (buildModule init cs tops) = lookupKV k (buildModule init cs tops') :=
  lookup_foldl_insert_perm (fun t : Top α σ => t.name) (buildIface init cs) hp hnd [] k

/-- in any order: a name resolves to the signature of the *last* toplevel declaring it -/
theorem signature_last_wins (init : α) (cs : Nat → Nat → σ) (tops : List (Top α σ)) (k : α) :
    lookupKV k (buildModule init cs tops) =
      (tops.reverse.find? (fun t => t.name = k)).map (buildIface init cs) := by
  rw [buildModule, lookup_foldl_insert]
  cases tops.reverse.find? (fun t => t.name = k) <;> simp [lookupKV]

/-- …and therefore with duplicate names the order *does* matter (exactly the case in which the
checker reports a name collision through `ssa_analysis`). -/
theorem signature_dup_order_counterexample :
    ∃ (a b : Top Nat Nat), a.name = b.name ∧
      (lookupKV a.name (buildModule 0 (fun _ _ => 0) [a, b])).map (·.priv) ≠
      (lookupKV a.name (buildModule 0 (fun _ _ => 0) [b, a])).map (·.priv) :=
  ⟨{ name := 1, isClass := true, priv := false, ntparams := 0, nsupers := 0, members := [], tyDef := .none },
   { name := 1, isClass := true, priv := true, ntparams := 0, nsupers := 0, members := [], tyDef := .none },
   rfl, by decide⟩

/-- member loop: the method table is a fold of inserts over the methods -/
theorem methods_eq_fold (c : Bool) (ms : List (MemberD α σ)) (acc : List (α × σ) × List (α × σ)) :
    (ms.foldl (addMember c) acc).2 =
      (ms.filter (·.isMethod)).foldl (fun a m => insertKV m.name m.sig a) acc.2 := by
  induction ms generalizing acc with
  | nil => rfl
  | cons m ms ih =>
    simp only [List.foldl_cons, ih, List.filter_cons, addMember]
    by_cases h : m.isMethod = true <;> by_cases hc : c = true <;> simp [h, hc]

/-- **members may be reordered**: with pairwise distinct member names every method name resolves
to the same signature. -/
theorem methods_perm_invariant (init : α) (cs : Nat → Nat → σ) (t t' : Top α σ)
    (hp : t.members.Perm t'.members) (hnd : (t.members.map (·.name)).Nodup) (k : α) :
    lookupKV k (buildIface init cs t).methods = lookupKV k (buildIface init cs t').methods := by
  simp only [buildIface, methods_eq_fold]
  apply lookup_foldl_insert_perm (·.name) (·.sig) (hp.filter _)
  exact (List.filter_sublist.map _).nodup hnd

end SamVerif.Sig
